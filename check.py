#!/venv/bin/python
"""check.py <Cxx> [--tier quick|thorough] [--replay file]

Decides one property: GEN (translators on /repo's working tree) -> BUILD (lake build of the property's
theorems + axiom audit) -> CORR/CERT (model vs implementation) -> ORACLE (the property itself on the
real code; failing-input search) -> verdict + evidence/<id>.json.
exit 0: held on everything explored; exit 1 + `VIOLATION property=<id> replay=<path>`; exit 2: could not run."""
import argparse, importlib, json, os, sys, traceback

sys.path.insert(0, os.path.dirname(os.path.abspath(__file__)))
sys.path.insert(0, os.path.join(os.path.dirname(os.path.abspath(__file__)), 'gen'))
os.environ.setdefault('KYUPY_VERIF', '1')
if os.environ.get('KYUPY_REPO'):   # development aid: run against another checkout of kyupy (default: /repo, editable install)
    sys.path.insert(0, os.path.join(os.environ['KYUPY_REPO'], 'src'))


def main():
    ap = argparse.ArgumentParser()
    ap.add_argument('pid')
    ap.add_argument('--tier', default=os.environ.get('VERIF_TIER', 'quick'), choices=['quick', 'thorough'])
    ap.add_argument('--replay', default=None)
    a = ap.parse_args()
    seed = int(os.environ.get('VERIF_SEED', '0') or 0)
    from harness import common
    mod = importlib.import_module(f'harness.{a.pid.lower()}')
    if a.replay:
        rep = json.load(open(a.replay))
        return mod.replay(rep)
    ck = common.Check(a.pid, a.tier, seed)
    try:
        rc = mod.run(ck)
    except Exception:
        traceback.print_exc()
        print(f'[{a.pid}] harness error (exit 2)')
        return 2
    return rc


if __name__ == '__main__':
    sys.exit(main())
