#!/venv/bin/python
"""check.py <Cxx> [--tier quick|thorough] [--replay file]

Decides one property: GEN (translators on /repo's working tree) -> BUILD (lake build of the property's
theorems + axiom audit) -> CORR/CERT (model vs implementation) -> ORACLE (the property itself on the
real code; failing-input search) -> verdict + evidence/<id>.json.
exit 0: held on everything explored; exit 1 + `VIOLATION property=<id> replay=<path>`; exit 2: could not run."""
import argparse, importlib, json, os, sys, traceback

sys.path.insert(0, os.path.dirname(os.path.abspath(__file__)))
sys.path.insert(0, os.path.join(os.path.dirname(os.path.abspath(__file__)), 'gen'))
os.environ.setdefault('KYUPY_VERIF', '1')
if os.environ.get('KYUPY_REPO'):   # development aid: run against another checkout of kyupy (default: /repo, editable install)
    sys.path.insert(0, os.path.join(os.environ['KYUPY_REPO'], 'src'))


def asthash(path):
    """hash of a Python source file that ignores comments, blank lines and layout"""
    import ast, hashlib
    try:
        return hashlib.sha256(ast.dump(ast.parse(open(path).read())).encode()).hexdigest()[:16]
    except Exception as ex:
        return 'unparsable:' + type(ex).__name__


def drifted(pid):
    """files this property is anchored in (properties.jsonl) whose AST differs from the record tools/anchors.json"""
    here = os.path.dirname(os.path.abspath(__file__))
    try:
        base = json.load(open(os.path.join(here, 'tools', 'anchors.json')))
        files = next(json.loads(l)['anchors']['files'] for l in open(os.path.join(here, 'properties.jsonl')) if json.loads(l)['id'] == pid)
    except Exception:
        return []
    repo = os.environ.get('KYUPY_REPO') or '/repo'
    return [f for f in sorted(set(files) | {'src/kyupy/__init__.py'}) if asthash(os.path.join(repo, f)) != base.get(f)]


def main():
    ap = argparse.ArgumentParser()
    ap.add_argument('pid')
    ap.add_argument('--tier', default=os.environ.get('VERIF_TIER', 'quick'), choices=['quick', 'thorough'])
    ap.add_argument('--replay', default=None)
    a = ap.parse_args()
    seed = int(os.environ.get('VERIF_SEED', '0') or 0)
    from harness import common
    mod = importlib.import_module(f'harness.{a.pid.lower()}')
    if a.replay:
        rep = json.load(open(a.replay))
        return mod.replay(rep)
    ck = common.Check(a.pid, a.tier, seed)
    try:
        rc = mod.run(ck)
        drift = drifted(a.pid) if rc == 0 and a.tier == 'quick' and not os.environ.get('VERIF_NO_DRIFT') else []
        if drift:
            # the implementation of this property differs from the recorded tree and the run found nothing: look again with
            # other seeds before reporting that the property held (never a violation by itself)
            for extra in (1, 2, 3):
                print(f'[{a.pid}] source drift in {", ".join(drift)}: additional run {extra}/3 with another seed')
                rc = mod.run(common.Check(a.pid, a.tier, seed + 7919 * extra))
                if rc != 0: break
    except Exception:
        traceback.print_exc()
        print(f'[{a.pid}] harness error (exit 2)')
        return 2
    return rc


if __name__ == '__main__':
    sys.exit(main())
