#!/usr/bin/env python3
"""Writes /verif/MANIFEST.json from the table below (kept in one place so that it stays valid)."""
import json, os, subprocess
V = os.path.dirname(os.path.dirname(os.path.abspath(__file__)))
BASE = 'cd /repo && /venv/bin/python -m pytest -ra -q -p no:cacheprovider --timeout=900 --continue-on-collection-errors'

CLAIMED = {
    'C12': dict(
        technique='Lean 4 theorems over definitions regenerated from the code by symbolic execution (decide +kernel over complete tables), lane-wise homomorphism lemmas; direct oracle on the real functions',
        text='Kernel-checked theorems: for k=1..4 and all 8^k (4^k) operand tuples the expressions recorded from the real bp8v_*/bp4v_* and the complete tables of the real _mv_*/mv_* equal the documented algebra; the storage formats agree; 0/1 restriction for operand lists of any length; De Morgan on all eight values; lane-wise for every lane count. Definitions are regenerated from the working tree on every run. Array shapes, broadcasting and out= are exercised by a differential oracle.',
        note='Trusted: Lean kernel (axioms propext, Classical.choice, Quot.sound only), the symbolic-execution translator (self-checked exhaustively each run), the hand-written spec algebra; NumPy broadcasting is exercised, not modelled.',
        ref='5 C12'),
}
TITLES = {}
for line in open(os.path.join(V, 'properties.jsonl')):
    p = json.loads(line); TITLES[p['id']] = p['title']

checks = []
for pid in sorted(CLAIMED):
    c = CLAIMED[pid]
    checks.append({
        'property_id': pid,
        'quick_cmd': f'/venv/bin/python check.py {pid} --tier quick',
        'thorough_cmd': f'/venv/bin/python check.py {pid} --tier thorough',
        'evidence_file': f'evidence/{pid}.json',
        'replay_cmd_template': f'/venv/bin/python check.py {pid} --replay {{path}}',
        'engine': 'lean4-proof',
        'level_claimed': {'category': 'proof', 'text': c['text'], 'design_ref': 'DESIGN.md section ' + c['ref']},
        'level_note': c['note'],
        'technique': c['technique'],
    })
na = [{'property_id': pid, 'reason': 'check not built yet in this round (planned at level proof, see DESIGN.md section 5); not claimed until it runs'}
      for pid in sorted(TITLES) if pid not in CLAIMED]
m = {
    'version': 1,
    'setup_cmd': '/venv/bin/python setup_verif.py',
    'hooks': {'guard': 'KYUPY_VERIF', 'enable': 'no source hooks: checks import kyupy from /repo/src (editable install) and observe through public attributes',
              'baseline_off_cmd': BASE, 'source_commits': [], 'add_only': True},
    'engines': [{'name': 'lean4-proof', 'path': 'lean/', 'serves_properties': sorted(CLAIMED),
                 'kind_free_text': 'Lean 4.33 lake project KyupyVerif: generated definitions (Gen/), hand models (Model/), proofs (Proofs/), property theorems (Props/), compiled line-protocol driver; check.py orchestrates translator, build, axiom audit, correspondence and oracle'}],
    'checks': checks,
    'notes': 'known_findings.json lists fixed defects and recorded findings. All random choices derive from VERIF_SEED.',
    'not_applicable': na,
}
json.dump(m, open(os.path.join(V, 'MANIFEST.json'), 'w'), indent=1)
print('claimed', sorted(CLAIMED), 'unclaimed', len(na))
