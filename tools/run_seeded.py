#!/venv/bin/python
"""Confirm a seeded change and run checks against it.

usage: run_seeded.py <src_dir with patch.diff demo.py meta.json> <seed id> [--checks C01,C06] [--no-confirm]
1. confirmation in a scratch worktree of /repo: patch applies, existing test suite passes with it, demo passes without and
   fails with the change;
2. apply to /repo itself, run the quick command of the named checks (default: the property of meta.json), undo;
3. store everything as /verif/seeded/<id>/ (patch.diff, demo.py, meta.json with what was run and which checks fired).
"""
import json, os, shutil, subprocess, sys, time

V = os.path.dirname(os.path.dirname(os.path.abspath(__file__)))
REPO = '/repo'


def sh(cmd, cwd=None, env=None, timeout=3600):
    p = subprocess.run(cmd, shell=True, cwd=cwd, env=env, capture_output=True, text=True, timeout=timeout)
    return p.returncode, (p.stdout + p.stderr)


def main():
    src, sid = sys.argv[1], sys.argv[2]
    checks = None; confirm = True; use_wt = False
    for a in sys.argv[3:]:
        if a.startswith('--checks'): checks = a.split('=')[1].split(',') if '=' in a else None
        if a == '--no-confirm': confirm = False
        if a == '--wt': use_wt = True      # run the checks against a scratch worktree (KYUPY_REPO) instead of patching /repo itself
    meta = json.load(open(os.path.join(src, 'meta.json')))
    if 'author_ran' in meta: meta['ran'] = meta['author_ran']
    prop = meta.get('property')
    checks = checks or [prop]
    patch = os.path.abspath(os.path.join(src, 'patch.diff'))
    demo = os.path.abspath(os.path.join(src, 'demo.py'))
    out = {'property': prop, 'summary': meta.get('summary'), 'needs': meta.get('needs'), 'author_ran': meta.get('ran'), 'confirmed': {}, 'checks': {}}
    if confirm:
        wt = f'/tmp/seedwt_{sid}'
        sh(f'git -C {REPO} worktree remove --force {wt}')
        rc, o = sh(f'git -C {REPO} worktree add -q --detach {wt} HEAD')
        assert rc == 0, o
        try:
            env = dict(os.environ, PYTHONPATH=f'{wt}/src')
            rc0, o0 = sh(f'/venv/bin/python {demo}', cwd=wt, env=env, timeout=900)
            rc, o = sh(f'git -C {wt} apply {patch}')
            out['confirmed']['applies'] = rc == 0
            rc1, o1 = sh(f'/venv/bin/python {demo}', cwd=wt, env=env, timeout=900)
            rct, ot = sh('/venv/bin/python -m pytest -q -p no:cacheprovider -x', cwd=wt, env=env, timeout=1800)
            out['confirmed'].update({'demo_without_change_rc': rc0, 'demo_with_change_rc': rc1, 'demo_with_change_tail': o1[-400:],
                                     'test_suite_with_change': ot.strip().splitlines()[-1] if ot.strip() else '', 'test_suite_rc': rct})
        finally:
            sh(f'git -C {REPO} worktree remove --force {wt}')
        ok = out['confirmed'].get('applies') and rc0 == 0 and rc1 != 0 and rct == 0
        out['confirmed']['ok'] = bool(ok)
        print('confirmed' if ok else 'NOT CONFIRMED', json.dumps(out['confirmed'])[:600])
    # run checks against the change applied to /repo (or to a scratch worktree with --wt)
    env = dict(os.environ, VERIF_EVIDENCE_DIR=os.path.join(V, 'work', 'seeded-evidence'))   # never overwrite the evidence of the clean tree
    if use_wt:
        wt2 = f'/tmp/seedrun_{sid}'
        sh(f'git -C {REPO} worktree remove --force {wt2}')
        rc, o = sh(f'git -C {REPO} worktree add -q --detach {wt2} HEAD'); assert rc == 0, o
        rc, o = sh(f'git -C {wt2} apply {patch}'); assert rc == 0, o
        env['KYUPY_REPO'] = wt2
        out['ran_against'] = 'scratch worktree of /repo HEAD with the patch applied (KYUPY_REPO)'
    else:
        rc, o = sh(f'git -C {REPO} status --porcelain')
        assert o.strip() == '', '/repo is not clean'
        rc, o = sh(f'git -C {REPO} apply {patch}')
        assert rc == 0, o
        out['ran_against'] = '/repo with the patch applied, reverted afterwards'
    try:
        for c in checks:
            t0 = time.time()
            rc, o = sh(f'/venv/bin/python check.py {c} --tier quick', cwd=V, env=env, timeout=3600)
            lines = [l for l in o.splitlines() if l.startswith('VIOLATION') or l.startswith('KNOWN-FINDING') or l.startswith('[' + c)]
            rep = None
            for l in lines:
                if l.startswith('VIOLATION') and 'replay=' in l:
                    path = l.split('replay=')[1].split()[0]
                    try:
                        r = json.load(open(path)); rep = {k: r.get(k) for k in ('kind', 'class', 'what', 'observed', 'expected')}
                        if r.get('kind') == 'broken-obligation': rep['broken'] = [b['name'] for b in r.get('broken', [])][:6]
                    except Exception: pass
                    break
            out['checks'][c] = {'rc': rc, 'lines': lines[:6], 'first_replay': rep, 'wall_s': round(time.time() - t0, 1),
                                'no_failing_input_found': any('no-failing-input-found' in l for l in lines)}
            print(c, 'rc', rc, lines[-1] if lines else o[-300:])
    finally:
        if use_wt:
            sh(f'git -C {REPO} worktree remove --force {wt2}')
        else:
            sh(f'git -C {REPO} checkout -- .')
            rc, o = sh(f'git -C {REPO} status --porcelain'); assert o.strip() == '', o
    # restore evidence of the clean tree later (caller re-runs checks); store
    dst = os.path.join(V, 'seeded', sid)
    os.makedirs(dst, exist_ok=True)
    prev = None; keep = ('note', 'breaks_on_current_tree', 'strengthening')
    try: prev = json.load(open(os.path.join(dst, 'meta.json')))
    except Exception: pass
    if prev:
        if not out['confirmed']: out['confirmed'] = prev.get('confirmed', {})
        hist = prev.get('history', [])
        hist.append({'caught_by': prev.get('caught_by'), 'checks': {c: {'rc': r['rc'], 'no_failing_input_found': r.get('no_failing_input_found')} for c, r in prev.get('checks', {}).items()}})
        out['history'] = hist
        for k in keep:
            if k in prev and k not in out: out[k] = prev[k]
    for a, b in ((patch, os.path.join(dst, 'patch.diff')), (demo, os.path.join(dst, 'demo.py'))):
        if os.path.abspath(a) != os.path.abspath(b): shutil.copy(a, b)
    out['caught_by'] = [c for c, r in out['checks'].items() if r['rc'] == 1]
    json.dump(out, open(os.path.join(dst, 'meta.json'), 'w'), indent=1)
    print('stored', dst, 'caught_by', out['caught_by'])


if __name__ == '__main__':
    main()
