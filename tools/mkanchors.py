#!/venv/bin/python
"""Record the AST hashes of kyupy's source files at /repo's current state (tools/anchors.json).
check.py compares the working tree with this record: when a file a property is anchored in has drifted, a passing quick
run is repeated with three more seeds (a changed implementation deserves a deeper look; on the recorded tree nothing changes).
Re-run after every legitimate change of /repo (fix: commits)."""
import ast, glob, hashlib, json, os, sys
sys.path.insert(0, os.path.dirname(os.path.dirname(os.path.abspath(__file__))))
from check import asthash
repo = os.environ.get('KYUPY_REPO') or '/repo'
out = {os.path.relpath(f, repo): asthash(f) for f in sorted(glob.glob(os.path.join(repo, 'src', 'kyupy', '*.py')))}
json.dump(out, open(os.path.join(os.path.dirname(os.path.abspath(__file__)), 'anchors.json'), 'w'), indent=1)
print(len(out), 'files recorded')
