#!/venv/bin/python
"""False-alarm test: apply a behaviour-preserving refactoring of kyupy in a scratch worktree and run every quick check
against it (KYUPY_REPO). Every check must exit 0 without a VIOLATION line.
usage: run_refactor.py <dir with patch.diff [meta.json]> <id>   -> stores /verif/seeded/refactorings/<id>/{patch.diff,meta.json}"""
import json, os, shutil, subprocess, sys, time
V = os.path.dirname(os.path.dirname(os.path.abspath(__file__)))


def sh(cmd, cwd=None, env=None, timeout=7200):
    p = subprocess.run(cmd, shell=True, cwd=cwd, env=env, capture_output=True, text=True, timeout=timeout)
    return p.returncode, p.stdout + p.stderr


def main():
    src, rid = sys.argv[1], sys.argv[2]
    patch = os.path.abspath(os.path.join(src, 'patch.diff'))
    meta = {}
    try: meta = json.load(open(os.path.join(src, 'meta.json')))
    except Exception: pass
    wt = f'/tmp/refwt_{rid}'
    sh(f'git -C /repo worktree remove --force {wt}')
    rc, o = sh(f'git -C /repo worktree add -q --detach {wt} HEAD'); assert rc == 0, o
    out = {'summary': meta.get('summary'), 'files': meta.get('files'), 'checks': {}}
    try:
        rc, o = sh(f'git -C {wt} apply {patch}')
        out['applies'] = rc == 0
        if rc != 0:
            print('patch does not apply', o[:300]); return
        rct, ot = sh('/venv/bin/python -m pytest -q -p no:cacheprovider -x', cwd=wt, env=dict(os.environ, PYTHONPATH=f'{wt}/src'), timeout=1800)
        out['test_suite'] = ot.strip().splitlines()[-1] if ot.strip() else ''
        env = dict(os.environ, KYUPY_REPO=wt, VERIF_EVIDENCE_DIR=os.path.join(V, 'work', 'seeded-evidence'))
        procs = {}
        for k in range(1, 21):
            c = f'C{k:02d}'
            procs[c] = subprocess.Popen(f'/venv/bin/python check.py {c} --tier quick', shell=True, cwd=V, env=env,
                                        stdout=subprocess.PIPE, stderr=subprocess.STDOUT, text=True)
        for c, p in procs.items():
            o = p.communicate(timeout=7200)[0]
            lines = [l for l in o.splitlines() if l.startswith('VIOLATION') or l.startswith('[' + c)]
            out['checks'][c] = {'rc': p.returncode, 'lines': lines[-4:]}
        out['alarms'] = [c for c, r in out['checks'].items() if r['rc'] != 0]
    finally:
        sh(f'git -C /repo worktree remove --force {wt}')
    dst = os.path.join(V, 'seeded', 'refactorings', rid)
    os.makedirs(dst, exist_ok=True)
    if os.path.abspath(patch) != os.path.abspath(os.path.join(dst, 'patch.diff')): shutil.copy(patch, os.path.join(dst, 'patch.diff'))
    try:
        prev = json.load(open(os.path.join(dst, 'meta.json')))
        out['history'] = prev.get('history', []) + [{'alarms': prev.get('alarms'), 'test_suite': prev.get('test_suite')}]
        for k in ('summary', 'files'):
            if not out.get(k): out[k] = prev.get(k)
    except Exception: pass
    json.dump(out, open(os.path.join(dst, 'meta.json'), 'w'), indent=1)
    print(rid, 'tests:', out.get('test_suite'), 'alarms:', out.get('alarms'))


if __name__ == '__main__':
    main()
