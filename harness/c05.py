"""C05 — 8-valued logic simulation conservatively predicts timing simulation."""
import json, pickle, base64, random
import numpy as np
from . import common, circ, wavecorr as wc
import extract_ops

PID = 'C05'
TARGETS = ['KyupyVerif.Props.C05']
RULE = ('random circuits x random delays >= 0 (polarity dependent) x stimuli over {0,1,R,F} with random transition times x option settings of both '
        'simulators ({strip_forks} x {c_reuse} for each, CPU / mock-GPU, capacities 4..16): oracle compares WaveSim s[3]/s[6] with the initial/final '
        'components of LogicSim(m=8) at every port / state element, and requires s[4]=TMAX, s[5]=TMIN wherever the 8-valued result is a plain 0/1; '
        'the activity bit is compared (not masked). distinct = (circuit, config, stimulus seed); non-trivial = at least one R/F input and >= 4 lines')


def theorems():
    return common.theorems_of('KyupyVerif/Props/C05.lean', 'KV.C05')


def make_case(rng, thorough=False):
    c = circ.rand_circuit(rng, n_gates=rng.randint(1, 20 if not thorough else 60))
    return {'circuit': base64.b64encode(pickle.dumps(c)).decode(), 'dseed': rng.randint(0, 2**31 - 1), 'sseed': rng.randint(0, 2**31 - 1),
            'sims': rng.choice([1, 3, 5, 9]), 'caps': rng.choice([4, 8, 16]),
            'wstrip': rng.random() < 0.3, 'wreuse': rng.random() < 0.4, 'cuda': rng.random() < 0.25,
            'lstrip': rng.random() < 0.3, 'lreuse': rng.random() < 0.4}


def eval_case(case):
    from kyupy import logic
    from kyupy.logic_sim import LogicSim
    TMIN, TMAX, TOVL = wc.consts()
    c = pickle.loads(base64.b64decode(case['circuit']))
    drng = random.Random(case['dseed']); srng = random.Random(case['sseed'])
    delays = wc.rand_delays(drng, len(c.lines))
    if case['wstrip']:   # the property compares with zero delay on fork inputs only implicitly; keep all delays, both sims agree on values
        pass
    ws = wc.make_sim(c, delays, case['sims'], c_caps=case['caps'], strip=case['wstrip'], reuse=case['wreuse'], cuda=case['cuda'])
    i, t, f = wc.rand_stim(srng, ws.s_len, case['sims'])
    wc.assign(ws, i, t, f)
    with common.quiet():
        ws.c_prop(); ws.c_to_s()
    S = np.array(ws.s)
    # 8-valued stimulus: bit0 final, bit1 initial, bit2 activity
    mv = (f.astype(np.uint8) | (i.astype(np.uint8) << 1) | ((i != f).astype(np.uint8) << 2))
    with common.quiet():
        ls = LogicSim(c, case['sims'], m=8, c_reuse=case['lreuse'], strip_forks=case['lstrip'])
    ls.s[0] = logic.mv_to_bp(mv); ls.s_to_c(); ls.c_prop(); ls.c_to_s()
    r8 = logic.bp_to_mv(ls.s[1])[:, :case['sims']]
    for j in range(ws.s_len):
        if int(ws.c_locs[ws.ppo_offset + j]) < 0: continue
        for s in range(case['sims']):
            v = int(r8[j, s])
            if v in (1, 2): return False, {'s_node': j, 'lane': s, 'logic8': v}, {'logic8': 'a waveform value'}
            if int(S[3, j, s]) != ((v >> 1) & 1): return False, {'s_node': j, 'lane': s, 's3_initial': int(S[3, j, s]), 'logic8': v}, {'initial': (v >> 1) & 1}
            if int(S[6, j, s]) != (v & 1): return False, {'s_node': j, 'lane': s, 's6_final': int(S[6, j, s]), 'logic8': v}, {'final': v & 1}
            if v in (0, 3) and (float(S[4, j, s]) != TMAX or float(S[5, j, s]) != TMIN):
                return False, {'s_node': j, 'lane': s, 'logic8': v, 'eat': float(S[4, j, s]), 'lst': float(S[5, j, s])}, {'eat': 'TMAX', 'lst': 'TMIN'}
    return True, None, None


def oracle(ck, n, thorough=False):
    for it in range(n):
        cs = make_case(ck.rng, thorough)
        try:
            ok, obs, exp = eval_case(cs)
        except Exception as ex:
            ok, obs, exp = False, {'raised': f'{type(ex).__name__}: {ex}'[:300]}, None
        hyp_tag = common.allcirc_hyp(ck, pickle.loads(base64.b64decode(cs['circuit'])), sorted({cs['wstrip'], cs['lstrip']}), 'C05')
        ck.case(key=(cs['circuit'][:80], cs['dseed'], cs['sseed'], cs['wstrip'], cs['wreuse'], cs['lstrip'], cs['lreuse'], cs['cuda']),
                sample={k: v for k, v in cs.items() if k != 'circuit'},
                tag=[f"wstrip:{cs['wstrip']}", f"wreuse:{cs['wreuse']}", f"lstrip:{cs['lstrip']}", f"lreuse:{cs['lreuse']}", f"cuda:{cs['cuda']}", f"caps:{cs['caps']}", hyp_tag])
        if not ok:
            ck.violation('logic8-vs-wave', '8-valued logic simulation does not predict the timing simulation', cs, obs, exp)


def run(ck):
    ck.prove([extract_ops.generate], TARGETS, theorems())
    n = 80 if ck.tier == 'quick' else 1200
    oracle(ck, n, ck.tier == 'thorough')
    if ck.broken and not ck.violations: oracle(ck, n * 5, ck.tier == 'thorough')
    ck.assumptions += ['waveform model tied to wave_eval_cpu by the correspondence of C03; 8-valued dispatch regenerated from the code',
                       'stimuli over {0,1,R,F} as the property states; X/- are outside',
                       'the all-circuits theorems (sim8_predicts_all_circuits, ..._stripped) speak about the rows of the Lean SimOps model; their hypotheses wfB/orderOKB/forksOKB are evaluated by the driver on every real circuit and order (tag allcirc-hyp)']
    return ck.finish(RULE)


def replay(rep):
    ok, obs, exp = eval_case(rep['input'])
    print(json.dumps({'ok': ok, 'observed': obs, 'expected': exp}, default=str))
    return 0 if ok else 1
