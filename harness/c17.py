"""C17 — graph traversals and name lookups are complete and correctly ordered.

generator  : (a) circ.rand_circuit (Verilog/bench style netlists with unconnected pins, flip-flops, latches, dangling
             outputs), partly with lines removed afterwards; (b) random graphs built directly through Node/Line: node
             indices in random order relative to the hidden topological order, cells driving cells without fork,
             multi-output cells with pin gaps, parallel lines, pins left unconnected in the middle of the pin list, cells
             with no connected pin at all, isolated nodes, state elements of several kinds reading from anywhere (sequential
             loops, self loops, dff->dff), purely combinational circuits; random origin sets (ports, gates, forks, state
             elements, duplicates). (c) random port / register name lists: bracket and underscore styles (p[i], p_i, p_i_),
             gaps, 0-3 dimensions, several stems, leading zeros, shuffled, prefix collisions (data1[0]/data10[0],
             data/data[0], prefixes cutting a stem or a number), lookups through io_locs and s_locs.
oracle     : the property statements evaluated directly on what the real generators / lookups return, against independent
             Python computations (longest path by memoised recursion, backward reachability, name keys by scanning the
             name from the right - no regular expression).
correspond.: the Lean models (Model/Kahn.lean, Model/Traverse.lean, Model/Locs.lean through the compiled driver) must give
             the exact sequences / levels / nested lists of the real code; `GA.wfB` must accept every exported circuit.
"""
import itertools, json
from . import common, circ

PID = 'C17'
TARGETS = ['KyupyVerif.Props.C17']
RULE = ('random circuits (2-45 nodes; rand_circuit netlists and direct random graphs with shuffled node indices, unconnected '
        'pins, pin gaps, multi-output cells, parallel lines, removed lines, dff/latch kinds in loops) x {topological_order, '
        '_with_level, _line_order, reversed_topological_order, fanin over 3 random origin sets}; random name lists (1-4 stems, '
        '0-3 dimensions, styles [i] _i _i_, gaps, shuffled, leading zeros, colliding stems) x prefixes (stem, cut stem, stem+digit, '
        'empty, foreign) x {io_locs, s_locs}. distinct = (circuit dump, origin set) resp. (name list, prefix, lookup); '
        'non-trivial = at least 6 nodes and 5 lines resp. at least 2 matching names')


def theorems():
    return common.theorems_of('KyupyVerif/Props/C17.lean', 'KV.C17')


def pct(s):
    return ''.join(ch if (ch.isalnum() and ch.isascii()) or ch == '_' else '%%%02x' % ord(ch) for ch in s) or '%'


def is_seq(kind):
    return 'dff' in kind.lower() or 'latch' in kind.lower()


# ------------------------------------------------------------------------------------------------ circuits <-> cases
def to_case(c):
    return {'kind': 'graph',
            'nodes': [[n.name, n.kind] for n in c.nodes],
            'lines': [[l.driver.index, l.driver_pin, l.reader.index, l.reader_pin] for l in c.lines],
            'io': [n.index for n in c.io_nodes],
            'pins': [[len(n.ins), len(n.outs)] for n in c.nodes]}     # pin lists may end in unconnected (None) pins


def build(case):
    from kyupy.circuit import Circuit, Node, Line
    c = Circuit('c17')
    nodes = [Node(c, name, kind) for name, kind in case['nodes']]
    for d, dp, r, rp in case['lines']:
        Line(c, (nodes[d], dp), (nodes[r], rp))
    for i in case['io']:
        c.io_nodes.append(nodes[i])
    for nd, (ni, no) in zip(nodes, case.get('pins', [])):
        if nd.kind == '__fork__': continue                # fork outputs are squeezed by Line.remove
        while len(nd.ins) < ni: nd.ins.append(None)
        while len(nd.outs) < no: nd.outs.append(None)
    return c


SEQ_KINDS = ['DFF', 'dff', 'SDFFX1', 'sdffarx1', 'DFFR_X1', 'LATCH', 'latch', 'DLATCHX1', 'LATCHX2']
GATE_KINDS = ['AND2', 'nand', 'OR3', 'xor', 'NOT1', 'buf', 'MUX21', 'AO22', 'input', 'output', '__const0__', 'TIEH', 'FADDX1']


def rand_graph(rng, n=None, p_seq=None, p_unconn=0.15):
    """random circuit built directly: node index order is unrelated to the hidden topological order"""
    from kyupy.circuit import Circuit, Node, Line
    n = n or rng.randint(2, 28)
    p_seq = rng.choice([0.0, 0.0, 0.1, 0.2, 0.35]) if p_seq is None else p_seq
    c = Circuit('g')
    nodes = []
    for i in range(n):
        r = rng.random()
        if r < p_seq: kind = rng.choice(SEQ_KINDS)
        elif r < p_seq + 0.3: kind = '__fork__'
        else: kind = rng.choice(GATE_KINDS)
        nodes.append(Node(c, f'n{i}', kind))
    perm = list(range(n)); rng.shuffle(perm)          # hidden topological order
    pos = {v: k for k, v in enumerate(perm)}
    seqs = [v for v in range(n) if is_seq(nodes[v].kind)]
    for v in range(n):
        node = nodes[v]
        if is_seq(node.kind):
            npins, cand = rng.choice([0, 1, 1, 2, 3]), list(range(n))          # reads from anywhere (loops, itself)
        elif node.kind == '__fork__':
            npins, cand = rng.choice([0, 1, 1, 1]), perm[:pos[v]] + seqs
        else:
            npins, cand = rng.choice([0, 1, 2, 2, 3, 4]), perm[:pos[v]] + seqs
        for pin in range(npins):
            if not cand or rng.random() < p_unconn: continue                  # pin stays unconnected
            d = nodes[rng.choice(cand)] if rng.random() < 0.8 else nodes[cand[-1]]
            if d.kind == '__fork__' or rng.random() < 0.7:
                dp = d.outs.free_index()
            else:
                dp = len(d.outs) + rng.choice([0, 1])                          # gap in the output pin list
            Line(c, (d, dp), (node, pin))
    for v in rng.sample(range(n), rng.randint(0, min(n, 5))):
        c.io_nodes.append(nodes[v])
    return c


def gen_graph_case(rng):
    r = rng.random()
    if r < 0.45:
        c = circ.rand_circuit(rng, p_unconn=rng.choice([0.0, 0.1, 0.3]))
        src = 'netlist'
        if rng.random() < 0.3 and len(c.lines) > 3:                            # unconnect some pins afterwards
            for _ in range(rng.randint(1, 3)):
                cand = [l for l in c.lines if l.driver.kind != '__fork__']
                if cand: rng.choice(cand).remove()
            src = 'netlist-lines-removed'
    else:
        c = rand_graph(rng)
        src = 'graph'
    case = to_case(c)
    n = len(case['nodes'])
    origins = []
    for _ in range(3):
        k = rng.choice([1, 1, 2, 3])
        o = [rng.randrange(n) for _ in range(k)]
        if rng.random() < 0.3:
            sq = [i for i, (_, kd) in enumerate(case['nodes']) if is_seq(kd)]
            if sq: o[0] = rng.choice(sq)
        origins.append(o)
    case['origins'] = origins
    case['src'] = src
    return case


# ------------------------------------------------------------------------------------------------ graph view of a circuit
def graph_of(c):
    succs = [[l.reader.index for l in n.outs if l is not None] for n in c.nodes]
    preds = [[l.driver.index for l in n.ins if l is not None] for n in c.nodes]
    seq = [is_seq(n.kind) for n in c.nodes]
    outl = [[l.index for l in n.outs if l is not None] for n in c.nodes]
    return succs, preds, seq, outl


def enc_lists(ls):
    return '=' + '|'.join(','.join(map(str, l)) for l in ls)


def driver_lines(c, origins, fanin_mode):
    succs, preds, seq, outl = graph_of(c)
    head = f"={''.join('1' if s else '0' for s in seq)} {enc_lists(succs)} {enc_lists(preds)}"
    n = len(seq)
    src = [seq[v] or not preds[v] for v in range(n)]
    snk = [seq[v] or not succs[v] for v in range(n)]
    fr, rr = {}, {}

    def frank(v):
        if v not in fr: fr[v] = 0 if src[v] else 1 + max(frank(p) for p in preds[v])
        return fr[v]

    def rrank(v):
        if v not in rr: rr[v] = 0 if snk[v] else 1 + max(rrank(r) for r in succs[v])
        return rr[v]
    ranks = f"={','.join(str(frank(v)) for v in range(n))};{','.join(str(rrank(v)) for v in range(n))}"
    req = [f'trav wf {head}', f'trav ranks {head} {ranks}', f'trav linetab {head} {enc_lists(outl)};{len(c.lines)}', f'trav topo {head}', f'trav levels {head}', f'trav lines {head} {enc_lists(outl)}', f'trav rev {head}']
    for o in origins:
        req.append(f"trav fanin{fanin_mode} {head} ={','.join(map(str, o))}")
    return req


def show(l):
    return ','.join(map(str, l)) if len(l) else '~'


def real_answers(c, origins):
    """what the real generators yield, in the driver's answer format; exceptions as 'raise:<type>'"""
    def guard(f):
        try:
            return f()
        except Exception as ex:
            return f'raise:{type(ex).__name__}'
    res = ['1', '11', '1']
    if (len(c.nodes) + len(c.lines)) % 5 < 2:
        # traversals of one circuit may be IN PROGRESS AT THE SAME TIME (two iterators in lock-step, a fan-in query inside a
        # loop over the levels): each must yield what it yields alone
        def interleaved(make):
            a, b, out = iter(make()), iter(c.reversed_topological_order()), []
            for x in a:
                out.append(x)
                next(b, None)
                if len(out) % 3 == 1 and len(c.nodes):
                    for _ in c.fanin([c.nodes[len(out) % len(c.nodes)]]): break
            return out
    else:
        def interleaved(make): return list(make())
    res.append(guard(lambda: show([n.index for n in interleaved(c.topological_order)])))
    res.append(guard(lambda: show([f'{n.index}:{int(l)}' for n, l in interleaved(c.topological_order_with_level)])))
    res.append(guard(lambda: show([l.index for l in interleaved(c.topological_line_order)])))
    res.append(guard(lambda: show([n.index for n in c.reversed_topological_order()])))
    for o in origins:
        res.append(guard(lambda: show([n.index for n in c.fanin([c.nodes[i] for i in o])])))
    return res


# ------------------------------------------------------------------------------------------------ oracle (graphs)
def oracle_graph(c, origins):
    """returns list of (cls, what, observed, expected) for every violated clause"""
    bad = []
    succs, preds, seq, outl = graph_of(c)
    n = len(c.nodes)
    src = [seq[v] or not preds[v] for v in range(n)]
    snk = [seq[v] or not succs[v] for v in range(n)]
    # --- traversals in progress at the same time yield what they yield alone
    try:
        alone = [x.index for x in c.topological_order()]
        a, b, inter = iter(c.topological_order()), iter(c.reversed_topological_order()), []
        for x in a:
            inter.append(x.index); next(b, None)
            if len(inter) % 3 == 1:
                for _ in c.fanin([c.nodes[len(inter) % n]]): break
        if inter != alone:
            bad.append(('topo-order', 'topological_order() yields something else while another traversal of the same circuit is in progress',
                        {'interleaved': inter}, {'alone': alone}))
    except Exception:
        pass
    # --- topological order
    try:
        order = [x.index for x in c.topological_order()]
    except Exception as ex:
        return [('topo-order', 'topological_order() raised', f'{type(ex).__name__}: {ex}', 'an order')]
    if sorted(order) != list(range(n)):
        missing = sorted(set(range(n)) - set(order))
        bad.append(('topo-order', 'topological_order() does not yield every node exactly once', {'order': order, 'missing': missing}, f'a permutation of 0..{n-1}'))
    else:
        at = {v: k for k, v in enumerate(order)}
        for r in range(n):
            if not src[r]:
                late = [v for v in preds[r] if at[v] > at[r]]
                if late:
                    bad.append(('topo-order', f'node {r} is yielded before its driver(s) {late}', {'order': order}, 'drivers first')); break
        if any(src[b] and not src[a] for a, b in zip(order, order[1:])):
            bad.append(('topo-order', 'a source (no connected input / state element) is yielded after a non-source', {'order': order}, 'sources first'))
    # --- levels: longest path from a source in the cut graph (memoised recursion; the cut graph is acyclic by construction)
    memo = {}

    def longest(v, stack=()):
        if v in memo: return memo[v]
        if src[v]: memo[v] = 0
        else: memo[v] = 1 + max(longest(p) for p in preds[v])
        return memo[v]
    try:
        lv = [(x.index, int(l)) for x, l in c.topological_order_with_level()]
        if [v for v, _ in lv] != order:
            bad.append(('levels', 'topological_order_with_level() yields other nodes than topological_order()', {'nodes': [v for v, _ in lv]}, order))
        else:
            import sys
            sys.setrecursionlimit(10000)
            wrong = [(v, l, longest(v)) for v, l in lv if l != longest(v)]
            if wrong:
                bad.append(('levels', f'level of node {wrong[0][0]} is {wrong[0][1]}, longest distance from a source is {wrong[0][2]}', {'levels': lv}, {v: longest(v) for v, _ in lv}))
    except Exception as ex:
        bad.append(('levels', 'topological_order_with_level() raised', f'{type(ex).__name__}: {ex}', 'levels'))
    # --- line order
    try:
        lo = [l.index for l in c.topological_line_order()]
        if sorted(lo) != list(range(len(c.lines))):
            bad.append(('line-order', 'topological_line_order() does not yield every line exactly once', {'lines': lo}, f'a permutation of 0..{len(c.lines)-1}'))
    except Exception as ex:
        bad.append(('line-order', 'topological_line_order() raised', f'{type(ex).__name__}: {ex}', 'lines'))
    # --- reversed order
    try:
        ro = [x.index for x in c.reversed_topological_order()]
        if sorted(ro) != list(range(n)):
            bad.append(('reversed-order', 'reversed_topological_order() does not yield every node exactly once', {'order': ro}, f'a permutation of 0..{n-1}'))
        else:
            at = {v: k for k, v in enumerate(ro)}
            for v in range(n):
                if not snk[v]:
                    late = [r for r in succs[v] if at[r] > at[v]]
                    if late:
                        bad.append(('reversed-order', f'node {v} is yielded before its reader(s) {late}', {'order': ro}, 'readers first')); break
            if any(snk[b] and not snk[a] for a, b in zip(ro, ro[1:])):
                bad.append(('reversed-order', 'a node without connected output / state element is yielded after another node', {'order': ro}, 'sinks first'))
    except Exception as ex:
        bad.append(('reversed-order', 'reversed_topological_order() raised', f'{type(ex).__name__}: {ex}', 'an order'))
    # --- fanin
    for o in origins:
        oset = set(o)
        comb, stack = set(oset), list(oset)
        while stack:                                   # backwards; do not pass THROUGH a state element that is no origin
            r = stack.pop()
            if seq[r] and r not in oset: continue
            for v in preds[r]:
                if v not in comb: comb.add(v); stack.append(v)
        anyp, stack = set(oset), list(oset)
        while stack:
            r = stack.pop()
            for v in preds[r]:
                if v not in anyp: anyp.add(v); stack.append(v)
        try:
            fi = [x.index for x in c.fanin([c.nodes[i] for i in o])]
        except Exception as ex:
            bad.append(('fanin', f'fanin({o}) raised', f'{type(ex).__name__}: {ex}', sorted(comb))); continue
        if len(set(fi)) != len(fi):
            bad.append(('fanin', f'fanin({o}) yields a node twice', fi, 'each node once'))
        extra = sorted(set(fi) - anyp)
        if extra:
            bad.append(('fanin', f'fanin({o}) yields nodes {extra} that have no path to an origin', fi, sorted(anyp)))
        missing = sorted(comb - set(fi))
        if missing:
            if all(seq[v] for v in missing):
                bad.append(('fanin-source-ff', f'fanin({o}) omits the state element(s) {missing} although they have a combinational '
                            f'path to an origin', {'yielded': fi, 'origins': o}, {'combinational fan-in': sorted(comb)}))
            else:
                bad.append(('fanin', f'fanin({o}) omits nodes {missing} that have a combinational path to an origin', fi, sorted(comb)))
    return bad


# ------------------------------------------------------------------------------------------------ names
IDX = '0123456789_[]'
STEMS = ['data', 'data1', 'data10', 'd', 'addr', 'a', 'ab', 'bus_x', 'q_reg', 'r2d2', 'x1y', 'clk', 'rst_n', 'InstQueue_reg', 's', 'Data']


def fmt_idx(rng, style, i, p_zero=0.0):
    s = str(i)
    if rng.random() < p_zero: s = '0' * rng.randint(1, 2) + s
    return {'br': f'[{s}]', 'us': f'_{s}', 'ust': f'_{s}_'}[style]


def gen_names_case(rng, collide=None):
    collide = rng.random() < 0.35 if collide is None else collide
    pool = STEMS if collide else ['data', 'addr', 'bus_x', 'q_reg', 'clk', 'rst_n', 'InstQueue_reg', 'wdata', 'Y']
    stems = rng.sample(pool, rng.randint(1, 4))
    names = []
    for st in stems:
        dims = rng.choice([0, 1, 1, 1, 2, 2, 3])
        if dims == 0:
            names.append(st); continue
        bus_style = rng.choice(['br', 'br', 'us', 'ust'])
        axes = []
        for _ in range(dims):
            hi = rng.choice([2, 4, 8, 12, 33, 130])
            vals = rng.sample(range(hi), min(hi, rng.randint(1, 5 if dims > 1 else 9)))
            axes.append(vals)
        vecs = list(itertools.product(*axes))
        if len(vecs) > 14: vecs = rng.sample(vecs, 14)
        pz = rng.choice([0, 0, 0, 0.3])
        for v in vecs:
            mix = rng.random() < 0.1
            names.append(st + ''.join(fmt_idx(rng, rng.choice(['br', 'us', 'ust']) if mix else bus_style, i, pz) for i in v))
        if collide and rng.random() < 0.3: names.append(st)              # the stem itself next to its bus
    names = list(dict.fromkeys(names))
    if rng.random() < 0.75: rng.shuffle(names)
    r = rng.random()
    st = rng.choice(stems)
    if r < 0.55: prefix = st
    elif r < 0.68: prefix = st[:rng.randint(1, len(st))]
    elif r < 0.73: prefix = ''
    elif r < 0.85:
        withd = [nm for nm in names if nm.startswith(st) and len(nm) > len(st)]
        nm = rng.choice(withd) if withd else st
        k = len(st) + rng.randint(1, 3)
        prefix = ''.join(ch for ch in nm[:k] if ch not in '[]')
    elif r < 0.92: prefix = rng.choice(STEMS)
    else: prefix = 'zz'
    # distribute over ports, flip-flops, latches
    which = rng.choice(['io', 'io', 's'])
    io, dff, latch = [], [], []
    for nm in names:
        t = rng.random() if which == 's' else 0
        (io if t < 0.5 else dff if t < 0.8 else latch).append(nm)
    order = [[nm, 'DFF'] for nm in dff] + [[nm, 'LATCH'] for nm in latch]
    if rng.random() < 0.7:                                 # creation order mixes flip-flops and latches; s_nodes lists flip-flops first
        rng.shuffle(order)
        dff = [nm for nm, k in order if k == 'DFF']; latch = [nm for nm, k in order if k == 'LATCH']
    return {'kind': 'names', 'io': io, 'dff': dff, 'latch': latch, 'prefix': prefix, 'which': which, 'order': order}


def build_names(case):
    from kyupy.circuit import Circuit, Node
    c = Circuit('names')
    for k, nm in enumerate(case['io']):
        c.io_nodes.append(Node(c, nm, 'input' if k % 3 else '__fork__'))
    extra = [tuple(x) for x in case['order']] if 'order' in case else \
        [(nm, 'DFF') for nm in case['dff']] + [(nm, 'LATCH') for nm in case['latch']]
    # interleave a gate so that node order != s_nodes order
    history = (sum(map(ord, case['prefix'])) + len(extra)) % 5 < 2
    made = []
    for k, (nm, kind) in enumerate(extra):
        if k % 2: Node(c, f'__g{k}', 'AND2')
        # with a history: the state elements start as library cells of another kind and get their kind IN PLACE later, as
        # `substitute()` / `resolve_tlib_cells()` do (`node.kind = designated_cell.kind`)
        made.append((Node(c, nm, 'CELLX1' if history else kind), kind))
    if history:
        for q in (case['prefix'], ''):      # lookups before the edit (anything they remember must not survive it)
            try: c.s_locs(q); c.io_locs(q)
            except Exception: pass
        _ = c.s_nodes
        for n, kind in made: n.kind = kind
    return c


def canon(x):
    if x is None: return 'None'
    if isinstance(x, list): return '[' + ','.join(canon(y) for y in x) + ']'
    return str(int(x))


def real_locs(case):
    c = build_names(case)
    try:
        return canon(c.io_locs(case['prefix']) if case['which'] == 'io' else c.s_locs(case['prefix']))
    except Exception as ex:
        return f'raise:{type(ex).__name__}'


def name_list(case):
    """the names in the order of io_nodes resp. s_nodes (ports, then flip-flops, then latches)"""
    return case['io'] if case['which'] == 'io' else case['io'] + case['dff'] + case['latch']


def key_of(prefix, name):
    """(stem, index tuple) by scanning from the right; None if the name does not start with the prefix"""
    if not name.startswith(prefix): return None
    rest = name[len(prefix):]
    k = len(rest)
    while k > 0 and rest[k - 1] in IDX: k -= 1
    stem, sfx = prefix + rest[:k], rest[k:]
    idx, cur = [], ''
    for ch in sfx + '_':
        if ch.isdigit(): cur += ch
        elif cur: idx.append(int(cur)); cur = ''
    return (stem,) + tuple(idx)


def nest(entries):
    if len(entries) == 1 and entries[0][0] == (): return entries[0][1]
    groups = {}
    for k, pos in entries: groups.setdefault(k[0], []).append((k[1:], pos))
    return [nest(groups[g]) for g in sorted(groups)]


def flatten(x):
    if x is None: return []
    if isinstance(x, list): return [z for y in x for z in flatten(y)]
    return [int(x)]


def oracle_names(case):
    """returns (status, cls, what, observed, expected); status in ok | bad | skipped(dup)"""
    names, prefix = name_list(case), case['prefix']
    ents = [(key_of(prefix, nm), i) for i, nm in enumerate(names) if key_of(prefix, nm) is not None]
    keys = [k for k, _ in ents]
    if len(set(keys)) != len(keys):
        return 'dup', None, None, None, None
    collision = any(a != b and len(a) < len(b) and b[:len(a)] == a for a in keys for b in keys)
    real = real_locs(case)
    if not collision:
        l = nest(ents) if ents else []
        while isinstance(l, list) and len(l) == 1: l = l[0]
        exp = canon(None if isinstance(l, list) and len(l) == 0 else l)
        if real != exp:
            return 'bad', 'locs-order', f"{case['which']}_locs({prefix!r}) is not the index-sorted nested list", real, exp
        return 'ok', None, None, real, exp
    # a matching name is also the stem of longer matching names: every position once, shorter path first, ascending indices
    exp_flat = [pos for _, pos in sorted(ents, key=lambda e: (e[0][0], e[0][1:]))]
    if real.startswith('raise'):
        return 'bad', 'locs-prefix-collision', f"{case['which']}_locs({prefix!r}) raises on colliding names", real, {'flattened': exp_flat}
    got = flatten(json.loads(real.replace('None', 'null')))
    if got != exp_flat:
        return 'bad', 'locs-prefix-collision', f"{case['which']}_locs({prefix!r}) loses or misorders colliding names", real, {'flattened': exp_flat}
    return 'ok', None, None, real, {'flattened': exp_flat}


# ------------------------------------------------------------------------------------------------ probes
D17_CASE = {'kind': 'graph', 'src': 'corpus-D17',
            'nodes': [['a', '__fork__'], ['b', '__fork__'], ['z', '__fork__'], ['d', '__fork__'], ['q', 'dff'], ['q', '__fork__'],
                      ['d', 'and'], ['z', 'not']],
            'lines': [[0, 0, 6, 0], [1, 0, 6, 1], [6, 0, 3, 0], [3, 0, 4, 0], [4, 0, 5, 0], [5, 0, 7, 0], [7, 0, 2, 0]],
            'io': [0, 1, 2], 'origins': [[2], [4], [7, 2]]}
D15_CASES = [{'kind': 'names', 'io': ['data1[0]', 'data10[0]'], 'dff': [], 'latch': [], 'prefix': 'data1', 'which': 'io'},
             {'kind': 'names', 'io': ['data10[0]', 'data1[0]'], 'dff': [], 'latch': [], 'prefix': 'data1', 'which': 'io'},
             {'kind': 'names', 'io': ['data', 'data[0]'], 'dff': [], 'latch': [], 'prefix': 'data', 'which': 'io'},
             {'kind': 'names', 'io': ['x'], 'dff': ['r_reg_1_', 'r_reg', 'r_reg_0_'], 'latch': [], 'prefix': 'r_reg', 'which': 's'}]


def probe_modes():
    """which variant of fanin / _locs does the code under test follow? ('0' as it is, '1' repaired, None neither)"""
    c = build(D17_CASE)
    try:
        fi = [n.index for n in c.fanin([c.nodes[2]])]
    except Exception:
        fi = None
    fm = {(2, 7, 5): '0', (2, 7, 5, 4): '1'}.get(tuple(fi) if fi is not None else None)
    r = [real_locs(k) for k in D15_CASES[:3]]
    lm = '0' if r[0].startswith('raise') and r[2].startswith('raise') else '1' if (r[0], r[1], r[2]) == ('[0,1]', '[1,0]', '[0,1]') else None
    return fm, lm, {'fanin([z])': fi, 'locs': r}


# ------------------------------------------------------------------------------------------------ evaluation
def eval_case(case):
    """runs ONE case against the real code; (ok, observed, expected)"""
    if case['kind'] == 'graph':
        c = build(case)
        bad = oracle_graph(c, case.get('origins', []))
        if bad:
            cls, what, obs, exp = bad[0]
            return False, {'class': cls, 'what': what, 'observed': obs, 'all': [b[1] for b in bad]}, exp
        return True, None, None
    st, cls, what, obs, exp = oracle_names(case)
    if st == 'bad':
        return False, {'class': cls, 'what': what, 'observed': obs}, exp
    return True, obs, exp


def run_graph_batch(ck, cases, fmode):
    reqs, spans, circuits = [], [], []
    for case in cases:
        c = build(case)
        circuits.append(c)
        r = driver_lines(c, case['origins'], fmode)
        spans.append((len(reqs), len(r)))
        reqs += r
    try:
        ans = common.run_driver(reqs)
    except Exception as ex:
        ck.broken_tie('traversal model correspondence', f'driver: {type(ex).__name__}: {ex}'[:300])
        ans = None
    names = ['GA.wfB (edge consistency of the exported circuit)',
             'GA.rankOKB / GA.rrankOKB (longest-path ranks certify that the cut graphs are acyclic)',
             'lineTableB (hypothesis of C17.line_order_cover: the out-line lists name every line of the circuit exactly once)', 'topological_order', 'topological_order_with_level',
             'topological_line_order', 'reversed_topological_order']
    for case, c, (a, k) in zip(cases, circuits, spans):
        real = real_answers(c, case['origins'])
        if ans is not None:
            for j, (rv, mv) in enumerate(zip(real, ans[a:a + k])):
                if rv != mv:
                    nm = names[j] if j < len(names) else f"fanin({case['origins'][j - len(names)]}) [model variant {fmode}]"
                    ck.broken_tie(f'traversal model correspondence: {nm}', f'real {rv[:300]} != model {mv[:300]}', inp=case)
        # oracle
        bad = oracle_graph(c, case['origins'])
        succs, preds, seq, _ = graph_of(c)
        nn, nl = len(c.nodes), len(c.lines)
        unconn = sum(1 for n in c.nodes for l in list(n.ins) + list(n.outs) if l is None)
        tags = [f"src:{case.get('src')}", f'ff:{min(sum(seq), 3)}{"+" if sum(seq) > 3 else ""}', 'unconnected-pins' if unconn else 'all-pins-connected',
                'seq-loop' if seq_loop(succs, seq) else 'no-seq-loop', f'nodes:{(nn // 10) * 10}+',
                'origin-is-ff' if any(seq[i] for o in case['origins'] for i in o) else 'origins-comb']
        for o in case['origins']:
            ck.case(key=(json.dumps(case['nodes']), json.dumps(case['lines']), tuple(o)), nontrivial=nn >= 6 and nl >= 5,
                    sample={'nodes': nn, 'lines': nl, 'origins': o, 'src': case.get('src')}, tag=tags)
        for cls, what, obs, exp in bad:
            ck.hist['violation:' + cls] += 1
            ck.violation(cls, what, case, obs, exp)


def seq_loop(succs, seq):
    """is there a cycle (necessarily through a state element)?"""
    n = len(succs)
    color = [0] * n
    for s in range(n):
        if color[s]: continue
        stack = [(s, 0)]; color[s] = 1
        while stack:
            v, k = stack.pop()
            if k < len(succs[v]):
                stack.append((v, k + 1))
                r = succs[v][k]
                if color[r] == 1: return True
                if color[r] == 0: color[r] = 1; stack.append((r, 0))
            else:
                color[v] = 2
    return False


def run_names_batch(ck, cases, lmode):
    reqs = [f"locs {lmode} {pct(k['prefix'])} {','.join(pct(nm) for nm in name_list(k)) or '~'}" for k in cases]
    try:
        ans = common.run_driver(reqs)
    except Exception as ex:
        ck.broken_tie('_locs model correspondence', f'driver: {type(ex).__name__}: {ex}'[:300])
        ans = None
    for i, case in enumerate(cases):
        real = real_locs(case)
        if ans is not None and ans[i] != ('raise' if real.startswith('raise') else real):
            ck.broken_tie(f'_locs model correspondence [model variant {lmode}]', f'real {real[:300]} != model {ans[i][:300]}', inp=case)
        st, cls, what, obs, exp = oracle_names(case)
        names, prefix = name_list(case), case['prefix']
        keys = [key_of(prefix, nm) for nm in names if key_of(prefix, nm) is not None]
        dims = max([len(k) - 1 for k in keys] + [0])
        tags = [f"lookup:{case['which']}_locs", f'matches:{min(len(keys), 9)}{"+" if len(keys) > 9 else ""}', f'dims:{dims}',
                f'stems:{len(set(k[0] for k in keys))}', 'oracle:' + ('skipped-equal-keys' if st == 'dup' else 'checked'),
                'prefix:' + ('empty' if prefix == '' else 'is-a-name-start' if keys else 'no-match'),
                'collision' if any(a != b and len(a) < len(b) and b[:len(a)] == a for a in keys for b in keys) else 'prefix-free']
        ck.case(key=(tuple(names), prefix, case['which']), nontrivial=len(keys) >= 2, tag=tags,
                sample={'names': names[:12], 'prefix': prefix, 'lookup': case['which'], 'result': real})
        if st == 'bad':
            ck.hist['violation:' + cls] += 1
            ck.violation(cls, what, case, obs, exp)


def robustness_notes(ck):
    """behaviour next to the property (outside its quantifier): reported as notes, never as violations"""
    from kyupy.circuit import Circuit, Node, Line
    def attempt(f):
        try:
            return repr(f())
        except Exception as ex:
            return f'{type(ex).__name__}: {ex}'
    c = build_names({'io': ['data[0]', 'data[1]'], 'dff': [], 'latch': []})
    ck.notes.append("prefix with a regular-expression operator, io_locs('data[') -> " + attempt(lambda: c.io_locs('data[')))
    c = build_names({'io': ['p_1', 'p[1]', 'p2', 'p02'], 'dff': [], 'latch': []})
    ck.notes.append("equal keys, ports p_1 p[1] p2 p02, io_locs('p') -> " + attempt(lambda: c.io_locs('p')) + ' (4 ports, 2 positions)')
    c = build_names({'io': ['d\u0661', 'd2'], 'dff': [], 'latch': []})
    ck.notes.append("non-ASCII digit, ports 'd\u0661' (ARABIC-INDIC ONE) and 'd2', io_locs('d') -> " + attempt(lambda: c.io_locs('d')))
    c = Circuit('cyc')
    a, g1, g2, z = Node(c, 'a'), Node(c, 'g1', 'AND2'), Node(c, 'g2', 'NOT1'), Node(c, 'z')
    Line(c, a, g1); Line(c, g2, g1); Line(c, g1, g2); Line(c, (g2, 1), z)
    ck.notes.append('combinational cycle a->g1<->g2->z: topological_order() -> ' + attempt(lambda: [n.name for n in c.topological_order()])
                    + ', reversed -> ' + attempt(lambda: [n.name for n in c.reversed_topological_order()]) + ' (cycle nodes silently skipped)')


def corpus_cases():
    import glob, os
    return [json.load(open(f)) for f in sorted(glob.glob(os.path.join(common.VERIF, 'corpus', 'C17-*.json')))]


def run(ck):
    ck.prove([], TARGETS, theorems())
    fmode, lmode, seen = probe_modes()
    ck.extra['variant_of_code_under_test'] = {'fanin': fmode, '_locs': lmode, 'probe': seen}
    if fmode is None:
        ck.broken_tie('fanin model correspondence (probe)', f'fanin follows neither modelled variant: {seen}'); fmode = '0'
    if lmode is None:
        ck.broken_tie('_locs model correspondence (probe)', f'_locs follows neither modelled variant: {seen}'); lmode = '0'
    fixed = [D17_CASE] + D15_CASES + corpus_cases()
    run_graph_batch(ck, [k for k in fixed if k['kind'] == 'graph'], fmode)
    run_names_batch(ck, [k for k in fixed if k['kind'] == 'names'], lmode)
    ng, nn = 600 * ck.scale, 1500 * ck.scale
    for a in range(0, ng, 40):
        run_graph_batch(ck, [gen_graph_case(ck.rng) for _ in range(min(40, ng - a))], fmode)
    for a in range(0, nn, 100):
        run_names_batch(ck, [gen_names_case(ck.rng) for _ in range(min(100, nn - a))], lmode)
    if ck.broken and not ck.violations:                      # enlarged failing-input search
        for a in range(0, ng * 8, 40):
            run_graph_batch(ck, [gen_graph_case(ck.rng) for _ in range(40)], fmode)
        for a in range(0, nn * 8, 100):
            run_names_batch(ck, [gen_names_case(ck.rng) for _ in range(100)], lmode)
    try:
        robustness_notes(ck)
    except Exception as ex:
        ck.notes.append(f'robustness probe failed: {type(ex).__name__}: {ex}')
    ck.notes.append(f"variant of the code under test (probe): fanin = {fmode} ('0' single pass: source flip-flops of the cone are "
                    f"omitted, theorems fanin_exact_partial / fanin_source_ff_omitted; '1' repaired: fanin_exact), _locs = {lmode} "
                    "('0' raises / overwrites on colliding names, theorem locs_prefix_collision; '1' repaired)")
    ck.notes.append('names with EQUAL (stem, index) keys under the prefix (p_1 and p[1], p1 and p01) overwrite each other silently '
                    '(dictionary assignment); such name lists are compared model-vs-code only, not judged by the oracle')
    ck.assumptions += ['prefixes are literal (letters, digits, underscore): the prefix is pasted into a regular expression unescaped',
                       'names are ASCII without line break (\\d also matches non-ASCII digits, . does not match a line break)',
                       'Python re, int, dict order, sorted and NumPy indexing are exercised through the real calls, not modelled',
                       'generated circuits have no combinational cycle (cycles pass through a dff/latch kind); with a combinational '
                       'cycle the generators silently skip the nodes of the cycle (theorems topo_sound / rev_sound still hold)',
                       'the graph view (readers/drivers of connected pins, pin order) is exported from the real Circuit by the harness; '
                       'GA.wfB re-checks its edge consistency in Lean for every circuit']
    return ck.finish(RULE)


def replay(rep):
    ok, obs, exp = eval_case(rep['input'])
    print(json.dumps({'ok': ok, 'observed': obs, 'expected': exp}, default=str))
    return 0 if ok else 1
