"""C16 — the fault-injection callback sees and controls every evaluated signal."""
import json, pickle, base64, random
import numpy as np
from . import common, circ
import extract_ops

PID = 'C16'
TARGETS = ['KyupyVerif.Props.C16']
RULE = ('random circuits x logics m in {2,4,8} x {strip_forks} x {c_reuse} x random stimuli: (a) a recording callback must be invoked exactly once per '
        'evaluated line, in the order of sim.ops, with the Line object and an array of shape (mdim, nbytes) holding the freshly computed values '
        '(compared with a callback-free run without reuse); (b) the identity callback changes nothing; (c) an overwriting callback on a random '
        'line with random values: all port results must equal a simulation of the circuit in which that line is cut and driven by a fresh input '
        'carrying the injected values, and all lines evaluated earlier keep their values. distinct = (circuit, m, options, injected line)')


def theorems():
    return common.theorems_of('KyupyVerif/Props/C16.lean', 'KV.C16')


def make_case(rng, thorough=False):
    c = circ.rand_circuit(rng, n_gates=rng.randint(1, 20 if not thorough else 50), style='v', p_const=rng.choice([0.04, 0.04, 0.2]))
    return {'circuit': base64.b64encode(pickle.dumps(c)).decode(), 'm': rng.choice([2, 4, 8]), 'strip': rng.random() < 0.3,
            'reuse': rng.random() < 0.4, 'sseed': rng.randint(0, 2**31 - 1), 'pick': rng.random(), 'sims': rng.choice([3, 8, 13])}


def codes_of(arr, sims, mdim):
    """[..., planes, nbytes] bit-parallel -> [..., sims] codes restricted to the first mdim planes"""
    bits = np.unpackbits(np.asarray(arr, dtype=np.uint8), axis=-1, bitorder='little')[..., :sims]
    out = np.zeros(bits.shape[:-2] + (sims,), dtype=np.int64)
    for pl in range(mdim): out += bits[..., pl, :].astype(np.int64) << pl
    return out


def digits(codes): return ''.join(str(int(v)) for v in codes)


def model_cblog(c, ls, m, sims, strip, x=None, V=None):
    """driver `cblog`: call log (lines, values handed over), final line values and fan-out of x in the MODEL (Model/Callback.lean)"""
    mdim = {2: 1, 4: 2, 8: 3}[m]
    s0 = codes_of(ls.s[0], sims, mdim)
    rows = '~' if s0.shape[0] == 0 else ','.join(digits(r) for r in s0)
    order = ','.join(str(n.index) for n in c.topological_order()) or '~'
    force = '~' if x is None else digits(codes_of(V[np.newaxis], sims, mdim)[0])
    ans = common.run_driver([f"cblog {m} {int(strip)} {order} {'-' if x is None else x} {force} {rows} {circ.dump_net(c)}"])[0]
    parts = ans.split(';')
    if len(parts) != 4: raise RuntimeError('cblog answer: ' + ans[:200])
    ints = lambda t: [int(v) for v in t.split(',') if v != '']
    return {'calls': ints(parts[0]), 'vals': [v for v in parts[1].split(',') if v != ''], 'final': [v for v in parts[2].split(',') if v != ''],
            'fanout': ints(parts[3])}


def tie_log(real_log, model, sims, mdim, what):
    """real recorded calls [(line, shape, view copy)] vs the model's call log: same lines in the same order, same values handed over"""
    real_calls = [l[0] for l in real_log]
    if real_calls != model['calls']: return f'{what}: real calls {real_calls[:30]} != model calls {model["calls"][:30]}'
    for k, (li, _, v) in enumerate(real_log):
        rv = digits(codes_of(v, sims, mdim))
        if k >= len(model['vals']) or rv != model['vals'][k]:
            return f'{what}: call {k} (line {li}) real value {rv} != model value {model["vals"][k] if k < len(model["vals"]) else None}'
    return None


def sim_run(c, m, sims, stim, strip, reuse, cb=None):
    from kyupy import logic
    from kyupy.logic_sim import LogicSim
    with common.quiet():
        ls = LogicSim(c, sims, m=m, c_reuse=reuse, strip_forks=strip)
    ls.s[0] = logic.mv_to_bp(stim)
    ls.s_to_c()
    with common.quiet():
        ls.c_prop(inject_cb=cb) if cb is not None else ls.c_prop()
    ls.c_to_s()
    return ls, logic.bp_to_mv(ls.s[1])[:, :sims]


def eval_case(case):
    from kyupy import logic
    from kyupy.circuit import Node, Line
    c = pickle.loads(base64.b64decode(case['circuit']))
    m, sims = case['m'], case['sims']
    mdim = {2: 1, 4: 2, 8: 3}[m]
    rs = np.random.RandomState(case['sseed'] % (2**31))
    dom = {2: [0, 3], 4: [0, 1, 2, 3], 8: list(range(8))}[m]
    stim = rs.choice(dom, size=(len(c.s_nodes), sims)).astype(np.uint8)
    # reference: no callback, no reuse (all line values stay in memory)
    ref, ref_out = sim_run(c, m, sims, stim, case['strip'], False)
    exp_calls = [int(r[1]) for r in np.array(ref.ops) if int(r[1]) < len(c.lines)]
    case['_scratch'] = len(ref.ops) - len(exp_calls)      # rows writing the scratch slot: evaluated, not reported
    # (a) recording callback
    class Rec(list):        # a callable that is FALSY until it has been called (an empty list): still a callback
        def __call__(self, line, v): self.append((getattr(line, 'index', line), tuple(v.shape), v.copy()))
    log = []
    def rec_fn(line, v):
        log.append((getattr(line, 'index', line), tuple(v.shape), v.copy()))
    rec = rec_fn
    if case['pick'] < 0.4: log = rec = Rec()
    ls, out = sim_run(c, m, sims, stim, case['strip'], case['reuse'], rec)
    got_calls = [l[0] for l in log]
    tie = None
    try:
        mrec = model_cblog(c, ls, m, sims, case['strip'])
        tie = tie_log(list(log), mrec, sims, mdim, 'recording callback')
    except common.DriverError: raise
    except Exception as ex: tie = f'cblog (recording): {type(ex).__name__}: {ex}'[:300]
    case['_tie'] = tie
    if got_calls != exp_calls:
        return False, {'clause': 'once-in-order', 'calls': got_calls[:30]}, {'calls': exp_calls[:30]}
    nbytes = (sims - 1) // 8 + 1
    for (li, shape, v) in log:
        if shape != (mdim, nbytes): return False, {'clause': 'view-shape', 'line': li, 'shape': shape}, {'shape': (mdim, nbytes)}
        if not np.array_equal(v, ref.c[ref.c_locs[li]]):
            return False, {'clause': 'fresh-values', 'line': li}, {'values': 'those of the plain simulation'}
    # (b) identity
    if not np.array_equal(out, ref_out):
        return False, {'clause': 'identity', 'changed': 'results'}, {'unchanged': True}
    if not exp_calls: return True, {'skipped': 'no evaluated line'}, None
    # (c) overwrite line x with random values V
    x = exp_calls[int(case['pick'] * len(exp_calls)) % len(exp_calls)]
    consts = [l for l in exp_calls if c.lines[l].driver.kind.lower() in ('__const0__', '__const1__', 'tieh', 'tiel')]
    if consts and int(case['pick'] * 1000) % 3 == 0: x = consts[int(case['pick'] * 7919) % len(consts)]    # overwrite a tie cell's line
    V = logic.mv_to_bp(rs.choice(dom, size=(1, sims)).astype(np.uint8))[0][:mdim]
    case['_force_hyp'] = 'line' if x < len(c.lines) else 'OUTSIDE'
    log2 = []
    def inj(line, v):
        log2.append((line.index, tuple(v.shape), v.copy()))
        if line.index == x: v[...] = V
    ls2, out2 = sim_run(c, m, sims, stim, case['strip'], False, inj)
    mfrc = None
    if tie is None:
        try:
            mfrc = model_cblog(c, ls2, m, sims, case['strip'], x, V)
            tie = tie_log(log2, mfrc, sims, mdim, f'overwriting callback on line {x}')
            if tie is None:
                for li in exp_calls:       # final value of every evaluated line (no reuse: all stay in memory)
                    rv = digits(codes_of(ls2.c[ls2.c_locs[li]], sims, mdim))
                    if rv != mfrc['final'][li]:
                        tie = f'overwriting callback on line {x}: final value of line {li} real {rv} != model {mfrc["final"][li]}'; break
        except common.DriverError: raise
        except Exception as ex: tie = f'cblog (overwriting): {type(ex).__name__}: {ex}'[:300]
        case['_tie'] = tie
    # modified circuit: cut line x, drive its reader from a fresh input
    c2 = pickle.loads(base64.b64decode(case['circuit']))
    lx = c2.lines[x]
    reader, rpin = lx.reader, lx.reader_pin
    lx.remove()
    inp = Node(c2, '__inj__', 'input'); Line(c2, inp, (reader, rpin)); c2.io_nodes.append(inp)
    stim2 = np.vstack([stim[:len(c.io_nodes)], logic.bp_to_mv(np.vstack([V, np.zeros((3 - mdim, V.shape[1]), dtype=np.uint8)])[np.newaxis])[:, :sims] if False else np.zeros((0, sims), dtype=np.uint8)])
    # s_nodes order of c2: io_nodes (old ones, then the new input), then flip-flops, latches
    vmv = logic.bp_to_mv(np.concatenate([V, np.zeros((3 - mdim, V.shape[1]), dtype=np.uint8)])[np.newaxis])[0][:sims]
    if m == 2: vmv = (vmv & 1) * 3
    n_io = len(c.io_nodes)
    stim2 = np.vstack([stim[:n_io], vmv[np.newaxis, :], stim[n_io:]]).astype(np.uint8)
    _, exp2 = sim_run(c2, m, sims, stim2, case['strip'], False)
    exp2 = np.vstack([exp2[:n_io], exp2[n_io + 1:]])
    mask = 1 if m == 2 else (3 if m == 4 else 7)
    for j in range(out2.shape[0]):
        node = c.s_nodes[j]
        if len(node.ins) == 0 or node.ins[0] is None: continue
        if not np.array_equal(out2[j] & mask, exp2[j] & mask):
            return False, {'clause': 'override-downstream', 'line': x, 's_node': j, 'got': out2[j].tolist()}, {'cut_and_driven': exp2[j].tolist()}
    # the same overwriting run WITH c_reuse (memory of dead lines is handed to later ones): the callback must see the same calls with the
    # same values and the captured results must be those of the cut-and-driven circuit (line values in memory are not compared: re-used)
    if case['reuse']:
        log2r, first = log2[:], len(log2)
        ls3, out3 = sim_run(c, m, sims, stim, case['strip'], True, inj)
        log3 = log2[first:]; del log2[first:]
        case['_force_reuse'] = 1
        if [(a, b) for a, b, _ in log3] != [(a, b) for a, b, _ in log2r] or any(not np.array_equal(u[2], v[2]) for u, v in zip(log3, log2r)):
            k = next((i for i, (u, v) in enumerate(zip(log3, log2r)) if u[0] != v[0] or u[1] != v[1] or not np.array_equal(u[2], v[2])), min(len(log3), len(log2r)))
            return False, {'clause': 'override-with-reuse-calls', 'line': x, 'call': k, 'with_reuse': [int(t[0]) for t in log3][:k + 2]}, {'without_reuse': [int(t[0]) for t in log2r][:k + 2]}
        for j in range(out3.shape[0]):
            node = c.s_nodes[j]
            if len(node.ins) == 0 or node.ins[0] is None: continue
            if not np.array_equal(out3[j] & mask, exp2[j] & mask):
                return False, {'clause': 'override-downstream-with-reuse', 'line': x, 's_node': j, 'got': out3[j].tolist()}, {'cut_and_driven': exp2[j].tolist()}
    # upstream: lines evaluated before x keep the reference values
    for li in exp_calls[:exp_calls.index(x)]:
        if not np.array_equal(ls2.c[ls2.c_locs[li]], ref.c[ref.c_locs[li]]):
            return False, {'clause': 'upstream-unchanged', 'injected': x, 'line': li}, {'unchanged': True}
    # frame (C16.callback_force_frame): evaluated lines outside the fan-out of x (also those scheduled later) keep the reference values
    if mfrc is not None and tie is None:
        fo = set(mfrc['fanout'])
        case['_frame_later'] = sum(1 for li in exp_calls[exp_calls.index(x) + 1:] if li not in fo)
        for li in exp_calls:
            if li not in fo and not np.array_equal(ls2.c[ls2.c_locs[li]], ref.c[ref.c_locs[li]]):
                return False, {'clause': 'frame-outside-fanout', 'injected': x, 'line': li}, {'unchanged': True}
    # (d) the injection leaves nothing behind: a plain propagation on the SAME object afterwards is fault-free
    ls2.s[0] = logic.mv_to_bp(stim); ls2.s_to_c()
    with common.quiet(): ls2.c_prop()
    ls2.c_to_s()
    out3 = logic.bp_to_mv(ls2.s[1])[:, :sims]
    if not np.array_equal(out3, ref_out):
        return False, {'clause': 'injection-leaves-no-trace', 'injected': x}, {'results': 'those of the plain simulation'}
    return True, None, None


def oracle(ck, n, thorough=False):
    for it in range(n):
        cs = make_case(ck.rng, thorough)
        try:
            ok, obs, exp = eval_case(cs)
        except Exception as ex:
            ok, obs, exp = False, {'raised': f'{type(ex).__name__}: {ex}'[:300]}, None
        hyp_tag = common.allcirc_hyp(ck, pickle.loads(base64.b64decode(cs['circuit'])), [cs['strip']], 'C16')
        tie, fh, later, scr = cs.pop('_tie', 'not-run'), cs.pop('_force_hyp', 'none'), cs.pop('_frame_later', 0), cs.pop('_scratch', 0)
        if cs.pop('_force_reuse', 0): ck.hist['override-with-c_reuse:run'] += 1
        ck.case(key=(cs['circuit'][:80], cs['m'], cs['strip'], cs['reuse'], round(cs['pick'], 3)),
                sample={k: v for k, v in cs.items() if k != 'circuit'},
                tag=[f"m:{cs['m']}", f"strip:{cs['strip']}", f"reuse:{cs['reuse']}", f"sims:{cs['sims']}", hyp_tag,
                     f"force-hyp:{fh}", f"tie-cblog:{'ok' if tie is None else 'BROKEN'}", f"frame-later-lines:{min(later, 3)}", f"scratch-rows:{min(scr, 2)}"])
        if tie is not None and ok:
            ck.broken_tie('call-log model correspondence (Model/Callback.lean cbLog/execCb vs LogicSim.c_prop(inject_cb))', str(tie)[:400], inp=cs)
        if fh == 'OUTSIDE':
            ck.broken_tie('hypothesis x < nl of the force theorems', 'the harness forced an index that is no line', inp=cs)
        if not ok:
            ck.violation('inject-cb', 'inject_cb: ' + str((obs or {}).get('clause', 'run')), cs, obs, exp)


def run(ck):
    ck.prove([extract_ops.generate], TARGETS + ['KyupyVerif.Props.C01'], theorems() + ['KV.C01.op2_callback', 'KV.C01.lanewise2_cb'])
    n = 90 if ck.tier == 'quick' else 1500
    oracle(ck, n, ck.tier == 'thorough')
    if ck.broken and not ck.violations: oracle(ck, n * 5, ck.tier == 'thorough')
    ck.assumptions += ['the callback sees lines only (ops whose output pin is unconnected write the scratch slot and are not reported): the model cbLog filters them as the code does; call log (lines and values handed over, recording and overwriting callback) and final line values are compared with the model through the driver command cblog on every case (tag tie-cblog)',
                       'the force theorems carry the hypothesis that the forced index is a line (x < nl); evaluated per case (tag force-hyp)',
                       'with strip_forks the stripped fan-out lines are not evaluated and therefore not reported',
                       'the all-circuits theorems (callback_all_circuits, callback_force_*, callback_upstream_all_circuits) speak about the rows of the Lean SimOps model; their hypotheses wfB/orderOKB are evaluated by the driver on every real circuit and order (tag allcirc-hyp)']
    return ck.finish(RULE)


def replay(rep):
    ok, obs, exp = eval_case(rep['input'])
    if ok and rep['input'].get('_tie'): ok, obs, exp = False, {'tie': rep['input']['_tie']}, None
    print(json.dumps({'ok': ok, 'observed': obs, 'expected': exp}, default=str))
    return 0 if ok else 1
