"""C09 — circuit graph stays consistent under every edit history.

generator  : random edit histories on the REAL kyupy.circuit API (Node / Line constructors with implicit and explicit
             pins, Line.remove, Node.remove, io_nodes.append, get_or_add_fork, eliminate_1to1_forks, copy, pickle round
             trip), operands chosen by CURRENT index, every operation a well-formed use (DESIGN.md section 7; the
             generator evaluates the precondition on the real objects).
correspond.: the same history replayed by the Lean object model (Model/CircObj.lean through the compiled driver,
             command `circobj`): canonical dump after EVERY step must be equal (and the model's `pre` must be 1);
             the first differing step is reported as a broken tie together with the shortest failing prefix.
             `substitute` / `remove_dangling_nodes` / `resolve_tlib_cells` are modelled at object level too
             (Model/CircObjSub.lean; tokens `sub:<index>:<implementation as pickle state>`, `rd:<index>`,
             `res:<kind>=<state>/...`, `rtl:<LIB>:...` = the built-in library object on the real side, `st:<state>` = start
             from a given circuit): same dump after the call, raising exactly when the real code raises, and the model's
             precondition (`substPre` ...) is reported; where it holds `invOK` must hold (theorems of Props/C09).
oracle     : the invariant WFc stated directly over the Python objects (identity checks, not `==`) after EVERY step;
             a failure is a violation with the history prefix as replay (also for the three operations above, incl. the older
             oracle-only streams on netlists of library cells and random implementations).
"""
import json, pickle
from . import common

PID = 'C09'
TARGETS = ['KyupyVerif.Props.C09']
RULE = ('random edit histories of 1-120 operations (thorough: up to 300) from the empty circuit through the public API: '
        'Node(...) for forks and cells (ASCII names incl. blanks, quotes, brackets; fork and cell of the same name), '
        'Line(...) with implicit pins (free_index) and explicit pins on free positions (incl. positions beyond the end that '
        'grow the pin list with None), Line.remove (incl. lines in the middle of fork outputs -> squeeze and driver_pin '
        'renumbering, and the last line of the list), Node.remove after the node\'s lines, io_nodes.append, '
        'get_or_add_fork, eliminate_1to1_forks (chains of 1:1 forks, port forks, forks with 0 or >1 outputs), copy() and '
        'pickle round trips mid-history (editing continues on the copy); canonical dump after every step compared with the '
        'Lean object model, WFc evaluated on the Python objects after every step. substitute / remove_dangling_nodes / resolve_tlib_cells '
        'inside the histories (profile subst; instances whose pins fit a random implementation circuit or a cell of a built-in library, '
        'some pins unconnected; synthetic libraries), on the C10 hosts x implementations loaded as pickle state, and resolve_tlib_cells with '
        'the built-in library objects (GSC180, NANGATE, NANGATE_ZN, SAED32, SAED90): dump after the call compared with the object model '
        '(Model/CircObjSub.lean), raising cases must raise in both; port-cell style implementations whose forks drive several output '
        'ports, with open instance outputs (the squeeze of D30). Oracle-only streams: random '
        'netlists of library cells (NANGATE, SAED32, SAED90, GSC180), some pins unconnected, WFc after the call (oracle only); '
        'remove_dangling_nodes(root) for a non-port root without output lines after a random history (oracle only). '
        'distinct = history token list; non-trivial = at least 8 operations incl. a removal')

FORK = '__fork__'
CELL_KINDS = ['AND2', 'nand', 'OR3', 'XOR2', 'INV1', 'BUF1', 'DFF', 'dff', 'SDFFX1', 'LATCH', 'latch', 'input', 'output',
              'INPUT_PAD', 'AOI21', 'MUX21', '__const0__', 'NAND2_X1', 'x y', 'Dff_Latch']
SPECIAL_NAMES = ['', ' ', 'a b', 'n[0]', 'n[1]', '\\esc ', 'x:y', 'p|q', 'k;l', 'm,n', 'u=v', 'a%b', '"q"', "it's", '~t', 'A.b/c-d', '#', '1']


def theorems():
    return common.theorems_of('KyupyVerif/Props/C09.lean', 'KV.C09')


def pct(s):
    """percent-encode everything but ASCII [A-Za-z0-9_]; the empty string is '%' (same as Drv/CircObj.lean)"""
    return ''.join(ch if (ch.isascii() and ch.isalnum()) or ch == '_' else '%%%02x' % ord(ch) for ch in s) or '%'


def unpct(s):
    if s == '%': return ''
    out, i = [], 0
    while i < len(s):
        if s[i] == '%':
            out.append(chr(int(s[i + 1:i + 3], 16))); i += 3
        else:
            out.append(s[i]); i += 1
    return ''.join(out)


# ---------------------------------------------------------------------------------------------- real side
def new_circuit():
    from kyupy.circuit import Circuit
    return Circuit('h')


def apply_op(c, tok):
    """apply one operation token to the real circuit; returns the circuit to continue with"""
    from kyupy.circuit import Node, Line
    f = tok.split(':')
    if f[0] == 'n':
        Node(c, unpct(f[1]), unpct(f[2]))
    elif f[0] == 'l':
        d, r = c.nodes[int(f[1])], c.nodes[int(f[3])]
        Line(c, d if f[2] == '-' else (d, int(f[2])), r if f[4] == '-' else (r, int(f[4])))
    elif f[0] == 'rl':
        c.lines[int(f[1])].remove()
    elif f[0] == 'rn':
        c.nodes[int(f[1])].remove()
    elif f[0] == 'io':
        c.io_nodes.append(c.nodes[int(f[1])])
    elif f[0] == 'gf':
        c.get_or_add_fork(unpct(f[1]))
    elif f[0] == 'elim':
        c.eliminate_1to1_forks()
    elif f[0] == 'rd':
        c.remove_dangling_nodes(c.nodes[int(f[1])])
    elif f[0] == 'sub':
        c.substitute(c.nodes[int(f[1])], circuit_from_spec(f[2]))
    elif f[0] == 'res':     # a library object that has just what resolve_tlib_cells reads: cells[kind][0]
        c.resolve_tlib_cells(StubLib({unpct(k): (circuit_from_spec(sp),) for k, sp in (e.split('=') for e in f[1].split('/') if e)}))
    elif f[0] == 'rtl':     # the built-in library object itself (the model gets the implementations of the kinds in use)
        with common.quiet(): c.resolve_tlib_cells(tlib_of(f[1]))
    elif f[0] == 'st':
        c = circuit_from_spec(f[1], 'h')
    elif f[0] == 'copy':
        c = c.copy()
    elif f[0] == 'pickle':
        c = pickle.loads(pickle.dumps(c))
    else:
        raise ValueError(tok)
    return c


NEW_OPS = ('sub', 'rd', 'res', 'rtl', 'st')      # operations of Model/CircObjSub.lean (Op2) + load


NEW_CLASS = {'sub': 'substitute:', 'res': 'substitute:', 'rtl': 'substitute:', 'rd': 'dangling:'}      # class prefix of violations


def is_new(tok):
    return tok.split(':')[0] in NEW_OPS


class StubLib:
    def __init__(self, cells): self.cells = cells


def spec_of(c):
    """pickle state of a circuit as part of a token: `name,kind|...;d.dp.r.rp|...;i,i` (every line has both ends)"""
    nodes = '|'.join(f'{pct(n.name)},{pct(n.kind)}' for n in c.nodes)
    lines = '|'.join(f'{l.driver.index}.{l.driver_pin}.{l.reader.index}.{l.reader_pin}' for l in c.lines)
    return f"{nodes};{lines};{','.join(str(n.index) for n in c.io_nodes)}"


def circuit_from_spec(spec, name='impl'):
    from kyupy.circuit import Circuit
    ns, ls, io = spec.split(';')
    c = Circuit(name)
    c.__setstate__({'name': name, 'nodes': [tuple(unpct(x) for x in e.split(',')) for e in ns.split('|') if e],
                    'lines': [tuple(int(x) for x in e.split('.')) for e in ls.split('|') if e],
                    'io_nodes': [int(x) for x in io.split(',') if x]})
    return c


def lib_spec(tlib, kinds):
    return '/'.join(f'{pct(k)}={spec_of(tlib.cells[k][0])}' for k in kinds)


def idx(x):
    return '?' if x is None else str(x.index)


def real_dump(c):
    """canonical dump, same layout as Drv/CircObj.lean `dump` without the trailing invOK field"""
    def pins(l): return ','.join('-' if x is None else str(x.index) for x in l)
    nodes = '|'.join(f'{pct(n.kind)}:{pct(n.name)}:{pins(n.ins)}:{pins(n.outs)}' for n in c.nodes)
    lines = '|'.join(f'{idx(l.driver)}.{l.driver_pin}.{idx(l.reader)}.{l.reader_pin}' for l in c.lines)
    io = ','.join(idx(n) for n in c.io_nodes)
    cells = ','.join(f'{pct(k)}={v.index}' for k, v in c.cells.items())
    forks = ','.join(f'{pct(k)}={v.index}' for k, v in c.forks.items())
    st = ','.join(f'{pct(k)}={v}' for k, v in c.stats.items())
    return ';'.join([nodes, lines, io, cells, forks, st])


def canon(rec):
    """stats are compared as a set of key=value (order of a dict is not part of the property)"""
    f = rec.split(';')
    if len(f) >= 6:
        f[5] = ','.join(sorted(f[5].split(',')))
    return ';'.join(f)


def wfc_failures(c):
    """the invariant WFc of DESIGN.md C09 stated over the Python objects (identity, not Node.__eq__). returns [(class, text)]"""
    bad = []
    def in_nodes(n): return n is not None and isinstance(n.index, int) and 0 <= n.index < len(c.nodes) and c.nodes[n.index] is n
    def in_lines(l): return l is not None and isinstance(l.index, int) and 0 <= l.index < len(c.lines) and c.lines[l.index] is l
    for i, n in enumerate(c.nodes):
        if n.index != i: bad.append(('node-index', f'nodes[{i}].index == {n.index}'))
    for i, l in enumerate(c.lines):
        if l.index != i: bad.append(('line-index', f'lines[{i}].index == {l.index}'))
    if len(set(map(id, c.nodes))) != len(c.nodes): bad.append(('node-dup', 'a node object occurs twice in nodes'))
    if len(set(map(id, c.lines))) != len(c.lines): bad.append(('line-dup', 'a line object occurs twice in lines'))
    for d, isfork in ((c.cells, False), (c.forks, True)):
        dn = 'forks' if isfork else 'cells'
        for name, n in d.items():
            if not in_nodes(n): bad.append(('dict-stale', f'{dn}[{name!r}] is not a node of the circuit'))
            elif (n.kind == FORK) != isfork: bad.append(('dict-class', f'{dn}[{name!r}] has kind {n.kind}'))
            elif n.name != name: bad.append(('dict-name', f'{dn}[{name!r}].name == {n.name!r}'))
    for n in c.nodes:
        d = c.forks if n.kind == FORK else c.cells
        if d.get(n.name) is not n: bad.append(('dict-missing', f'node {n.index} {n.name!r} not found under its name'))
    for l in c.lines:
        if not in_nodes(l.driver): bad.append(('line-driver', f'line {l.index}: driver not in circuit'))
        elif not (isinstance(l.driver_pin, int) and 0 <= l.driver_pin < len(l.driver.outs) and l.driver.outs[l.driver_pin] is l):
            bad.append(('line-driver-pin', f'line {l.index}: driver.outs[{l.driver_pin}] is not the line'))
        if not in_nodes(l.reader): bad.append(('line-reader', f'line {l.index}: reader not in circuit'))
        elif not (isinstance(l.reader_pin, int) and 0 <= l.reader_pin < len(l.reader.ins) and l.reader.ins[l.reader_pin] is l):
            bad.append(('line-reader-pin', f'line {l.index}: reader.ins[{l.reader_pin}] is not the line'))
    for n in c.nodes:
        for p, x in enumerate(n.outs):
            if x is None: continue
            if not in_lines(x): bad.append(('pin-stale', f'node {n.index}.outs[{p}] is not a line of the circuit'))
            elif x.driver is not n or x.driver_pin != p:
                bad.append(('pin-backref', f'node {n.index}.outs[{p}] = line {x.index} which records driver {idx(x.driver)} pin {x.driver_pin}'))
        for p, x in enumerate(n.ins):
            if x is None: continue
            if not in_lines(x): bad.append(('pin-stale', f'node {n.index}.ins[{p}] is not a line of the circuit'))
            elif x.reader is not n or x.reader_pin != p:
                bad.append(('pin-backref', f'node {n.index}.ins[{p}] = line {x.index} which records reader {idx(x.reader)} pin {x.reader_pin}'))
        if n.kind == FORK and any(x is None for x in n.outs):
            bad.append(('fork-gap', f'fork {n.index} outs has a None entry'))
    for k, n in enumerate(c.io_nodes):
        if not in_nodes(n): bad.append(('io-stale', f'io_nodes[{k}] is not a node of the circuit'))
    # stats against counts taken from the node list
    try:
        st = c.stats
        kinds = [n.kind for n in c.nodes if n.kind != FORK]
        exp = {'__node__': len(c.nodes), '__cell__': len(kinds), '__fork__': len(c.nodes) - len(kinds),
               '__io__': len(c.io_nodes), '__line__': len(c.lines)}
        ndff = sum(1 for k in kinds if 'dff' in k.lower())
        nlat = sum(1 for k in kinds if 'dff' not in k.lower() and 'latch' in k.lower())
        ncomb = sum(1 for k in kinds if 'dff' not in k.lower() and 'latch' not in k.lower() and 'put' not in k.lower())
        exp.update({'__dff__': ndff, '__latch__': nlat, '__seq__': ndff + nlat})
        if ncomb: exp['__comb__'] = ncomb
        for k in set(kinds): exp[k] = kinds.count(k)
        if st != exp:
            diff = {k: (st.get(k), exp.get(k)) for k in set(st) | set(exp) if st.get(k) != exp.get(k)}
            bad.append(('stats', f'stats differ from container counts (reported, counted): {diff}'))
    except Exception as ex:
        bad.append(('stats', f'stats raised {type(ex).__name__}: {ex}'))
    return bad


# ---------------------------------------------------------------------------------------------- well-formed use on real objects
def elim_pre(c):
    ios = set(c.io_nodes)
    for n in c.forks.values():
        if n in ios or len(n.outs) != 1: continue
        if len(n.ins) == 0 or n.ins[0] is None or any(x is not None for x in n.ins[1:]): return False
    return True


def free_pins(l):
    return [i for i, x in enumerate(l) if x is None]


def node_free(c, n):
    return all(x is None for x in n.ins) and all(x is None for x in n.outs) and not any(m is n for m in c.io_nodes)


def designated(impl):
    """the designated cell of substitute (circuit.py:397-405), None if there is none or the walk fails"""
    ios = set(impl.io_nodes)
    des = None
    try:
        outl = [n.ins[0] for n in impl.io_nodes if len(n.ins) > 0]
        if outl:
            n = outl[0].driver
            for _ in range(len(impl.nodes) + 1):
                if not (n.kind == FORK and n not in ios): break
                n = n.ins[0].driver
            des = None if n in ios else n        # a port is no designated cell (repair of D32)
    except Exception:
        return None
    seq = [n for n in impl.nodes if 'dff' in n.kind.lower() or 'latch' in n.kind.lower()]
    return seq[0] if seq else des


def impl_ok(impl):
    """well-formed use of substitute, implementation side (the model's `implStatic`): a well-formed circuit whose port list has
    no duplicates and whose designated cell is not a port (since the repair of D32 a walk that ends at a port gives no designated
    cell; only a flip-flop/latch that is itself a port is still excluded)"""
    if len(set(map(id, impl.io_nodes))) != len(impl.io_nodes) or wfc_failures(impl): return False
    d = designated(impl)
    return d is None or not any(d is n for n in impl.io_nodes)


def sub_ok(c, u, impl):
    """well-formed use of `c.substitute(u, impl)` as far as the caller is concerned, on the real objects (the model's
    `substKinds` / `noSelfLoop`): u is a cell of c; no line runs from u to u; when the implementation has neither an
    output nor a state element, or is a feed-through (no designated cell: then u is removed), u is not a port"""
    if u.kind == FORK or not (0 <= u.index < len(c.nodes) and c.nodes[u.index] is u): return False
    if any(l is not None and l.driver is u for l in u.ins): return False
    if designated(impl) is None and any(n is u for n in c.io_nodes): return False      # no designated cell: u is removed
    return True


class Gen:
    """generates one history while executing it on the real API; records (token, dump, wfc failures) per step"""
    def __init__(self, rng, length, profile):
        self.rng, self.length, self.profile = rng, length, profile
        self.c = new_circuit()
        self.toks, self.dumps, self.fails, self.tags = [], [], [], set()
        self.error = None
        self.k = 0

    def emit(self, tok, tag=None):
        if self.error is not None or len(self.toks) >= self.length: return False
        self.toks.append(tok)
        try:
            self.c = apply_op(self.c, tok)
        except Exception as ex:
            self.error = f'{type(ex).__name__}: {ex}'[:300]
            # substitute / resolve_tlib_cells may raise on an ill-fitting implementation (that belongs to C10): the model must raise too
            self.dumps.append('raised ' + self.error); self.fails.append([] if is_new(tok) else [('raises', self.error)])
            if is_new(tok): self.tags.add('raise:' + tok.split(':')[0])
            return False
        self.dumps.append(real_dump(self.c)); self.fails.append(wfc_failures(self.c))
        if tag: self.tags.add(tag)
        if self.fails[-1]:      # the oracle failed: stop here, later choices would be made on an inconsistent graph
            self.error = 'WFc violated'
            return False
        return True

    def fresh_name(self, isfork):
        rng, c = self.rng, self.c
        d = c.forks if isfork else c.cells
        for _ in range(20):
            r = rng.random()
            if r < 0.12: name = rng.choice(SPECIAL_NAMES)
            elif r < 0.3 and len(c.nodes): name = rng.choice(c.nodes).name      # same name in the other class
            else:
                self.k += 1; name = f'{"f" if isfork else "g"}{self.k}'
            if name not in d: return name
        self.k += 1
        return f'z{self.k}'

    def add_node(self, kind=None):
        rng = self.rng
        if kind is None:
            kind = FORK if rng.random() < 0.45 else rng.choice(CELL_KINDS)
        name = self.fresh_name(kind == FORK)
        if pct(name) != name: self.tags.add('name:special')
        return self.emit(f'n:{pct(name)}:{pct(kind)}', 'op:node-fork' if kind == FORK else 'op:node-cell')

    def out_pin(self, n):
        """a well-formed driver pin spec for node n: '-' or an explicit free position"""
        rng = self.rng
        if rng.random() < 0.55: return '-'
        if n.kind == FORK:
            self.tags.add('pin:explicit-fork-end'); return str(len(n.outs))
        fp = free_pins(n.outs)
        if fp and rng.random() < 0.5:
            self.tags.add('pin:explicit-hole'); return str(rng.choice(fp))
        g = rng.choice([0, 0, 1, 2, 4])
        self.tags.add('pin:explicit-grow' if g else 'pin:explicit-end')
        return str(len(n.outs) + g)

    def in_pin(self, n):
        rng = self.rng
        if rng.random() < 0.55: return '-'
        fp = free_pins(n.ins)
        if fp and rng.random() < 0.5:
            self.tags.add('pin:explicit-hole'); return str(rng.choice(fp))
        g = rng.choice([0, 0, 1, 2, 4])
        self.tags.add('pin:explicit-grow' if g else 'pin:explicit-end')
        return str(len(n.ins) + g)

    def add_line(self, d=None, r=None):
        rng, c = self.rng, self.c
        if not c.nodes: return self.add_node()
        d = rng.choice(c.nodes) if d is None else d
        r = rng.choice(c.nodes) if r is None else r
        if d is r: self.tags.add('line:self-loop')
        return self.emit(f'l:{d.index}:{self.out_pin(d)}:{r.index}:{self.in_pin(r)}', 'op:line')

    def remove_line(self):
        rng, c = self.rng, self.c
        if not c.lines: return self.add_line()
        r = rng.random()
        l = None
        if r < 0.35:    # a line in the middle of fork outputs
            fk = [n for n in c.nodes if n.kind == FORK and len(n.outs) >= 3]
            if fk:
                n = rng.choice(fk); l = n.outs[rng.randrange(1, len(n.outs) - 1)]; self.tags.add('rl:fork-middle')
        if l is None and r < 0.5:
            l = c.lines[-1]; self.tags.add('rl:last')
        if l is None:
            l = rng.choice(c.lines)
            if l.index != len(c.lines) - 1: self.tags.add('rl:swap')
        if l.driver.kind == FORK: self.tags.add('rl:fork-driver')
        return self.emit(f'rl:{l.index}', 'op:remove-line')

    def remove_node(self):
        rng, c = self.rng, self.c
        cand = [n for n in c.nodes if not any(m is n for m in c.io_nodes)]
        if not cand: return self.add_node()
        free = [n for n in cand if node_free(c, n)]
        n = rng.choice(free) if free and rng.random() < 0.4 else rng.choice(cand)
        while True:     # lines first (indices change after every removal)
            ls = [x for x in list(n.ins) + list(n.outs) if x is not None]
            if not ls: break
            if not self.emit(f'rl:{ls[0].index}', 'op:remove-line'): return False
            self.tags.add('rn:after-lines')
        if n.index != len(c.nodes) - 1: self.tags.add('rn:swap')
        return self.emit(f'rn:{n.index}', 'op:remove-node')

    def chain(self):
        """driver -> fork -> reader : a 1:1 fork that eliminate_1to1_forks will remove"""
        rng, c = self.rng, self.c
        if len(c.nodes) < 2: return self.add_node()
        d, r = rng.choice(c.nodes), rng.choice(c.nodes)
        n_forks = rng.choice([1, 1, 2, 3])
        for _ in range(n_forks):
            if not self.add_node(FORK): return False
            f = self.c.nodes[-1]
            if not self.emit(f'l:{d.index}:{self.out_pin(d)}:{f.index}:-', 'op:line'): return False
            d = f
        self.tags.add('chain:1to1')
        return self.emit(f'l:{d.index}:-:{r.index}:{self.in_pin(r)}', 'op:line')

    def fanout(self):
        rng, c = self.rng, self.c
        fk = [n for n in c.nodes if n.kind == FORK]
        if not fk or len(c.nodes) < 2: return self.add_node(FORK)
        f = rng.choice(fk)
        for _ in range(rng.randint(2, 4)):
            if not self.add_line(d=f): return False
        return True

    def io(self):
        c = self.c
        if not c.nodes: return self.add_node()
        n = self.rng.choice(c.nodes)
        if any(m is n for m in c.io_nodes): self.tags.add('io:duplicate')
        return self.emit(f'io:{n.index}', 'op:io')

    def eliminable(self):
        ios = set(self.c.io_nodes)
        return sum(1 for n in self.c.forks.values() if n not in ios and len(n.outs) == 1)

    def elim(self):
        for _ in range(4):      # repair the forks that are not well-formed for the call, then call it
            if elim_pre(self.c): break
            self.tags.add('elim:pre-false')
            if not self.fix_for_elim(): return False
        if not elim_pre(self.c): return True
        c = self.c
        ios = set(c.io_nodes)
        k = sum(1 for n in c.forks.values() if n not in ios and len(n.outs) == 1)
        self.tags.add(f'elim:{min(k, 3)}{"+" if k > 3 else ""}-forks')
        return self.emit('elim', 'op:elim')

    def fix_for_elim(self):
        """make the offending forks well-formed for eliminate_1to1_forks (give them an input line, or drop extra inputs)"""
        c, rng = self.c, self.rng
        ios = set(c.io_nodes)
        for n in list(c.forks.values()):
            if n in ios or len(n.outs) != 1: continue
            if len(n.ins) == 0 or n.ins[0] is None:
                d = rng.choice(c.nodes)
                return self.emit(f'l:{d.index}:{self.out_pin(d)}:{n.index}:0', 'op:line')
            extra = [x for x in n.ins[1:] if x is not None]
            if extra: return self.emit(f'rl:{extra[0].index}', 'op:remove-line')
        return True

    # ---- substitute / remove_dangling_nodes / resolve_tlib_cells (Model/CircObjSub.lean)
    def rand_impl(self):
        """a small implementation circuit (random shapes of c10.rand_impl, or a cell of a built-in library), well formed"""
        from . import c10
        for _ in range(5):
            with common.quiet():
                impl, tags = c10.lib_impl(self.rng) if self.rng.random() < 0.25 else c10.rand_impl(self.rng)
            if len(impl.nodes) <= 40 and not wfc_failures(impl):
                return impl, tags + c10.impl_features(impl)
        from kyupy.circuit import Circuit
        return Circuit('impl'), ['empty']

    def instance(self, kind, impl):
        """a new cell of the given kind whose pins fit the ports of impl (some unconnected, rarely one too many)"""
        rng = self.rng
        ni = sum(1 for q in impl.io_nodes if len(q.ins) == 0)
        no = len(impl.io_nodes) - ni
        self.k += 1
        name = f'u{self.k}'
        if name in self.c.cells or not self.emit(f'n:{pct(name)}:{pct(kind)}', 'op:node-cell'): return None
        u = self.c.nodes[-1]
        p_in, p_out = rng.choice([0.0, 0.0, 0.2]), rng.choice([0.0, 0.0, 0.3])
        for k in range(ni + (1 if rng.random() < 0.02 else 0)):
            if rng.random() < p_in: self.tags.add('inst:unconn-in'); continue
            d = rng.choice([x for x in self.c.nodes if x is not u] or [None])
            if d is None: continue
            if not self.emit(f'l:{d.index}:{self.out_pin(d)}:{u.index}:{k}', 'op:line'): return None
        for k in range(no + (1 if rng.random() < 0.02 else 0)):
            if rng.random() < p_out: self.tags.add('inst:unconn-out'); continue
            if rng.random() < 0.6:
                if not self.add_node(FORK): return None
                r = self.c.nodes[-1]
            else: r = rng.choice([x for x in self.c.nodes if x is not u] or [None])
            if r is None: continue
            if not self.emit(f'l:{u.index}:{k}:{r.index}:{self.in_pin(r)}', 'op:line'): return None
        return u

    def sub(self):
        rng, c = self.rng, self.c
        impl, tags = self.rand_impl()
        if not impl_ok(impl): return True
        ni = sum(1 for q in impl.io_nodes if len(q.ins) == 0)
        no = len(impl.io_nodes) - ni
        u = None
        if rng.random() < 0.25:      # an existing cell whose pin lists are short enough (ports, self loops, gaps in the pin lists ...)
            cand = [n for n in c.nodes if n.kind != FORK and len(n.ins) <= ni and len(n.outs) <= no and sub_ok(c, n, impl)]
            if cand: u = rng.choice(cand); self.tags.add('sub:existing-cell')
        if u is None:
            u = self.instance(rng.choice(['CELLX1', 'DFFCELL', 'LATCHQ', 'CELLX1']), impl)
            if u is None: return False
        if not sub_ok(self.c, u, impl):
            self.tags.add('sub:skipped-ill-formed'); return True
        for t in tags: self.tags.add('impl:' + t)
        return self.emit(f'sub:{u.index}:{spec_of(impl)}', 'op:substitute')

    def rd(self):
        c = self.c
        if not c.nodes: return self.add_node()
        cand = [n for n in c.nodes if all(l is None for l in n.outs)]
        n = self.rng.choice(cand) if cand and self.rng.random() < 0.8 else self.rng.choice(c.nodes)
        return self.emit(f'rd:{n.index}', 'op:remove-dangling')

    def res(self):
        """instances of one to three library kinds (synthetic library of this history), then resolve_tlib_cells"""
        rng = self.rng
        if not hasattr(self, 'lib'): self.lib = {}
        for _ in range(rng.randint(1, 3)):
            if len(self.lib) < 3 and (not self.lib or rng.random() < 0.5):
                impl, tags = self.rand_impl()
                self.lib[f'LIBK{len(self.lib)}'] = impl
            kind = rng.choice(list(self.lib))
            if not impl_ok(self.lib[kind]): continue
            u = self.instance(kind, self.lib[kind])
            if u is None: return False
            if not sub_ok(self.c, u, self.lib[kind]):        # e.g. a self loop: take the instance out of the library's reach
                self.tags.add('res:skipped-ill-formed'); return True
        kinds = sorted({n.kind for n in self.c.nodes if n.kind in self.lib})
        self.tags.add(f'res:{min(sum(1 for n in self.c.nodes if n.kind in self.lib), 4)}-instances')
        return self.emit('res:' + '/'.join(f'{pct(k)}={spec_of(self.lib[k])}' for k in kinds), 'op:resolve')

    def step(self):
        rng = self.rng
        n, l = len(self.c.nodes), len(self.c.lines)
        w = dict(self.profile)
        if n < 3: w['node'] = w.get('node', 1) + 6
        if n > 40: w['rnode'] = w.get('rnode', 1) * 3
        if l > 60: w['rline'] = w.get('rline', 1) * 3
        k = self.eliminable()
        if k: w['elim'] = w.get('elim', 0.5) * (2 + k)
        ops = list(w)
        op = rng.choices(ops, [w[o] for o in ops])[0]
        return {'node': self.add_node, 'line': self.add_line, 'rline': self.remove_line, 'rnode': self.remove_node,
                'chain': self.chain, 'fanout': self.fanout, 'io': self.io, 'elim': self.elim,
                'copy': lambda: self.emit('copy', 'op:copy'), 'pickle': lambda: self.emit('pickle', 'op:pickle'),
                'gf': self.gf, 'sub': self.sub, 'rd': self.rd, 'res': self.res}[op]()

    def gf(self):
        c, rng = self.c, self.rng
        if c.forks and rng.random() < 0.5:
            name = rng.choice(list(c.forks)); self.tags.add('gf:existing')
        else:
            name = self.fresh_name(True); self.tags.add('gf:new')
        return self.emit(f'gf:{pct(name)}', 'op:get-or-add-fork')

    def run(self):
        while self.error is None and len(self.toks) < self.length:
            try:
                self.step()
            except Exception as ex:      # generator bookkeeping on objects the code under test left inconsistent
                self.error = f'generator stopped: {type(ex).__name__}: {ex}'[:200]
        return self


PROFILES = {
    'grow':    {'node': 5, 'line': 8, 'rline': 1, 'rnode': 0.5, 'chain': 2, 'fanout': 1.5, 'io': 1, 'elim': 0.3, 'copy': 0.3, 'pickle': 0.3, 'gf': 0.5,
                'sub': 0.3, 'rd': 0.2},
    'churn':   {'node': 3, 'line': 6, 'rline': 5, 'rnode': 2.5, 'chain': 1.5, 'fanout': 1.5, 'io': 0.7, 'elim': 0.6, 'copy': 0.5, 'pickle': 0.5, 'gf': 0.4,
                'sub': 0.3, 'rd': 0.5, 'res': 0.15},
    'forks':   {'node': 2, 'line': 4, 'rline': 4, 'rnode': 1, 'chain': 4, 'fanout': 4, 'io': 0.7, 'elim': 1.5, 'copy': 0.4, 'pickle': 0.4, 'gf': 0.6},
    'shrink':  {'node': 1.5, 'line': 3, 'rline': 6, 'rnode': 5, 'chain': 1, 'fanout': 1, 'io': 0.3, 'elim': 0.8, 'copy': 0.8, 'pickle': 0.8, 'gf': 0.2},
    'subst':   {'node': 3, 'line': 6, 'rline': 1.5, 'rnode': 0.7, 'chain': 1.5, 'fanout': 1.5, 'io': 1, 'elim': 0.5, 'copy': 0.3, 'pickle': 0.3, 'gf': 0.4,
                'sub': 1.6, 'rd': 0.8, 'res': 0.5},
}


def gen_history(rng, max_len):
    length = rng.choice([rng.randint(1, 12), rng.randint(8, 60), rng.randint(40, max_len), rng.randint(max_len // 2, max_len)])
    prof = rng.choice(list(PROFILES))
    return Gen(rng, length, PROFILES[prof]).run(), prof


# ---------------------------------------------------------------------------------------------- evaluation of one history
def real_trace(toks):
    """replay tokens on the real API: returns (dumps, failures per step); stops at the first exception"""
    c = new_circuit()
    dumps, fails = [], []
    for t in toks:
        try:
            c = apply_op(c, t)
        except Exception as ex:
            e = f'{type(ex).__name__}: {ex}'[:300]
            dumps.append('raised ' + e); fails.append([] if is_new(t) else [('raises', e)]); break
        dumps.append(real_dump(c)); fails.append(wfc_failures(c))
    return dumps, fails


def model_trace(toks):
    ans = common.run_driver(['circobj ' + ' '.join(toks)])[0]
    return [r.strip() for r in ans.split(' # ')] if ans.strip() else []


def first_violation(fails):
    for k, f in enumerate(fails):
        if f: return k, f
    return None


def eval_case(case):
    """ONE history (list of operation tokens) against the real code: WFc must hold after every step"""
    if case.get('kind') == 'substitute-synth':
        return eval_subst_synth(case)
    if case.get('kind') == 'substitute':
        return eval_subst(case)
    dumps, fails = real_trace(case['ops'])
    v = first_violation(fails)
    if v is None:
        return True, {'steps': len(dumps)}, None
    k, f = v
    return False, {'step': k, 'op': case['ops'][k], 'class': f[0][0], 'failures': [x[1] for x in f[:6]],
                   'dump_after': dumps[k][:1500], 'dump_before': dumps[k - 1][:1500] if k else ''}, 'WFc holds after every step'


def compare(ck, toks, dumps, name='circuit object model (Model/CircObj.lean, CircObjSub.lean) vs kyupy.circuit'):
    """model dump == real dump at every step; returns index of first differing step or None.
    Operations of Model/CircObj.lean: the model's `pre` must be 1.  substitute / remove_dangling_nodes / resolve_tlib_cells
    (Model/CircObjSub.lean): the model is applied whatever its precondition says and must produce the same dump, must raise
    exactly when the real code raises, and where its precondition holds `invOK` must hold (theorems substitute_wf,
    removeDangling_wf, resolve_wf)."""
    try:
        recs = model_trace(toks)
    except Exception as ex:
        ck.broken_tie(name, f'driver failed: {ex}'[:300], inp={'ops': toks}); return 0
    for k, d in enumerate(dumps):
        if k >= len(recs):
            ck.broken_tie(name, f'model answered {len(recs)} records for {len(toks)} operations', inp={'ops': toks[:k + 1]}); return k
        f = recs[k].split(';')
        new = is_new(toks[k])
        op = toks[k].split(':')[0]
        pre, inv, body = f[0], f[-1], ';'.join(f[1:-1])
        mraise = len(f) == 2 and f[1] == 'raise'
        if d.startswith('raised'):
            if new and mraise:
                ck.hist[f'raise-agreed:{op}'] += 1; return None
            ck.broken_tie(name, f'step {k} `{toks[k][:80]}`: real code {d}; model pre={pre}' + ('' if new else ' (operation of the base model)'),
                          inp={'ops': toks[:k + 1]}); return k
        if mraise:
            ck.broken_tie(name, f'step {k} `{toks[k][:80]}`: the model says the real code raises, it does not', inp={'ops': toks[:k + 1]}); return k
        if new: ck.hist[f'pre2:{op}:{pre}'] += 1
        elif pre != '1':
            ck.broken_tie(name, f'step {k} `{toks[k]}`: model precondition (well-formed use) is false for an operation the generator '
                          'considers well-formed', inp={'ops': toks[:k + 1]}); return k
        if canon(body) != canon(d):
            a, b = canon(body).split(';'), canon(d).split(';')
            part = next((i for i in range(min(len(a), len(b))) if a[i] != b[i]), -1)
            names = ['nodes', 'lines', 'io', 'cells', 'forks', 'stats']
            ck.broken_tie(name, f'step {k} `{toks[k][:80]}`: dumps differ in {names[part] if 0 <= part < 6 else "?"}: model {a[part][:400] if part >= 0 else body[:400]} '
                          f'!= real {b[part][:400] if part >= 0 else d[:400]}', inp={'ops': toks[:k + 1]}); return k
        ck.hist['invOK:' + inv] += 1
        if new and pre in ('0X', '0Y'):
            ck.broken_tie(name, f'step {k} `{toks[k][:80]}`: the structural precondition holds but the run-time precondition does not '
                          f'({pre}; excluded by theorems substStatic_pre0 / substStatic_pre)', inp={'ops': toks[:k + 1]}); return k
        if inv != '1':
            if new and not pre.startswith('1'):      # outside the precondition of the theorems: nothing is claimed (the oracle judged the real objects)
                ck.hist[f'invOK0-outside-pre:{op}:{pre}'] += 1; return None
            # dumps are equal and (base model) the oracle holds on the real objects / (new operations) the theorem says WFc holds
            ck.broken_tie(name, f'step {k} `{toks[k][:80]}`: invOK is false on a model state whose dump equals the real state (pre={pre})',
                          inp={'ops': toks[:k + 1]}); return k
    return None


def run_history(ck, toks, dumps, fails, tags, prof):
    removal = any(t.startswith(('rl', 'rn', 'elim', 'rd', 'sub', 'res')) for t in toks)
    ck.case(key=tuple(toks), nontrivial=len(toks) >= 8 and removal,
            sample={'profile': prof, 'ops': toks[:60], 'last_dump': dumps[-1][:600] if dumps else ''},
            tag=sorted(tags) + [f'profile:{prof}', f'len:{min(len(toks) // 40 * 40, 280)}+'])
    ck.extra['steps_compared'] = ck.extra.get('steps_compared', 0) + len(toks)
    v = first_violation(fails)
    if v is not None:
        k, f = v
        case = {'ops': toks[:k + 1]}
        ok, obs, exp = eval_case(case)
        cls = NEW_CLASS.get(toks[k].split(':')[0], '') + f[0][0] if f[0][0] != 'raises' else f[0][0]
        ck.hist['violation:' + cls] += 1
        ck.violation(cls, f'after `{toks[k][:80]}` (step {k} of the history) the circuit violates WFc: {f[0][1]}', case, obs, exp)
        # the model is compared on the prefix before the violation; a violating substitute / remove_dangling_nodes / resolve step is
        # compared too (the model transcribes the code, so it must show the same broken graph, and its precondition must be false)
        kk = k + 1 if is_new(toks[k]) else k
        toks, dumps = toks[:kk], dumps[:kk]
    compare(ck, toks, dumps)


def corpus_cases():
    import os
    p = os.path.join(common.VERIF, 'corpus', 'c09.json')
    return json.load(open(p)) if os.path.exists(p) else []


# D30 (fixed): an unconnected output pin whose implementation line leaves a fork that has a later output kept by substitute()
# left a `None` gap in the outputs of the copied fork; the repaired code (and the model) make the outputs dense again
FORK_GAP_WITNESS = ['n:a:input', 'n:u:CELLX1', 'n:o:output', 'l:0:-:1:-', 'l:1:0:2:-', 'io:0', 'io:2',
                    'sub:1:A,input|F,__fork__|X,INV1|O1,output|O2,output;0.0.1.0|1.0.3.0|1.1.2.0|2.0.4.0;0,4,3']

# D32 (fixed): feed-through implementation input -> fork -> output; before the repair the port became the designated cell and the
# graph was corrupted, now the instance is removed and the fork takes its place (C09.exFeed)
FEEDTHROUGH_WITNESS = ['n:a:input', 'n:u:CELLX1', 'n:o:output', 'l:0:-:1:-', 'l:1:0:2:-', 'io:0', 'io:2',
                       'sub:1:A,input|a,__fork__|X,output;0.0.1.0|1.0.2.0;0,2', 'copy', 'pickle']

FIXED = [
    FEEDTHROUGH_WITNESS,
    # hand-written histories: every operation kind, swap-with-last on both lists, squeeze in the middle, growth by explicit pins
    ['n:a:input', 'n:a:__fork__', 'l:0:-:1:-', 'n:g:AND2', 'l:1:-:2:1', 'l:1:-:2:0', 'n:b:__fork__', 'l:1:2:3:3', 'rl:1', 'rl:0', 'io:0',
     'n:o:output', 'l:2:4:4:2', 'rl:1', 'rn:3', 'copy', 'pickle', 'l:0:-:1:-', 'elim'],
    ['n:x:__fork__', 'n:y:__fork__', 'n:z:__fork__', 'n:c:BUF1', 'l:3:-:0:-', 'l:0:-:1:-', 'l:1:-:2:-', 'l:2:-:3:-', 'elim', 'copy'],
    ['n:%:__fork__', 'n:%:DFF', 'l:0:-:1:3', 'l:0:-:1:1', 'l:0:-:1:-', 'l:0:3:0:-', 'rl:1', 'pickle', 'rl:0', 'rl:0', 'rl:0', 'rn:0', 'rn:0'],
    # the history of the `example`s in Props/C09.lean (ends with 3 nodes, 3 lines)
    ['n:a:input', 'n:a:__fork__', 'l:0:-:1:-', 'n:g:AND2', 'l:1:-:2:1', 'l:1:-:2:0', 'n:b:__fork__', 'l:1:2:3:3', 'rl:1', 'rl:0', 'io:0',
     'n:o:output', 'l:2:4:4:2', 'rl:1', 'rn:3', 'copy', 'pickle', 'gf:a', 'gf:n', 'l:0:-:1:-', 'l:2:-:4:-', 'l:4:-:3:-', 'elim'],
    # 1:1 fork that is a self loop; cycle of two 1:1 forks (the second becomes a self loop after the first is eliminated)
    ['n:f:__fork__', 'l:0:-:0:-', 'elim', 'copy'],
    ['n:f:__fork__', 'n:g:__fork__', 'l:0:-:1:-', 'l:1:-:0:-', 'elim', 'pickle'],
    # port forks are kept; a fork whose name/kind equals a port's is the port (Node.__eq__)
    ['n:p:__fork__', 'n:q:__fork__', 'n:c:BUF1', 'io:0', 'l:0:-:1:-', 'l:1:-:2:-', 'elim', 'io:1', 'elim'],
]


# ---------------------------------------------------------------------------------------------- substitute / resolve_tlib_cells (oracle only)
SUBST_CELLS = {
    'NANGATE': ['NAND2_X1', 'AOI21_X1', 'OAI211_X1', 'FA_X1', 'HA_X1', 'MUX2_X1', 'DFF_X1', 'XOR2_X1', 'INV_X1', 'AND4_X1', 'OAI33_X1', 'DFFRS_X1'],
    'SAED32': ['NAND2X0_RVT', 'AO221X1_RVT', 'FADDX1_RVT', 'HADDX1_RVT', 'MUX41X1_RVT', 'DFFX1_RVT', 'OA222X1_RVT', 'XNOR3X1_RVT'],
    'SAED90': ['NAND2X0', 'AO221X1', 'FADDX1', 'HADDX1', 'MUX41X1', 'DFFX1', 'OAI22X1', 'XNOR3X1', 'SDFFARX1'],
    'GSC180': ['NAND2X1', 'AOI21X1', 'ADDFX1', 'ADDHX1', 'MX2X1', 'DFFX1', 'XOR2X1', 'OAI21X1', 'SDFFSRX1'],
}


def tlib_of(name):
    from kyupy import techlib
    return getattr(techlib, name)


def build_subst(case):
    """netlist of library cells: inputs (cell+fork), cells with pins connected per case, outputs; returns the real circuit"""
    from kyupy.circuit import Circuit, Node, Line
    c = Circuit('s')
    sigs = []
    for i in range(case['n_in']):
        n = Node(c, f'i{i}', 'input'); f = Node(c, f'i{i}'); Line(c, n, f); c.io_nodes.append(n); sigs.append(f)
    for k, (kind, ins, outs) in enumerate(case['cells']):
        g = Node(c, f'u{k}', kind)
        for p, s in enumerate(ins):
            if s is not None: Line(c, sigs[s % len(sigs)], (g, p))
        for p, used in enumerate(outs):
            if used:
                f = Node(c, f'u{k}_{p}'); Line(c, (g, p), f); sigs.append(f)
    for o, s in enumerate(case['outs']):
        n = Node(c, f'o{o}', 'output'); Line(c, sigs[s % len(sigs)], n); c.io_nodes.append(n)
    return c


def gen_subst(rng):
    tname = rng.choice(list(SUBST_CELLS))
    tl = tlib_of(tname)
    n_in = rng.randint(1, 5)
    cells = []
    nsig = n_in
    for k in range(rng.randint(1, 6)):
        kind = rng.choice([x for x in SUBST_CELLS[tname] if x in tl.cells] or list(tl.cells)[:5])
        pd = tl.cells[kind][1]
        n_i = sum(1 for v in pd.values() if not v[1]); n_o = sum(1 for v in pd.values() if v[1])
        full = rng.random() < 0.5
        ins = [rng.randrange(nsig) if (full or rng.random() < 0.85) else None for _ in range(n_i)]
        outs = [True if (full or rng.random() < 0.8) else False for _ in range(n_o)]
        cells.append([kind, ins, outs]); nsig += sum(outs)
    return {'kind': 'substitute', 'tlib': tname, 'n_in': n_in, 'cells': cells,
            'outs': [rng.randrange(nsig) + rng.choice([0, nsig]) for _ in range(rng.randint(1, 3))],
            'after': rng.choice(['none', 'copy', 'pickle', 'elim'])}


def eval_subst(case):
    with common.quiet():
        c = build_subst(case)
    f0 = wfc_failures(c)
    if f0:
        return False, {'class': f0[0][0], 'stage': 'build', 'failures': [x[1] for x in f0[:6]]}, 'WFc holds'
    try:
        with common.quiet():
            c.resolve_tlib_cells(tlib_of(case['tlib']))
    except Exception as ex:
        return True, {'raised': f'{type(ex).__name__}: {ex}'[:200]}, None     # success of the call itself belongs to C10
    f1 = wfc_failures(c)
    if f1:
        return False, {'class': port_class('substitute:', f1), 'stage': 'resolve_tlib_cells', 'failures': [x[1] for x in f1[:6]],
                       'dump_after': real_dump(c)[:1500]}, 'WFc holds after resolve_tlib_cells'
    try:
        if case['after'] == 'copy': c = c.copy()
        elif case['after'] == 'pickle': c = pickle.loads(pickle.dumps(c))
        elif case['after'] == 'elim' and elim_pre(c): c.eliminate_1to1_forks()
    except Exception as ex:
        return False, {'class': 'substitute:raises-after', 'stage': case['after'], 'failures': [f'{type(ex).__name__}: {ex}'[:200]]}, 'no exception'
    f2 = wfc_failures(c)
    if f2:
        return False, {'class': 'substitute:' + f2[0][0], 'stage': case['after'], 'failures': [x[1] for x in f2[:6]]}, 'WFc holds'
    return True, {'nodes': len(c.nodes), 'lines': len(c.lines)}, None


def port_class(prefix, fails):
    """one class key for the one way these two unmodelled operations are seen to break WFc (a port node removed from `nodes`
    but left in `io_nodes`); anything else keeps its own key"""
    return 'dangling-port-removed' if all(f[0] == 'io-stale' for f in fails) else prefix + fails[0][0]


def dangling_stream(ck, n):
    """remove_dangling_nodes(root) for a non-port root without output lines, after a random history (oracle only)"""
    def judge(toks, removed):
        dumps, fails = real_trace(toks)
        v = first_violation(fails)
        if v is not None:
            k, f = v
            cls = 'raises' if f[0][0] == 'raises' else port_class('dangling:', f)
            ck.hist['violation:' + cls] += 1
            ok, obs, exp = eval_case({'ops': toks[:k + 1]})
            ck.violation(cls, f'after `{toks[k]}` (remove_dangling_nodes of a non-port node without output lines): {f[0][1]}',
                         {'ops': toks[:k + 1]}, obs, exp)
        else:
            compare(ck, toks, dumps)
        return dumps
    for toks in (['n:a:input', 'io:0', 'n:g:BUF1', 'l:0:-:1:-', 'rd:1'],                       # smallest: port cell -> dangling gate
                 ['n:a:__fork__', 'io:0', 'n:g:BUF1', 'l:0:-:1:-', 'n:h:BUF1', 'l:0:-:2:-', 'n:z:output', 'l:2:-:3:-', 'rd:1']):
        ck.case(key=tuple(toks), nontrivial=True, tag=['stream:dangling', 'dangling:fixed'])
        judge(toks, 0)
    for _ in range(n):
        g = Gen(ck.rng, ck.rng.randint(3, 40), PROFILES[ck.rng.choice(['grow', 'forks'])]).run()
        if g.error is not None: continue
        if ck.rng.random() < 0.5:     # a dangling gate (optionally behind a fork) fed by a port that has no other reader
            g.length += 6
            style = ck.rng.choice(['cell', 'cell+fork', 'fork'])
            g.add_node(FORK if style == 'fork' else 'input'); port = g.c.nodes[-1]
            g.emit(f'io:{port.index}', 'op:io')
            src = port
            if style == 'cell+fork':
                g.add_node(FORK); fk = g.c.nodes[-1]; g.emit(f'l:{src.index}:-:{fk.index}:-', 'op:line'); src = fk
            g.add_node('BUF1'); gate = g.c.nodes[-1]
            g.emit(f'l:{src.index}:-:{gate.index}:-', 'op:line')
            if g.error is not None: continue
        c = g.c
        roots = [x for x in c.nodes if not any(m is x for m in c.io_nodes) and all(l is None for l in x.outs)]
        with_ins = [x for x in roots if any(l is not None for l in x.ins)]
        if with_ins and ck.rng.random() < 0.8: roots = with_ins
        if not roots:
            ck.case(key=('dangling', tuple(g.toks)), nontrivial=False, tag='stream:dangling-no-root'); continue
        root = ck.rng.choice(roots)
        toks = g.toks + [f'rd:{root.index}']
        n_before = len(c.nodes)
        dumps = judge(toks, 0)
        removed = n_before - (len(dumps[-1].split(';')[0].split('|')) if dumps and not dumps[-1].startswith('raised') and dumps[-1].split(';')[0] else 0)
        ck.case(key=tuple(toks), nontrivial=removed >= 2, tag=['stream:dangling', f'dangling:removed-{min(removed, 4)}{"+" if removed > 4 else ""}'])


def model_subst_stream(ck, n):
    """`substitute` on hosts and implementations of the C10 generators (random shapes and cells of the five built-in libraries;
    unconnected / surplus pins, permuted node orders), host loaded as pickle state: model vs real objects, then copy / pickle /
    remove_dangling_nodes / eliminate_1to1_forks on the result"""
    from . import c10
    rng = ck.rng
    for _ in range(n):
        with common.quiet():
            impl, itags = c10.lib_impl(rng) if rng.random() < 0.35 else c10.rand_impl(rng)
            c, htags = c10.rand_host(rng, impl)
        u = c.cells['u']
        if wfc_failures(c) or not impl_ok(impl) or not sub_ok(c, u, impl):
            ck.case(key=None, nontrivial=False, tag='stream:model-subst-skipped'); continue
        toks = ['st:' + spec_of(c), f'sub:{u.index}:{spec_of(impl)}']
        for _ in range(rng.randint(0, 3)):
            a = rng.choice(['copy', 'pickle', 'rd', 'elim'])
            toks.append(f'rd:{rng.randrange(max(1, len(c.nodes)))}' if a == 'rd' else a)
        dumps, fails = real_trace(toks)
        if len(dumps) < len(toks) or any(f for f in fails) or any(t == 'elim' for t in toks):
            # keep the prefix that ran; `elim` only where it is a well-formed use (checked on the replayed objects)
            toks, dumps, fails = trim_to_wellformed(toks)
        tags = {'stream:model-subst', 'host:regular' if c10.is_regular(c, u, impl) else 'host:not-regular'} | \
               {f'impl:{t}' for t in itags + c10.impl_features(impl)} | {f'host:{t}' for t in htags}
        run_history(ck, toks, dumps, fails, tags, 'model-subst')


def gap_impl(rng):
    """implementation in port-cell style whose forks drive several output ports and gates in random pin order: with some
    instance outputs open, the copied forks get `None` gaps that substitute() has to squeeze out again (D30)"""
    from kyupy.circuit import Circuit, Node, Line
    m = Circuit('m')
    forks = []
    for k in range(rng.randint(1, 3)):
        a = Node(m, f'A{k}', 'input'); m.io_nodes.append(a); f = Node(m, f'A{k}'); Line(m, a, f); forks.append(f)
    for g in range(rng.randint(1, 4)):
        x = Node(m, f'G{g}', rng.choice(['INV1', 'AND2', 'OR2', 'DFF']))
        for _ in range(rng.randint(1, 2)): Line(m, rng.choice(forks), x)
        f = Node(m, f'G{g}'); Line(m, x, f); forks.append(f)
    conns = []
    for k in range(rng.randint(1, 4)):
        o = Node(m, f'O{k}', 'output'); m.io_nodes.append(o); conns.append((rng.choice(forks[1:] or forks), o))
    for g in range(rng.randint(0, 3)):
        x = Node(m, f'H{g}', 'BUF1'); conns.append((rng.choice(forks), x))
        fo = Node(m, f'H{g}'); Line(m, x, fo)
        o = Node(m, f'OH{g}', 'output'); m.io_nodes.append(o); Line(m, fo, o)
    rng.shuffle(conns)
    for f, t in conns: Line(m, f, t)
    if rng.random() < 0.5:
        try: m.eliminate_1to1_forks()
        except Exception: pass
    return m


def model_gap_stream(ck, n):
    """substitute with open output pins on implementations whose forks then have gaps to be squeezed out (D30), then copy / pickle"""
    rng = ck.rng
    for _ in range(n):
        with common.quiet(): m = gap_impl(rng)
        if not impl_ok(m):
            ck.case(key=None, nontrivial=False, tag='stream:model-gap-skipped'); continue
        nin = sum(1 for q in m.io_nodes if len(q.ins) == 0)
        nout = len(m.io_nodes) - nin
        toks = ['n:i0:input', 'n:s0:__fork__', 'l:0:-:1:-', 'io:0', 'n:u:CELLX1']
        for k in range(nin):
            if rng.random() < 0.85: toks.append(f'l:1:-:2:{k}')
        nn, n_open = 3, 0
        for k in range(nout):
            if rng.random() < 0.55:
                toks += [f'n:o{k}:output', f'l:2:{k}:{nn}:-', f'io:{nn}']; nn += 1
            else: n_open += 1
        toks += ['sub:2:' + spec_of(m), rng.choice(['copy', 'pickle'])]
        toks, dumps, fails = trim_to_wellformed(toks)
        run_history(ck, toks, dumps, fails, {'stream:model-gap', f'gap:open-outputs-{min(n_open, 3)}'}, 'model-gap')


def trim_to_wellformed(toks):
    """replay; stop before an `elim` that is not a well-formed use and after the first exception / WFc failure"""
    c = new_circuit()
    out, dumps, fails = [], [], []
    for t in toks:
        if t == 'elim' and not elim_pre(c): continue
        if t.startswith('rd:') and int(t[3:]) >= len(c.nodes): continue
        out.append(t)
        try:
            c = apply_op(c, t)
        except Exception as ex:
            e = f'{type(ex).__name__}: {ex}'[:300]
            dumps.append('raised ' + e); fails.append([] if is_new(t) else [('raises', e)]); break
        dumps.append(real_dump(c)); fails.append(wfc_failures(c))
        if fails[-1]: break
    return out, dumps, fails


def model_resolve_stream(ck, n):
    """`resolve_tlib_cells` with the built-in library OBJECTS on random netlists of their cells (some pins unconnected): the
    model gets the implementations of the kinds in use; then copy / pickle / remove_dangling_nodes on the result"""
    from . import c10
    rng = ck.rng
    for _ in range(n):
        if rng.random() < 0.6:
            case = gen_subst(rng)
            with common.quiet(): c = build_subst(case)
            tname = case['tlib']
        else:
            tname = rng.choice(c10.LIBS)
            with common.quiet():
                c = c10.rand_lib_circuit(rng, c10.get_tlib(tname), special=c10.SPECIAL.get(tname),
                                         p_unconn_in=rng.choice([0.0, 0.08, 0.2]), p_unconn_out=rng.choice([0.0, 0.15, 0.4]))
                if rng.random() < 0.4: c = c10.permuted(rng, c)
        tl = tlib_of(tname)
        kinds = sorted({x.kind for x in c.nodes if x.kind in tl.cells})
        if wfc_failures(c) or not all(impl_ok(tl.cells[k][0]) for k in kinds):
            ck.case(key=None, nontrivial=False, tag='stream:model-resolve-skipped'); continue
        toks = ['st:' + spec_of(c), f'rtl:{tname}:{lib_spec(tl, kinds)}']
        for _ in range(rng.randint(0, 2)):
            a = rng.choice(['copy', 'pickle', 'rd'])
            toks.append(f'rd:{rng.randrange(max(1, len(c.nodes)))}' if a == 'rd' else a)
        toks, dumps, fails = trim_to_wellformed(toks)
        unconn = any(l is None for x in c.nodes if x.kind in tl.cells for l in list(x.ins) + list(x.outs))
        run_history(ck, toks, dumps, fails, {'stream:model-resolve', 'lib:' + tname, f'instances:{min(len(kinds), 4)}',
                                             'resolve:unconnected-pins' if unconn else 'resolve:all-connected'}, 'model-resolve')


def subst_stream(ck, n):
    for _ in range(n):
        try:
            case = gen_subst(ck.rng)
            ok, obs, exp = eval_case(case)
        except Exception as ex:     # e.g. kyupy.techlib cannot even be imported (its libraries are built with eliminate_1to1_forks)
            ck.broken_tie('substitute oracle', f'could not run: {type(ex).__name__}: {ex}'[:300], kind='broken-oracle')
            ck.hist['subst:could-not-run'] += 1
            return
        unconn = any(s is None for _, ins, _ in case['cells'] for s in ins) or any(not u for _, _, outs in case['cells'] for u in outs)
        tags = ['stream:substitute', 'subst:' + case['tlib'], 'subst:unconnected-pins' if unconn else 'subst:all-connected']
        if 'raised' in obs: tags.append('subst:raised:' + obs['raised'].split(':')[0])
        ck.case(key=json.dumps(case, sort_keys=True), nontrivial=len(case['cells']) >= 2, tag=tags)
        if not ok:
            ck.hist['violation:' + obs['class']] += 1
            ck.violation(obs['class'], f"resolve_tlib_cells({case['tlib']}) [{obs['stage']}]: {obs['failures'][0]}", case, obs, exp)


def subst_synth_stream(ck, n):
    """`Circuit.substitute` with random implementation circuits (designated cell, ignored inputs, outputs read internally, no
    output, state elements … — shapes no built-in library cell has) on random hosts: WFc on the real objects afterwards, and after
    copy / pickle of the result"""
    import pickle as pk, base64
    from . import c10
    for _ in range(n):
        st = ck.rng.getstate()
        seed = ck.rng.randint(0, 2 ** 31 - 1)
        case = {'kind': 'substitute-synth', 'seed': seed}
        ok, obs, exp = eval_subst_synth(case)
        ck.case(key=('subst-synth', seed), nontrivial=obs.get('impl_nodes', 0) > 0 and not obs.get('raised'),
                tag=['stream:substitute-synth'] + [f'synth:{t}' for t in obs.get('tags', [])][:8])
        if not ok:
            ck.violation(obs['class'], f"substitute(random implementation) [{obs['stage']}]: {obs['failures'][0]}", case, obs, exp)


def eval_subst_synth(case):
    import random, pickle as pk
    from . import c10
    rng = random.Random(case['seed'])
    with common.quiet():
        impl, itags = c10.rand_impl(rng)
        c, htags = c10.rand_host(rng, impl)
    u = c.cells['u']
    info = {'tags': itags + c10.impl_features(impl), 'impl_nodes': len(impl.nodes)}
    f0 = wfc_failures(c)
    if f0: return True, dict(info, skipped='host not well formed'), None
    try:
        with common.quiet(): c.substitute(u, impl)
    except Exception as ex:
        return True, dict(info, raised=f'{type(ex).__name__}: {ex}'[:200]), None     # success of the call itself belongs to C10
    f1 = wfc_failures(c)
    if f1:
        return False, dict(info, **{'class': port_class('substitute:', f1), 'stage': 'substitute', 'failures': [x[1] for x in f1[:6]],
                                    'dump_after': real_dump(c)[:1500]}), 'WFc holds after substitute'
    for stage, fn in (('copy', lambda x: x.copy()), ('pickle', lambda x: pk.loads(pk.dumps(x)))):
        try:
            c2 = fn(c)
        except Exception as ex:
            return False, dict(info, **{'class': 'substitute:raises-after', 'stage': stage, 'failures': [f'{type(ex).__name__}: {ex}'[:200]]}), 'no exception'
        f2 = wfc_failures(c2)
        if f2:
            return False, dict(info, **{'class': 'substitute:' + f2[0][0], 'stage': stage, 'failures': [x[1] for x in f2[:6]]}), 'WFc holds'
    return True, info, None


# ---------------------------------------------------------------------------------------------- domain boundary probes (notes only)
def boundary_notes(ck):
    """what the real code does OUTSIDE well-formed use (DESIGN.md section 7): recorded as notes, never as violations"""
    probes = {
        'explicit pin on an occupied position': ['n:a:AND2', 'n:b:__fork__', 'l:1:-:0:0', 'l:1:-:0:0'],
        'explicit fork output pin beyond len(outs)': ['n:a:AND2', 'n:b:__fork__', 'l:1:2:0:0'],
        'node removed before its lines': ['n:a:AND2', 'n:b:__fork__', 'l:1:-:0:0', 'rn:0'],
        'port node removed': ['n:a:input', 'io:0', 'rn:0', 'copy'],
        'eliminate_1to1_forks with a 1:1 fork that has no input line': ['n:f:__fork__', 'n:g:BUF1', 'l:0:-:1:-', 'elim'],
        'eliminate_1to1_forks with a 1:1 fork that has two input lines': ['n:f:__fork__', 'n:g:BUF1', 'n:h:BUF1', 'l:0:-:1:-', 'l:2:-:0:-', 'l:1:-:0:-', 'elim'],
        'duplicate cell name': ['n:a:AND2', 'n:a:OR2'],
        'remove_dangling_nodes called on a port itself': ['n:a:input', 'io:0', 'rd:0'],
        'substitute of a cell with a line from its own output to its own input':
            ['n:a:input', 'n:u:CELLX1', 'n:o:output', 'l:0:-:1:0', 'l:1:0:1:1', 'l:1:1:2:-', 'io:0', 'io:2',
             'sub:1:A,__fork__|B,__fork__|X,AND2|X,__fork__|Y,BUF1|Y,__fork__;0.0.2.0|1.0.2.1|2.0.3.0|3.0.4.0|4.0.5.0;0,1,3,5'],
    }
    for what, toks in probes.items():
        dumps, fails = real_trace(toks)
        v = first_violation(fails)
        res = 'WFc still holds' if v is None else f'step {v[0]} `{toks[v[0]]}` -> {v[1][0][0]}: {v[1][0][1]}'
        if False:
            mp = 'not modelled'
        else:
            try:
                mp = 'model pre=' + ''.join(r.split(';')[0] for r in model_trace(toks))
            except Exception as ex:
                mp = f'model: {ex}'
        ck.notes.append(f'outside well-formed use — {what}: {res}; {mp}')


def run(ck):
    ck.prove([], TARGETS, theorems())
    max_len = 120 if ck.tier == 'quick' else 300
    n_hist = 140 * (1 if ck.tier == 'quick' else 6)
    for toks in [FORK_GAP_WITNESS] + [c['ops'] for c in corpus_cases() if 'ops' in c] + FIXED:
        dumps, fails = real_trace(toks)
        run_history(ck, toks, dumps[:len(toks)], fails, {'stream:fixed'}, 'fixed')
    def stream(n):
        for _ in range(n):
            g, prof = gen_history(ck.rng, max_len)
            run_history(ck, g.toks, g.dumps, g.fails, g.tags | {'stream:history'}, prof)
    stream(n_hist)
    model_subst_stream(ck, 120 * ck.scale)
    model_resolve_stream(ck, 50 * ck.scale)
    model_gap_stream(ck, 60 * ck.scale)
    subst_stream(ck, 60 * ck.scale)
    subst_synth_stream(ck, 150 * ck.scale)
    dangling_stream(ck, 40 * ck.scale)
    try:
        boundary_notes(ck)
    except Exception as ex:
        ck.notes.append(f'boundary probes failed: {type(ex).__name__}: {ex}')
    if ck.broken and not ck.violations:
        stream(n_hist * 8)
    ck.assumptions += ['Python object identity is modelled by explicit ids (fresh id = heap counter); dead objects stay in the heap',
                       'well-formed use (DESIGN.md section 7) is evaluated by the generator on the real objects and by `pre` on the model; '
                       'both must agree (pre = 1 at every generated step)',
                       'substitute / resolve_tlib_cells / remove_dangling_nodes: modelled at object level (Model/CircObjSub.lean), same dump '
                       'after the call and the same raising cases; node-keyed sets/dictionaries of the real code compare by Node.__eq__ '
                       '(name, kind) and so does the model; the generator applies them as well-formed uses (sub_ok / impl_ok), the '
                       "model's precondition `substPre` (which also contains the run-time pin guards and gap-freeness of the new fork "
                       'outputs) is reported per step in the histogram (`pre2:<op>:<value>`)']
    return ck.finish(RULE)


def replay(rep):
    ok, obs, exp = eval_case(rep['input'])
    print(json.dumps({'ok': ok, 'observed': obs, 'expected': exp}, default=str))
    return 0 if ok else 1
