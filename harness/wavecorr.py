"""WaveSim helpers: random delays/stimuli on a dyadic grid, waveform read-back, model requests."""
import random
import numpy as np
from . import common, circ

GRID = 2  # times are multiples of 1/GRID


def consts():
    from kyupy.wave_sim import TMIN, TMAX, TMAX_OVL
    return float(TMIN), float(TMAX), float(TMAX_OVL)


def enc(t):
    TMIN, TMAX, TOVL = consts()
    t = float(t)
    if t <= TMIN: return 'm'
    if t == TMAX: return 'M'
    if t >= TOVL: return 'O'
    v = t * GRID
    if v != round(v) or abs(v) > 2 ** 22:
        raise OffGrid(t)
    return str(int(round(v)))


class OffGrid(Exception):
    pass


def dec(tok):
    TMIN, TMAX, TOVL = consts()
    return {'m': TMIN, 'M': TMAX, 'O': TOVL}.get(tok, None) if tok in 'mMO' else int(tok) / GRID


def read_wave(c, loc, cap, sim):
    """entries before the terminator, terminator token"""
    TMIN, TMAX, TOVL = consts()
    ents = []
    for k in range(cap):
        t = float(c[loc + k, sim])
        if t >= TMAX:
            return ents, enc(t)
        ents.append(t)
    return ents, '?'   # no terminator inside the capacity: must never happen


def fmt_wave(ents, term):
    return f"{','.join(enc(t) for t in ents) or '-'}:{term}"


def rand_delays(rng, n_lines, datasets=1, polarity_dependent=True, zero_forks=None):
    """array [datasets, n_lines, 2, 2] of non-negative dyadic delays"""
    d = np.zeros((datasets, n_lines, 2, 2), dtype=np.float32)
    choices = [0, 0.5, 1, 1.5, 2, 3, 5, 9]
    for ds in range(datasets):
        for l in range(n_lines):
            if polarity_dependent and rng.random() < 0.6:
                d[ds, l] = [[rng.choice(choices) for _ in range(2)] for _ in range(2)]
            else:
                d[ds, l] = rng.choice(choices)
    if zero_forks is not None:
        for l in zero_forks: d[:, l] = 0
    return d


STATS = {'sims': 0, 'warmed': 0}


def make_sim(c, delays, sims, c_caps=16, strip=False, reuse=False, cuda=False, a_ctrl=None, warm='auto'):
    """a simulator object ready for a stimulus. In 2 of 5 cases (decided by a checksum of the delays, so that a case replays
    exactly) the object has a HISTORY: an earlier, unrelated simulation (random stimulus with multi-transition input
    waveforms, propagation, capture) has already run on it, as when one simulator serves many test vectors. Results must not
    depend on what the object computed before; stale waveform cells, captured values and accumulators are left in place
    (the accumulation buffer is reset, accumulation over calls being intended)."""
    import zlib
    from kyupy import wave_sim
    cls = wave_sim.WaveSimCuda if cuda else wave_sim.WaveSim
    with common.quiet():
        ws = cls(c, delays, sims=sims, c_caps=c_caps, a_ctrl=a_ctrl, c_reuse=reuse, strip_forks=strip)
    ws.simctl_int[0] = 0
    ws.simctl_int[1] = 0
    STATS['sims'] += 1
    seed = zlib.crc32(np.ascontiguousarray(delays).tobytes()) if warm == 'auto' else warm
    if seed is not None and (warm != 'auto' or seed % 5 < 2):
        STATS['warmed'] += 1
        rs = random.Random(seed)
        i, t, f = rand_stim(rs, ws.s_len, sims)
        ws.s[0] = i; ws.s[1] = t; ws.s[2] = f
        ws.s_to_c()
        overwrite_inputs(ws, rs, p=0.7)
        with common.quiet():
            ws.c_prop(); ws.c_to_s(time=np.float32(rs.choice([12.0, 30.0])))
        if getattr(ws, 'abuf', None) is not None:
            try: ws.abuf[...] = 0
            except Exception: pass
    if warm == 'auto' and (seed % 7 == 3 or (cuda and seed % 3 == 1)):
        # the object has been through a pickle round trip (as when simulators are shipped to worker processes): it must
        # behave like the original (WaveSimCuda has its own __getstate__/__setstate__)
        import pickle
        STATS['pickled'] = STATS.get('pickled', 0) + 1
        with common.quiet():
            ws = pickle.loads(pickle.dumps(ws))
    return ws


def rand_stim(rng, s_len, sims, tmax=40):
    """(init, time, final) arrays [s_len, sims]"""
    i = np.array([[rng.random() < 0.5 for _ in range(sims)] for _ in range(s_len)], dtype=np.float32)
    f = np.array([[rng.random() < 0.5 for _ in range(sims)] for _ in range(s_len)], dtype=np.float32)
    t = np.array([[rng.randrange(0, tmax * GRID) / GRID for _ in range(sims)] for _ in range(s_len)], dtype=np.float32)
    return i, t, f


def assign(ws, i, t, f):
    """assign a stimulus; afterwards `ws.assign_mismatch` describes the first input slot whose waveform in memory is not the
    one asked for ((initial, time, final) -> [], [t], [TMIN, t] or [TMIN], terminated), or is None"""
    ws.s[0] = i; ws.s[1] = t; ws.s[2] = f
    ws.s_to_c()
    TMIN, TMAX, TOVL = consts()
    cc = np.array(ws.c)
    ws.assign_mismatch = None
    for s_loc in ws.pippi_s_locs:
        idx = ws.ppi_offset + int(s_loc)
        loc, cap = int(ws.c_locs[idx]), int(ws.c_caps[idx])
        if loc < 0: continue
        for sim in range(ws.sims):
            a, b, tt = bool(i[s_loc, sim] >= 0.5), bool(f[s_loc, sim] >= 0.5), float(t[s_loc, sim])
            want = ([TMIN] if a else []) + ([tt] if a != b else [])
            ents, term = read_wave(cc, loc, cap, sim)
            if [float(x) for x in ents] != want or term != 'M':
                ws.assign_mismatch = {'s_node': int(s_loc), 'lane': sim, 'assigned': [int(a), tt, int(b)], 'waveform_in_memory': fmt_wave(ents, term)}
                return


def overwrite_inputs(ws, rng, p=0.5, tmax=40):
    """replace some input waveforms by multi-transition ones (capacity of a (P)PI slot is c_caps_min = 4:
    at most 3 entries). returns nothing; the waveforms are read back from memory afterwards."""
    TMIN, TMAX, TOVL = consts()
    for loc in ws.pippi_c_locs:
        for sim in range(ws.sims):
            if rng.random() < p:
                n = rng.randint(0, 3)
                lead = rng.random() < 0.5 and n > 0
                ts = sorted(rng.sample(range(0, tmax * GRID), n - (1 if lead else 0)))
                w = ([TMIN] if lead else []) + [x / GRID for x in ts]
                for k, v in enumerate(w): ws.c[loc + k, sim] = v
                ws.c[loc + len(w), sim] = TMAX


def model_stems(c, strip):
    """branch -> stem map of the Lean `SimOps` model (`stemList` = `stemsOf net true`, i.e. `MapIn.src`) for circuit `c`;
    empty without fork stripping"""
    if not strip: return {}
    order = ','.join(str(n.index) for n in c.topological_order())
    ans = common.run_driver([f'net {circ.dump_net(c)}', f'forkcert {order}'])[1]
    body = ans.split('stems=', 1)[1] if 'stems=' in ans else ''
    return {int(b): int(t) for b, t in (x.split(':') for x in body.split(',') if x)}


def model_request(ws, sim, dataset=0, stems=None):
    """`wavesim` request line for lane `sim` of a WaveSim object whose inputs are assigned (before or after c_prop:
    input slots are never overwritten). `stems`: branch -> stem map used to resolve the value sources of the rows (needed
    with memory reuse, where a location does not identify its owner); default: read the owner off `c_locs`."""
    opsA = np.array(ws.ops)
    locs = np.array(ws.c_locs)
    written = set(int(r[1]) for r in opsA) | set(ws.ppi_offset + int(s) for s in ws.pippi_s_locs)
    by_loc = {}
    for w in written: by_loc.setdefault(int(locs[w]), w)
    def src(i):
        i = int(i)
        if stems is not None: return stems.get(i, i)
        if i in written: return i
        return by_loc.get(int(locs[i]), i)   # stripped fan-out branch: the signal that owns its memory (the stem)
    ops = ' '.join(','.join(str(x) for x in [int(row[0]), int(row[1])] + [src(v) for v in row[2:6]] + [int(v) for v in row[2:6]])
                   for row in opsA)
    d = np.array(ws.delays)[dataset]
    dels = ' '.join(','.join(str(int(round(float(d[l, p, q]) * GRID))) for p in range(2) for q in range(2)) for l in range(d.shape[0]))
    caps = ','.join(str(int(x)) for x in np.array(ws.c_caps))
    c = np.array(ws.c)
    stim = []
    for s_loc in ws.pippi_s_locs:
        idx = ws.ppi_offset + int(s_loc)
        loc, cap = int(ws.c_locs[idx]), int(ws.c_caps[idx])
        ents, term = read_wave(c, loc, cap, sim)
        stim.append(f'{idx}={fmt_wave(ents, term)}')
    return f"wavesim {ops} ; {dels} ; {caps} ; {' '.join(stim)}"


def ppo_memory(c, ws, sim, stems):
    """what the REAL memory holds at every output slot, read the way the Lean model reads a region (`Wave.rdWave`: entries
    up to the first terminator inside `c_caps` of the SLOT index, addressed through `c_locs` of the SLOT index), together with
    the signal the slot captures (`MapIn.ppoSrcs`: the data line of the interface node, resolved through the stems).
    -> list of (slot index, captured signal, token)"""
    cc = np.array(ws.c)
    out = []
    for s_loc in ws.poppo_s_locs:
        n = c.s_nodes[int(s_loc)]
        if len(n.ins) == 0 or n.ins[0] is None: continue
        l = int(n.ins[0].index)
        j = ws.ppo_offset + int(s_loc)
        ents, term = read_wave(cc, int(ws.c_locs[j]), int(ws.c_caps[j]), sim)
        out.append((j, stems.get(l, l), fmt_wave(ents, term) if term != '?' else '?'))
    return out


def owner_caps(ws):
    """memory location -> capacity of the signal that is WRITTEN there (op output or input slot); only meaningful without
    memory reuse, where every written signal has its own region"""
    opsA = np.array(ws.ops)
    written = set(int(r[1]) for r in opsA) | set(ws.ppi_offset + int(s) for s in ws.pippi_s_locs)
    out = {}
    for w in written:
        if int(ws.c_locs[w]) >= 0: out.setdefault(int(ws.c_locs[w]), int(ws.c_caps[w]))
    return out


def real_signals(ws, sim):
    """token per signal index (as the driver prints): waveform of every signal that an op or the stimulus writes"""
    c = np.array(ws.c)
    ops = np.array(ws.ops)
    written = set(int(r[1]) for r in ops) | set(ws.ppi_offset + int(s) for s in ws.pippi_s_locs)
    out = []
    for idx in range(len(ws.c_locs)):
        if idx in written and int(ws.c_locs[idx]) >= 0:
            ents, term = read_wave(c, int(ws.c_locs[idx]), int(ws.c_caps[idx]), sim)
            out.append(fmt_wave(ents, term))
        else:
            out.append('.')
    return out
