"""Random circuits through kyupy's public API, canonical dumps for the Lean driver."""
import random

KINDS = {
    1: ['BUF1', 'INV1', 'NOT1', 'buf', 'not', 'inv', 'NBUFFX2', 'IBUFFX2'],
    2: ['AND2', 'NAND2', 'OR2', 'NOR2', 'XOR2', 'XNOR2', 'and', 'nand', 'or', 'nor', 'xor', 'xnor', 'ISOLORX1'],
    3: ['AND3', 'NAND3', 'OR3', 'NOR3', 'XOR3', 'XNOR3', 'AO21', 'AOI21', 'OA21', 'OAI21', 'MUX21', 'and', 'nor', 'xor'],
    4: ['AND4', 'NAND4', 'OR4', 'NOR4', 'XOR4', 'XNOR4', 'AO22', 'AOI22', 'OA22', 'OAI22', 'AO211', 'AOI211',
        'OA211', 'OAI211', 'and', 'or', 'xnor', 'nand'],
}
CONSTS = ['__const0__', '__const1__', 'TIEH', 'TIEL']


def pct(s):
    """percent-encode a name so that it contains no blank, comma, semicolon or bar"""
    return ''.join(ch if (ch.isalnum() or ch in '_[]~/.-') else '%%%02x' % ord(ch) for ch in s) or '%'


def rand_circuit(rng, n_in=None, n_gates=None, n_out=None, n_ff=None, style=None, p_unconn=0.1,
                 p_direct=0.2, allow_consts=True, two_out_ff=True, p_dangling=0.1, xor_bias=0.0, p_orphan_ff=0.12, p_forkchain=0.12, p_const=0.04, p_wide=0.0):
    """returns a kyupy Circuit. style 'v': ports are cells 'input'/'output' around forks (Verilog reader style);
    style 'b': ports are forks (bench reader style).  p_wide > 0: gates with 5..9 input pins (and/nand/or/nor/xor/xnor kinds) —
    OUTSIDE the arity domain `Net.arityOKB` of the theorems (known finding D33); no random number is drawn for it when p_wide = 0."""
    from kyupy.circuit import Circuit, Node, Line
    n_in = n_in if n_in is not None else rng.randint(1, 6)
    n_gates = n_gates if n_gates is not None else rng.randint(1, 25)
    n_out = n_out if n_out is not None else rng.randint(1, 4)
    n_ff = n_ff if n_ff is not None else rng.choice([0, 0, 0, 1, 2, 3])
    style = style or rng.choice(['v', 'v', 'b'])
    c = Circuit('rand')
    sigs = []          # fork nodes that can be read
    # inputs
    for i in range(n_in):
        name = f'i{i}'
        if style == 'v':
            n = Node(c, name, 'input'); f = Node(c, name); Line(c, n, f); c.io_nodes.append(n)
        else:
            f = Node(c, name); c.io_nodes.append(f)
        sigs.append(f)
    # state elements: outputs available from the start, data pins connected at the end
    ffs = []
    for k in range(n_ff):
        kind = rng.choice(['DFF', 'DFF', 'dff', 'SDFFX1', 'LATCH', 'latch'])
        ff = Node(c, f'ff{k}', kind)
        only_qn = two_out_ff and rng.random() < 0.2      # first output left unconnected, second one used
        if rng.random() < p_orphan_ff:                   # capture-only state element: no output connected (no (P)PI memory)
            ffs.append(ff); continue
        if not only_qn:
            q = Node(c, f'q{k}'); Line(c, (ff, 0), q); sigs.append(q)
        if only_qn or (two_out_ff and rng.random() < 0.4):
            qn = Node(c, f'qn{k}'); Line(c, (ff, 1), qn); sigs.append(qn)
        ffs.append(ff)
    direct = []        # gate nodes whose output is not yet connected (for 1:1 direct lines)
    for g in range(n_gates):
        r = rng.random()
        if allow_consts and r < p_const:
            kind = rng.choice(CONSTS); ar = 0
        else:
            ar = rng.choice([1, 2, 2, 2, 3, 3, 4, 4])
            kind = rng.choice(KINDS[ar])
            if xor_bias and rng.random() < xor_bias and ar >= 2:
                kind = rng.choice(['XOR', 'XNOR']) + str(ar)      # transition-rich circuits (long waveforms, overflows)
            if p_wide and rng.random() < p_wide:
                ar = rng.randint(5, 9)
                fam = rng.choice(['AND', 'NAND', 'OR', 'NOR', 'XOR', 'XNOR'])
                kind = rng.choice([fam, fam.lower(), f'{fam}{ar}'])
        node = Node(c, f'g{g}', kind)
        for pin in range(ar):
            if rng.random() < p_unconn and not (ar == 1):
                continue   # leave this pin unconnected (reads as constant 0)
            if direct and rng.random() < p_direct:
                d = direct.pop(rng.randrange(len(direct)))
                Line(c, (d, 0), (node, pin))
            else:
                src = rng.choice(sigs) if rng.random() < 0.7 else sigs[-1 - rng.randrange(min(len(sigs), 4))]
                Line(c, src, (node, pin))
        if rng.random() < p_direct:
            direct.append(node)
        elif rng.random() < p_dangling:
            pass           # output left unconnected
        elif rng.random() < p_forkchain:
            # fork driving a fork, the DOWNSTREAM fork created first (as substitute() or hand-built circuits do): circuit.forks is
            # then not in topological order
            f2 = Node(c, f'g{g}_b'); f = Node(c, f'g{g}'); Line(c, (node, 0), f); Line(c, f, f2)
            sigs.append(f2)
            if rng.random() < 0.5: sigs.append(f)
        else:
            f = Node(c, f'g{g}'); Line(c, (node, 0), f); sigs.append(f)
    for d in direct:   # give leftover direct gates a fork
        f = Node(c, d.name); Line(c, (d, 0), f); sigs.append(f)
    # flip-flop data (and clock) pins
    for ff in ffs:
        Line(c, rng.choice(sigs), (ff, 0))
        if rng.random() < 0.5:
            Line(c, rng.choice(sigs), (ff, 1))
    # outputs
    cand = [s for s in sigs]
    for o in range(n_out):
        src = rng.choice(cand[-max(3, len(cand) // 2):])
        if style == 'v':
            n = Node(c, f'o{o}', 'output'); Line(c, src, n); c.io_nodes.append(n)
        else:
            # bench style: the output port is a fork
            internal = [f for f in sigs if len(f.ins) > 0 and f not in c.io_nodes and f.kind == '__fork__']
            if internal and rng.random() < 0.5:
                c.io_nodes.append(rng.choice(internal))       # an output that may also be read inside the circuit
            else:
                b = Node(c, f'o{o}', 'BUF1'); Line(c, src, b)
                f = Node(c, f'o{o}'); Line(c, b, f); c.io_nodes.append(f)
    return c


def has_wide(c):
    """some node that is neither fork nor state element has more than four input pin slots (outside `Net.arityOKB`)"""
    return any(len(n.ins) > 4 for n in c.nodes
               if n.kind != '__fork__' and 'dff' not in n.kind.lower() and 'latch' not in n.kind.lower())


# n-ary ground truth (audit finding 1 / known finding D33): gate-by-gate evaluation in which a variadic kind folds its operator over
# ALL input pins.  Independent of the Lean evaluator and of kyupy's tables; unconnected pins read 0, a variadic gate has at least
# two operand slots.
_VARIADIC = {'and': lambda x: int(all(x)), 'nand': lambda x: 1 - int(all(x)), 'or': lambda x: int(any(x)), 'nor': lambda x: 1 - int(any(x)),
             'xor': lambda x: sum(x) & 1, 'xnor': lambda x: 1 - (sum(x) & 1)}
_FIXED = {'isolor': lambda a: a[0] | a[1], 'not': lambda a: 1 - a[0], 'inv': lambda a: 1 - a[0], 'ibuf': lambda a: 1 - a[0],
          '__const1__': lambda a: 1, 'tieh': lambda a: 1, 'buf': lambda a: a[0], 'nbuf': lambda a: a[0], 'delln': lambda a: a[0],
          '__const0__': lambda a: 0, 'tiel': lambda a: 0,
          'ao21': lambda a: (a[0] & a[1]) | a[2], 'aoi21': lambda a: 1 - ((a[0] & a[1]) | a[2]),
          'oa21': lambda a: (a[0] | a[1]) & a[2], 'oai21': lambda a: 1 - ((a[0] | a[1]) & a[2]),
          'ao22': lambda a: (a[0] & a[1]) | (a[2] & a[3]), 'aoi22': lambda a: 1 - ((a[0] & a[1]) | (a[2] & a[3])),
          'oa22': lambda a: (a[0] | a[1]) & (a[2] | a[3]), 'oai22': lambda a: 1 - ((a[0] | a[1]) & (a[2] | a[3])),
          'ao211': lambda a: (a[0] & a[1]) | a[2] | a[3], 'aoi211': lambda a: 1 - ((a[0] & a[1]) | a[2] | a[3]),
          'oa211': lambda a: (a[0] | a[1]) & a[2] & a[3], 'oai211': lambda a: 1 - ((a[0] | a[1]) & a[2] & a[3]),
          'mux21': lambda a: a[1] if a[2] else a[0]}


def nary_gate(lkind, xs):
    fams = [f for f in list(_VARIADIC) + list(_FIXED) if lkind.startswith(f)]
    if not fams: return None
    f = max(fams, key=len)
    if f in _VARIADIC: return _VARIADIC[f](list(xs) + [0] * (2 - len(xs)))
    return _FIXED[f](list(xs) + [0] * (4 - len(xs)))


def nary_captures(c, assign):
    """assign: 0/1 per s_nodes position.  returns per position the captured value (None where nothing is captured / unknown kind)"""
    spos = {id(n): i for i, n in enumerate(c.s_nodes)}
    memo = {}

    def lv(l):
        if l is None: return 0
        if l.index in memo: return memo[l.index]
        d = l.driver; lk = d.kind.lower()
        if id(d) in spos and ('dff' in lk or 'latch' in lk):
            v = 1 - assign[spos[id(d)]] if ('dff' in lk and l.driver_pin == 1) else assign[spos[id(d)]]
        elif d.kind == '__fork__':
            if len(d.ins) > 0 and d.ins[0] is not None: v = lv(d.ins[0])
            else: v = assign[spos[id(d)]] if id(d) in spos else 0
        elif id(d) in spos: v = assign[spos[id(d)]]
        else:
            v = nary_gate(lk, [lv(x) for x in d.ins])
            if v is None: raise KeyError(d.kind)
        memo[l.index] = v
        return v
    return [lv(n.ins[0]) if len(n.ins) > 0 and n.ins[0] is not None else None for n in c.s_nodes]


def dump_net(c):
    """one-line canonical dump: nodes `kind:ins:outs` (pins as line index or -), lines `d.dp.r.rp`, io list"""
    def pins(l): return ','.join('-' if x is None else str(x.index) for x in l)
    nodes = '|'.join(f'{pct(n.kind)}:{pins(n.ins)}:{pins(n.outs)}' for n in c.nodes)
    lines = '|'.join(f'{l.driver.index}.{l.driver_pin}.{l.reader.index}.{l.reader_pin}' for l in c.lines)
    io = ','.join(str(n.index) for n in c.io_nodes)
    return f'{nodes} ; {lines} ; {io}'


def dump_names(c):
    return '|'.join(pct(n.name) for n in c.nodes)


def describe(c):
    """structural features for evidence histograms"""
    kinds = sorted(set(n.kind.lower() for n in c.nodes))
    nff = sum(1 for n in c.nodes if 'dff' in n.kind.lower() or 'latch' in n.kind.lower())
    unconn = sum(1 for n in c.nodes for l in n.ins if l is None)
    fan = max([len(n.outs) for n in c.nodes] + [0])
    return {'nodes': len(c.nodes), 'lines': len(c.lines), 'ff': nff, 'unconnected_pins': unconn, 'max_fanout': fan, 'kinds': len(kinds)}


def xor_tree(rng, n_in=None):
    """inputs -> one XOR/XNOR of arity 2..4 (plus an optional second stage) -> outputs: produces long waveforms at the ports"""
    from kyupy.circuit import Circuit, Node, Line
    n_in = n_in or rng.randint(2, 4)
    c = Circuit('xort'); sigs = []
    for i in range(n_in):
        n = Node(c, f'i{i}', 'input'); f = Node(c, f'i{i}'); Line(c, n, f); c.io_nodes.append(n); sigs.append(f)
    g = Node(c, 'g0', rng.choice(['XOR', 'XNOR']) + str(max(2, n_in)))
    for k, s_ in enumerate(sigs[:4]): Line(c, s_, (g, k))
    gf = Node(c, 'g0'); Line(c, g, gf)
    outs = [gf]
    if rng.random() < 0.5:
        h = Node(c, 'g1', rng.choice(['XOR2', 'AND2', 'OR2', 'BUF1'])); Line(c, gf, (h, 0))
        if not h.kind.startswith('BUF'): Line(c, sigs[0], (h, 1))
        hf = Node(c, 'g1'); Line(c, h, hf); outs.append(hf)
    for k, o in enumerate(outs):
        n = Node(c, f'o{k}', 'output'); Line(c, o, n); c.io_nodes.append(n)
    return c
