"""registry of translators"""
import extract_ops, dump_tables, dump_encode, dump_techlib
ALL = [extract_ops.generate, dump_tables.generate, dump_encode.generate, dump_techlib.generate]
