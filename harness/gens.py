"""registry of translators"""
import extract_ops, dump_tables
ALL = [extract_ops.generate, dump_tables.generate]
