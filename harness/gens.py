"""registry of translators"""
import extract_ops, dump_tables, dump_encode
ALL = [extract_ops.generate, dump_tables.generate, dump_encode.generate]
