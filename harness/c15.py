"""C15 — logic-value encodings convert losslessly and follow the axis convention.

THEOREMS   lean/KyupyVerif/Props/C15.lean     model level: every shape / pattern count / width (round trip, layout,
                                              axes, pack/unpack inverse laws, cdiv)
           lean/KyupyVerif/Props/C15Gen.lean  over tables regenerated from the code (render/parse, aliases,
                                              mv_str o mvarray, popcount, bit_in)
           lean/KyupyVerif/Props/C15Sim.lean  data path: bytes of mv_to_bp = BitVec lanes of C01/C02/C06; pattern strings -> LogicSim
                                              (m = 2, 4, 8, any P, cycle(k)) -> result strings
CORR       Lean model (driver commands enc.*) vs the real functions on the same random inputs -> broken_tie
           datapath_tie: real mvarray -> mv_to_bp -> LogicSim(sims=P, m) -> bp_to_mv -> mv_str vs driver command dp.run (every byte of
           s[0], s[1] incl. padding lanes and planes >= mdim, and the text), hypotheses wfB / orderOKB per case -> broken_tie
ORACLE     the property itself on the real functions against ground truth computed here with Python integers
           (documented alias table, (x >> i) & 1, bin(x).count('1')) -> violation + replay
"""
import itertools, json, math
import numpy as np
from . import common
import dump_tables, dump_encode

PID = 'C15'
TARGETS = ['KyupyVerif.Props.C15', 'KyupyVerif.Props.C15Gen', 'KyupyVerif.Props.C15Sim']
RULE = ('oracle cases on the real functions: (a) render/parse of the eight values; (b) mvarray/mv_str/bparray on every '
        'string of length <= 2 over the documented alphabet+aliases and on random pattern lists (P x S, other characters '
        'mixed in, ints/bools/None); (c) mv_to_bp/bp_to_mv on random shapes 1-D..5-D incl. empty axes, P = 0..70, values '
        '0..255, C/transposed/strided layouts; (d) unpackbits/packbits for the eight integer dtypes, extremes included, '
        'bit counts below/at/above the width, 0-d..4-d; (e) popcount, cdiv. distinct = distinct (kind, shape/descriptor); '
        'non-trivial = array with >= 2 different entries (or a string with >= 2 different values); (f) data path (correspondence only): '
        'generated combinational and sequential circuits x m in {2,4,8} x {strip_forks} x {c_reuse} x k = 0..3 cycles x P = 1..23 random '
        'pattern strings: bytes of s[0], s[1] and rendered text of the real LogicSim = model (dp.run)')

# ---- specification constants (transcribed from the docstrings of logic.py:54-80; same as Props/C15Gen.lean)
RENDER = '0X-1PRFN'
DOC = {'0': 0, 'L': 0, 'l': 0, 'X': 1, '-': 2, 'Z': 2, 'z': 2, '1': 3, 'H': 3, 'h': 3, 'P': 4, 'p': 4, '^': 4,
       'R': 5, 'r': 5, '/': 5, 'F': 6, 'f': 6, '\\': 6, 'N': 7, 'n': 7, 'v': 7}
ALPHA = list(DOC)
OTHERS = ['x', '?', ' ', '2', 'A', '~', 'é', '|', ',']
DTYPES = ['int8', 'int16', 'int32', 'int64', 'uint8', 'uint16', 'uint32', 'uint64']


def doc_value(v):
    """documented meaning of one item given to interpret()"""
    if isinstance(v, str): return DOC.get(v, 1)
    if v is None: return 2
    if v is True or v == 1: return 3
    if v is False or v == 0: return 0
    return 1


def theorems():
    return (common.theorems_of('KyupyVerif/Props/C15.lean', 'KV.C15'),
            common.theorems_of('KyupyVerif/Props/C15Gen.lean', 'KV.C15'),
            common.theorems_of('KyupyVerif/Props/C15Sim.lean', 'KV.C15'))


# ---- encoding for the driver
def _l(xs):
    xs = list(xs)
    return ','.join(str(int(x)) for x in xs) if xs else '-'


def enc_arr(a):
    a = np.asarray(a)
    return f'{_l(a.shape)} {_l(a.reshape(-1).tolist())}'


def enc_strs(strs):
    return '|'.join('s' + ','.join(str(ord(c)) for c in s) for s in strs) if strs else '-'


def ans_arr(a):
    """canonical answer text of an array result of the real code"""
    return enc_arr(a)


def _err(ex):
    return f'{type(ex).__name__}: {ex}'[:200]


def mk_array(case):
    """the input array of a bp/pack case, built deterministically from the case (incl. memory layout)"""
    rs = np.random.RandomState(case['seed'])
    shape = tuple(case['shape'])
    dt = np.dtype(case.get('dtype', 'uint8'))
    info = np.iinfo(dt)
    lo, hi = (info.min, info.max) if case.get('maxval') is None else (0, case['maxval'])
    n = int(np.prod(shape, dtype=np.int64)) if shape else 1
    vals = [rs.randint(0, 2 ** 62) for _ in range(n)]
    span = hi - lo + 1
    ints = [lo + (v * 2654435761 + (v >> 7)) % span for v in vals]
    ext = [lo, hi, 0, -1 if lo < 0 else 1, hi - 1, lo + 1]
    for k in range(n):      # sprinkle extremes
        if rs.rand() < 0.25: ints[k] = ext[rs.randint(0, len(ext))]
    a = np.array(ints, dtype=dt).reshape(shape)
    lay = case.get('layout', 'C')
    if lay == 'T' and a.ndim >= 2:
        a = np.ascontiguousarray(a.swapaxes(-1, -2)).swapaxes(-1, -2)   # same values, non-contiguous last axis
    elif lay == 'F' and a.ndim >= 2:
        a = np.asfortranarray(a)
    elif lay == 'stride' and a.ndim >= 1:
        big = np.zeros(a.shape[:-1] + (2 * a.shape[-1],), dtype=dt); big[..., ::2] = a
        a = big[..., ::2]
    return a, ints


# =========================================================================================== oracle
_CONV = ('mvarray', 'bparray', 'mv_to_bp', 'bp_to_mv', 'unpackbits', 'packbits')


def eval_case(case):
    """returns (ok, observed, expected, cls) for one JSON-able case, run on the REAL code.
    The conversions are functions of their arguments: the case is evaluated, every array the conversions RETURNED is then
    overwritten in place (as kyupy.stil does with a pattern it got from mvarray), and the case is evaluated again on fresh
    inputs — a result that changes is a conversion that hands out shared state (class `stale-result`)."""
    from kyupy import logic
    got, orig = [], {n: getattr(logic, n) for n in _CONV}
    def rec(f):
        def g(*a, **k):
            r = f(*a, **k)
            if isinstance(r, np.ndarray): got.append(r)
            return r
        return g
    try:
        for n in _CONV: setattr(logic, n, rec(orig[n]))
        first = _eval_once(case)
    finally:
        for n in _CONV: setattr(logic, n, orig[n])
    if not first[0]: return first
    seen = set()
    for r in got:
        base = r if r.base is None else r.base
        if id(base) in seen: continue          # the same memory handed out twice must be overwritten once
        seen.add(id(base))
        if r.flags.writeable and r.size:
            try: r[...] = ~r if r.dtype != np.bool_ else ~r
            except Exception: pass
    second = _eval_once(case)
    if not second[0]:
        return False, {'second evaluation after overwriting the first results in place': second[1]}, second[2], 'stale-result'
    return first


def _eval_once(case):
    import kyupy
    from kyupy import logic
    kind = case['kind']

    if kind == 'render':
        try:
            s = logic.mv_str(np.arange(8, dtype=np.uint8))
        except Exception as ex:
            return False, {'mv_str(arange(8))': 'raised ' + _err(ex)}, {'mv_str(arange(8))': RENDER}, _str_cls(ex)
        if str(s) != RENDER:
            return False, {'mv_str(arange(8))': str(s)}, {'mv_str(arange(8))': RENDER}, 'render'
        back = [logic.interpret(c) for c in str(s)]
        if back != list(range(8)):
            return False, {'interpret of rendered': back}, {'interpret of rendered': list(range(8))}, 'render'
        for ch, v in DOC.items():
            if logic.interpret(ch) != v:
                return False, {'interpret': [ch, logic.interpret(ch)]}, {'interpret': [ch, v]}, 'alias'
        for c in range(32, 127):
            if chr(c) not in DOC and logic.interpret(chr(c)) != 1:
                return False, {'interpret': [chr(c), logic.interpret(chr(c))]}, {'interpret': [chr(c), 1]}, 'alias'
        consts = {n: int(getattr(logic, n)) for n in ('ZERO', 'UNKNOWN', 'UNASSIGNED', 'ONE', 'PPULSE', 'RISE', 'FALL', 'NPULSE')}
        if list(consts.values()) != list(range(8)):
            return False, consts, 'codes 0..7 in this order', 'consts'
        return True, None, None, None

    if kind in ('strs', 'values'):
        pats = case['pats']                      # list of patterns; a pattern = string or list of items
        P = len(pats)
        S = len(pats[0]) if P else 0
        want = [[doc_value(x) for x in p] for p in pats]            # [pat][sig]
        try:
            a = logic.mvarray(*pats)
        except Exception as ex:
            return False, {'mvarray': 'raised ' + _err(ex)}, {'mvarray': 'an array'}, 'mvarray-raises'
        if a.dtype != np.uint8:
            return False, {'dtype': str(a.dtype)}, {'dtype': 'uint8'}, 'mvarray-dtype'
        if P >= 2 and S != 1:                    # the axis convention proper
            exp = np.array(want, dtype=np.uint8).reshape(P, S).T    # [sig][pat]
            form = '2d'
        elif P == 1:
            exp = np.array(want[0], dtype=np.uint8); form = '1d'   # one vector: along the signals
        elif P == 0:
            exp = np.zeros((0,), dtype=np.uint8); form = '1d'
        else:                                    # P >= 2 one-item patterns = one flat vector (tests/test_logic.py: mvarray(1, 0, 1))
            exp = np.array([w[0] for w in want], dtype=np.uint8); form = '1d'
        if a.shape != exp.shape or not np.array_equal(a, exp):
            # same shape and same multiset of values: an arrangement (axis) error; otherwise a character was mis-read
            cls = 'axes' if (a.shape != exp.shape or sorted(a.reshape(-1).tolist()) == sorted(exp.reshape(-1).tolist())) else 'interpret'
            return (False, {'shape': list(a.shape), 'values': a.tolist()}, {'shape': list(exp.shape), 'values': exp.tolist()}, cls)
        # bparray = mv_to_bp(mvarray), and back
        try:
            b = logic.bparray(*pats)
            nb = -(-(exp.shape[-1] if form == '2d' else 1) // 8)
            eshape = (exp.shape[0], 3, nb)
            if b.shape != eshape:
                return False, {'bparray shape': list(b.shape)}, {'bparray shape': list(eshape)}, 'bparray'
            back = logic.bp_to_mv(b)
            ref = exp if form == '2d' else exp[:, np.newaxis]
            if not np.array_equal(back[..., :ref.shape[-1]], ref) or back[..., ref.shape[-1]:].any():
                return False, {'bp_to_mv(bparray)': back.tolist()}, {'first lanes': ref.tolist(), 'rest': 0}, 'bparray'
        except Exception as ex:
            return False, {'bparray': 'raised ' + _err(ex)}, {'bparray': 'an array'}, 'bparray'
        # rendering
        canon = [''.join(RENDER[v] for v in w) for w in want]
        exp_s = '\n'.join(canon) if form == '2d' else (canon[0] if P == 1 else ''.join(canon))
        try:
            s = logic.mv_str(a)
        except Exception as ex:
            return False, {'mv_str': 'raised ' + _err(ex)}, {'mv_str': exp_s}, _str_cls(ex)
        if not isinstance(s, str) or s != exp_s:
            return False, {'mv_str': repr(s)}, {'mv_str': exp_s}, 'mv-str'
        if 'delim' in case and form == '2d':
            s2 = logic.mv_str(a, delim=case['delim'])
            if s2 != case['delim'].join(canon):
                return False, {'mv_str': repr(s2)}, {'mv_str': case['delim'].join(canon)}, 'mv-str'
        return True, None, None, None

    if kind == 'bp':
        a, _ = mk_array(case)
        a0 = a.copy()
        try:
            b = logic.mv_to_bp(a)
        except Exception as ex:
            return False, {'mv_to_bp': 'raised ' + _err(ex)}, {'mv_to_bp': 'an array'}, 'mv_to_bp-raises'
        a2 = a0[..., np.newaxis] if a0.ndim == 1 else a0             # documented 1-D reading: signals, one pattern
        P = a2.shape[-1]; nb = -(-P // 8)
        eshape = a2.shape[:-1] + (3, nb)
        if b.shape != eshape or b.dtype != np.uint8:
            return False, {'shape': list(b.shape), 'dtype': str(b.dtype)}, {'shape': list(eshape), 'dtype': 'uint8'}, 'bp-shape'
        if not np.array_equal(a, a0):
            return False, {'input': 'modified'}, {'input': 'unchanged'}, 'bp-input'
        # layout, against Python-level ground truth: bit (p % 8) of byte p // 8 of plane k = bit k of pattern p
        bl = b.astype(np.int64)
        for k in range(3):
            for p in range(8 * nb):
                got = (bl[..., k, p // 8] >> (p % 8)) & 1
                exp = ((a2[..., p].astype(np.int64) >> k) & 1) if p < P else np.zeros(a2.shape[:-1], dtype=np.int64)
                if not np.array_equal(got, exp):
                    i = np.argwhere(got != exp)[0].tolist()
                    return (False, {'at': i, 'plane': k, 'pattern': p, 'bit': int(got[tuple(i)])},
                            {'bit': int(exp[tuple(i)])}, 'bp-layout' if p < P else 'bp-padding')
        try:
            c = logic.bp_to_mv(b)
        except Exception as ex:
            return False, {'bp_to_mv': 'raised ' + _err(ex)}, {'bp_to_mv': 'an array'}, 'bp_to_mv-raises'
        if c.shape != a2.shape[:-1] + (8 * nb,) or c.dtype != np.uint8:
            return False, {'shape': list(c.shape)}, {'shape': list(a2.shape[:-1] + (8 * nb,))}, 'bp-shape'
        if not np.array_equal(c[..., :P], a2 & 7):
            i = np.argwhere(c[..., :P] != (a2 & 7))[0].tolist()
            return False, {'at': i, 'value': int(c[tuple(i)])}, {'value': int((a2 & 7)[tuple(i)])}, 'bp-roundtrip'
        if c[..., P:].any():
            return False, {'padding lanes': c[..., P:].reshape(-1)[:16].tolist()}, {'padding lanes': 0}, 'bp-padding'
        return True, None, None, None

    if kind == 'pack':          # unpackbits then packbits on items of a dtype
        a, ints = mk_array(case)
        dt = a.dtype; w = 8 * dt.itemsize
        try:
            u = logic.unpackbits(a)
        except Exception as ex:
            cls = 'unpackbits-layout' if (case.get('layout', 'C') != 'C' or a.ndim == 0) else 'unpackbits-raises'
            return False, {'unpackbits': 'raised ' + _err(ex)}, {'unpackbits': f'array of shape {list(a.shape) + [w]}'}, cls
        if u.shape != a.shape + (w,):
            return False, {'shape': list(u.shape)}, {'shape': list(a.shape) + [w]}, 'unpack-shape'
        exp = np.array([[(x >> i) & 1 for i in range(w)] for x in ints], dtype=np.uint8).reshape(a.shape + (w,))
        if not np.array_equal(u, exp):
            i = np.argwhere(u != exp)[0].tolist()
            return False, {'at': i, 'bit': int(u[tuple(i)])}, {'bit': int(exp[tuple(i)]), 'item': ints[0] if a.ndim == 0 else None}, 'unpack-bits'
        try:
            p = logic.packbits(u, dt)
        except Exception as ex:
            return False, {'packbits': 'raised ' + _err(ex)}, {'packbits': 'the items'}, 'packbits-raises'
        if p.dtype != dt or p.shape != a.shape or not np.array_equal(p, a):
            return (False, {'dtype': str(p.dtype), 'shape': list(p.shape), 'values': p.reshape(-1)[:8].tolist()},
                    {'dtype': str(dt), 'shape': list(a.shape), 'values': a.reshape(-1)[:8].tolist()}, 'pack-unpack')
        return True, None, None, None

    if kind == 'unpack':        # packbits on a bit array of n entries per item, then unpackbits
        rs = np.random.RandomState(case['seed'])
        dt = np.dtype(case['dtype']); w = 8 * dt.itemsize; signed = dt.kind == 'i'
        lead, n = tuple(case['lead']), case['n']
        bits = rs.randint(0, 2, size=lead + (n,))
        if case['vals'] == 'bool': arr = bits.astype(bool)
        elif case['vals'] == 'any': arr = (bits * rs.randint(1, 100, size=bits.shape)).astype(np.int64) * rs.choice([1, -1], size=bits.shape)
        else: arr = bits.astype(np.uint8)
        if case.get('layout') == 'T' and arr.ndim >= 2:
            arr = np.ascontiguousarray(arr.swapaxes(-1, -2)).swapaxes(-1, -2)
        rows = bits.reshape(-1, n).tolist() if n else [[] for _ in range(int(np.prod(lead, dtype=np.int64)))]
        if signed and n == 0:
            try:
                logic.packbits(arr, dt)
            except ValueError:
                return True, None, None, None       # domain boundary: no most significant bit to pad with
            except Exception as ex:
                return False, {'packbits': 'raised ' + _err(ex)}, {'packbits': 'ValueError (empty axis, edge padding)'}, 'packbits-raises'
            return True, None, None, None
        padded, values = [], []
        for r in rows:
            t = r[:w]
            t = t + [(t[-1] if signed else 0)] * (w - len(t))
            v = sum(b << i for i, b in enumerate(t))
            if signed and t[w - 1]: v -= 1 << w
            padded.append(t); values.append(v)
        try:
            p = logic.packbits(arr, dt)
        except Exception as ex:
            return False, {'packbits': 'raised ' + _err(ex)}, {'packbits': values[:8]}, 'packbits-raises'
        if p.dtype != dt or p.shape != lead or [int(x) for x in p.reshape(-1)] != values:
            return (False, {'dtype': str(p.dtype), 'shape': list(p.shape), 'values': [int(x) for x in p.reshape(-1)[:8]]},
                    {'dtype': str(dt), 'shape': list(lead), 'values': values[:8]}, 'packbits-value')
        try:
            u = logic.unpackbits(p)
        except Exception as ex:
            cls = 'unpackbits-layout' if p.ndim == 0 else 'unpackbits-raises'
            return False, {'unpackbits(packbits(bits))': 'raised ' + _err(ex)}, {'shape': list(lead) + [w]}, cls
        if u.shape != lead + (w,) or u.reshape(-1, w).tolist() != padded:
            return False, {'bits': u.reshape(-1, w)[:2].tolist()}, {'bits': padded[:2]}, 'unpack-pack'
        return True, None, None, None

    if kind == 'nested':                         # audit 2, finding 9: arguments nested 2 or 3 deep (lists of lists of strings)
        groups, depth = case['groups'], case['depth']
        def leafs(x): return [x] if isinstance(x, str) else [y for g in x for y in leafs(g)]
        def dims(x): return [] if isinstance(x, str) else [len(x)] + dims(x[0])
        lead = dims(groups)                      # depth 2: [G, P]; depth 3: [H, G, P]
        P, S = lead[-1], len(leafs(groups)[0])
        try:
            a = logic.mvarray(*groups)
        except Exception as ex:
            return False, {'mvarray': 'raised ' + _err(ex)}, {'mvarray': 'an array'}, 'mvarray-raises'
        want = np.array([[doc_value(ch) for ch in st] for st in leafs(groups)], dtype=np.uint8).reshape(lead + [S])   # [..][pat][sig]
        # ground truth, independent of swapaxes: every leading axis is a batch axis; per group signals second-to-last, patterns last;
        # one-string groups: the pattern axis is dropped; one-character strings: interpret() makes the character a scalar
        if S == 1: want = want.reshape(lead)
        if want.ndim >= 2:
            if want.shape[-2] > 1:
                idx = list(range(want.ndim)); idx[-1], idx[-2] = idx[-2], idx[-1]
                exp = np.empty([want.shape[i] for i in idx], dtype=np.uint8)
                for pos in np.ndindex(*want.shape):
                    q = list(pos); q[-1], q[-2] = q[-2], q[-1]
                    exp[tuple(q)] = want[pos]
            else:
                exp = want.reshape(want.shape[:-2] + want.shape[-1:])
        else: exp = want
        if a.dtype != np.uint8:
            return False, {'dtype': str(a.dtype)}, {'dtype': 'uint8'}, 'mvarray-dtype'
        if a.shape != exp.shape or not np.array_equal(a, exp):
            cls = 'axes' if (a.shape != exp.shape or sorted(a.reshape(-1).tolist()) == sorted(exp.reshape(-1).tolist())) else 'interpret'
            return (False, {'shape': list(a.shape), 'values': a.tolist()}, {'shape': list(exp.shape), 'values': exp.tolist()}, cls)
        return True, None, None, None

    if kind == 'popcount-dtype':                 # audit 2, F6: dtypes other than uint8 (docstring: uint8) — low byte in two's complement
        vals, dt = case['vals'], np.dtype(case['dtype'])
        a = np.array(vals, dtype=np.int64).astype(dt)
        stored = [int(x) for x in a.reshape(-1).tolist()]
        in_range = all(-256 <= x < 256 for x in stored)
        exp = sum(bin(x % 256).count('1') for x in stored) if in_range else 'IndexError'
        try:
            r = int(kyupy.popcount(a))
        except IndexError:
            r = 'IndexError'
        except Exception as ex:
            return False, {'popcount': 'raised ' + _err(ex)}, {'popcount': exp}, 'popcount'
        if r != exp:
            return False, {'popcount': r}, {'popcount': exp}, 'popcount'
        return True, None, None, None

    if kind == 'popcount':
        a, ints = mk_array(case)
        exp = sum(bin(x).count('1') for x in ints)
        try:
            r = kyupy.popcount(a)
        except Exception as ex:
            return False, {'popcount': 'raised ' + _err(ex)}, {'popcount': exp}, 'popcount'
        if int(r) != exp:
            return False, {'popcount': int(r)}, {'popcount': exp}, 'popcount'
        return True, None, None, None

    if kind == 'cdiv':
        x, y = case['x'], case['y']
        r = kyupy.cdiv(x, y)
        exp = (x + y - 1) // y
        if r != exp or not (r * y >= x > (r - 1) * y or (x == 0 and r == 0)):
            return False, {'cdiv': r}, {'cdiv': exp}, 'cdiv'
        return True, None, None, None
    raise ValueError(kind)


def _str_cls(ex):
    return 'mv-str-numpy2' if (isinstance(ex, AttributeError) and 'unicode_' in str(ex)) else 'mv-str-raises'


# ---- generators
def rshape(rng, maxd, dims=(1, 1, 2, 3, 5), allow0=True):
    s = [rng.choice(dims) for _ in range(rng.randint(0, maxd))]
    if allow0 and s and rng.random() < 0.06: s[rng.randrange(len(s))] = 0
    return s


def rstr(rng, n, p_other=0.08):
    return ''.join(rng.choice(OTHERS) if rng.random() < p_other else rng.choice(ALPHA) for _ in range(n))


NESTED_FIXED = [{'kind': 'nested', 'depth': 2, 'groups': [['01', '1X'], ['--', 'HL']]},              # the docstring-style call of the audit
                {'kind': 'nested', 'depth': 2, 'groups': [['01X', '10-'], ['11R', '00F']]},          # shape (2, 3, 2)
                {'kind': 'nested', 'depth': 2, 'groups': [['01X'], ['11R']]},                        # one-string groups: (2, 3)
                {'kind': 'nested', 'depth': 2, 'groups': [['0', '1'], ['1', 'X']]},                  # one-character strings: (2, 2)
                {'kind': 'nested', 'depth': 2, 'groups': [['01', '1X']]},                            # one group: (1, 2, 2)
                {'kind': 'nested', 'depth': 3, 'groups': [[['01', '1X'], ['--', 'HL']], [['00', '11'], ['XX', 'PP']]]},
                {'kind': 'nested', 'depth': 3, 'groups': [[['01'], ['--']], [['00'], ['XX']]]}]


def gen_nested(rng):
    depth = rng.choice([2, 2, 3])
    G, P, S = rng.choice([1, 2, 3, 4]), rng.choice([1, 2, 2, 3, 5, 9]), rng.choice([1, 2, 3, 3, 8])
    grp = lambda: [rstr(rng, S) for _ in range(P)]
    if depth == 2: groups = [grp() for _ in range(G)]
    else: groups = [[grp() for _ in range(G)] for _ in range(rng.choice([1, 2, 3]))]
    return {'kind': 'nested', 'depth': depth, 'groups': groups}


def enc_nested(x, depth):
    """driver encoding of nested arguments: strings `s<codes>` joined by `|`, groups by `/`, groups of groups by `//`; `_` / `__` / `___` = the empty list at depth 1 / 2 / 3"""
    if depth == 1: return enc_strs(x) if x else '_'
    return ('/' * (depth - 1)).join(enc_nested(g, depth - 1) for g in x) if x else '_' * depth      # the empty list of each level has its own token


def gen_cases(rng, scale, exhaustive=True):
    cases = [{'kind': 'render'}]
    if exhaustive:       # every string of length 1 and 2 over alphabet + aliases, as one pattern; pairs as two patterns
        for ch in ALPHA: cases.append({'kind': 'strs', 'pats': [ch]})
        for c1, c2 in itertools.product(ALPHA, ALPHA): cases.append({'kind': 'strs', 'pats': [c1 + c2]})
        for c1, c2 in itertools.product(ALPHA[::3], ALPHA[1::3]): cases.append({'kind': 'strs', 'pats': [c1 + c2, c2 + c1, c1 + c1]})
        cases += [{'kind': 'strs', 'pats': []}, {'kind': 'strs', 'pats': ['']}, {'kind': 'strs', 'pats': ['', '']},
                  {'kind': 'strs', 'pats': [''.join(ALPHA)]}, {'kind': 'strs', 'pats': [RENDER, RENDER[::-1]], 'delim': ','}]
    for _ in range(400 * scale):
        P = rng.choice([1, 1, 2, 2, 3, 5, 7, 8, 9, 13, 16, 17, 31])
        S = rng.choice([1, 2, 2, 3, 4, 7, 8, 9, 20])
        c = {'kind': 'strs', 'pats': [rstr(rng, S) for _ in range(P)]}
        if rng.random() < 0.2: c['delim'] = rng.choice([',', '', ' | '])
        cases.append(c)
    items = [0, 1, False, True, None, '0', '1', 'X', '-', 'R', 'f', 'N', 'p', 'h', 'z', 2, '?']
    for _ in range(80 * scale):
        P, S = rng.choice([1, 1, 2, 3, 9]), rng.choice([2, 3, 5, 8])
        cases.append({'kind': 'values', 'pats': [[rng.choice(items) for _ in range(S)] for _ in range(P)]})
    for _ in range(500 * scale):
        lead = rshape(rng, 4)
        P = rng.choice([0, 1, 2, 3, 5, 7, 8, 9, 13, 15, 16, 17, 23, 24, 25, 33, 64, 70])
        cases.append({'kind': 'bp', 'shape': lead + [P], 'seed': rng.randint(0, 2 ** 31 - 1),
                      'maxval': rng.choice([7, 7, 7, 255, 3]), 'layout': rng.choice(['C', 'C', 'T', 'F', 'stride'])})
    for dt in DTYPES:
        for shape in ([], [1], [3], [2, 3], [2, 1, 3]):
            cases.append({'kind': 'pack', 'dtype': dt, 'shape': shape, 'seed': rng.randint(0, 2 ** 31 - 1), 'layout': 'C'})
    for _ in range(300 * scale):
        cases.append({'kind': 'pack', 'dtype': rng.choice(DTYPES), 'shape': rshape(rng, 4), 'seed': rng.randint(0, 2 ** 31 - 1),
                      'layout': rng.choice(['C', 'C', 'C', 'T', 'F', 'stride'])})
    for dt in DTYPES:
        w = 8 * np.dtype(dt).itemsize
        for n in (0, 1, w - 1, w, w + 1, 2 * w + 3):
            cases.append({'kind': 'unpack', 'dtype': dt, 'lead': [2], 'n': n, 'seed': rng.randint(0, 2 ** 31 - 1), 'vals': '01'})
    for _ in range(300 * scale):
        dt = rng.choice(DTYPES); w = 8 * np.dtype(dt).itemsize
        cases.append({'kind': 'unpack', 'dtype': dt, 'lead': rshape(rng, 3), 'n': rng.choice([1, 2, 3, w // 2, w - 1, w, w + 1, w + 9]),
                      'seed': rng.randint(0, 2 ** 31 - 1), 'vals': rng.choice(['01', 'bool', 'any']), 'layout': rng.choice(['C', 'T'])})
    for _ in range(100 * scale):
        cases.append({'kind': 'popcount', 'shape': rshape(rng, 4, dims=(1, 2, 3, 7, 16)), 'seed': rng.randint(0, 2 ** 31 - 1),
                      'layout': rng.choice(['C', 'T', 'stride'])})
    for case in NESTED_FIXED: cases.append(dict(case))
    for _ in range(60 * scale):
        cases.append(gen_nested(rng))
    for dt in ('int8', 'uint16', 'int16', 'int32', 'uint32', 'int64'):
        for vals in ([3, 255], [511, 3], [-1, 2], [0], [256], [-256, 7], [-257]):
            cases.append({'kind': 'popcount-dtype', 'dtype': dt, 'vals': vals})
        for _ in range(6 * scale):
            cases.append({'kind': 'popcount-dtype', 'dtype': dt,
                          'vals': [rng.choice([rng.randint(0, 255), rng.randint(-256, -1), rng.randint(-300, 600)]) for _ in range(rng.randint(0, 9))]})
    for _ in range(20 * scale):
        cases.append({'kind': 'cdiv', 'x': rng.choice([0, 1, 7, 8, 9, rng.randint(0, 10 ** 6)]), 'y': rng.choice([1, 2, 8, 32, rng.randint(1, 999)])})
    return cases


def describe(c):
    k = c['kind']
    if k in ('strs', 'values'):
        P = len(c['pats']); S = len(c['pats'][0]) if P else 0
        form = '2d' if (P >= 2 and S != 1) else ('one-signal-flat' if P >= 2 else '1d')
        vals = {doc_value(x) for p in c['pats'] for x in p}
        return (k, P, S), [k, 'form:' + form, f'P%8={P % 8}'], len(vals) >= 2
    if k == 'bp':
        sh = c['shape']
        return (k, tuple(sh), c.get('layout')), [k, f'ndim={len(sh)}', f'P%8={sh[-1] % 8}', 'layout:' + c.get('layout', 'C')] + \
            (['empty-axis'] if 0 in sh else []), (0 not in sh and int(np.prod(sh)) >= 2)
    if k == 'pack':
        return (k, c['dtype'], tuple(c['shape']), c.get('layout')), [k, 'dtype:' + c['dtype'], f"ndim={len(c['shape'])}", 'layout:' + c.get('layout', 'C')], 0 not in c['shape']
    if k == 'unpack':
        w = 8 * np.dtype(c['dtype']).itemsize
        rel = 'n<w' if c['n'] < w else ('n=w' if c['n'] == w else 'n>w')
        return (k, c['dtype'], tuple(c['lead']), c['n']), [k, 'dtype:' + c['dtype'], rel, 'vals:' + c['vals']], (0 not in c['lead'] and c['n'] > 0)
    if k == 'popcount':
        return (k, tuple(c['shape'])), [k, f"ndim={len(c['shape'])}"], 0 not in c['shape']
    if k == 'nested':
        g = c['groups']
        def dims(x): return [] if isinstance(x, str) else [len(x)] + dims(x[0])
        d = dims(g); S = len(str(json.dumps(g)).split('"')[1]) if d else 0
        return (k, json.dumps(g)), [k, f"nested-depth={c['depth']}", 'nested-P=' + ('1' if d[-1] == 1 else '2+'), 'nested-S=' + ('1' if S == 1 else '2+')], d[-1] >= 2 and S >= 2
    if k == 'popcount-dtype':
        return (k, c['dtype'], tuple(c['vals'])), [k, 'popcount-dtype:' + c['dtype'], 'popcount-range:' + ('in' if all(-256 <= v < 256 for v in c['vals']) else 'out')], len(c['vals']) > 0
    if k == 'cdiv':
        return (k, c['x'], c['y']), [k], c['x'] % c['y'] != 0
    return (k,), [k], True


def oracle(ck, scale, exhaustive=True):
    per_cls, seen_sub = {}, set()
    for c in gen_cases(ck.rng, scale, exhaustive):
        try:
            ok, obs, exp, cls = eval_case(c)
        except Exception as ex:
            ok, obs, exp, cls = False, {'harness': 'raised ' + _err(ex)}, None, 'raised'
        key, tags, nontriv = describe(c)
        ck.case(key=key, nontrivial=nontriv, sample=c if c['kind'] not in ('render', 'cdiv') else None, tag=tags)
        if not ok:
            per_cls[cls] = per_cls.get(cls, 0) + 1
            sub = (cls, 'scalar' if c.get('shape') == [] else c.get('layout'), c['kind'])
            if sub not in seen_sub and sum(1 for x in seen_sub if x[0] == cls) < 3:
                seen_sub.add(sub)    # one replay per (class, layout/kind), at most three per class; counts go to the evidence
                ck.violation(cls, WHAT.get(cls, f"{c['kind']}: the real result differs from the property ({cls})"), c, obs, exp)
    fc = ck.extra.setdefault('failing_cases_by_class', {})
    for k, v in per_cls.items(): fc[k] = fc.get(k, 0) + v
    return per_cls


WHAT = {
    'mv-str-numpy2': "mv_str raises AttributeError under NumPy >= 2 (uses the removed alias np.unicode_): no value can be rendered",
    'unpackbits-layout': "unpackbits raises ValueError on an array of a multi-byte integer dtype that is not C-contiguous "
                         "along its last axis (transposed / Fortran-ordered / strided view) or 0-dimensional: `a.view(np.uint8)`",
    'axes': 'mvarray: shape or arrangement differs from the axis convention (signals second-to-last, patterns last)',
    'interpret': 'mvarray/interpret: a character or item is not read as its documented value',
    'bp-roundtrip': 'bp_to_mv(mv_to_bp(a))[..., :P] differs from a & 7',
    'bp-padding': 'padding lanes of the bit-parallel array are not 0',
    'bp-layout': 'bit (p % 8) of byte p // 8 of plane k is not bit k of pattern p',
    'stale-result': 'a conversion returns shared state: after an earlier result was modified in place, the same conversion of the same input gives a different result',
}


# =========================================================================================== correspondence
def corr(ck, scale):
    """Lean model (through the driver) vs the real functions on the same inputs"""
    import kyupy
    from kyupy import logic
    rng = ck.rng
    reqs = []   # (line, real answer, name, input)

    def real(f):
        try:
            return f()
        except Exception:
            return 'err'

    for c in list(range(32, 127)) + [9, 10, 0xe9, 0x3a9, 0x1F600]:
        reqs.append((f'enc.interp {c}', str(logic.interpret(chr(c))), 'interpret', chr(c)))
    str_sets = [[], [''], ['', ''], ['0'], ['0', '1', 'X'], ['01', '1'], ['0', '01'], ['01X-PRFN'], [RENDER, 'lLhHzZ/\\']]
    for _ in range(60 * scale):
        P, S = rng.choice([1, 2, 3, 5, 9]), rng.choice([1, 2, 3, 8, 11])
        ss = [rstr(rng, S) for _ in range(P)]
        if rng.random() < 0.1: ss[-1] = ss[-1] + '0'    # ragged
        str_sets.append(ss)
    for ss in str_sets:
        r = real(lambda: ans_arr(logic.mvarray(*ss)))
        reqs.append((f'enc.mvarray {enc_strs(ss)}', r, 'mvarray', ss))
        if ss: reqs.append((f'enc.mvarrayn 1 {enc_nested(ss, 1)}', r, 'mvarray (nested model, depth 1)', ss))
    # audit 2, finding 9: arguments nested 2 / 3 deep (model mvarray2 / mvarray3 = stack + arrange), incl. ragged and empty nestings
    nested = [(c['depth'], c['groups']) for c in NESTED_FIXED]
    nested += [(2, [['01', '1X'], ['--']]), (2, [['01', '1X'], ['--', 'H']]), (2, [[], []]), (2, [['', ''], ['', '']]), (2, [[''], ['']]),
               (2, [['0'], ['1']]), (3, [[[], []], [[], []]]), (2, [[]]), (3, [[[]]]), (3, [[[]], [[]]]), (3, [[], []]), (2, []), (3, []), (3, [[['01', '1X']], [['--', 'HL'], ['00', '11']]]), (2, [['01'], ['1']])]
    for _ in range(60 * scale):
        c = gen_nested(rng)
        g = c['groups']
        if rng.random() < 0.12:   # ragged somewhere
            t = g[-1] if c['depth'] == 2 else g[-1][-1]
            t[-1] = t[-1] + '0'
        nested.append((c['depth'], g))
    for depth, g in nested:
        r = real(lambda: ans_arr(logic.mvarray(*g)))
        reqs.append((f'enc.mvarrayn {depth} {enc_nested(g, depth)}', r, f'mvarray (nested, depth {depth})', g))
        ck.hist[f'tie-hyp:mvarray-nested:depth={depth}:' + ('err' if r == 'err' else f'ndim={len(r.split(" ")[0].split(","))}')] += 1
    for _ in range(60 * scale):
        sh = rshape(rng, 3, dims=(1, 2, 3, 9)) or [4]
        a = np.array([rng.randint(0, 7 if rng.random() < 0.9 else 9) for _ in range(int(np.prod(sh)))], dtype=np.uint8).reshape(sh)
        delim = rng.choice(['\n', ',', ''])
        def f():
            s = logic.mv_str(a, delim=delim)
            if not isinstance(s, str): raise TypeError('not a str')
            return 's' + ','.join(str(ord(ch)) for ch in s)
        reqs.append((f'enc.mvstr {_l(map(ord, delim))} {enc_arr(a)}', real(f), 'mv_str', [sh, delim]))
    for _ in range(80 * scale):
        sh = rshape(rng, 3) + [rng.choice([0, 1, 3, 7, 8, 9, 13, 16, 17, 26])]
        a = np.array([rng.randint(0, 255) for _ in range(int(np.prod(sh)))], dtype=np.uint8).reshape(sh)
        reqs.append((f'enc.mv2bp {enc_arr(a)}', real(lambda: ans_arr(logic.mv_to_bp(a))), 'mv_to_bp', sh))
    for _ in range(80 * scale):
        sh = rshape(rng, 3) + [rng.choice([0, 1, 2, 3, 3, 3, 8, 9]), rng.choice([0, 1, 1, 2, 3])]
        if rng.random() < 0.05: sh = sh[-1:]
        a = np.array([rng.randint(0, 255) for _ in range(int(np.prod(sh)))], dtype=np.uint8).reshape(sh)
        reqs.append((f'enc.bp2mv {enc_arr(a)}', real(lambda: ans_arr(logic.bp_to_mv(a))), 'bp_to_mv', sh))
    for _ in range(80 * scale):
        dt = np.dtype(rng.choice(DTYPES)); w = 8 * dt.itemsize
        a, _ = mk_array({'shape': rshape(rng, 3) if w > 8 else rshape(rng, 3, allow0=True), 'dtype': dt.name, 'seed': rng.randint(0, 2 ** 31 - 1)})
        if a.ndim == 0 and w > 8: a = a.reshape(1)       # 0-d multi-byte: see oracle class unpackbits-layout
        reqs.append((f'enc.unpack {w} {enc_arr(a)}', real(lambda: ans_arr(logic.unpackbits(a))), 'unpackbits', [dt.name, list(a.shape)]))
    for _ in range(100 * scale):
        dt = np.dtype(rng.choice(DTYPES)); w = 8 * dt.itemsize
        sh = rshape(rng, 3) + [rng.choice([0, 1, 2, 5, w - 1, w, w + 1, w + 8])]
        a = np.array([rng.choice([0, 0, 1, 1, 2, -3]) for _ in range(int(np.prod(sh)))], dtype=np.int64).reshape(sh)
        reqs.append((f"enc.pack {w} {'s' if dt.kind == 'i' else 'u'} {enc_arr(a)}", real(lambda: ans_arr(logic.packbits(a, dt))),
                     'packbits', [dt.name, sh]))
    for _ in range(40 * scale):
        a = np.array([rng.randint(0, 255) for _ in range(rng.randint(0, 40))], dtype=np.uint8)
        reqs.append((f'enc.popcount {_l(a)}', str(int(kyupy.popcount(a))), 'popcount', a.tolist()))
        dt = np.dtype(rng.choice(['int8', 'uint16', 'int16', 'int32', 'uint32', 'int64']))
        b = np.array([rng.choice([rng.randint(0, 255), rng.randint(-256, -1), rng.randint(-300, 600)]) for _ in range(rng.randint(0, 9))], dtype=np.int64).astype(dt)
        reqs.append((f'enc.popcountint {_l(b.tolist())}', real(lambda: str(int(kyupy.popcount(b)))), f'popcount ({dt.name})', b.tolist()))
        ck.hist[f'tie-hyp:popcount-dtype:{dt.name}'] += 1
        if len(a):
            pos = rng.randrange(8 * len(a))
            reqs.append((f'enc.bitin {_l(a)} {pos}', str(int(logic.bit_in(a, pos))), 'bit_in', [a.tolist(), pos]))
    for _ in range(30 * scale):
        x, y = rng.randint(0, 5000), rng.randint(1, 70)
        reqs.append((f'enc.cdiv {x} {y}', str(kyupy.cdiv(x, y)), 'cdiv', [x, y]))
    answers = common.run_driver([r[0] for r in reqs])
    bad = {}
    for (line, want, name, inp), got in zip(reqs, answers):
        ck.hist['corr:' + name] += 1
        if got != want:
            bad[name] = bad.get(name, 0) + 1
            if bad[name] <= 2:
                ck.broken_tie(f'model {name} vs kyupy', f'request {line[:160]!r}: model {got[:160]!r}, real code {want[:160]!r}', inp=inp)
    ck.extra['correspondence'] = {'requests': len(reqs), 'mismatches': sum(bad.values())}
    return len(reqs)


# =========================================================================================== data path (Props/C15Sim.lean)
def _bytes(a):
    return _l(np.asarray(a).reshape(-1).tolist())


def make_dp_case(rng, c):
    """one data-path case on circuit c: arity, strip_forks, c_reuse, k cycles (0 = s_to_c; c_prop; c_to_s), P pattern strings"""
    import pickle, base64
    S = len(c.s_nodes)
    P = rng.choice([1, 1, 2, 3, 5, 7, 8, 9, 11, 13, 16, 17, 23])
    pats = [rstr(rng, S, p_other=0.04) for _ in range(P)]
    return {'circuit': base64.b64encode(pickle.dumps(c)).decode(), 'm': rng.choice([2, 4, 8, 8]), 'strip': rng.random() < 0.35,
            'reuse': rng.random() < 0.5, 'k': rng.choice([0, 0, 0, 1, 2, 3]), 'pats': pats}


def eval_dp_case(case):
    """REAL mvarray -> mv_to_bp -> LogicSim(sims=P, m) -> bp_to_mv -> mv_str vs the model composition (driver `dp.run`): every byte of
    s[0] and s[1] (all planes, padding lanes) and the rendered text. Returns (ok, observed, expected, hypotheses)."""
    import pickle, base64
    from kyupy import logic
    from kyupy.logic_sim import LogicSim
    from . import circ
    c = pickle.loads(base64.b64decode(case['circuit']))
    m, k, pats = case['m'], case['k'], case['pats']
    P = len(pats)
    try:
        with common.quiet():
            ls = LogicSim(c, sims=P, m=m, c_reuse=case['reuse'], strip_forks=case['strip'])
            ls.s[0] = logic.mv_to_bp(logic.mvarray(*pats))
            if k == 0:
                ls.s_to_c(); ls.c_prop(); ls.c_to_s()
            else:
                ls.cycle(k)
            mva = logic.bp_to_mv(ls.s[1])[..., :P]
            try:
                text = logic.mv_str(mva)
            except AttributeError:          # finding D2 (mv_str under NumPy >= 2): render with the documented characters
                text = '\n'.join(''.join(RENDER[v] for v in mva[:, p]) for p in range(P))
        real = f"{_bytes(ls.s[0])};{_bytes(ls.s[1])};s{','.join(str(ord(ch)) for ch in text)}"
    except ValueError:                      # shape of mv_to_bp(...) is not (S, 3, nbytes): NumPy cannot broadcast
        real = 'err'
    order = ','.join(str(n.index) for n in c.topological_order()) or '~'
    dump = circ.dump_net(c)
    ans, _, cert = common.run_driver([f"dp.run {m} {int(case['strip'])} {k} {order} {enc_strs(pats)} {dump}", f'net {dump}', f'netcert {order}'])
    if ans != real:
        ra, rr = ans.split(';'), real.split(';')
        part = next((i for i, (x, y) in enumerate(zip(ra, rr)) if x != y), -1)
        return False, {'part': ['s0', 's1', 'text'][part] if 0 <= part < 3 else 'shape', 'real': (rr[part] if part >= 0 else real)[:200]}, \
            {'model': (ra[part] if part >= 0 else ans)[:200]}, cert
    return True, None, None, cert


def datapath_tie(ck, n_circuits):
    from . import circ, c01
    import collections
    rng = ck.rng
    stat = collections.Counter()
    ck.extra['datapath_tie'] = stat
    for it in range(n_circuits):
        c = c01.seq_circuit(rng, n_gates=rng.randint(1, 20)) if rng.random() < 0.6 else circ.rand_circuit(rng, n_gates=rng.randint(1, 25))
        d = circ.describe(c)
        for rep in range(2):
            case = make_dp_case(rng, c)
            try:
                ok, obs, exp, cert = eval_dp_case(case)
            except Exception as ex:
                ok, obs, exp, cert = False, {'raised': _err(ex)}, None, '?'
            P = len(case['pats'])
            ck.case(key=('dp', circ.dump_net(c), case['m'], case['strip'], case['k'], P), nontrivial=d['lines'] >= 3 and P >= 2,
                    tag=['tie:datapath', f"dp-m:{case['m']}", f"dp-k:{case['k']}", f'dp-P%8:{P % 8}', f"dp-strip:{int(case['strip'])}",
                         f"dp-ff:{min(d['ff'], 3)}", f'dp-hyp:{cert}'])
            for t in ('cases', f"m={case['m']}", f"k={case['k']}", f'P%8={P % 8}', f"strip={int(case['strip'])}", f"ff={min(d['ff'], 3)}",
                      f'hyp:{cert}', 'byte-exact' if ok else 'MISMATCH'): stat[t] += 1
            if cert != 'wf=true order=true':
                ck.broken_tie('data path: hypotheses Net.wfB / orderOKB on the real circuit and order', str(cert), inp={'dp_case': case})
            if not ok:
                ck.broken_tie('data path: real mvarray -> mv_to_bp -> LogicSim -> bp_to_mv -> mv_str vs model (Model/DataPath.lean, dp.run)',
                              f'real {obs} != model {exp}'[:400], inp={'dp_case': case})


def run(ck):
    t1, t2, t3 = theorems()
    ck.prove([dump_tables.generate, dump_encode.generate], TARGETS[:1], t1)
    ck.prove([], TARGETS[1:2], t2)       # separate module: a defect in the tables must not hide the model-level theorems
    ck.prove([], TARGETS[2:], t3)        # data path (imports Props/C01, C02 and the generated dispatchers)
    try:
        corr(ck, ck.scale)
    except Exception as ex:
        ck.broken_tie('correspondence run', _err(ex))
    try:
        datapath_tie(ck, 40 * ck.scale)
    except Exception as ex:
        ck.broken_tie('data-path correspondence run', _err(ex))
    oracle(ck, ck.scale)
    if ck.broken and not ck.violations:
        oracle(ck, ck.scale * 8, exhaustive=False)
    ck.assumptions += [
        'NumPy (array construction, view, packbits/unpackbits, pad, choose, swapaxes) is exercised, not modelled',
        'documented characters/aliases (docChars, docAliases in Props/C15Gen.lean; DOC in harness/c15.py) are transcribed from the docstrings of logic.py:54-80',
        'domain: mv_str on arrays with at most two axes (more axes raise TypeError); packbits to a signed dtype needs a non-empty last axis; '
        'popcount: bit count for uint8 data (and int8: low byte in two\'s complement); other integer dtypes: modelled and tied (popcountInt: low byte for entries in -256..255, IndexError outside; NOT the bit count of the wide element; bool and uint64 >= 2**63 not modelled); mvarray with nested arguments: depth 2 theorem (mvarray_nested), depth 2/3 incl. corner cases modelled + tied (enc.mvarrayn) + oracle kind nested; mv_str of >2-D arrays raises TypeError in the real code (model none): rendering is lossless for <= 2-D only; native byte order; patterns of ONE item each form one flat vector (tests/test_logic.py: mvarray(1, 0, 1))',
    ]
    return ck.finish(RULE)


def replay(rep):
    if 'input' not in rep or not isinstance(rep.get('input'), dict):
        print(json.dumps({'ok': False, 'broken': rep.get('broken')}, default=str)[:2000])
        return 1
    if 'dp_case' in rep['input']:
        ok, obs, exp, cert = eval_dp_case(rep['input']['dp_case'])
        print(json.dumps({'ok': ok, 'hypotheses': cert, 'observed': obs, 'expected': exp}, default=str))
        return 0 if ok else 1
    ok, obs, exp, cls = eval_case(rep['input'])
    print(json.dumps({'ok': ok, 'class': cls, 'observed': obs, 'expected': exp}, default=str))
    return 0 if ok else 1
