"""C13 — capture results and switching-activity counts faithfully summarise waveforms."""
import json, pickle, base64, random
import numpy as np
from . import common, circ, wavecorr as wc, c03

PID = 'C13'
TARGETS = ['KyupyVerif.Props.C13']
RULE = ('(a) capture correspondence + oracle: real wave_capture_cpu and the mock-GPU capture kernel on random waveforms (with/without leading TMIN, '
        '0-7 transitions, overflow marker) x capture times (on and off transition instants, TMAX) vs the Lean capture model and vs an independent '
        'recount; (b) whole WaveSim/WaveSimCuda runs with random accumulation-control tables (shared accumulators, zero and negative weights, '
        'repeated c_prop): abuf vs per-op counts of the Lean model and vs a recount from the stored waveforms; (c) overflow indicator: every '
        'signal whose terminator is clear must equal the run with capacity 256. distinct = case descriptors; non-trivial = waveform has a finite transition')


def theorems():
    return common.theorems_of('KyupyVerif/Props/C13.lean', 'KV.C13')


def py_capture(ents, term, time):
    """independent recount from a waveform (entries as floats)"""
    TMIN, TMAX, TOVL = wc.consts()
    fin = [t for t in ents if t > TMIN]
    return {'init': int(bool(ents) and ents[0] <= TMIN), 'eat': min(fin) if fin else TMAX, 'lst': max(fin) if fin else TMIN,
            'final': len(ents) % 2, 'val': len([t for t in ents if t < time]) % 2, 'ovl': int(term == 'O')}


def capture_case(rng):
    cap = rng.choice([8, 12, 16])
    lead = rng.random() < 0.5
    n = rng.randint(0, min(7, cap - 1 - (1 if lead else 0)))     # entries + terminator must fit the capacity
    ts = sorted(rng.sample(range(0, 60), n))
    w = (['m'] if lead else []) + [str(t) for t in ts]
    mode = rng.random()
    if mode < 0.2: time = 'M'
    elif mode < 0.6 and ts: time = str(rng.choice(ts))
    else: time = str(rng.randint(0, 62))
    return {'kind': 'capture', 'w': w, 'term': 'O' if rng.random() < 0.2 else 'M', 'time': time, 'cap': cap}


def real_capture(case):
    from kyupy.wave_sim import wave_capture_cpu
    TMIN, TMAX, TOVL = wc.consts()
    cap = case['cap']
    c = np.full((cap + 4, 1), 12345.0, dtype=np.float32)   # junk behind the terminator
    w = [wc.dec(t) for t in case['w']]
    c[2:2 + len(w), 0] = w; c[2 + len(w), 0] = wc.dec(case['term'])
    time = wc.dec(case['time'])
    r = wave_capture_cpu(c, 2, cap, 0, time=np.float32(time), sd=0.0, seed=1)
    return {'init': int(r[0]), 'eat': float(r[1]), 'lst': float(r[2]), 'final': int(r[3]), 'val': int(r[5]), 'acc': float(r[4]), 'ovl': int(r[7])}


def eval_case(case):
    TMIN, TMAX, TOVL = wc.consts()
    if case['kind'] == 'capture':
        got = real_capture(case)
        exp = py_capture([wc.dec(t) for t in case['w']], case['term'], wc.dec(case['time']))
        for k in exp:
            if float(got[k]) != float(exp[k]): return False, {k: got[k]}, {k: exp[k]}
        if float(got['acc']) != float(exp['val']): return False, {'s7': got['acc']}, {'s7': exp['val']}
        return True, None, None
    if case['kind'] == 'activity':
        c, ws, ws_big, reqs = run_activity(case)
        return oracle_activity(case, c, ws, ws_big)
    raise ValueError(case['kind'])


def activity_case(rng, thorough=False):
    strip = rng.random() < 0.4
    wide = rng.random() < 0.06      # more lanes than one block of the GPU-kernel launch is wide (32): a second block column
    if rng.random() < (0.6 if strip else 0.3):
        c = circ.xor_tree(rng)        # long waveforms at the ports (capture windows, overflow markers)
    else:
        c = circ.rand_circuit(rng, n_gates=rng.randint(2, 6 if wide else (16 if not thorough else 40)), p_dangling=0.05,
                              xor_bias=rng.choice([0.0, 0.5, 0.8]), n_in=rng.randint(2, 6))
    n = len(c.lines) + 3
    nacc = rng.randint(1, 4)
    a_ctrl = []
    for i in range(n):
        if rng.random() < 0.6:
            a_ctrl.append([rng.randrange(nacc), rng.choice([0, 1, 1, 2, -1, 3]), rng.choice([0, 1, 1, 2, -2])])
        else:
            a_ctrl.append([-1, 0, 0])
    return {'kind': 'activity', 'circuit': base64.b64encode(pickle.dumps(c)).decode(), 'a_ctrl': a_ctrl,
            'caps': rng.choice([4, 8, 16, 'skewed', 'skewed', 'perline'] + (['branchsmall'] * 4 if strip else [])), 'dseed': rng.randint(0, 2**31 - 1), 'sseed': rng.randint(0, 2**31 - 1),
            'sims': rng.choice([33, 40]) if wide else rng.choice([1, 2, 3]), 'cuda': True if wide else rng.random() < 0.3, 'props': rng.choice([1, 1, 2]), 'multi': rng.random() < 0.5,
            'time': rng.choice(['M', '10', '25.5', '40']), 'strip': strip}


def run_activity(case):
    c = pickle.loads(base64.b64decode(case['circuit']))
    drng = random.Random(case['dseed'])
    delays = wc.rand_delays(drng, len(c.lines))
    a_ctrl = np.array(case['a_ctrl'], dtype=np.int32)
    sims_objs = []
    crng = random.Random(case['dseed'] + 3)
    nn = len(c.lines) + 3
    s_len = len(c.s_nodes)
    if case['caps'] == 'skewed':      # small capacities on the low line indices, large ones elsewhere
        capv = [4 if i < s_len + 2 else crng.choice([16, 20, 24]) for i in range(nn)]
    elif case['caps'] == 'branchsmall':   # fan-out branches ask for less than their stems (with strip_forks they share the stem's region)
        br = set(l.index for f in c.forks.values() for l in f.outs if l is not None)
        capv = [4 if i in br else crng.choice([12, 16, 24]) for i in range(nn)]
    elif case['caps'] == 'perline':
        capv = [crng.choice([4, 8, 12, 16, 24]) for _ in range(nn)]
    else:
        capv = case['caps']
    for caps in (capv, 256):
        srng = random.Random(case['sseed'])
        ws = wc.make_sim(c, delays, case['sims'], c_caps=caps, cuda=case['cuda'], a_ctrl=a_ctrl, strip=case.get('strip', False))
        i, t, f = wc.rand_stim(srng, ws.s_len, case['sims'])
        wc.assign(ws, i, t, f)
        if case['multi']: wc.overwrite_inputs(ws, srng)
        if caps != 256: reqs = [wc.model_request(ws, s) for s in range(case['sims'])]
        with common.quiet():
            for _ in range(case['props']): ws.c_prop()
            tm = wc.consts()[1] if case['time'] == 'M' else float(case['time'])
            ws.c_to_s(time=np.float32(tm))
        sims_objs.append(ws)
    return c, sims_objs[0], sims_objs[1], reqs


def oracle_activity(case, c, ws, ws_big):
    TMIN, TMAX, TOVL = wc.consts()
    cc, cb = np.array(ws.c), np.array(ws_big.c)
    ops = np.array(ws.ops)
    S = np.array(ws.s)
    tm = TMAX if case['time'] == 'M' else float(case['time'])
    # capture results at ports vs recount from the captured waveform; the waveform is read with the capacity of the signal
    # that OWNS the memory (the op output / input slot written there), not with the capacity recorded for the output slot:
    # a slot or stripped branch that records a smaller capacity than its stem would make capture and oracle truncate alike
    own = wc.owner_caps(ws)
    for j in range(ws.s_len):
        idx = ws.ppo_offset + j
        if int(ws.c_locs[idx]) < 0: continue
        for s in range(case['sims']):
            ents, term = wc.read_wave(cc, int(ws.c_locs[idx]), own.get(int(ws.c_locs[idx]), int(ws.c_caps[idx])), s)
            exp = py_capture(ents, term, tm)
            got = {'init': S[3, j, s], 'eat': S[4, j, s], 'lst': S[5, j, s], 'final': S[6, j, s], 'val': S[8, j, s], 'ovl': S[10, j, s]}
            for k in exp:
                if float(got[k]) != float(np.float32(exp[k])):
                    return False, {'s_node': j, 'lane': s, k: float(got[k]), 'waveform': wc.fmt_wave(ents, term)}, {k: float(exp[k])}
    # clear overflow indicator => identical to the capacity-256 run (every signal written by an op)
    for row in ops:
        o = int(row[1])
        if o >= len(c.lines): continue
        for s in range(case['sims']):
            e1, t1 = wc.read_wave(cc, int(ws.c_locs[o]), int(ws.c_caps[o]), s)
            e2, t2 = wc.read_wave(cb, int(ws_big.c_locs[o]), int(ws_big.c_caps[o]), s)
            if t1 == 'M' and (e1 != e2 or t2 != 'M'):
                return False, {'line': o, 'lane': s, 'waveform': wc.fmt_wave(e1, t1)}, {'unlimited_capacity': wc.fmt_wave(e2, t2)}
    # abuf vs recount from stored waveforms (ops with a connected output; dangling ops write the scratch slot)
    nacc = int(np.array(ws.abuf).shape[0])
    exp = np.zeros((nacc, case['sims']), dtype=np.int64)
    for row in ops:
        o, a, wr, wf = int(row[1]), int(row[6]), int(row[7]), int(row[8])
        if a < 0: continue
        if o >= len(c.lines): return True, {'skipped': 'accumulating dangling op'}, None
        for s in range(case['sims']):
            ents, term = wc.read_wave(cc, int(ws.c_locs[o]), int(ws.c_caps[o]), s)
            nr = (len(ents) + 1) // 2 - (1 if (ents and ents[0] <= TMIN) else 0); nf = len(ents) // 2
            exp[a, s] += case['props'] * (nr * wr + nf * wf)
    got = np.array(ws.abuf)[:, :case['sims']].astype(np.int64)
    if got.shape == exp.shape and not np.array_equal(got, exp):
        k = np.argwhere(got != exp)[0]
        return False, {'accumulator': int(k[0]), 'lane': int(k[1]), 'abuf': int(got[tuple(k)])}, {'abuf': int(exp[tuple(k)])}
    return True, None, None


def corr_capture(ck, n):
    cases = [capture_case(ck.rng) for _ in range(n)]
    out = common.run_driver([f"capture {','.join(cs['w']) or '-'}:{cs['term']} {cs['time']}" for cs in cases])
    for cs, m in zip(cases, out):
        got = real_capture(cs)
        real = f"{got['init']} {wc.enc(got['eat'])} {wc.enc(got['lst'])} {got['final']} {got['val']} {got['ovl']}"
        ck.case(key=('cap', json.dumps(cs, sort_keys=True)), nontrivial=any(t.isdigit() for t in cs['w']), sample=cs,
                tag=['capture', 'time:TMAX' if cs['time'] == 'M' else ('time:on-edge' if cs['time'] in cs['w'] else 'time:off-edge'), 'term:' + cs['term']])
        if real != m:
            ck.broken_tie('wave_capture_cpu vs Lean captureWv', f'real "{real}" != model "{m}"', inp=cs)
        ok, obs, exp = eval_case(cs)
        if not ok: ck.violation('capture', 'wave_capture_cpu does not report what the waveform encodes', cs, obs, exp)


def corr_activity(ck, n, thorough=False):
    for it in range(n):
        cs = activity_case(ck.rng, thorough)
        try:
            c, ws, ws_big, reqs = run_activity(cs)
            # model: per-op counts -> abuf
            out = common.run_driver(reqs)
            ops = np.array(ws.ops)
            nacc = int(np.array(ws.abuf).shape[0])
            model = np.zeros((nacc, cs['sims']), dtype=np.int64)
            areqs = []
            for s, m in enumerate(out):
                cnts = [tuple(int(x) for x in t.split(',')) for t in m.split(' ; ')[1].split(' ') if t]
                # the accumulation itself is the Lean model Wave.accumulate (driver `accum`; C13.abuf_sum / abuf_order_independent), fed with the
                # model's per-op counts and the real accumulation control columns, once per propagation
                contribs = [f'{int(row[6])}:{nr}:{nf}:{int(row[7])}:{int(row[8])}' for row, (nr, nf) in zip(ops, cnts)] * cs['props']
                areqs.append(f"accum {nacc} {','.join(contribs) or '-'}")
            for s, a in enumerate(common.run_driver(areqs) if areqs else []):
                vals = [int(v) for v in a.split(',') if v != '']
                if len(vals) != nacc: raise RuntimeError('accum answer: ' + a[:120])
                model[:, s] = vals
            got = np.array(ws.abuf)[:, :cs['sims']].astype(np.int64)
            if (ops[:, 6] >= 0).any() and not np.array_equal(got, model):
                ck.broken_tie('abuf vs Lean waveCounts/accumulate', f'real {got.tolist()} != model {model.tolist()}', inp=cs)
            ok, obs, exp = oracle_activity(cs, c, ws, ws_big)
            ovf = bool(np.array(ws.s)[10].any())
        except wc.OffGrid:
            ck.hist['off-grid-discarded'] += 1; continue
        except Exception as ex:
            ok, obs, exp, ovf = False, {'raised': f'{type(ex).__name__}: {ex}'[:300]}, None, False
        ck.case(key=('act', cs['circuit'][:60], cs['dseed'], cs['caps'], cs['cuda']), nontrivial=True,
                sample={k: v for k, v in cs.items() if k not in ('circuit', 'a_ctrl')},
                tag=['activity', f"cuda:{cs['cuda']}", f"caps:{cs['caps']}", f"strip:{cs.get('strip', False)}", f"props:{cs['props']}", 'overflow' if ovf else 'no-overflow', 'time:' + cs['time'],
                     common.allcirc_hyp(ck, pickle.loads(base64.b64decode(cs['circuit'])), [cs.get('strip', False)], 'C13')])   # hypotheses of capture_all_circuits
        if not ok:
            cls = 'mock-cuda-atomic' if (obs and 'atomic' in str(obs.get('raised', ''))) else 'activity'
            ck.violation(cls, 'capture / overflow indicator / accumulated activity does not match the waveforms', cs, obs, exp)


def run(ck):
    ck.prove([], TARGETS, theorems())
    n1, n2, n3 = (600, 800, 200) if ck.tier == 'quick' else (10000, 10000, 2500)
    corr_capture(ck, n1)
    c03.corr_gate(ck, n2)       # (nrise, nfall) of wave_eval_cpu vs the model, incl. overflow
    corr_activity(ck, n3, ck.tier == 'thorough')
    if ck.broken and not ck.violations:
        corr_capture(ck, n1 * 4); corr_activity(ck, n3 * 4, ck.tier == 'thorough')
    ck.assumptions += ['capture with sd = 0 only (erf-based sampling is outside the property and the model)',
                       'times on the dyadic grid; int32 wrap-around of abuf not modelled']
    return ck.finish(RULE)


def replay(rep):
    ok, obs, exp = eval_case(rep['input'])
    print(json.dumps({'ok': ok, 'observed': obs, 'expected': exp}, default=str))
    return 0 if ok else 1
