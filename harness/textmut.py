"""Shared helpers of the text-level correspondences (C14 SDF, C18 STIL, C20 DEF): text mutation and a driver call that
keeps request/answer sizes below the pipe buffers."""
from . import common


def drv(lines, chunk=3):
    """run_driver in small chunks: requests carry whole percent-encoded files, 256 of them would fill both pipes"""
    out = []
    for i in range(0, len(lines), chunk):
        out += common.run_driver(lines[i:i + chunk])
    return out


def pct(s):
    """percent-encode everything but [A-Za-z0-9_]; the empty string is '%'"""
    return ''.join(ch if (ch.isalnum() and ch.isascii()) or ch == '_' else '%%%02x' % ord(ch) for ch in s) or '%'


def mutate(rng, text, alphabet, fragments, boundary_chars):
    """one edit: delete / insert / replace one character (as a reader of a damaged file would meet), or insert a
    fragment (blank, line break, comment, keyword, small legal item) at a random position or at a token boundary"""
    if not text: return rng.choice(fragments)
    k = rng.choice(['del', 'ins', 'rep', 'frag', 'frag-b', 'ins-b', 'dup', 'delrange'])
    i = rng.randrange(len(text) + 1)
    if k in ('frag-b', 'ins-b'):
        pos = [j for j, ch in enumerate(text) if ch in boundary_chars]
        if pos:
            i = rng.choice(pos) + rng.choice([0, 1])
    if k == 'del' and i < len(text): return text[:i] + text[i + 1:]
    if k in ('ins', 'ins-b'): return text[:i] + rng.choice(alphabet) + text[i:]
    if k == 'rep' and i < len(text): return text[:i] + rng.choice(alphabet) + text[i + 1:]
    if k in ('frag', 'frag-b'): return text[:i] + rng.choice(fragments) + text[i:]
    if k == 'dup':
        j = min(len(text), i + rng.randint(1, 12))
        return text[:j] + text[i:j] + text[j:]
    j = min(len(text), i + rng.randint(1, 6))
    return text[:i] + text[j:]
