"""C06 — results do not depend on performance options, lane position or code path."""
import json, pickle, base64, random
import numpy as np
from . import common, circ, wavecorr as wc, pathtie
import extract_ops

PID = 'C06'
TARGETS = ['KyupyVerif.Props.C06']
RULE = ('random circuits x stimuli; every case compares a reference configuration with a perturbed one on the REAL code: LogicSim (m=2/4/8): '
        '{c_reuse} x {strip_forks}, lane permutation, larger allocation; WaveSim: {c_reuse}, {strip_forks with zero delay on fork inputs}, CPU vs mock-GPU '
        'kernels, lane permutation, c_prop(sims=k), larger allocation, delay data-set selection modes 0 (seed) and 1 (per simulation) vs simulating with '
        'that data set alone. A fork-stripping difference is classified as known finding D13 iff the un-stripped run contains a stem waveform that is '
        'not strictly increasing on the differing lane. wave-strip cases additionally evaluate the hypotheses of the theorems '
        'KV.C06.strip_equiv / strip_equiv_polind / strip_equiv_all_circuits on the real pair of runs (certificate stripOkB and stripOps = real '
        'stripped rows through the Lean driver; Net.wfB, orderOKB, forksOKB of the real circuit and order, model stemList = real branch->stem map; zero delay on fork inputs, capacities, polarity independence, monotone stems numerically) and, '
        'on every lane where they hold, require equal waveforms on every non-branch signal and branch(un-stripped) = stem(stripped). '
        'clause path-tie (correspondence, harness/pathtie.py): the Lean models of both code paths of c_prop (clause path-tie-cprop) / s_to_c / s_ppo_to_ppi / the capture scan '
        '(Model/WaveIO.lean) against the REAL WaveSim (NumPy) and WaveSimCuda (kernels under MockCuda) on random tables (incl. flip-flops without '
        'outputs: c_locs = -1), values off {0,1}, random previous memory contents and block shapes: raw arrays must be equal cell by cell. '
        'distinct = (circuit, clause, seeds)')


def theorems():
    return common.theorems_of('KyupyVerif/Props/C06.lean', 'KV.C06')


CLAUSES = ['logic-options', 'logic-lanes', 'wave-reuse', 'wave-strip', 'wave-gpu', 'wave-lanes', 'wave-k', 'wave-dataset']


def make_case(rng, thorough=False):
    clause = rng.choice(CLAUSES)
    if clause.startswith('wave') and rng.random() < 0.3:
        c = circ.xor_tree(rng)          # long waveforms at the ports
    else:
        c = circ.rand_circuit(rng, n_gates=rng.randint(1, 18 if not thorough else 50), xor_bias=rng.choice([0.0, 0.0, 0.6]))
    capsel = rng.choice([8, 16, 'skewed'])
    if capsel == 'skewed':
        k = len(c.s_nodes) + 2
        capsel = [4 if i < k else rng.choice([16, 20, 24]) for i in range(len(c.lines) + 3)]
    return {'circuit': base64.b64encode(pickle.dumps(c)).decode(), 'clause': clause, 'm': rng.choice([2, 4, 8]), 'capsel': capsel,
            'sseed': rng.randint(0, 2**31 - 1), 'dseed': rng.randint(0, 2**31 - 1), 'sims': rng.choice([3, 5, 8, 13]),
            'caps': capsel, 'polind': rng.random() < 0.7, 'strip': rng.random() < 0.5, 'reuse': rng.random() < 0.5}


def logic_run(c, m, stim, sims_alloc, strip, reuse):
    from kyupy import logic
    from kyupy.logic_sim import LogicSim
    with common.quiet():
        ls = LogicSim(c, sims_alloc, m=m, c_reuse=reuse, strip_forks=strip)
    full = np.full((stim.shape[0], sims_alloc), 2, dtype=np.uint8); full[:, :stim.shape[1]] = stim
    ls.s[0] = logic.mv_to_bp(full); ls.s_to_c(); ls.c_prop(); ls.c_to_s()
    return logic.bp_to_mv(ls.s[1])[:, :stim.shape[1]]


def wave_run(c, delays, sims_alloc, i, t, f, caps, strip=False, reuse=False, cuda=False, k=None, mode=None, seed=1, simctl0=None, multi_seed=None, warm=()):
    ws = wc.make_sim(c, delays, sims_alloc, c_caps=caps, strip=strip, reuse=reuse, cuda=cuda)
    n = i.shape[1]
    for (i2, t2, f2) in warm:      # earlier simulations on the same object (same history on both code paths)
        ws.s[0, :, :n] = i2; ws.s[1, :, :n] = t2; ws.s[2, :, :n] = f2
        ws.s_to_c()
        with common.quiet():
            ws.c_prop(); ws.c_to_s()
    ws.s[0, :, :n] = i; ws.s[1, :, :n] = t; ws.s[2, :, :n] = f
    ws.s_to_c()
    if multi_seed is not None:
        wc.overwrite_inputs(ws, random.Random(multi_seed), p=0.6)
    if mode is not None:
        if np.ndim(mode) == 0: ws.simctl_int[1] = mode
        else: ws.simctl_int[1, :len(mode)] = mode            # selection mode per lane
        if simctl0 is not None: ws.simctl_int[0, :len(simctl0)] = simctl0
    with common.quiet():
        ws.c_prop(sims=k, seed=seed); ws.c_to_s()
    return ws


def dataset_tie(ws, nds, srng):
    """tie of C06.selectDataset (Model/WaveIO.lean) to `_wave_eval` lines 165-176: the real function is called with a `delays`
    object that records which data-set index it is asked for, per lane, with random per-lane modes 0/1 (mixed), seeds and choices —
    in bounds and out of bounds (IndexError <-> `none`); mode 2 is outside the model. Returns None or a description of the mismatch."""
    from kyupy import wave_sim
    if len(ws.ops) == 0: return None
    real_delays = np.array(ws.delays)
    class Rec:
        def __init__(self): self.asked = []
        def __len__(self): return nds
        def __getitem__(self, i):
            self.asked.append(int(i))
            if not 0 <= int(i) < nds: raise IndexError(i)
            return real_delays[int(i) % len(real_delays)]
    lanes = ws.sims
    seed = srng.choice([0, 1, nds - 1, nds, nds + 3]) if srng.random() < 0.3 else srng.randrange(max(nds, 1))
    modes = [srng.randrange(2) for _ in range(lanes)]
    sel = [srng.randrange(nds + 2) if srng.random() < 0.3 else srng.randrange(max(nds, 1)) for _ in range(lanes)]
    real = []
    for lane in range(lanes):
        rec = Rec()
        ctl = np.array([sel[lane], modes[lane]], dtype=np.int32)
        try:
            with common.quiet():
                wave_sim._wave_eval(np.array(ws.ops[0]), np.array(ws.c).copy(), ws.c_locs, ws.c_caps, lane, rec, ctl, seed)
            real.append(str(rec.asked[0]) if rec.asked else '?')
        except IndexError:
            real.append('-')
    model = common.run_driver([f"wio-dataset {nds} {seed} {','.join(map(str, modes))} {','.join(map(str, sel))}"])[0].split(',')
    if real != model:
        return f'nsets={nds} seed={seed} modes={modes} simctl0={sel}: real _wave_eval indexes delays with {real}, model selectDataset gives {model}'
    return None


def stems_nonmonotone(c, ws, lane):
    """does the (un-stripped) run contain a waveform on a fork input line that is not strictly increasing?"""
    cc = np.array(ws.c)
    for n in c.nodes:
        if n.kind == '__fork__' and len(n.ins) > 0 and n.ins[0] is not None:
            l = n.ins[0].index
            ents, _ = wc.read_wave(cc, int(ws.c_locs[l]), int(ws.c_caps[l]), lane)
            if any(b <= a for a, b in zip(ents, ents[1:])): return True
    return False


def d13_witness():
    """z = AND2(p0, XOR3(p1,p2,p3)) with polarity-dependent delays on the AND inputs: the AND output (a fork stem) carries the
    non-monotone waveform [25.5, 22.0, 28.5]; the fork buffer filters it to [28.5], stripping the fork exposes 22.0"""
    from kyupy.circuit import Circuit, Node, Line
    c = Circuit('d13'); forks = []
    for k in range(4):
        n = Node(c, f'p{k}', 'input'); f = Node(c, f'p{k}'); Line(c, n, f); c.io_nodes.append(n); forks.append(f)
    x = Node(c, 'x', 'XOR3')
    for k in (1, 2, 3): Line(c, forks[k], (x, k - 1))
    xf = Node(c, 'x'); Line(c, x, xf)
    z = Node(c, 'z', 'AND2'); la1 = Line(c, forks[0], (z, 0)); la2 = Line(c, xf, (z, 1))
    zf = Node(c, 'z'); Line(c, z, zf)
    o = Node(c, 'o', 'output'); Line(c, zf, o); c.io_nodes.append(o)
    d = np.zeros((1, len(c.lines), 2, 2), dtype=np.float32)
    d[0, la1.index] = [[0, 0], [0, 9]]; d[0, la2.index] = [[9, 9], [2, 5]]
    i = np.zeros((5, 1), dtype=np.float32); f = np.zeros((5, 1), dtype=np.float32); f[:4] = 1
    t = np.zeros((5, 1), dtype=np.float32); t[:4, 0] = [9.5, 16.5, 17, 19.5]
    return c, d, i, t, f


def wave_strip_inputs(case):
    """circuit, delays, stimulus of a wave-strip case (the same objects `eval_case` builds)"""
    if case.get('clause') == 'wave-strip-witness':
        c, d, i, t, f = d13_witness()
        return c, d, i, t, f, 1, 16
    c = pickle.loads(base64.b64decode(case['circuit']))
    srng = random.Random(case['sseed']); drng = random.Random(case['dseed'])
    forks_in = [n.ins[0].index for n in c.nodes if n.kind == '__fork__' and len(n.ins) > 0 and n.ins[0] is not None]
    delays = wc.rand_delays(drng, len(c.lines), datasets=1, polarity_dependent=not case['polind'], zero_forks=forks_in)
    i, t, f = wc.rand_stim(srng, len(c.s_nodes), case['sims'])
    return c, delays, i, t, f, case['sims'], case['caps']


def strip_theorem(case):
    """Hypotheses of KV.C06.strip_equiv / strip_equiv_polind on the REAL pair (un-stripped, stripped) of WaveSim objects.
    returns {'tags': [...], 'broken': [(name, detail)], 'violation': None | (observed, expected)}"""
    TMIN, TMAX, TOVL = wc.consts()
    c, d, i, t, f, sims, caps = wave_strip_inputs(case)
    un = wave_run(c, d, sims, i, t, f, caps, strip=False, reuse=False)
    sp = wave_run(c, d, sims, i, t, f, caps, strip=True, reuse=False)
    ops_un = [[int(x) for x in r[:6]] for r in np.array(un.ops)]
    ops_sp = [[int(x) for x in r[:6]] for r in np.array(sp.ops)]
    locs_un, caps_un, c_un = np.array(un.c_locs), np.array(un.c_caps), np.array(un.c)
    locs_sp, caps_sp, c_sp = np.array(sp.c_locs), np.array(sp.c_caps), np.array(sp.c)
    inputs = set(sp.ppi_offset + int(x) for x in sp.pippi_s_locs)
    written_sp = set(r[1] for r in ops_sp) | inputs
    by_loc = {}
    for w in sorted(written_sp): by_loc.setdefault(int(locs_sp[w]), w)
    def owner(x):   # the signal whose memory `x` uses in the stripped simulator (a branch shares the memory of its stem)
        return x if x in written_sp else by_loc.get(int(locs_sp[x]), x)
    st = {r[1]: owner(r[1]) for r in ops_un if r[1] not in written_sp}     # real branch -> stem map
    zidx = int(un.zero_idx)
    rows_un = '/'.join(','.join(map(str, r)) for r in ops_un) or '~'
    rows_sp = '/'.join(','.join(map(str, r[:2] + [owner(x) for x in r[2:6]] + r[2:6])) for r in ops_sp) or '~'
    st_s = ','.join(f'{b}:{s}' for b, s in sorted(st.items())) or '~'
    ans = common.run_driver([f'stripcert {zidx} {st_s} {rows_un} {rows_sp}'])[0]
    res = {'tags': [], 'broken': [], 'violation': None}
    cert = ans.startswith('ok=1 eq=1 ')
    if not cert:
        res['broken'].append(('stripOkB / stripOps on the real op rows', f'{ans} st={st_s} un={rows_un[:400]} sp={rows_sp[:400]}'))
    res['tags'].append('strip-cert:' + ('ok' if cert else 'FAIL'))
    # hypotheses of KV.C06.genOps_strip_link / strip_equiv_all_circuits on the REAL circuit and the REAL topological order, and
    # the model's branch -> stem list (`stemList` = the `stems` array of the SimOps model) against the real one (read off c_locs)
    try:
        order = ','.join(str(n.index) for n in c.topological_order())
        ans2 = common.run_driver([f'net {circ.dump_net(c)}', f'netcert {order}', f'forkcert {order}'])[1:]
    except Exception as ex:
        ans2 = [f'{type(ex).__name__}: {ex}'[:200], '']
    want2 = ['wf=true order=true', 'forks=true stems=' + ','.join(f'{b}:{s}' for b, s in sorted(st.items()))]
    if ans2 != want2:
        res['broken'].append(('Net.wfB / orderOKB / forksOKB on the real circuit, stemList = real branch->stem map', f'{ans2} != {want2}'))
    res['tags'].append('strip-netcert:' + ('ok' if ans2 == want2 else 'FAIL'))
    res['tags'].append('strip-forkrows:' + ('0' if not st else '1-3' if len(st) <= 3 else '4+'))
    # numeric hypotheses shared by both theorems
    dd = np.array(un.delays)[0]
    forkrows = [r for r in ops_un if r[1] in st]
    good = bool((dd >= 0).all()) and all(int(caps_un[r[1]]) >= 4 for r in ops_un)
    zero = all(bool((dd[r[2]] == 0).all()) for r in forkrows)
    polind = all(bool((dd[l] == dd[l, 0, 0]).all()) for l in range(dd.shape[0]))
    capsok = all(int(caps_un[r[2]]) <= int(caps_un[r[1]]) for r in forkrows)
    written_un = set(r[1] for r in ops_un)
    def wave(cc, locs, capsA, x, lane): return wc.read_wave(cc, int(locs[x]), int(capsA[x]), lane)
    def wellformed(ents): return all(e > TMIN for e in ents[1:])
    def increasing(ents): return all(a < b for a, b in zip(ents, ents[1:]))
    n_polind = n_run = n_none = 0
    for lane in range(sims):
        zw = wave(c_un, locs_un, caps_un, zidx, lane)
        zero_ok = zw[1] == 'M'
        env_ok = zero_ok and all(wellformed(w[0]) and increasing(w[0]) and w[1] in 'MO' for w in (wave(c_un, locs_un, caps_un, x, lane) for x in inputs))
        env_len = all(len(wave(c_un, locs_un, caps_un, r[2], lane)[0]) < int(caps_un[r[1]]) for r in forkrows if r[2] not in written_un)
        fork_in = zero_ok and all(wellformed(w[0]) and increasing(w[0]) and len(w[0]) < int(caps_un[r[1]])
                                  for r in forkrows for w in [wave(c_un, locs_un, caps_un, r[2], lane)])
        thm_polind = cert and good and zero and polind and capsok and env_ok and env_len
        thm_run = cert and good and zero and fork_in
        if thm_polind and not fork_in:
            res['broken'].append(('strip_equiv_polind ⇒ ForkIn', f'polarity-independent delays but a stem waveform of the real un-stripped run is not strictly increasing / too long (lane {lane})'))
        n_polind += thm_polind; n_run += thm_run and not thm_polind; n_none += not (thm_run or thm_polind)
        if (thm_polind or thm_run) and res['violation'] is None:
            for x in sorted(written_sp):
                a, b = wave(c_sp, locs_sp, caps_sp, x, lane), wave(c_un, locs_un, caps_un, x, lane)
                if a != b:
                    res['violation'] = ({'clause': 'wave-strip', 'theorem': 'strip_equiv_polind' if thm_polind else 'strip_equiv', 'lane': lane, 'signal': x,
                                         'stripped': wc.fmt_wave(*a)}, {'un-stripped': wc.fmt_wave(*b)})
                    break
            for bsig, ssig in sorted(st.items()):
                a, b = wave(c_sp, locs_sp, caps_sp, ssig, lane), wave(c_un, locs_un, caps_un, bsig, lane)
                if a != b and res['violation'] is None:
                    res['violation'] = ({'clause': 'wave-strip', 'theorem': 'strip_equiv_polind' if thm_polind else 'strip_equiv', 'lane': lane, 'stem': ssig,
                                         'branch': bsig, 'stripped-stem': wc.fmt_wave(*a)}, {'un-stripped-branch': wc.fmt_wave(*b)})
    res['lanes'] = {'strip-thm-lanes:polind': n_polind, 'strip-thm-lanes:run(ForkIn)only': n_run, 'strip-thm-lanes:not-applicable': n_none}
    res['tags'].append('strip-thm:' + ('polind' if n_polind == sims else 'run(ForkIn)' if n_polind + n_run == sims else 'partly' if n_polind + n_run > 0 else 'not-applicable'))
    return res


def eval_case(case):
    if case.get('clause') == 'wave-strip-witness':
        c, d, i, t, f = d13_witness()
        ref = wave_run(c, d, 1, i, t, f, 16, strip=False)
        got = wave_run(c, d, 1, i, t, f, 16, strip=True)
        a, b = np.array(got.s)[3:, :, :1], np.array(ref.s)[3:, :, :1]
        if not np.array_equal(a, b):
            kk = np.argwhere(a != b)[0]
            return False, {'clause': 'wave-strip', 's_field': int(kk[0]) + 3, 's_node': int(kk[1]), 'lane': 0, 'got': float(a[tuple(kk)]),
                           'nonmonotone_stem': stems_nonmonotone(c, ref, 0)}, {'reference': float(b[tuple(kk)])}
        return True, None, None
    c = pickle.loads(base64.b64decode(case['circuit']))
    rs = np.random.RandomState(case['sseed'] % (2**31))
    srng = random.Random(case['sseed']); drng = random.Random(case['dseed'])
    s_len, sims, cl = len(c.s_nodes), case['sims'], case['clause']
    if cl.startswith('logic'):
        m = case['m']
        dom = {2: [0, 3], 4: [0, 1, 2, 3], 8: list(range(8))}[m]
        stim = rs.choice(dom, size=(s_len, sims)).astype(np.uint8)
        ref = logic_run(c, m, stim, sims, False, False)
        if cl == 'logic-options':
            for strip in (False, True):
                for reuse in (False, True):
                    got = logic_run(c, m, stim, sims, strip, reuse)
                    if not np.array_equal(got, ref):
                        k = np.argwhere(got != ref)[0]
                        return False, {'clause': cl, 'm': m, 'strip': strip, 'reuse': reuse, 's_node': int(k[0]), 'lane': int(k[1]), 'got': int(got[tuple(k)])}, {'reference': int(ref[tuple(k)])}
        else:
            perm = list(range(sims)); srng.shuffle(perm)
            got = logic_run(c, m, stim[:, perm], sims + srng.choice([0, 3, 8, 59]), case['strip'], case['reuse'])
            exp = logic_run(c, m, stim, sims, case['strip'], case['reuse'])[:, perm]
            if not np.array_equal(got, exp):
                k = np.argwhere(got != exp)[0]
                return False, {'clause': cl, 'm': m, 's_node': int(k[0]), 'lane': int(k[1])}, {'equal': 'permuted reference'}
        return True, None, None
    # ---- WaveSim clauses
    forks_in = [n.ins[0].index for n in c.nodes if n.kind == '__fork__' and len(n.ins) > 0 and n.ins[0] is not None]
    nds = 3 if cl == 'wave-dataset' else 1
    delays = wc.rand_delays(drng, len(c.lines), datasets=nds, polarity_dependent=not case['polind'],
                            zero_forks=forks_in if cl == 'wave-strip' else None)
    i, t, f = wc.rand_stim(srng, s_len, sims)
    def fields(ws, n=None): return np.array(ws.s)[3:, :, :(n or sims)]
    if cl == 'wave-dataset':
        d = srng.randrange(nds)
        for nn in (nds, 1, 2):
            case['_tie'] = case.get('_tie') or dataset_tie(wc.make_sim(c, delays, sims, c_caps=case['caps']), nn, srng)
        ref = wave_run(c, delays[d], sims, i, t, f, case['caps'], case['strip'], case['reuse'])
        g0 = wave_run(c, delays, sims, i, t, f, case['caps'], case['strip'], case['reuse'], mode=0, seed=d)
        if not np.array_equal(fields(g0), fields(ref)):
            return False, {'clause': cl, 'mode': 0, 'dataset': d}, {'equal': 'simulation with that data set alone'}
        sel = [srng.randrange(nds) for _ in range(sims)]
        g1 = wave_run(c, delays, sims, i, t, f, case['caps'], case['strip'], case['reuse'], mode=1, simctl0=sel)
        for lane, dd in enumerate(sel):
            r = wave_run(c, delays[dd], sims, i, t, f, case['caps'], case['strip'], case['reuse'])
            if not np.array_equal(fields(g1)[:, :, lane], fields(r)[:, :, lane]):
                return False, {'clause': cl, 'mode': 1, 'lane': lane, 'dataset': dd}, {'equal': 'simulation with that data set alone'}
        # the selection mode is a per-lane setting: lanes in mode 0 use data set `seed`, lanes in mode 1 their own choice
        modes = [srng.randrange(2) for _ in range(sims)]
        if srng.random() < 0.5: modes[0] = 0
        g2 = wave_run(c, delays, sims, i, t, f, case['caps'], case['strip'], case['reuse'], mode=np.array(modes, dtype=np.int32), simctl0=sel, seed=d)
        for lane, (mm, dd) in enumerate(zip(modes, sel)):
            want = d if mm == 0 else dd
            r = wave_run(c, delays[want], sims, i, t, f, case['caps'], case['strip'], case['reuse'])
            if not np.array_equal(fields(g2)[:, :, lane], fields(r)[:, :, lane]):
                return False, {'clause': cl, 'modes': modes, 'lane': lane, 'dataset': want}, {'equal': 'simulation with that data set alone'}
        return True, None, None
    d0 = delays
    ref = wave_run(c, d0, sims, i, t, f, case['caps'])
    if cl == 'wave-reuse':
        got = wave_run(c, d0, sims, i, t, f, case['caps'], strip=case['strip'], reuse=True, multi_seed=case['sseed'])
        exp = wave_run(c, d0, sims, i, t, f, case['caps'], strip=case['strip'], reuse=False, multi_seed=case['sseed'])
    elif cl == 'wave-strip':
        got = wave_run(c, d0, sims, i, t, f, case['caps'], strip=True, reuse=case['reuse'])
        exp = ref
    elif cl == 'wave-gpu':
        wrng = random.Random(case['sseed'] + 3)
        warm = [wc.rand_stim(wrng, i.shape[0], sims) for _ in range(wrng.choice([0, 1]))]
        ms = case['sseed'] if wrng.random() < 0.5 else None
        got = wave_run(c, d0, sims, i, t, f, case['caps'], strip=case['strip'], reuse=case['reuse'], cuda=True, multi_seed=ms, warm=warm)
        exp = wave_run(c, d0, sims, i, t, f, case['caps'], strip=case['strip'], reuse=case['reuse'], multi_seed=ms, warm=warm)
        if not np.array_equal(np.array(got.c), np.array(exp.c)):
            return False, {'clause': cl, 'differs': 'signal memory c'}, {'equal': 'CPU path'}
    elif cl == 'wave-lanes':
        perm = list(range(sims)); srng.shuffle(perm)
        got = wave_run(c, d0, sims + srng.choice([0, 2, 11]), i[:, perm], t[:, perm], f[:, perm], case['caps'], case['strip'], case['reuse'])
        e = wave_run(c, d0, sims, i, t, f, case['caps'], case['strip'], case['reuse'])
        if not np.array_equal(fields(got), fields(e)[:, :, perm]):
            return False, {'clause': cl}, {'equal': 'permuted reference'}
        return True, None, None
    elif cl == 'wave-k':
        k = srng.randint(1, sims)
        got = wave_run(c, d0, sims, i, t, f, case['caps'], case['strip'], case['reuse'], k=k)
        e = wave_run(c, d0, sims, i, t, f, case['caps'], case['strip'], case['reuse'])
        if not np.array_equal(fields(got, k), fields(e, k)):
            return False, {'clause': cl, 'k': k}, {'equal': 'first k lanes of the full run'}
        return True, None, None
    if not np.array_equal(fields(got), fields(exp)):
        kk = np.argwhere(fields(got) != fields(exp))[0]
        obs = {'clause': cl, 's_field': int(kk[0]) + 3, 's_node': int(kk[1]), 'lane': int(kk[2]), 'got': float(fields(got)[tuple(kk)])}
        if cl == 'wave-strip':
            obs['nonmonotone_stem'] = stems_nonmonotone(c, ref, int(kk[2]))
        return False, obs, {'reference': float(fields(exp)[tuple(kk)])}
    return True, None, None


def oracle(ck, n, thorough=False):
    for it in range(n + 1):
        cs = make_case(ck.rng, thorough) if it > 0 else {'clause': 'wave-strip-witness', 'circuit': 'd13-witness', 'sseed': 0, 'dseed': 0, 'polind': False}
        try:
            ok, obs, exp = eval_case(cs)
        except wc.OffGrid:
            ck.hist['off-grid-discarded'] += 1; continue
        except Exception as ex:
            ok, obs, exp = False, {'raised': f'{type(ex).__name__}: {ex}'[:300], 'clause': cs['clause']}, None
        tags = ['clause:' + cs['clause'], f"polind:{cs['polind']}"]
        if cs['clause'] in ('wave-strip', 'wave-strip-witness'):
            try:
                th = strip_theorem(cs)
            except wc.OffGrid:
                th = None
            except Exception as ex:
                th = {'tags': [], 'broken': [('strip_theorem raised', f'{type(ex).__name__}: {ex}'[:300])], 'violation': None, 'lanes': {}}
            if th is not None:
                tags += th['tags']
                for k, v in th.get('lanes', {}).items(): ck.hist[k] += v
                for name, detail in th['broken']:
                    ck.broken_tie(name, detail, inp={k: v for k, v in cs.items() if k != 'circuit'})
                if th['violation'] is not None:
                    ck.violation('config-wave-strip', 'un-stripped and stripped WaveSim differ although the hypotheses of the fork-stripping theorem hold',
                                 cs, th['violation'][0], th['violation'][1])
        dtie = cs.pop('_tie', None)
        if cs['clause'] == 'wave-dataset':
            tags.append('tie-dataset:' + ('ok' if dtie is None else 'BROKEN'))
            if dtie is not None:
                ck.broken_tie('data-set selection model (WaveIO.selectDataset vs _wave_eval lines 165-176)', str(dtie)[:400],
                              inp={k: v for k, v in cs.items() if k != 'circuit'})
        if cs['clause'].startswith(('logic-', 'wave-')) and cs['clause'] != 'wave-strip-witness':
            # hypotheses of the *_all_circuits theorems (strip_irrelevant_logic*, strip_equiv_all_circuits, reuse) on the REAL circuit
            tags.append(common.allcirc_hyp(ck, pickle.loads(base64.b64decode(cs['circuit'])), [True], 'C06'))
        ck.case(key=(cs['circuit'][:80], cs['clause'], cs['sseed'], cs['dseed']), sample={k: v for k, v in cs.items() if k != 'circuit'},
                tag=tags)
        if not ok:
            cls = 'D13-nonmonotone-stem' if (obs.get('clause') == 'wave-strip' and obs.get('nonmonotone_stem')) else 'config-' + str(obs.get('clause'))
            ck.violation(cls, f"results differ between configurations ({obs.get('clause')})", cs, obs, exp)


def run(ck):
    ck.prove([extract_ops.generate], TARGETS, theorems())
    n = 120 if ck.tier == 'quick' else 2000
    oracle(ck, n, ck.tier == 'thorough')
    pathtie.corr(ck, 80 if ck.tier == 'quick' else 1200)
    if ck.broken and not ck.violations: oracle(ck, n * 4, ck.tier == 'thorough')
    ck.assumptions += ['GPU-kernel code path = the cuda.jit kernels executed by MockCuda (no CUDA device here)',
                       'delay data-set mode 2 (pseudo-random pick) is not part of the statement; modes 0/1 incl. mixed per-lane modes and out-of-range indices: the index the real _wave_eval applies to delays is compared per lane with WaveIO.selectDataset (driver wio-dataset, tag tie-dataset)',
                       'WaveSim lanes / c_prop(sims=k) / lane permutation / data set per lane / reuse: theorems cprop_first_k, cprop_lane_position, cprop_lane_permutation, dataset_lane(_select), wave_reuse_irrelevant about the models (Model/WaveIO.lean cpuCProp with ANY evaluator function; C03 memory model); the real runs are compared by the cross-configuration oracle; whole propagation cpuCProp / gpuCProp (evWave with the per-lane data set cfgSel, accAdd) IS run by the driver on the raw memory, op / level tables, c_locs / c_caps, delays and simctl of real WaveSim / WaveSimCuda objects (clause path-tie-cprop, driver wio-cprop: the waveform every region reads as and every accumulator, every lane, c_prop(sims=k), cells behind terminators not compared), s_to_c / s_ppo_to_ppi / capture scan / whole c_to_s likewise cell by cell (clause path-tie, driver wio-*), and the table hypotheses of the whole-array theorems are evaluated by the driver (wio-hyp)']
    return ck.finish(RULE)


def replay(rep):
    if rep['input'].get('clause') == 'path-witness':
        w = pathtie.finding_witness()
        print(json.dumps({'ok': w is None, 'observed': {'difference': w}, 'expected': {'difference': None}}))
        return 0 if w is None else 1
    if rep['input'].get('clause') == 'path-tie-cprop':
        broken, _, diff = pathtie.cprop_case(rep['input']['seed'])
        ok = not broken and diff is None
        print(json.dumps({'ok': ok, 'observed': diff if diff is not None else {'broken-correspondence': broken}, 'expected': {'equal': 'both code paths'} if diff is not None else None}, default=str))
        return 0 if ok else 1
    if rep['input'].get('clause') == 'path-tie':
        broken, _ = pathtie.eval_case(rep['input'])
        print(json.dumps({'ok': not broken, 'observed': {'broken-correspondence': broken}, 'expected': None}, default=str))
        return 0 if not broken else 1
    ok, obs, exp = eval_case(rep['input'])
    if ok and rep['input'].get('clause') in ('wave-strip', 'wave-strip-witness'):
        th = strip_theorem(rep['input'])
        if th['violation'] is not None:
            ok, (obs, exp) = False, th['violation']
        elif th['broken']:
            ok, obs, exp = False, {'broken-correspondence': th['broken']}, None
    print(json.dumps({'ok': ok, 'observed': obs, 'expected': exp}, default=str))
    return 0 if ok else 1
