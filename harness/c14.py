"""C14 — every SDF delay lands on the right line, polarity and data set — none is lost.

generator  : random small netlists (Verilog text, NANGATE / SAED32 / SAED90 cells, escaped names, unconnected pins,
             fan-out, output ports) parsed by the real kyupy.verilog.parse with both branchforks settings, and random
             SDF texts of the supported subset built from a table of delays the generator placed itself.
oracle     : real sdf.parse(text).iopaths()/.interconnects() == the generator's ground-truth array (every other entry 0).
correspond.: Lean model (Model/Sdf.lean, through the compiled driver, fed with the block list in file order and the
             pin/fork tables exported from the real circuit) == the real result; mismatch = broken tie.
"""
import json, re
import numpy as np
from . import common, textmut

PID = 'C14'
TARGETS = ['KyupyVerif.Props.C14', 'KyupyVerif.Props.C14Wave']
RULE = ('random netlists (1-4 inputs, 1-7 cells of NANGATE/SAED32/SAED90 with 1-6 input and 1-2 output pins, fan-out, output '
        'ports, unconnected pins, escaped instance/wire names) through verilog.parse x {branchforks} x random SDF texts: '
        'IOPATH per (instance, input pin) unqualified / posedge / negedge / both edges, one or two value lists, triple forms '
        '(a:b:c) () (a::) (::c) (:b:) (::) ..., INTERCONNECT per (driver, reader) pair, entries shuffled, CELL blocks split '
        '(repeated blocks per instance with different escapings, several top-level blocks, several DELAY sections, blocks '
        'without INSTANCE, unknown instances, TIMINGCHECK/header/comment noise). oracle streams keep one entry per array '
        'coordinate (ground truth unambiguous; negative IOPATH and INTERCONNECT values, all-zero interconnects and '
        'interconnects that are not all-zero although max(max(delvals)) == 0 included); the overlap stream (several '
        'outputs per input pin, duplicates) is model-vs-code only. distinct = (netlist, branchforks, SDF text); non-trivial = at '
        'least 3 entries and at least one non-zero ground-truth coordinate. '
        'clause sdf-wave (timing data path, Props/C14Wave.lean; hypotheses wfB/orderOKB/forksOKB/readsDrivenB/rawNonneg of its STA theorems evaluated by the driver on every compared case, tags hyp:sdfwave:*): '
        'netlists of cells WaveSim schedules (1-4 inputs, one output) x SDF texts with non-negative values on the 1/8 grid x '
        '{strip_forks} x c_caps 16/32 x three lanes with the three data sets x random multi-transition stimuli: real '
        'WaveSim(c, delays=df.iopaths(c, tlib) + df.interconnects(c, tlib)) against the composition of the models (driver sdfwave: '
        'text -> grammar model -> block list -> sdfDelay -> simWave over the op rows of the SimOps model): delay array cell by cell, '
        'waveform in the region of every output slot and every written signal; every 8th file has no block without INSTANCE name: '
        'the real df.interconnects() raises TypeError and the model must answer raise:interconnects (sdfDelay = none) — an exception of '
        'the two annotation calls agrees with that token only, an exception anywhere else never; mismatch = broken tie')

TLIBS = ['NANGATE', 'SAED32', 'SAED90']


def theorems():
    return common.theorems_of('KyupyVerif/Props/C14.lean', 'KV.C14')


def theorems_wave():
    """timing data path C14 o C04/C03 (from the SDF text to the WaveSim waveforms)"""
    return common.theorems_of('KyupyVerif/Props/C14Wave.lean', 'KV.C14')


# ---------------------------------------------------------------------------------------------- small helpers
def pct(s):
    """percent-encode everything but [A-Za-z0-9_]; the empty string is '%'"""
    return ''.join(ch if (ch.isalnum() and ch.isascii()) or ch == '_' else '%%%02x' % ord(ch) for ch in s) or '%'


def get_tlib(name):
    from kyupy import techlib
    return getattr(techlib, name)


_catalog = {}


def catalog(tname):
    """[(kind, [input pins in position order], [output pins in position order])] from the library's own pin table"""
    if tname not in _catalog:
        cat = []
        for kind, (_, pd) in get_tlib(tname).cells.items():
            ins = [p for p, v in sorted(((p, v) for p, v in pd.items() if not v[1]), key=lambda t: t[1][0])]
            outs = [p for p, v in sorted(((p, v) for p, v in pd.items() if v[1]), key=lambda t: t[1][0])]
            if 1 <= len(ins) <= 6 and 1 <= len(outs) <= 2:
                cat.append((kind, ins, outs))
        _catalog[tname] = cat
    return _catalog[tname]


def fmt_val(rng, v):
    """text of v thousandths in one of several spellings accepted by /[-.0-9]*/"""
    s = '-' if v < 0 else ''
    a = abs(v)
    ip, fp = divmod(a, 1000)
    forms = [f'{ip}.{fp:03d}']
    t = f'{ip}.{fp:03d}'.rstrip('0')
    forms.append(t)                         # may end with '.'
    if fp == 0: forms.append(f'{ip}')
    if ip == 0 and fp: forms.append(f'.{fp:03d}')
    if ip == 0 and fp == 0: forms += ['0', '0.0', '.0', '00']
    return s + rng.choice(forms)


def triple_text(rng, t):
    """t: [] or [v|None]*3"""
    if not t: return '()' if rng.random() < 0.8 else '( )'
    return '(' + ':'.join('' if v is None else fmt_val(rng, v) for v in t) + ')'


def rand_triple(rng, neg=False, p_empty=0.12, grid=False):
    r = rng.random()
    def val():
        q = rng.random()
        if q < 0.1: return 0
        if grid: return rng.choice([rng.randint(1, 8), rng.randint(1, 40), rng.randint(1, 160)]) * 125   # multiples of 1/8: exact in float32
        v = rng.choice([rng.randint(1, 9), rng.randint(1, 999), rng.randint(1000, 30000), rng.randint(1, 40) * 125])
        return -v if (neg and rng.random() < 0.3) else v
    if r < p_empty: return []
    if r < 0.60: return [val(), val(), val()]
    form = rng.choice(['a::', '::c', ':b:', 'a:b:', ':b:c', 'a::c', '::'])
    return [val() if form[0] == 'a' else None, val() if 'b' in form else None, val() if form.endswith('c') else None]


def lexmax_pattern(rng):
    """value lists that are NOT all-zero although the largest element of the lexicographically larger list is 0
    (the skip test `max(max(delvals)) == 0` of the tree before D34 dropped them)"""
    v = lambda: -rng.choice([1, rng.randint(1, 999), rng.randint(1000, 30000)])
    w = lambda: rng.randint(1, 9000)
    return rng.choice([[[0, 0, 0], [v(), w(), w()]], [[v(), w(), w()], [0, 0, 0]], [[v(), 0, v()]], [[0, v(), 0]],
                       [[v(), v(), v()]], [[], [v(), w(), None]], [[None, None, None], [v(), None, w()]],
                       [[0, v(), w()], [0, 0, 0]], [[v(), v(), 0], [v(), 0, 0]]])


def ic_skip_old(vals):
    """the skip test of the tree before D34 on the generator's value lists"""
    dv = [tr(vals[0]), tr(vals[-1])]
    return max(max(dv)) == 0


def tr(t):
    """SdfTransformer.triple + the `[0,0,0]` substitution, in thousandths (generator's own reading of the SDF spec)"""
    return [0, 0, 0] if not t else [0 if v is None else v for v in t]


SPECIAL = '[]._$-+'


def rand_name(rng, prefix, k, p_special):
    base = f'{prefix}{k}'
    if rng.random() >= p_special: return base
    return rng.choice([f'{base}[{rng.randint(0, 3)}]', f'{base}.q', f'r{base}${k}', f'{base}_reg[{k}]', f'{base}-{k}+',
                       f'{prefix}.{k}', f'{prefix}[{k}]'])


def vname(rng, n):
    if re.fullmatch(r'[A-Za-z_][A-Za-z0-9_]*', n) and rng.random() > 0.08: return n
    return '\\' + n + ' '


def sdf_escape(rng, n, p_raw=0.15, p_extra=0.04):
    out = []
    for ch in n:
        if ch.isalnum() or ch == '_':
            out.append(('\\' + ch) if rng.random() < p_extra else ch)
        else:
            out.append(ch if rng.random() < p_raw else '\\' + ch)
    return ''.join(out)


# ---------------------------------------------------------------------------------------------- netlist generator
def wave_catalog(tname):
    """cells WaveSim schedules: kind starts with a prefix of sim.kind_prefixes, at most four inputs, one output"""
    from kyupy import sim
    return [(k, i, o) for k, i, o in catalog(tname)
            if len(i) <= 4 and len(o) == 1 and any(k.lower().startswith(pf) for pf in sim.kind_prefixes)]


def gen_netlist(rng, tname, p_special=0.3, cat=None):
    cat = cat or catalog(tname)
    n_in = rng.randint(1, 4)
    n_g = rng.randint(1, 7)
    sigs = {}      # name -> {'driver': ('port', name) | ('pin', inst, opin), 'readers': [('pin', inst, pin) | ('port', name)]}
    order = []
    for i in range(n_in):
        n = rand_name(rng, 'i', i, p_special * 0.5)
        sigs[n] = {'driver': ('port', n), 'readers': []}
        order.append(n)
    gates = []
    for g in range(n_g):
        kind, ins, outs = rng.choice(cat)
        if len(ins) > 4 and rng.random() < 0.6: kind, ins, outs = rng.choice(cat)
        inst = rand_name(rng, 'u', g, p_special)
        conns = {}
        for p in ins:
            if len(ins) > 1 and rng.random() < 0.06:
                conns[p] = None
            else:
                s = rng.choice(order) if rng.random() < 0.6 else order[-1 - rng.randrange(min(len(order), 3))]
                conns[p] = s
                sigs[s]['readers'].append(('pin', inst, p))
        oconns = {}
        for o in outs:
            if rng.random() < 0.08 and g > 0:
                oconns[o] = None
            else:
                w = rand_name(rng, 'n', f'{g}{o.lower()}' if len(outs) > 1 else g, p_special)
                sigs[w] = {'driver': ('pin', inst, o), 'readers': []}
                order.append(w)
                oconns[o] = w
        gates.append({'inst': inst, 'kind': kind, 'ins': ins, 'outs': outs, 'conns': conns, 'oconns': oconns})
    driven = [s for s in order if sigs[s]['driver'][0] == 'pin']
    outputs = [s for s in driven if rng.random() < 0.35]
    if not outputs and driven: outputs = [driven[-1]]
    for s in outputs: sigs[s]['readers'].append(('port', s))
    inputs = [s for s in order if sigs[s]['driver'][0] == 'port']
    wires = [s for s in driven if s not in outputs]
    lines = ['// generated', f"module top ({', '.join(vname(rng, n) for n in inputs + outputs)});"]
    for n in inputs: lines.append(f'  input {vname(rng, n)};')
    for n in outputs: lines.append(f'  output {vname(rng, n)};')
    for n in wires: lines.append(f'  wire {vname(rng, n)};')
    for g in gates:
        pins = [(p, g['conns'][p]) for p in g['ins']] + [(o, g['oconns'][o]) for o in g['outs']]
        rng.shuffle(pins)
        ptxt = ', '.join(f".{p}({vname(rng, s) if s is not None else ''})" for p, s in pins)
        lines.append(f"  {g['kind']} {vname(rng, g['inst'])} ({ptxt});")
    lines.append('endmodule')
    return {'tlib': tname, 'verilog': '\n'.join(lines) + '\n', 'gates': gates, 'sigs': sigs, 'inputs': inputs, 'outputs': outputs}


# ---------------------------------------------------------------------------------------------- circuit facts (ground truth side)
def resolve_io(c, tname, inst, kind, pin):
    """line that feeds input pin `pin` of cell `inst`: found structurally (reader / reader_pin), not through sdf.py"""
    node = c.cells.get(inst)
    if node is None: return None
    idx = get_tlib(tname).cells[kind][1][pin][0]
    ls = [l for l in c.lines if l.reader is node and l.reader_pin == idx]
    assert len(ls) <= 1
    return ls[0].index if ls else None


def resolve_ic(c, bf, sig, dst):
    """input line of the fork between driver and reader: the branch fork's, or the signal fork's when it has one reader"""
    stem = c.forks.get(sig)
    if stem is None or not len(stem.ins) or stem.ins[0] is None: return None
    if bf and dst[0] == 'pin':
        br = c.forks.get(f'{sig}~{dst[1]}/{dst[2]}')
        if br is None: return None
        assert br.ins[0].driver is stem and len(br.outs) == 1
        return br.ins[0].index
    return stem.ins[0].index if len(stem.outs) == 1 else None


import contextlib, io


@contextlib.contextmanager
def quiet():
    """kyupy's logger keeps its own handle on stdout: point it to a buffer while the real code runs"""
    import kyupy
    old = kyupy.log.logfile
    kyupy.log.logfile = io.StringIO()
    try:
        with common.quiet():
            yield
    finally:
        kyupy.log.logfile = old


def parse_circuit(case):
    from kyupy import verilog
    with quiet():
        return verilog.parse(case['verilog'], tlib=get_tlib(case['tlib']), branchforks=case['bf'])


# ---------------------------------------------------------------------------------------------- SDF generator
def gen_case(rng, kind='oracle', scale_blocks=1.0, wave=False, notop=False):
    """kind 'oracle': at most one entry per array coordinate; 'overlap': anything goes (model-vs-code only);
    wave: cells WaveSim schedules, values >= 0 on the 1/8 grid, always a top-level block (clause sdf-wave) unless
    notop: no block without INSTANCE name at all (interconnects() raises; the model answers `none`)"""
    tname = rng.choice(TLIBS)
    nl = gen_netlist(rng, tname, cat=wave_catalog(tname)) if wave else gen_netlist(rng, tname)
    bf = rng.random() < 0.5
    overlap = kind == 'overlap'
    p_rep = 0.4 * scale_blocks
    # ---- entries
    io_entries = {}     # inst -> list of entry dicts
    for g in nl['gates']:
        es = []
        n_conn = max([i + 1 for i, p in enumerate(g['ins']) if g['conns'][p] is not None] + [0])   # = len(cell.ins)
        for pi, p in enumerate(g['ins']):
            if rng.random() < 0.15: continue
            if pi >= n_conn: continue   # unconnected trailing pin: cell.ins[idx] raises IndexError (see robustness_notes)
            pats = [rng.choice(['both', 'both', 'pos', 'neg', 'posneg', 'posneg'])]
            if overlap and rng.random() < 0.5: pats.append(rng.choice(['both', 'pos', 'neg', 'posneg']))
            for pat in pats:
                for q in {'both': [None], 'pos': [0], 'neg': [1], 'posneg': [0, 1]}[pat]:
                    spec = p if q is None else f"({'posedge' if q == 0 else 'negedge'} {p})"
                    nv = rng.choice([1, 2, 2])
                    vals = [rand_triple(rng, neg=(rng.random() < 0.1) and not wave, grid=wave) for _ in range(nv)]
                    es.append({'a': spec, 'b': rng.choice(g['outs']), 'vals': vals, 'pin': p,
                               'pols': [0, 1] if q is None else [q]})
        if es: io_entries[g['inst']] = es
    ic_entries = []
    for s, info in nl['sigs'].items():
        for rd in info['readers']:
            reps = 1 if rng.random() < 0.75 else 0
            if overlap and rng.random() < 0.4: reps += 1
            for _ in range(reps):
                nv = rng.choice([1, 1, 2])
                neg = rng.random() < (0.3 if overlap else 0.2) and not wave     # negative delays are legal SDF (audit finding 3 / D34)
                vals = [rand_triple(rng, neg=neg, p_empty=0.3 if overlap else 0.12, grid=wave) for _ in range(nv)]
                if not wave and rng.random() < 0.15: vals = [[0, 0, 0]] if rng.random() < 0.5 else [[]]   # all-zero: skipped, truth 0
                if not wave and rng.random() < 0.12: vals = lexmax_pattern(rng)
                ic_entries.append({'sig': s, 'drv': info['driver'], 'dst': rd, 'vals': vals})
    # ---- blocks
    blocks = []   # {'insts': [...], 'sections': [[entry]], 'celltype':..}
    def sections_of(part):
        if len(part) >= 2 and rng.random() < 0.3:
            k = rng.randint(1, len(part) - 1)
            secs = [part[:k], part[k:]]
        else:
            secs = [part]
        if rng.random() < 0.05: secs.insert(rng.randint(0, len(secs)), [])
        return secs
    def split_parts(es, p):
        es = list(es); rng.shuffle(es)
        k = 1
        if rng.random() < p: k = rng.choice([2, 2, 3])
        cuts = sorted(rng.randint(0, len(es)) for _ in range(k - 1))
        parts, a = [], 0
        for cpos in cuts + [len(es)]:
            parts.append(es[a:cpos]); a = cpos
        return parts
    kinds = {g['inst']: g['kind'] for g in nl['gates']}
    for inst, es in io_entries.items():
        for part in split_parts(es, p_rep):
            raw = sdf_escape(rng, inst) if rng.random() < 0.8 else sdf_escape(rng, inst, p_raw=0.5, p_extra=0.3)
            insts = [raw]
            if rng.random() < 0.03: insts.append('zz' + raw)   # a second INSTANCE statement is ignored by `cell`
            ents = [{'a': e['a'], 'b': e['b'], 'vals': e['vals'], 'io': (inst, e['pin'], e['pols'])} for e in part]
            blocks.append({'insts': insts, 'sections': sections_of(ents), 'celltype': kinds[inst]})
    top_parts = split_parts(ic_entries, p_rep) if (ic_entries or rng.random() < 0.7) else []
    if kind == 'oracle' and not top_parts and rng.random() < 0.9: top_parts = [[]]
    if wave and not top_parts: top_parts = [[]]
    if notop: top_parts = []
    def pin_txt(d):
        return sdf_escape(rng, d[1]) if d[0] == 'port' else sdf_escape(rng, d[1]) + '/' + d[2]
    for part in top_parts:
        ents = [{'a': pin_txt(e['drv']), 'b': pin_txt(e['dst']), 'vals': e['vals'], 'ic': (e['sig'], list(e['dst']))} for e in part]
        blocks.append({'insts': [], 'sections': sections_of(ents), 'celltype': 'top', 'no_inst_stmt': rng.random() < 0.1})
    if rng.random() < 0.12:   # a block for an instance that is not in the netlist: warned about and skipped
        blocks.append({'insts': ['ghost\\[7\\]'], 'celltype': 'INV_X1',
                       'sections': [[{'a': 'A', 'b': 'ZN', 'vals': [[125 if wave else 5] * 3], 'io': ('ghost[7]', 'A', [0, 1])}]]})
    if rng.random() < 0.1:    # a block with timing checks only
        blocks.append({'insts': ['tc_only'], 'celltype': 'DFF_X1', 'sections': []})
    rng.shuffle(blocks)
    text = render_sdf(rng, blocks)
    case = {'kind': kind, 'tlib': tname, 'bf': bf, 'verilog': nl['verilog'], 'sdf': text,
            'blocks': [{'insts': b['insts'], 'sections': [[{k: e[k] for k in e} for e in sec] for sec in b['sections']]} for b in blocks],
            'gates': [{'inst': g['inst'], 'kind': g['kind'], 'ins': g['ins']} for g in nl['gates']],
            'pairs': [[s, list(info['driver']), list(rd)] for s, info in nl['sigs'].items() for rd in info['readers']]}
    return case


HEADER = ['(SDFVERSION "OVI 2.1")', '(DESIGN "top")', '(DATE "Wed May 31 14:46:06 2017")', '(VENDOR "saed90nm_max")',
          '(PROGRAM "Synopsys Design Compiler cmos-annotated")', '(VERSION "I-2013.12-ICC-SP3")', '(DIVIDER /)',
          '(VOLTAGE 1.20:1.20:1.20)', '(PROCESS "TYPICAL")', '(TEMPERATURE 25.00:25.00:25.00)', '(TIMESCALE 1ns)']
TCHECK = ['(WIDTH (posedge CLK) (0.284:0.284:0.284))', '(SETUP (posedge D) (posedge CLK) (0.544:0.553:0.553))',
          '(HOLD (negedge D) (posedge CLK) (-0.196:-0.219:-0.219))', '(RECOVERY (posedge RSTB) (posedge CLK) (-1.390:-1.455:-1.455))']


def render_sdf(rng, blocks):
    nl = lambda: rng.choice(['\n', '\n  ', ' ', '\n\t', ' // c\n'])
    out = ['(DELAYFILE']
    hdr = [h for h in HEADER if rng.random() < 0.7]
    out += hdr
    for b in blocks:
        parts = ['(CELL']
        items = [f"(CELLTYPE \"{b['celltype']}\")"]
        if b['insts']:
            items += [f'(INSTANCE {n})' for n in b['insts']]
        elif not b.get('no_inst_stmt'):
            items.append(rng.choice(['(INSTANCE)', '(INSTANCE )']))
        for sec in b['sections']:
            ents = []
            for e in sec:
                kw = 'IOPATH' if 'io' in e else 'INTERCONNECT'
                ents.append(f"({kw} {e['a']} {e['b']} " + ' '.join(triple_text(rng, t) for t in e['vals']) + ')')
            items.append('(DELAY' + nl() + '(ABSOLUTE' + nl() + nl().join(ents) + nl() + '))')
        if rng.random() < 0.15 or not b['sections']:
            items.append('(TIMINGCHECK ' + ' '.join(rng.sample(TCHECK, rng.randint(0, 3))) + ')')
        out.append('(CELL' + nl() + nl().join(items) + nl() + ')')
    out.append(')')
    return nl().join(out) + '\n'


# ---------------------------------------------------------------------------------------------- evaluation
def block_key(b):
    return b['insts'][0] if b['insts'] else None


def truth_arrays(case, c, only_last=False, old_skip=False):
    """the generator's ground truth; only_last=True: what remains if only the last block of each raw name is kept;
    old_skip=True: what remains if INTERCONNECT entries are dropped by the lexicographic-maximum test (before D34)"""
    L = len(c.lines)
    A = np.zeros((3, L, 2, 2)); B = np.zeros((3, L, 2, 2))
    kinds = {g['inst']: g['kind'] for g in case['gates']}
    last = {}
    for bi, b in enumerate(case['blocks']): last[block_key(b)] = bi
    for bi, b in enumerate(case['blocks']):
        if only_last and last[block_key(b)] != bi: continue
        for sec in b['sections']:
            for e in sec:
                r = tr(e['vals'][0]); f = tr(e['vals'][-1])
                if 'io' in e:
                    inst, pin, pols = e['io']
                    if inst not in kinds: continue
                    l = resolve_io(c, case['tlib'], inst, kinds[inst], pin)
                    if l is None: continue
                    for ip in pols:
                        for d in range(3):
                            A[d, l, ip, 0] = r[d] / 1000.0; A[d, l, ip, 1] = f[d] / 1000.0
                else:
                    sig, dst = e['ic']
                    if old_skip and ic_skip_old(e['vals']): continue
                    l = resolve_ic(c, case['bf'], sig, tuple(dst))
                    if l is None: continue
                    for ip in (0, 1):
                        for d in range(3):
                            B[d, l, ip, 0] = r[d] / 1000.0; B[d, l, ip, 1] = f[d] / 1000.0
    return A, B


def real_arrays(case, c):
    """returns (io, ic); each an ndarray or a string 'raise:<Type>'"""
    from kyupy import sdf
    tlib = get_tlib(case['tlib'])
    with quiet():
        try:
            df = common.after_failed_parse(sdf.parse, case['sdf'])
        except Exception as ex:
            return f'raise:{type(ex).__name__}', f'raise:{type(ex).__name__}'
        try:
            io = df.iopaths(c, tlib)
        except Exception as ex:
            io = f'raise:{type(ex).__name__}'
        try:
            ic = df.interconnects(c, tlib)
        except Exception as ex:
            ic = f'raise:{type(ex).__name__}'
    return io, ic


def sparse(a, limit=12):
    if isinstance(a, str): return a
    return [[int(i) for i in idx] + [float(a[tuple(idx)])] for idx in np.argwhere(a != 0)[:limit]]


def first_diff(got, exp):
    if isinstance(got, str): return {'result': got}, {'result': 'an array', 'nonzero': sparse(exp, 6)}
    if got.shape != exp.shape: return {'shape': list(got.shape)}, {'shape': list(exp.shape)}
    idx = np.argwhere(got != exp)
    i = tuple(int(v) for v in idx[0])
    return ({'at[dataset,line,inpol,outpol]': list(i), 'value': float(got[i]), 'n_differing': int(len(idx))},
            {'value': float(exp[i])})


def has_top(case):
    return any(not b['insts'] for b in case['blocks'])


def eval_case(case):
    """oracle on the REAL code: (ok, observed, expected); observed['class'] names the violation class"""
    c = parse_circuit(case)
    A, B = truth_arrays(case, c)
    io, ic = real_arrays(case, c)
    for which, got, exp in (('iopaths', io, A), ('interconnects', ic, B)):
        if which == 'interconnects' and not has_top(case):
            continue   # no top-level block: interconnects() raises TypeError (recorded as a note, outside the property's files)
        if isinstance(got, str) or got.shape != exp.shape or not np.array_equal(got, exp):
            obs, ex = first_diff(got, exp)
            obs['call'] = which
            A1, B1 = truth_arrays(case, c, only_last=True)
            keep = A1 if which == 'iopaths' else B1
            names = [block_key(b) for b in case['blocks']]
            repeated = len(set(map(str, names))) < len(names)
            if repeated and not isinstance(got, str) and got.shape == keep.shape and np.array_equal(got, keep):
                obs['class'] = 'repeated-cell-block'
                obs['explanation'] = 'result equals the ground truth of the LAST block of every instance name only'
            elif (which == 'interconnects' and not isinstance(got, str) and got.shape == exp.shape
                  and np.array_equal(got, truth_arrays(case, c, old_skip=True)[1])):
                obs['class'] = 'interconnect-lexmax-skip'
                obs['explanation'] = ('result equals the ground truth minus the entries for which max(max(delvals)) == 0 '
                                      '(lexicographic list maximum) although not all their values are zero')
            else:
                obs['class'] = 'sdf-annotation'
            return False, obs, ex
    return True, None, None


# ---------------------------------------------------------------------------------------------- text level (grammar)
_lark = None


def lark_tree(text):
    """the parse tree of the REAL grammar (lark, no transformer) as (designs, cells) or None when lark rejects;
    cells = [(ID tokens, [[(kind, a, b, [None | [f1, f2, f3]])]])], all token texts verbatim"""
    global _lark
    from lark import Lark, Token, Tree
    from kyupy import sdf
    if _lark is None or _lark[0] is not sdf.GRAMMAR:
        _lark = (sdf.GRAMMAR, Lark(sdf.GRAMMAR, parser='lalr'))
    try:
        t = _lark[1].parse(text)
    except Exception:
        return None
    designs = [str(a) for a in t.children if isinstance(a, Token)]
    cells = []
    for c in t.children:
        if not isinstance(c, Tree): continue
        insts = [str(a) for a in c.children if isinstance(a, Token)]
        secs = []
        for d in c.children:
            if not isinstance(d, Tree): continue
            es = []
            for e in d.children:
                names = [str(a) for a in e.children if isinstance(a, Token)]
                vals = [None if not tr.children else [str(x)[:-1] for x in tr.children]
                        for tr in e.children if isinstance(tr, Tree)]
                es.append(('I' if e.data == 'iopath' else 'C', names[0], names[1], vals))
            secs.append(es)
        cells.append((insts, secs))
    return designs, cells


def enc_tree(tr):
    designs, cells = tr
    j = lambda sep, l: sep.join(l) if l else '~'
    trip = lambda t: 'E' if t is None else ','.join(pct(x) for x in t)
    ent = lambda e: f'{e[0]}:{pct(e[1])}:{pct(e[2])}:' + j('/', [trip(t) for t in e[3]])
    cell = lambda c: j(',', [pct(n) for n in c[0]]) + '|' + j('+', [j('&', [ent(e) for e in sec]) for sec in c[1]])
    return j(',', [pct(n) for n in designs]) + '|' + j(';', [cell(c) for c in cells])


TEXT_ALPHABET = '()()  \n\t":/-.0123456789\\abAIZ[]x\r\f'
TEXT_FRAGMENTS = ['(INSTANCE x)', '(INSTANCE)', '(TIMINGCHECK (a (b) c) d)', '(TIMINGCHECK)', '(PROCESS)', '(PROCESS )',
                  '(CELLTYPE "x")', '(DELAY (ABSOLUTE))', '(IOPATH a b ())', '(INTERCONNECT "a b" c (1::))', '(CELL)',
                  '// ) (\n', '\r\n', '\n\n', ' \t', '(DESIGN "a")', '(DATE x)', '1', '.', '-', '(a b)', '(CELL', '(INSTANCE',
                  '(DELAY', '(ABSOLUTE', '(IOPATH', '(INTERCONNECT', '(TIMINGCHECK', '(CELLTYPE', '(DESIGN', '(PROCESS', '//',
                  '()', '(::)', ' ', '\n', ')', '(', '(posedge A)', '"', '(1:2:3)', '( )']
HAND_TEXTS = ['(DELAYFILE)', '(DELAYFILE )\n// c', '(DELAYFILE (CELL (INSTANCE\nu1)))', '(DELAYFILE (CELL (INSTANCEu1)))',
              '(DELAYFILE (CELL (INSTANCE // c\n u1)))', '(DELAYFILE (CELL (INSTANCE \t u1)))', '(DELAYFILE (CELL (INSTANCE \tu1 )))',
              '(DELAYFILE (SDFVERSION // ) (\n x))', '(DELAYFILE (SDFVERSION x // ) \n))', '(DELAYFILE (PROCESS // )\n))',
              '(DELAYFILE (DESIGN " // x\n top"))', '(DELAYFILE (DESIGN ""))', '(DELAYFILE (CELLTYPE "x"))',
              '(DELAYFILE (CELL (TIMINGCHECK x)))', '(DELAYFILE (CELL (TIMINGCHECK (x (y) z) w (v))))',
              '(DELAYFILE (CELL (TIMINGCHECK (x // )\n) )))', '(DELAYFILE (CELL (DELAY (ABSOLUTE (IOPATH (posedge A) "Z" ( 1:2:3))))))',
              '(DELAYFILE (CELL (DELAY (ABSOLUTE (IOPATH A Z (1: 2:3))))))', '(DELAYFILE (CELL (DELAY (ABSOLUTE (IOPATH A Z (1:2:3 ))))))',
              '(DELAYFILE (CELL (DELAY (ABSOLUTE (INTERCONNECT "a b" "c\nd" (1.:.2:-3.5) (--1::))))))',
              '(DELAYFILE (CELL (DELAY (ABSOLUTE (INTERCONNECT (a) b ())))))', '(DELAYFILE (CELL (DELAY (ABSOLUTE (IOPATH "a b ()))))',
              '(DELAYFILE (CELL (DELAY(ABSOLUTE(IOPATH a b()())))))', '(DELAYFILE (CELL (DELAY (ABSOLUTE (IOPATH a b) (IOPATH c d () () ())))))',
              '(DELAYFILE (CELL) x)', '(DELAYFILE (CELL)) x', '(DELAYFILE (CELL))\r\n\t // end', '(DELAYFILE (CELL))\r', ' \n(DELAYFILE(CELL))',
              '(DELAYFILE (VERSION x) (VENDOR y) (VOLTAGE 1:2:3) (TEMPERATURE 2) (TIMESCALE 1ns) (DIVIDER /) (PROGRAM "a (b)"))']


def mutate_text(rng, text):
    m = textmut.mutate(rng, text, TEXT_ALPHABET, TEXT_FRAGMENTS, '()')
    if rng.random() < 0.25: m = textmut.mutate(rng, m, TEXT_ALPHABET, TEXT_FRAGMENTS, '()')
    return m


def real_parse_status(text):
    from kyupy import sdf
    with quiet():
        try:
            sdf.parse(text)
            return 'ok'
        except Exception:
            return 'raise'


def text_level(ck, texts, origin, case=None, c=None, mode=None):
    """model reader (driver `sdfparse`) against the real lark grammar and the real `sdf.parse` on each text:
    same parse tree (token texts verbatim) or both reject; same accept/raise of the transformer; when `case` is
    given and the text is accepted, the delay arrays of the post-parse model fed with the MODEL's block list against
    the real arrays of that text"""
    outs = textmut.drv([f'sdfparse {pct(t)}' for t in texts])
    for t, o in zip(texts, outs):
        lt = lark_tree(t)
        exp = 'syntax' if lt is None else real_parse_status(t) + ' ' + enc_tree(lt)
        f = o.split(' ')
        got = o if len(f) < 3 else f[0] + ' ' + f[1]
        ck.case(key=('text', t), nontrivial=lt is not None,
                tag=[f'text:{origin}', 'text-result:' + exp.split(' ')[0]])
        if got != exp:
            ck.broken_tie(f'SDF text model (grammar of sdf.py) vs lark, {origin} text',
                          f'real {exp[:300]} != model {got[:300]}', inp={'sdf': t})
            continue
        if case is not None and f[0] == 'ok' and len(f) == 3 and f[2] != '-':
            sub = dict(case); sub['sdf'] = t
            io, ic = real_arrays(sub, c)
            try:
                mio, mic = model_arrays(sub, c, mode, bl=f[2])
            except Exception as ex:
                ck.broken_tie('SDF text model -> post-parse model', f'driver: {type(ex).__name__}: {ex}'[:300], inp={'sdf': t})
                continue
            ck.hist['text-arrays-compared'] += 1
            for which, r, m in (('iopaths', io, mio), ('interconnects', ic, mic)):
                if isinstance(r, str) and which == 'iopaths' and r.startswith('raise'):
                    continue   # unknown pin / cell.ins index out of range on a damaged name: outside the pin table's domain
                if isinstance(r, str) and which == 'interconnects' and isinstance(m, np.ndarray):
                    continue   # unknown cell or pin in a damaged INTERCONNECT raises in the real code (outside the tables' domain)
                if not same(r, m):
                    ck.broken_tie(f'SDF text model + post-parse model ({which}, start mode {mode}) vs real, {origin} text',
                                  f'real {json.dumps(sparse(r))[:300]} != model {json.dumps(sparse(m))[:300]}', inp={'sdf': t})


def text_generated(ck, case, c, mode, n_mut):
    """the generated text must read back as the generator's block list; then its mutants"""
    t = case['sdf']
    o = textmut.drv([f'sdfparse {pct(t)}'])[0].split(' ')
    want = enc_blocks(case['blocks'])
    if len(o) != 3 or o[0] != 'ok' or o[2] != want:
        ck.broken_tie('SDF text model: generated text does not read back as the generator\'s block list',
                      f'model {" ".join(o)[:300]} != generator {want[:300]}', inp={'sdf': t})
    text_level(ck, [t], 'generated')
    text_level(ck, [mutate_text(ck.rng, t) for _ in range(n_mut)], 'mutated', case, c, mode)


# ---- model side
def enc_triple(t):
    return 'E' if not t else ','.join('x' if v is None else str(v) for v in t)


def enc_blocks(blocks):
    bl = []
    for b in blocks:
        insts = ','.join(pct(n) for n in b['insts']) or '~'
        secs = []
        for sec in b['sections']:
            es = [f"{pct(e['a'])}:{pct(e['b'])}:" + ('/'.join(enc_triple(t) for t in e['vals']) or '~') for e in sec]
            secs.append('&'.join(es) or '~')
        bl.append(insts + '|' + ('+'.join(secs) or '~'))
    return ';'.join(bl) or '~'


def tables(case, c):
    """pin table and fork table exported from the real circuit"""
    pins = []
    for g in case['gates']:
        for p in g['ins']:
            l = resolve_io(c, case['tlib'], g['inst'], g['kind'], p)
            if l is not None: pins.append(f"{pct(g['inst'])}:{pct(p)}:{l}")
    ics = []
    for sig, drv, dst in case['pairs']:
        l = resolve_ic(c, case['bf'], sig, tuple(dst))
        if l is None: continue
        c1, p1 = (drv[1], '~') if drv[0] == 'port' else (drv[1], pct(drv[2]))
        c2, p2 = (dst[1], '~') if dst[0] == 'port' else (dst[1], pct(dst[2]))
        ics.append(f'{pct(c1)}:{p1}:{pct(c2)}:{p2}:{l}')
    return ';'.join(pins) or '~', ';'.join(ics) or '~'


def model_arrays(case, c, mode, bl=None):
    L = len(c.lines)
    pins, ics = tables(case, c)
    if bl is None: bl = enc_blocks(case['blocks'])
    out = common.run_driver([f'sdf {mode} io {L} {bl} {pins} {ics}', f'sdf {mode} ic {L} {bl} {pins} {ics}'])
    res = []
    for o in out:
        if o == 'raise' or o.startswith('bad'):
            res.append(o); continue
        a = np.zeros((3, L, 2, 2))
        if o != '~':
            for item in o.split(','):
                k, v = item.split('=')
                d, l, ip, op = map(int, k.split('.'))
                a[d, l, ip, op] = int(v) / 1000.0
        res.append(a)
    return res


# ---- the concrete look-ups (Model/SdfCirc.lean, driver `sdfc`): the model receives the circuit dump and the library's pin table,
# not tables prepared by the harness; besides the arrays the line index of EVERY entry is compared (audit finding 7)
def tl_table(case, c):
    tlib = get_tlib(case['tlib'])
    rows = []
    for kind in sorted({n.kind for n in c.nodes}):
        if kind in tlib.cells:
            rows += [f'{pct(kind)}:{pct(p)}:{v[0]}' for p, v in tlib.cells[kind][1].items()]
    return ';'.join(rows) or '~'


def model_concrete(case, c, mode, bl=None):
    """-> [(array | 'raise', [look-up per entry], wf)] for io and ic; wf = NNet.wf of the dump as the driver evaluates it"""
    from . import circ
    if bl is None: bl = enc_blocks(case['blocks'])
    tail = f"{bl} {tl_table(case, c)} {circ.dump_names(c) or '~'} {circ.dump_net(c)}"
    out = common.run_driver([f'sdfc {mode} io {tail}', f'sdfc {mode} ic {tail}'])
    L, res = len(c.lines), []
    for o in out:
        f = o.split(' ')
        if len(f) != 3 or f[2] not in ('wf:0', 'wf:1'): raise ValueError(f'sdfc answered {o[:200]!r}')
        if f[0] == 'raise': a = 'raise'
        else:
            a = np.zeros((3, L, 2, 2))
            if f[0] != '~':
                for item in f[0].split(','):
                    k, v = item.split('=')
                    d, l, ip, op = map(int, k.split('.'))
                    a[d, l, ip, op] = int(v) / 1000.0
        res.append((a, [] if f[1] == '~' else None if f[1] == '-' else f[1].split(','), f[2] == 'wf:1'))
    return res


def real_looks(case, c):
    """the line the REAL loops pick for every entry, observed by running each entry alone with values 1 through the real
    iopaths()/interconnects(): 'r' raise, 's' nothing annotated (warn), else the line index. -> (io list, ic list | None)"""
    from kyupy import sdf
    tlib = get_tlib(case['tlib'])
    def one(f):
        try:
            a = f()
        except Exception:
            return 'r'
        ls = sorted({int(i[1]) for i in np.argwhere(a != 0)})
        return 's' if not ls else str(ls[0]) if len(ls) == 1 else 'many:' + ','.join(map(str, ls))
    with quiet():
        df = sdf.parse(case['sdf'])
        one3 = [1.0, 1.0, 1.0]
        io = [one(lambda: sdf.DelayFile('x', {name: [sdf.IOPath(e[0], e[1], one3, one3)]}).iopaths(c, tlib))
              for name, es in df.cells.items() for e in es]
        ic = None if df._interconnects is None else [
            one(lambda: sdf.DelayFile('x', {None: [sdf.Interconnect(e[0], e[1], one3, one3)]}).interconnects(c, tlib))
            for e in df._interconnects]
    return io, ic


def real_exits(case, c):
    """the exit the REAL INTERCONNECT loop takes for every entry (each run alone with values 1), with the kind of warning read
    from kyupy's log: 'r' raise, 'wp' "No line to annotate pin", 'wn' "No branchfork", else the line index. -> list | None"""
    import kyupy
    from kyupy import sdf
    tlib = get_tlib(case['tlib'])
    one3 = [1.0, 1.0, 1.0]
    with quiet():
        df = sdf.parse(case['sdf'])
        if df._interconnects is None: return None
        res = []
        for e in df._interconnects:
            buf = io.StringIO()
            kyupy.log.logfile = buf          # restored by quiet()
            try:
                a = sdf.DelayFile('x', {None: [sdf.Interconnect(e[0], e[1], one3, one3)]}).interconnects(c, tlib)
            except Exception:
                res.append('r'); continue
            ls = sorted({int(i[1]) for i in np.argwhere(a != 0)})
            msg = buf.getvalue()
            if ls: res.append(str(ls[0]) if len(ls) == 1 and not msg.strip() else 'many:' + ','.join(map(str, ls)) + ':' + msg[:60])
            elif 'No branchfork' in msg: res.append('wn')
            elif 'No line to annotate pin' in msg: res.append('wp')
            else: res.append('silent')      # nothing annotated and nothing said: an entry lost silently
    return res


def model_exits(case, c, mode):
    """driver `sdfc <mode> icx`: the decidable hypotheses of C14.interconnect_lookup_exits on the dump of the real circuit and the
    exit `icLookX` names for every INTERCONNECT entry -> ({'wf': bool, 'icStruct': bool}, list | None)"""
    from . import circ
    tail = f"{enc_blocks(case['blocks'])} {tl_table(case, c)} {circ.dump_names(c) or '~'} {circ.dump_net(c)}"
    o = common.run_driver([f'sdfc {mode} icx {tail}'])[0].split(' ')
    if len(o) != 2 or not o[0].startswith('wf:'): raise ValueError(f'sdfc icx answered {" ".join(o)[:200]!r}')
    hyp = {k: v == '1' for k, v in (x.split(':') for x in o[0].split(','))}
    return hyp, ([] if o[1] == '~' else None if o[1] == '-' else o[1].split(','))


def exits_corr(ck, case, c, mode):
    """hypotheses `C.wf`, `icStructOKB C` of the exit theorem evaluated on the real parsed circuit (every generated netlist is
    well-formed Verilog: falling outside is a broken tie), and the exit per entry, warnings by kind, real loop vs `icLookX`"""
    try:
        hyp, mex = model_exits(case, c, mode)
        rex = real_exits(case, c)
    except Exception as ex:
        ck.broken_tie('SDF look-up exits (icLookX, Model/SdfCirc.lean)', f'{type(ex).__name__}: {ex}'[:300], inp=case); return
    ck.hist['c14-hyp:wf:' + ('inside' if hyp.get('wf') else 'OUTSIDE')] += 1
    ck.hist['c14-hyp:icStruct:' + ('inside' if hyp.get('icStruct') else 'OUTSIDE')] += 1
    if not (hyp.get('wf') and hyp.get('icStruct')):
        ck.broken_tie('hypotheses of C14.interconnect_lookup_exits on a circuit built by verilog.parse',
                      f'NNet.wf = {hyp.get("wf")}, icStructOKB = {hyp.get("icStruct")} (branchforks={case.get("bf")})', inp=case)
    for x in (rex or []): ck.hist['c14-hyp:ic-exit:' + ('line' if x.isdigit() else x[:6])] += 1
    if rex != mex:
        ck.broken_tie('SDF look-up exits per INTERCONNECT entry (answer / warn by kind / raise): real loop vs icLookX',
                      f'real {rex} != model {mex}'[:400], inp=case)
    if rex and 'silent' in rex:
        ck.broken_tie('INTERCONNECT entry neither annotated nor warned about nor raised on', f'real {rex}'[:300], inp=case)


def concrete_corr(ck, case, c, mode, io, ic):
    try:
        (mio, lio, wf1), (mic, lic, wf2) = model_concrete(case, c, mode)
        rio, ric = real_looks(case, c)
    except Exception as ex:
        ck.broken_tie('SDF look-up correspondence (Model/SdfCirc.lean)', f'{type(ex).__name__}: {ex}'[:300], inp=case); return
    # hypothesis `C.wf = true` of pin_lookup_spec / interconnect_lookup_* / iopath_lands_circuit, on the dump of the parsed circuit
    ck.hist['c14-hyp:sdfc-wf:' + ('inside' if wf1 and wf2 else 'OUTSIDE')] += 1
    if not (wf1 and wf2):
        ck.broken_tie('hypothesis NNet.wf of the look-up theorems (Props/C14.lean, section circuit) on a circuit built by verilog.parse',
                      f'driver sdfc: wf = {wf1}/{wf2} (branchforks={case.get("bf")})', inp=case)
    for which, r, m in (('iopaths', io, mio), ('interconnects', ic, mic)):
        if not same(r, m):
            ck.broken_tie(f'SDF model with concrete look-ups ({which}, start mode {mode})',
                          f'real {json.dumps(sparse(r))[:300]} != model {json.dumps(sparse(m))[:300]}', inp=case)
    for which, r, m in (('iopaths', rio, lio), ('interconnects', ric, lic)):
        ck.hist['look-ups-compared'] += len(r or [])
        for x in (r or []): ck.hist['look-up:' + ('line' if x.isdigit() else x[:4])] += 1
        if r != m:
            ck.broken_tie(f'SDF look-up per entry ({which}): line index chosen by the real loop vs pinLook/icLook',
                          f'real {r} != model {m}'[:400], inp=case)
    exits_corr(ck, case, c, mode)


def same(real, model):
    if isinstance(real, str) or isinstance(model, str):
        return isinstance(real, str) and isinstance(model, str) and real.startswith('raise') and model == 'raise'
    return real.shape == model.shape and np.array_equal(real, model)


def probe_mode():
    """which `start` the code under test has: 'last' (dict keeps the last block per name) or 'merge' (all blocks kept)"""
    from kyupy import sdf
    t = ('(DELAYFILE (CELL (INSTANCE u1) (DELAY (ABSOLUTE (IOPATH A Z (1:1:1))))) (CELL (INSTANCE) (DELAY (ABSOLUTE '
         '(INTERCONNECT a b (1:1:1))))) (CELL (INSTANCE u1) (DELAY (ABSOLUTE (IOPATH B Z (2:2:2))))) (CELL (INSTANCE) '
         '(DELAY (ABSOLUTE (INTERCONNECT c d (2:2:2))))))')
    df = sdf.parse(t)
    got = ([e[0] for e in df.cells.get('u1', [])], [e[0] for e in (df._interconnects or [])])
    if got == (['B'], ['c']): return 'last'
    if got == (['A', 'B'], ['a', 'c']): return 'merge'
    return f'unknown:{got}'


def describe(case):
    ents = [e for b in case['blocks'] for sec in b['sections'] for e in sec]
    names = [block_key(b) for b in case['blocks']]
    named = [n for n in names if n is not None]
    tags = [f"tlib:{case['tlib']}", f"branchforks:{case['bf']}", f"blocks:{min(len(case['blocks']), 9)}"]
    if len(set(named)) < len(named): tags.append('repeated-named-block')
    clean = [n.replace('\\', '') for n in named]
    if len(set(clean)) < len(set(named)): tags.append('same-instance-two-escapings')
    if names.count(None) > 1: tags.append('repeated-top-block')
    if names.count(None) == 0: tags.append('no-top-block')
    if any('\\' in n for n in named) or any('\\' in e['a'] + e['b'] for e in ents): tags.append('escaped-name')
    if any(e['a'].startswith('(posedge') for e in ents): tags.append('posedge')
    if any(e['a'].startswith('(negedge') for e in ents): tags.append('negedge')
    if any(len(e['vals']) == 1 for e in ents): tags.append('one-value-list')
    if any(len(e['vals']) == 2 for e in ents): tags.append('two-value-lists')
    if any(t == [] for e in ents for t in e['vals']): tags.append('triple:()')
    if any(t and t[0] is not None and t[1] is None and t[2] is None for e in ents for t in e['vals']): tags.append('triple:(a::)')
    if any(t and t[0] is None and t[1] is None and t[2] is not None for e in ents for t in e['vals']): tags.append('triple:(::c)')
    if any(t and None in t for e in ents for t in e['vals']): tags.append('triple:empty-field')
    if any(len(b['sections']) > 1 for b in case['blocks']): tags.append('several-DELAY-sections')
    if any('ic' in e for e in ents): tags.append('interconnect')
    if any(v is not None and v < 0 for e in ents for t in e['vals'] for v in t): tags.append('negative-value')
    ics = [e for e in ents if 'ic' in e]
    if any(v is not None and v < 0 for e in ics for t in e['vals'] for v in t): tags.append('interconnect-negative-value')
    if any(ic_skip_old(e['vals']) and any(tr(t) != [0, 0, 0] for t in e['vals']) for e in ics):
        tags.append('interconnect-not-all-zero-with-lexmax-0')
    if any(all(tr(t) == [0, 0, 0] for t in e['vals']) for e in ics): tags.append('interconnect-all-zero')
    return ents, tags


def run_stream(ck, n, kind, mode, notes):
    for it in range(n):
        run_case(ck, gen_case(ck.rng, kind), kind, mode, notes)


def corpus_cases():
    import glob, os
    return [json.load(open(f)) for f in sorted(glob.glob(os.path.join(common.VERIF, 'corpus', 'C14-*.json')))]


def run_case(ck, case, kind, mode, notes):
    ents, tags = describe(case)
    try:
        c = parse_circuit(case)
    except Exception as ex:
        ck.broken_tie('netlist generator', f'verilog.parse raised {type(ex).__name__}: {ex}'[:300], inp=case)
        return
    io, ic = real_arrays(case, c)
    # ---- correspondence model <-> code
    try:
        mio, mic = model_arrays(case, c, mode)
    except Exception as ex:
        ck.broken_tie('SDF model correspondence', f'driver: {type(ex).__name__}: {ex}'[:300], inp=case)
        mio = mic = None
    if mio is not None:
        for which, r, m in (('iopaths', io, mio), ('interconnects', ic, mic)):
            if not same(r, m):
                ck.broken_tie(f'SDF model correspondence ({which}, start mode {mode})',
                              f'real {json.dumps(sparse(r))[:300]} != model {json.dumps(sparse(m))[:300]}', inp=case)
    if mio is not None:
        concrete_corr(ck, case, c, mode, io, ic)
    if mio is not None and notes.get('__text_mut__', 0):
        try:
            text_generated(ck, case, c, mode, notes['__text_mut__'])
        except Exception as ex:
            ck.broken_tie('SDF text model correspondence', f'{type(ex).__name__}: {ex}'[:300], inp={'sdf': case['sdf']})
    if not has_top(case) and isinstance(ic, str):
        notes['no-top-block: interconnects() raised ' + ic] = notes.get('no-top-block: interconnects() raised ' + ic, 0) + 1
    # ---- oracle
    if kind == 'oracle':
        try:
            ok, obs, exp = eval_case(case)
        except Exception as ex:
            ok, obs, exp = False, {'raised': f'{type(ex).__name__}: {ex}'[:300], 'class': 'sdf-annotation'}, None
        A, B = truth_arrays(case, c)
        nontriv = len(ents) >= 3 and bool(A.any() or B.any())
        ck.case(key=(case['verilog'], case['bf'], case['sdf']), nontrivial=nontriv,
                sample={'tlib': case['tlib'], 'branchforks': case['bf'], 'verilog': case['verilog'], 'sdf': case['sdf'][:1500]},
                tag=tags + ['stream:oracle'])
        if not ok:
            cls = obs.get('class', 'sdf-annotation')
            what = ('entries of all but the last CELL block of an instance name (or of all but the last top-level INTERCONNECT '
                    'block) are not annotated' if cls == 'repeated-cell-block' else
                    'INTERCONNECT entries with a negative value whose lexicographically larger value list has maximum 0 are '
                    'dropped although they are not all-zero' if cls == 'interconnect-lexmax-skip' else
                    'delay array differs from the ground truth')
            ck.hist['violation:' + cls] += 1
            ck.violation(cls, f"DelayFile.{obs.get('call', 'iopaths')}(): {what}", case, obs, exp)
    else:
        ck.case(key=(case['verilog'], case['bf'], case['sdf']), nontrivial=len(ents) >= 3, tag=tags + ['stream:overlap'])


# ---------------------------------------------------------------------------------------------- clause sdf-wave (Props/C14Wave.lean)
TICKS = 1000   # one model tick = one thousandth of the SDF time unit (Model/SdfWave.lean)


def enc_t(t):
    from . import wavecorr as wc
    TMIN, TMAX, TOVL = wc.consts()
    t = float(t)
    if t <= TMIN: return 'm'
    if t == TMAX: return 'M'
    if t >= TOVL: return 'O'
    v = t * TICKS
    if v != round(v) or abs(v) > 2 ** 40: raise wc.OffGrid(t)
    return str(int(round(v)))


def fmt_wv(ents, term):
    return f"{','.join(enc_t(t) for t in ents) or '-'}:{term}"


def read_wv(cc, loc, cap, sim):
    """what `Wave.rdWave` reads: entries up to the first terminator inside the capacity"""
    from . import wavecorr as wc
    TMIN, TMAX, TOVL = wc.consts()
    ents = []
    for k in range(cap):
        t = float(cc[loc + k, sim])
        if t >= TMAX: return fmt_wv(ents, enc_t(t))
        ents.append(t)
    return '?'


def eval_wave_case(case):
    """one sdf-wave case -> list of (what, real, model) mismatches (empty = tie holds), info dict.
    Real side: sdf.parse(text), df.iopaths + df.interconnects, WaveSim, s_to_c, c_prop. Model side: the `SimOps` model's op rows
    (driver `net` + `simops`) and the composition `sdfwave` (text -> delays -> waveforms)."""
    import random
    from kyupy import sdf
    from . import wavecorr as wc, simcorr, circ
    info = {}
    bad = []
    c = parse_circuit(case)
    tlib = get_tlib(case['tlib'])
    L = len(c.lines)
    with quiet():
        df = common.after_failed_parse(sdf.parse, case['sdf'])   # an exception of sdf.parse is NOT tolerated (propagates: broken tie)
    # ---- the two annotation calls of `df.iopaths(c, tlib) + df.interconnects(c, tlib)`, left to right.  A Python exception HERE, and
    #      only here, is the counterpart of the model's `sdfDelay = none` / guard token (Model/SdfWave.lean, driver `sdfwave`)
    real_exc = None
    with quiet():
        try:
            delays = df.iopaths(c, tlib)
        except Exception as ex:
            real_exc = ('iopaths', ex)
        if real_exc is None:
            try:
                delays = delays + df.interconnects(c, tlib)
            except Exception as ex:
                real_exc = ('interconnects', ex)
    # ---- the two tables READ OFF THE NETLIST by the model (netPinLine / netIcLine over the canonical dump, the node names and
    #      tlib.pin_index) against the tables exported from the real circuit by structural search; the composition uses the model's
    pins, ics = tables(case, c)
    pidx = ';'.join(f'{pct(k)}:{pct(pn)}:{int(v[0])}' for k in sorted(set(g['kind'] for g in case['gates']))
                    for pn, v in tlib.cells[k][1].items()) or '~'
    pq = ';'.join(f"{pct(g['inst'])}:{pct(pn)}" for g in case['gates'] for pn in g['ins']) or '~'
    iq = ';'.join(f"{pct(drv[1])}:{'~' if drv[0] == 'port' else pct(drv[2])}:{pct(dst[1])}:{'~' if dst[0] == 'port' else pct(dst[2])}"
                  for sig, drv, dst in case['pairs']) or '~'
    tabs = common.run_driver([f"sdftabs {circ.dump_names(c)} {circ.dump_net(c).replace(' ', '')} {pidx} {pq} {iq}"])[0]
    if tabs != f'{pins} # {ics}':
        bad.append(('pin / fork tables read off the netlist (netPinLine, netIcLine)', f'{pins} # {ics}'[:300], tabs[:300]))
        return bad, info
    pins, ics = tabs.split(' # ')
    if real_exc is not None:
        # the real expression raises: no array, no simulator.  The model must answer its error token for exactly this exit:
        #   TypeError in interconnects() (`for .. in None`: no block without INSTANCE name)  <->  raise:interconnects (sdfDelay = none)
        #   ValueError in interconnects() (tuple unpacking of a name with two '/')            <->  raise:slash (guard slashOK)
        # every other exception (and every exception in iopaths(), which is total in the model) has no counterpart: mismatch
        call, ex = real_exc
        ans = common.run_driver([f"sdfwave {case['mode']} {L} {pct(case['sdf'])} {pins} {ics} ~ 4 ~"])[0]
        want = {('interconnects', 'TypeError'): 'raise:interconnects', ('interconnects', 'ValueError'): 'raise:slash'}.get(
            (call, type(ex).__name__))
        if want == 'raise:interconnects' and has_top(case): want = None   # a TypeError with a top-level block is something else
        info['real_raise'] = f'{call}:{type(ex).__name__}'
        if want is None or ans != want:
            bad.append((f'{call}() raises {type(ex).__name__}: {ex}'[:200], f'raise in {call}()', ans[:120]))
        return bad, info
    sims, strip, caps = 3, case['strip'], case['caps']
    ws = wc.make_sim(c, delays, sims, c_caps=caps, strip=strip)
    ws.simctl_int[1] = 1                      # data set per lane
    ws.simctl_int[0] = case['datasets']
    srng = random.Random(case['sseed'])
    i, t, f = wc.rand_stim(srng, ws.s_len, sims, tmax=30)
    wc.assign(ws, i, t, f)
    wc.overwrite_inputs(ws, srng, p=0.6, tmax=30)
    # ---- model: op rows / tables of the SimOps model, value sources through the model's stems
    order = [n.index for n in c.topological_order()]
    mans = common.run_driver(simcorr.model_lines(c, strip, False, str(caps), 4, order))[1]
    real_tabs = simcorr.fmt_real(ws)
    if real_tabs != mans:
        bad.append(('SimOps model tables (ops ; level_starts ; c_locs ; c_caps ; c_len)', real_tabs[:300], mans[:300]))
        return bad, info
    mf = mans.split(' ; ')
    rows = [[int(x) for x in r.split(',')] for r in mf[0].split(' ') if r]
    stems = wc.model_stems(c, strip)
    ops = '/'.join(','.join(str(x) for x in r[:2] + [stems.get(v, v) for v in r[2:6]] + r[2:6]) for r in rows) or '~'
    cc0 = np.array(ws.c)
    lanes = []
    for sim in range(sims):
        st = []
        for s_loc in ws.pippi_s_locs:
            idx = ws.ppi_offset + int(s_loc)
            st.append(f'{idx}={read_wv(cc0, int(ws.c_locs[idx]), int(ws.c_caps[idx]), sim)}')
        lanes.append(f"{case['datasets'][sim]}@{'|'.join(st) or '~'}")
    with common.quiet():
        ws.c_prop()
    ans = common.run_driver([f"sdfwave {case['mode']} {L} {pct(case['sdf'])} {pins} {ics} {ops} {mf[3]} {'/'.join(lanes)}"])[0]
    if ' # ' not in ans:   # the real calls returned arrays: an error token of the model (`raise:..`, `noparse`) is a mismatch
        bad.append(('driver sdfwave', 'arrays and waveforms (iopaths() + interconnects() did not raise)', ans[:300]))
        return bad, info
    arr_s, lanes_s = ans.split(' # ', 1)
    # ---- (i) the delay array, all three data sets
    marr = np.zeros((3, L, 2, 2))
    if arr_s != '~':
        for item in arr_s.split(','):
            k, v = item.split('=')
            d, l, ip, op = map(int, k.split('.'))
            marr[d, l, ip, op] = int(v) / float(TICKS)
    if delays.shape != marr.shape or not np.array_equal(delays, marr):
        bad.append(('delay array iopaths + interconnects', json.dumps(sparse(delays))[:300], json.dumps(sparse(marr))[:300]))
    info['nonzero_delays'] = int(np.count_nonzero(delays))
    # ---- (ii) waveforms: every output slot (region read through c_locs / c_caps of the SLOT index), every written signal
    cc = np.array(ws.c)
    written = set(r[1] for r in rows) | set(ws.ppi_offset + int(s) for s in ws.pippi_s_locs)
    info['transitions'] = 0
    for sim, lane in enumerate(lanes_s.split(' / ')):
        toks = lane.split(' ')
        for s_loc in ws.poppo_s_locs:
            n = c.s_nodes[int(s_loc)]
            if len(n.ins) == 0 or n.ins[0] is None: continue
            l = int(n.ins[0].index)
            j = ws.ppo_offset + int(s_loc)
            real = read_wv(cc, int(ws.c_locs[j]), int(ws.c_caps[j]), sim)
            model = toks[stems.get(l, l)] if stems.get(l, l) < len(toks) else '<none>'
            info['transitions'] += sum(1 for x in real.split(':')[0].split(',') if x not in ('-', 'm', ''))
            if real != model:
                bad.append((f'output slot of {n.name} (lane {sim}, data set {case["datasets"][sim]})', real, model))
        for idx in sorted(written):
            if idx >= len(toks) or int(ws.c_locs[idx]) < 0 or idx in (ws.tmp_idx, ws.tmp2_idx): continue
            real = read_wv(cc, int(ws.c_locs[idx]), int(ws.c_caps[idx]), sim)
            if real != toks[idx]:
                bad.append((f'signal {idx} (lane {sim})', real, toks[idx]))
    return bad, info


def gen_wave_case(rng, mode, notop=False):
    case = gen_case(rng, rng.choice(['oracle', 'oracle', 'overlap']), wave=True, notop=notop)
    case.update({'mode': mode, 'strip': rng.random() < 0.4, 'caps': rng.choice([16, 16, 32]), 'sseed': rng.randint(0, 2 ** 31 - 1),
                 'datasets': rng.choice([[0, 1, 2], [0, 1, 2], [2, 0, 1], [1, 1, 0]])})
    return case


def wave_hyps(ck, case):
    """hypotheses of C14Wave.sdf_sta_window / sdf_path_window / sdf_text_sta_window (and of every theorem there that goes through
    `simopsMap`) evaluated by the Lean driver on the REAL case (audit-2 finding 10): Net.wfB, orderOKB, forksOKB (when stripping),
    readsDrivenB on the real circuit and its real topological order (driver `simopscert`, through common.allcirc_hyp) and
    rawNonneg on the model's reading of the real SDF text (driver `sdfwavehyp`); `4 <= capsMin` is fixed by the harness
    (c_caps_min = 4). The sdf-wave generator promises scheduled cells and values >= 0, so a case outside is a broken tie."""
    tags = []
    t = common.allcirc_hyp(ck, parse_circuit(case), [case['strip']], 'C14 sdf-wave')
    tags.append('hyp:sdfwave:net:' + t.split(':', 1)[1])
    if t == 'allcirc-hyp:outside' or t.startswith('allcirc-hyp:not-evaluated'):
        ck.broken_tie('hypotheses forksOKB / readsDrivenB of the C14Wave theorems on a generated sdf-wave case', t, inp=case)
    try:
        ans = common.run_driver([f"sdfwavehyp {pct(case['sdf'])}"])[0]
    except Exception as ex:
        ans = f'not-evaluated({type(ex).__name__})'
    tags.append('hyp:sdfwave:' + ans.replace('=', ':'))
    if ans != 'nonneg=true':
        ck.broken_tie('hypothesis rawNonneg of the C14Wave theorems on a generated sdf-wave case', ans, inp=case)
    return tags


def sdf_wave(ck, n, mode):
    """clause sdf-wave: the real timing data path against the composition of the models"""
    for it in range(n):
        case = gen_wave_case(ck.rng, mode, notop=(it % 8 == 5))   # every 8th case: a file without top-level block
        ents, tags = describe(case)
        try:
            bad, info = eval_wave_case(case)
        except Exception as ex:
            # eval_wave_case catches the exceptions of df.iopaths() / df.interconnects() itself and compares them with the model's
            # error token; an exception anywhere else (sdf.parse, WaveSim, the driver, the harness) is never "agreement"
            ck.hist['sdf-wave:error:' + type(ex).__name__] += 1
            ck.case(key=('sdf-wave', case['verilog'], case['sdf']), nontrivial=False, tag=['stream:sdf-wave', 'sdf-wave:error'])
            ck.broken_tie('timing data path (sdf-wave)', f'{type(ex).__name__}: {ex}'[:300], inp=case)
            continue
        if 'real_raise' in info:
            # the real expression raises in one of the two annotation calls; `bad` is empty iff the model answers the matching token
            ck.case(key=('sdf-wave', case['verilog'], case['bf'], case['sdf'], 'raise'), nontrivial=not bad,
                    sample={'tlib': case['tlib'], 'branchforks': case['bf'], 'verilog': case['verilog'], 'sdf': case['sdf'][:1200],
                            'real': info['real_raise']},
                    tag=['stream:sdf-wave', 'sdf-wave:raise:' + info['real_raise']])
            for what, real, model in bad[:3]:
                ck.broken_tie(f'timing data path (sdf-wave): {what}', f'real {real} != model {model}'[:400], inp=case)
            continue
        hyp_tags = wave_hyps(ck, case)
        ck.case(key=('sdf-wave', case['verilog'], case['bf'], case['sdf'], case['strip'], case['sseed']),
                nontrivial=info.get('nonzero_delays', 0) > 0 and info.get('transitions', 0) > 0,
                sample={'tlib': case['tlib'], 'branchforks': case['bf'], 'strip_forks': case['strip'], 'verilog': case['verilog'], 'sdf': case['sdf'][:1200]},
                tag=['stream:sdf-wave', f"sdf-wave:strip:{case['strip']}", f"sdf-wave:branchforks:{case['bf']}", f"sdf-wave:caps:{case['caps']}"] + hyp_tags
                    + [t for t in tags if t.startswith(('tlib:', 'posedge', 'negedge', 'interconnect', 'repeated'))])
        ck.hist['sdf-wave:compared'] += 1
        for what, real, model in bad[:3]:
            ck.broken_tie(f'timing data path (sdf-wave): {what}', f'real {real} != model {model}'[:400], inp=case)
    # outcome counts of the clause (the histogram of the evidence keeps the largest classes only)
    ck.extra['sdf_wave_outcomes'] = {k: v for k, v in ck.hist.items()
                                     if k == 'sdf-wave:compared' or k.startswith(('sdf-wave:raise:', 'sdf-wave:error:'))}


def malformed(ck, mode):
    """guards of the model: 0 or 3 value lists -> the real transformer raises; the model answers `raise`"""
    from kyupy import sdf
    for vals_txt, vals in (('', []), ('(1:1:1) (2:2:2) (3:3:3)', [[1000] * 3, [2000] * 3, [3000] * 3])):
        text = f'(DELAYFILE (CELL (INSTANCE u1) (DELAY (ABSOLUTE (IOPATH A Z {vals_txt})))))'
        try:
            with quiet(): sdf.parse(text)
            real = 'ok'
        except Exception as ex:
            real = f'raise:{type(ex).__name__}'
        m = common.run_driver([f"sdf {mode} io 1 {enc_blocks([{'insts': ['u1'], 'sections': [[{'a': 'A', 'b': 'Z', 'vals': vals}]]}])} ~ ~"])[0]
        ck.case(key=('malformed', vals_txt), nontrivial=False, tag='stream:malformed')
        if not (real.startswith('raise') and m == 'raise'):
            ck.broken_tie('SDF model guard (number of value lists)', f'real {real} vs model {m}', inp={'sdf': text})


def lookup_raises(ck, mode):
    """the raise / warn exits of the look-ups (Model/SdfCirc.lean) that the generated streams stay away from: unknown pin
    (AssertionError of tlib.pin_index), unknown cell of an INTERCONNECT (KeyError), pin index beyond cell.ins (IndexError),
    a pin on a port, a file without top-level block (TypeError) — whole result and per-entry look-up against the real code"""
    v1 = 'module top (a, z);\n  input a;\n  output z;\n  wire n;\n  INV_X1 u1 (.I(a), .ZN(n));\n  INV_X1 u2 (.I(n), .ZN(z));\nendmodule\n'
    v2 = 'module t (a, z);\n  input a;\n  output z;\n  NAND2_X1 u1 (.A1(a), .A2(), .ZN(z));\nendmodule\n'
    v3 = ('module top (a, z1, z2);\n  input a;\n  output z1;\n  output z2;\n  wire n;\n  INV_X1 u1 (.I(a), .ZN(n));\n'
          '  INV_X1 u2 (.I(n), .ZN(z1));\n  INV_X1 u3 (.I(n), .ZN(z2));\nendmodule\n')
    E = lambda a, b, io: dict({'a': a, 'b': b, 'vals': [[1000, 2000, 3000]]}, **({'io': 1} if io else {'ic': 1}))
    variants = [(v1, [(['u1'], [E('QQ', 'ZN', True)])]), (v1, [(['u1'], [E('I', 'ZN', True)]), (['u2'], [E('(posedge ZN)', 'ZN', True)])]),
                (v1, [([], [E('ghost/ZN', 'u2/I', False)])]), (v1, [([], [E('u1/QQ', 'u2/I', False)])]),
                (v1, [([], [E('a/X', 'u1/I', False)])]), (v1, [([], [E('u1/ZN', 'u2/I', False), E('a', 'u1/I', False), E('u2/ZN', 'z', False)])]),
                (v1, [(['u1'], [E('I', 'ZN', True)])]), (v2, [(['u1'], [E('A1', 'ZN', True), E('A2', 'ZN', True)])]),
                (v2, [([], [E('a', 'u1/A2', False)]), (['u1'], [E('A1', 'ZN', True)])]),
                # fan-out: branch fork per reader (bf) / "No branchfork" (no bf); a connection the circuit does not have; a port as destination
                (v3, [([], [E('u1/ZN', 'u2/I', False), E('u1/ZN', 'u3/I', False), E('a', 'u1/I', False)])]),
                (v3, [([], [E('u2/ZN', 'u3/I', False)])]), (v3, [([], [E('u1/ZN', 'u3/I', False), E('u3/ZN', 'u2/I', False)])]),
                (v3, [([], [E('u1/ZN', 'a', False), E('u2/ZN', 'z1', False)])])]
    for bf in (False, True):
        for vi, (ver, bl) in enumerate(variants):
            blocks = [{'insts': insts, 'sections': [es]} for insts, es in bl]
            txt = '(DELAYFILE ' + ' '.join(
                '(CELL (INSTANCE %s) (DELAY (ABSOLUTE %s)))' % (' '.join(b['insts']), ' '.join(
                    '(%s %s %s (1:2:3))' % ('IOPATH' if 'io' in e else 'INTERCONNECT', e['a'], e['b']) for e in b['sections'][0]))
                for b in blocks) + ')'
            case = {'kind': 'lookup', 'tlib': 'NANGATE', 'bf': bf, 'verilog': ver, 'sdf': txt, 'blocks': blocks}
            ck.case(key=('lookup-raise', vi, bf), nontrivial=False, tag='stream:lookup-exits')
            try:
                c = parse_circuit(case)
                io, ic = real_arrays(case, c)
                for w, r in (('io', io), ('ic', ic)): ck.hist[f'lookup-exits:{w}:' + (r if isinstance(r, str) else 'array')] += 1
                concrete_corr(ck, case, c, mode, io, ic)
            except Exception as ex:
                ck.broken_tie('SDF look-up exits', f'{type(ex).__name__}: {ex}'[:300], inp=case)


def robustness_notes(ck, notes):
    """two crashes next to the property (legal inputs, no delay misplaced): reported as notes, not as violations"""
    from kyupy import sdf, verilog
    from kyupy.techlib import NANGATE
    with quiet():
        c = verilog.parse('module t(a,z); input a; output z; NAND2_X1 u1 (.A1(a), .A2(), .ZN(z)); endmodule', tlib=NANGATE)
        df = sdf.parse('(DELAYFILE (CELL (INSTANCE u1) (DELAY (ABSOLUTE (IOPATH A1 ZN (1:1:1)) (IOPATH A2 ZN (2:2:2))))))')
        try:
            df.iopaths(c, NANGATE); r = 'ok'
        except Exception as ex:
            r = f'{type(ex).__name__}: {ex}'
    notes['IOPATH on an unconnected LAST input pin (NAND2_X1 .A2()): iopaths() -> ' + r] = 1
    with quiet():
        try:
            df.interconnects(c, NANGATE); r = 'ok'
        except Exception as ex:
            r = f'{type(ex).__name__}: {ex}'
    notes['file without a top-level (INSTANCE) block: interconnects() -> ' + r] = 1


def run(ck):
    ck.prove([], TARGETS[:1], theorems())
    import dump_tables
    ck.prove([dump_tables.generate], TARGETS[1:], theorems_wave())   # separate module: the demo circuit uses the generated prefix table
    mode = probe_mode()
    ck.extra['start_mode_of_code_under_test'] = mode
    notes = {'__text_mut__': 2}
    if mode not in ('last', 'merge'):
        ck.broken_tie('SDF model correspondence (start)', f'SdfTransformer.start follows neither modelled behaviour: {mode}')
        mode = 'last'
    n = 70 * ck.scale
    for case in corpus_cases():   # minimised past failures first
        run_case(ck, case, case.get('kind', 'oracle'), mode, notes)
    run_stream(ck, n, 'oracle', mode, notes)
    run_stream(ck, n // 2, 'overlap', mode, notes)
    malformed(ck, mode)
    lookup_raises(ck, mode)
    sdf_wave(ck, 60 * ck.scale, mode)
    try:
        text_level(ck, HAND_TEXTS, 'hand-written')
        for t in HAND_TEXTS:
            text_level(ck, [mutate_text(ck.rng, t) for _ in range(3 * ck.scale)], 'mutated')
    except Exception as ex:
        ck.broken_tie('SDF text model correspondence', f'{type(ex).__name__}: {ex}'[:300])
    notes.pop('__text_mut__', None)
    try:
        robustness_notes(ck, notes)
    except Exception as ex:
        notes[f'robustness probe failed: {type(ex).__name__}: {ex}'] = 1
    if ck.broken and not ck.violations:
        run_stream(ck, n * 8, 'oracle', mode, notes)
    ck.notes += [f'{k} (x{v})' for k, v in notes.items()]
    ck.notes.append(f"start mode of the code under test (probe): {mode}; 'last' = dict(...) keeps only the last CELL block per "
                    "instance name (theorems none_lost_false_lastWins, lastWins_keeps_last_only), 'merge' = every block kept (none_lost)")
    ck.assumptions += ['grammar/lexer of sdf.py: modelled (Model/SdfText.lean, round-trip theorem) and compared with lark on generated, hand-written and mutated texts; that lark implements the grammar as the model reads it is checked there, not proved',
                       'float(), NumPy fancy assignment and the Verilog reader are exercised through generated texts, not modelled',
                       'timing data path (Props/C14Wave.lean): theorems about the composition of the models (text -> block list -> sdfDelay -> simopsMap -> waveforms on the memory layout); tie = clause sdf-wave (delay array and the waveform in the region of every output slot of the real WaveSim == driver sdfwave; df.interconnects() raising TypeError on a file without top-level block == model answer none, token raise:interconnects), plus the ties of C03/C08 for _wave_eval and SimOps',
                       'the look-ups are compared twice: through two tables (line feeding a pin; fork line between two pins) exported from the '
                       'real Circuit by structural search (reader/reader_pin, fork names), independent of sdf.py, and through the modelled '
                       'look-ups pinLook/icLook (Model/SdfCirc.lean) fed with the circuit dump and tlib.cells, per entry (line index / warn / raise)',
                       'exits of the INTERCONNECT look-up (C14.interconnect_lookup_exits): the hypotheses NNet.wf and icStructOKB are evaluated on the dump of every '
                       'parsed circuit (tags c14-hyp:wf:*, c14-hyp:icStruct:*; outside = broken tie), and the exit per entry — line / warn "No line to annotate pin" / '
                       'warn "No branchfork" (kind read from kyupy\'s log) / raise — is compared with icLookX (driver sdfc icx); that verilog.parse always builds '
                       'this structure is checked there, not proved',
                       'several IOPATHs from one input pin to different outputs overwrite each other by design (one delay per line): '
                       'oracle streams keep one entry per coordinate; overlaps are covered by model correspondence only']
    return ck.finish(RULE)


def replay(rep):
    ok, obs, exp = eval_case(rep['input'])
    print(json.dumps({'ok': ok, 'observed': obs, 'expected': exp}, default=str))
    return 0 if ok else 1
