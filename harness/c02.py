"""C02 — 4-/8-valued simulation follows the documented algebra and is X-sound."""
import json, pickle, base64
import numpy as np
from . import common, circ
import extract_ops

PID = 'C02'
TARGETS = ['KyupyVerif.Props.C02']
RULE = ('random circuits (as C01) x m in {4,8} x random stimuli over all values of the logic x batch sizes x {strip_forks} x {c_reuse}; '
        'oracle (a): captured values vs Lean spec evaluator (documented operator compositions, gate by gate); (b) X-soundness: all '
        '0/1 completions of the unknown inputs (<= 2^8, sampled beyond) simulated 2-valued, every known multi-valued result must equal '
        'them; (c) m=8 on waveform values: final/initial planes vs 2-valued runs. distinct = (circuit dump, m, options); non-trivial = '
        'circuit has >= 4 lines and the stimulus contains at least one unknown/unassigned and one known value')


def theorems():
    return common.theorems_of('KyupyVerif/Props/C02.lean', 'KV.C02')


def run_mv(c, m, stim, strip, reuse):
    from kyupy import logic
    from kyupy.logic_sim import LogicSim
    sims = stim.shape[1]
    with common.quiet():
        ls = LogicSim(c, sims, m=m, c_reuse=reuse, strip_forks=strip)
    ls.s[0] = logic.mv_to_bp(stim.astype(np.uint8))
    ls.s_to_c(); ls.c_prop(); ls.c_to_s()
    r = logic.bp_to_mv(ls.s[1])[:, :sims]
    if m == 2: r = r & 1
    if m == 4: r = r & 3
    return r


def eval_case(case):
    if case.get('kind') == 'allprims':
        return allprims_case(case['m'])
    c = pickle.loads(base64.b64decode(case['circuit']))
    m = case['m']
    stim = np.array(case['stim'], dtype=np.uint8)
    sims = stim.shape[1]
    got = run_mv(c, m, stim, case['strip'], case['reuse'])
    lines = [f'net {circ.dump_net(c)}']
    for lane in range(sims):
        lines.append(f"evalmv {m} {''.join(str(int(v)) for v in stim[:, lane])}")
    out = common.run_driver(lines)[1:]
    if any(o.endswith('!') for o in out): return True, {'skipped': 'no consistent labelling (combinational loop)'}, None
    for lane in range(sims):
        for j, ch in enumerate(out[lane]):
            if ch == '-': continue
            if int(got[j, lane]) != int(ch):
                return False, {'check': 'algebra', 'lane': lane, 's_node': j, 'captured': int(got[j, lane])}, {'captured': int(ch)}
    # (b) X-soundness against 2-valued runs of completions
    mask = 3 if m == 4 else 7
    for lane in range(min(sims, 3)):
        col = stim[:, lane] & mask
        unk = [j for j in range(len(col)) if (col[j] in (1, 2))]
        if len(unk) > 8:
            rs = np.random.RandomState(case.get('seed', 1))
            ncomp = 64
            comp = rs.randint(0, 2, size=(len(unk), ncomp))
        else:
            ncomp = 2 ** len(unk)
            comp = np.array([[(v >> i) & 1 for v in range(ncomp)] for i in range(len(unk))], dtype=np.uint8).reshape(len(unk), ncomp)
        st2 = np.repeat((col & 1)[:, None], ncomp, axis=1)
        for i, j in enumerate(unk): st2[j] = comp[i]
        r2 = run_mv(c, 2, st2 * 3, case['strip'], case['reuse'])
        for j in range(got.shape[0]):
            v = int(got[j, lane])
            if out[lane][j] == '-': continue
            is_unk = (v & mask) in (1, 2) if m == 4 else v in (1, 2)
            if not is_unk:
                bad = np.flatnonzero(r2[j] != (v & 1))
                if len(bad):
                    return False, {'check': 'x-soundness', 'lane': lane, 's_node': j, 'mv_result': v,
                                   'completion': st2[:, bad[0]].tolist(), 'two_valued': int(r2[j, bad[0]])}, {'two_valued': v & 1}
    # (c) components (m=8, no unknowns in this lane)
    if m == 8:
        lanes = [l for l in range(sims) if not any(int(v) in (1, 2) for v in stim[:, l])]
        if lanes:
            sub = stim[:, lanes]
            rf = run_mv(c, 2, (sub & 1) * 3, case['strip'], case['reuse'])
            ri = run_mv(c, 2, ((sub >> 1) & 1) * 3, case['strip'], case['reuse'])
            for k, l in enumerate(lanes):
                for j in range(got.shape[0]):
                    if out[l][j] == '-': continue
                    v = int(got[j, l])
                    if (v & 1) != int(rf[j, k]) or ((v >> 1) & 1) != int(ri[j, k]) or v in (1, 2):
                        return False, {'check': 'components', 'lane': l, 's_node': j, 'mv_result': v}, {'final': int(rf[j, k]), 'initial': int(ri[j, k])}
    return True, None, None


PRIM_AR = {'BUF1': 1, 'INV1': 1, 'MUX21': 3}


def prim_arity(name):
    if name in PRIM_AR: return PRIM_AR[name]
    if name[-3:] in ('211',): return 4
    if name[-2:] == '21': return 3
    if name[-2:] == '22': return 4
    return int(name[-1])


def allprims_case(m):
    """every primitive of sim.names on ALL operand tuples of the logic, in one bit-parallel run of the real LogicSim,
    against the Lean table of the documented composition (`comptab`)"""
    from kyupy import bench, logic, sim
    from kyupy.logic_sim import LogicSim
    names = sorted(str(v) for v in sim.names.values())
    src = 'input(i0,i1,i2,i3) output(' + ','.join(f'o{k}' for k in range(len(names))) + ') ' + \
          ' '.join(f"o{k}={p}({','.join(f'i{j}' for j in range(prim_arity(p)))})" for k, p in enumerate(names))
    c = bench.parse(src)
    dom = 4 if m == 4 else 8
    n = dom ** 4
    idx = np.arange(n)
    combos = np.array([(idx // (dom ** j)) % dom for j in range(4)], dtype=np.uint8)
    with common.quiet():
        ls = LogicSim(c, n, m=m)
    mva = np.full((ls.s_len, n), 2, dtype=np.uint8); mva[:4] = combos
    ls.s[0] = logic.mv_to_bp(mva); ls.s_to_c(); ls.c_prop(); ls.c_to_s()
    r = logic.bp_to_mv(ls.s[1])[4:, :n]
    tabs = common.run_driver([f'comptab {p}' for p in names])
    for k, p in enumerate(names):
        if tabs[k] == 'none': return False, {'primitive': p, 'spec': 'unknown primitive name'}, None
        t = int(tabs[k])
        for col in range(n):
            a = [int(combos[j, col]) for j in range(4)]
            ar = prim_arity(p)
            row = sum((a[j] if j < ar else 0) * (8 ** j) for j in range(4))      # unconnected pins read constant 0
            exp = (t >> (3 * row)) & 7
            if m == 4: exp &= 3
            got = int(r[k, col]) & (3 if m == 4 else 7)
            if got != exp:
                return False, {'primitive': p, 'm': m, 'operands': a[:ar], 'result': got}, {'result': exp}
    return True, None, None


def oracle(ck, n, thorough=False):
    rng = ck.rng
    for m in (4, 8):     # complete per-primitive sweep first
        try:
            ok, obs, exp = allprims_case(m)
        except Exception as ex:
            ok, obs, exp = False, {'raised': f'{type(ex).__name__}: {ex}'[:300]}, None
        ck.case(key=('allprims', m), sample={'kind': 'allprims', 'm': m}, tag=[f'allprims-m{m}'])
        if not ok:
            ck.violation('logic-prim', f'LogicSim(m={m}): a primitive differs from its documented composition', {'kind': 'allprims', 'm': m}, obs, exp)
    for it in range(n):
        c = circ.rand_circuit(rng, n_gates=rng.randint(1, 25 if not thorough else 60))
        d = circ.describe(c)
        m = rng.choice([4, 8])
        s_len = len(c.s_nodes)
        sims = rng.choice([1, 2, 5, 8, 11, 17])
        rs = np.random.RandomState(rng.randint(0, 2**31 - 1))
        dom = [0, 1, 2, 3] if m == 4 else ([0, 1, 2, 3, 4, 5, 6, 7] if rng.random() < 0.6 else [0, 3, 4, 5, 6, 7])
        if rng.random() < 0.5 and 1 in dom:   # mostly-known stimuli give more 0/1 results
            p = np.array([4 if v in (0, 3) else 1 for v in dom], dtype=float); p /= p.sum()
        else:
            p = None
        stim = rs.choice(dom, size=(s_len, sims), p=p).astype(np.uint8)
        case = {'circuit': base64.b64encode(pickle.dumps(c)).decode(), 'm': m, 'stim': stim.tolist(),
                'strip': rng.random() < 0.4, 'reuse': rng.random() < 0.5, 'seed': rng.randint(0, 10**6)}
        try:
            ok, obs, exp = eval_case(case)
        except Exception as ex:
            ok, obs, exp = False, {'raised': f'{type(ex).__name__}: {ex}'[:300]}, None
        has_unk = bool(((stim == 1) | (stim == 2)).any()) and bool(((stim == 0) | (stim == 3)).any())
        hyp_tag = common.allcirc_hyp(ck, c, [case['strip']], 'C02')
        ck.case(key=(circ.dump_net(c), m, case['strip'], case['reuse']), nontrivial=d['lines'] >= 4 and (has_unk or 1 not in dom),
                sample={'net': circ.dump_net(c), 'm': m, 'sims': sims, 'stim_lane0': ''.join(map(str, stim[:, 0]))},
                tag=[f'm:{m}', f"strip:{case['strip']}", f"reuse:{case['reuse']}", f'sims:{sims}', 'unknowns' if has_unk else 'no-unknowns', hyp_tag, common.netspec_hyp(c)])
        if not ok:
            ck.violation('logic-mv', f"LogicSim(m={m}) {obs.get('check', 'run') if obs else ''}: differs from the documented algebra", case, obs, exp)


def run(ck):
    ck.prove([extract_ops.generate], TARGETS, theorems())
    n = 50 if ck.tier == 'quick' else 700
    oracle(ck, n, ck.tier == 'thorough')
    if ck.broken and not ck.violations:
        oracle(ck, n * 5, ck.tier == 'thorough')
    ck.assumptions += ['the gate-by-gate netlist semantics uses the hand-written spec algebra (Model/Val.lean, Model/Comp.lean) and spec kind families (Model/Net.lean)',
                       'memory map/schedule of SimOps: tied by exact model correspondence in C01/C08, not re-checked here',
                       'the all-circuits theorems (sim8/sim4_all_circuits, xsound*_all_circuits, components_all_circuits, *_memory_all_circuits) speak about the rows and tables of the Lean SimOps model; their hypotheses wfB/orderOKB/forksOKB/readsDrivenB are evaluated by the driver on every real circuit and order (tag allcirc-hyp)',
                       'netlist reading (gate_equations_are_netlist, sim8/sim4_netlist_all_circuits, oracle_labelling_is_simulation): row equations = lineEq of the specification evaluator; hypotheses forksOKB / linesDrivenB evaluated on every real circuit (tag netspec-hyp); the evaluator result is checked by consistentB on every case']
    return ck.finish(RULE)


def replay(rep):
    ok, obs, exp = eval_case(rep['input'])
    print(json.dumps({'ok': ok, 'observed': obs, 'expected': exp}, default=str))
    return 0 if ok else 1
