"""Hand-written datasheet of the library cells used by the C11 generator (ground truth, independent of techlib.py's
bench texts): Boolean function per family over LOGICAL arguments, and per library the cell kinds with the pin name of every
logical argument / output.  Adders are left out (their sum/carry exchange is finding D5 of C19); cells whose implementation
ignores an input (TBUF, TINV, TLAT: finding D7 of C10) are left out as well."""


def _and(*a): return int(all(a))
def _or(*a): return int(any(a))
def _xor(*a): return sum(a) & 1
def _n(v): return 1 - v


# family -> (number of logical inputs, function(list of 0/1) -> tuple of outputs); sequential: next-state function
COMB = {
    'BUF': (1, lambda a: (a[0],)),
    'INV': (1, lambda a: (_n(a[0]),)),
    'CONST0': (0, lambda a: (0,)),
    'CONST1': (0, lambda a: (1,)),
    'AO21': (3, lambda a: (_or(_and(a[0], a[1]), a[2]),)),
    'OA21': (3, lambda a: (_and(_or(a[0], a[1]), a[2]),)),
    'AOI21': (3, lambda a: (_n(_or(_and(a[0], a[1]), a[2])),)),
    'OAI21': (3, lambda a: (_n(_and(_or(a[0], a[1]), a[2])),)),
    'AO22': (4, lambda a: (_or(_and(a[0], a[1]), _and(a[2], a[3])),)),
    'OA22': (4, lambda a: (_and(_or(a[0], a[1]), _or(a[2], a[3])),)),
    'AOI22': (4, lambda a: (_n(_or(_and(a[0], a[1]), _and(a[2], a[3]))),)),
    'OAI22': (4, lambda a: (_n(_and(_or(a[0], a[1]), _or(a[2], a[3]))),)),
    'AOI211': (4, lambda a: (_n(_or(_and(a[0], a[1]), a[2], a[3])),)),
    'OAI211': (4, lambda a: (_n(_and(_or(a[0], a[1]), a[2], a[3])),)),
    'AO221': (5, lambda a: (_or(_and(a[0], a[1]), _and(a[2], a[3]), a[4]),)),
    'OA221': (5, lambda a: (_and(_or(a[0], a[1]), _or(a[2], a[3]), a[4]),)),
    'AOI221': (5, lambda a: (_n(_or(_and(a[0], a[1]), _and(a[2], a[3]), a[4])),)),
    'OAI221': (5, lambda a: (_n(_and(_or(a[0], a[1]), _or(a[2], a[3]), a[4])),)),
    'AO222': (6, lambda a: (_or(_and(a[0], a[1]), _and(a[2], a[3]), _and(a[4], a[5])),)),
    'OA222': (6, lambda a: (_and(_or(a[0], a[1]), _or(a[2], a[3]), _or(a[4], a[5])),)),
    'AOI222': (6, lambda a: (_n(_or(_and(a[0], a[1]), _and(a[2], a[3]), _and(a[4], a[5]))),)),
    'OAI222': (6, lambda a: (_n(_and(_or(a[0], a[1]), _or(a[2], a[3]), _or(a[4], a[5]))),)),
    'OAI33': (6, lambda a: (_n(_and(_or(a[0], a[1], a[2]), _or(a[3], a[4], a[5]))),)),
    'MUX2': (3, lambda a: (a[1] if a[2] else a[0],)),                                   # (d0, d1, sel)
    'MUX4': (6, lambda a: (a[(2 if a[5] else 0) + (1 if a[4] else 0)],)),               # (d0..d3, s0, s1)
    'DEC24': (2, lambda a: (_and(_n(a[0]), _n(a[1])), _and(a[0], _n(a[1])), _and(_n(a[0]), a[1]), _and(a[0], a[1]))),
    'ISOLAND': (2, lambda a: (_and(_n(a[0]), a[1]),)),                                  # (iso, d)
    'ISOLOR': (2, lambda a: (_or(a[0], a[1]),)),
}
for _k in (2, 3, 4):
    COMB[f'AND{_k}'] = (_k, lambda a: (_and(*a),))
    COMB[f'NAND{_k}'] = (_k, lambda a: (_n(_and(*a)),))
    COMB[f'OR{_k}'] = (_k, lambda a: (_or(*a),))
    COMB[f'NOR{_k}'] = (_k, lambda a: (_n(_or(*a)),))
    COMB[f'XOR{_k}'] = (_k, lambda a: (_xor(*a),))
    COMB[f'XNOR{_k}'] = (_k, lambda a: (_n(_xor(*a)),))

# WIDE gates (audit finding 1 / known finding D33): 5..9 inputs, ground truth = the operator over ALL inputs.  kyupy simulates them
# as the 4-input primitive of the first four pins, so netlists that contain one are outside the domain `arityOKB` of the theorems.
WIDE = {}
for _k in (5, 6, 7, 8, 9):
    WIDE[f'AND{_k}'] = COMB[f'AND{_k}'] = (_k, lambda a: (_and(*a),))
    WIDE[f'NAND{_k}'] = COMB[f'NAND{_k}'] = (_k, lambda a: (_n(_and(*a)),))
    WIDE[f'OR{_k}'] = COMB[f'OR{_k}'] = (_k, lambda a: (_or(*a),))
    WIDE[f'NOR{_k}'] = COMB[f'NOR{_k}'] = (_k, lambda a: (_n(_or(*a)),))
    WIDE[f'XOR{_k}'] = COMB[f'XOR{_k}'] = (_k, lambda a: (_xor(*a),))
    WIDE[f'XNOR{_k}'] = COMB[f'XNOR{_k}'] = (_k, lambda a: (_n(_xor(*a)),))


def is_wide(fam): return fam in WIDE
def narrow(fam): return fam.rstrip('0123456789') + '4'      # the primitive kyupy simulates for a wide gate


# sequential families: logical inputs -> value captured by the state element; outputs are (state, !state)
SEQ = {
    'DFF': (1, lambda a: a[0]),                                       # (d)
    'DFFR': (2, lambda a: _and(a[0], a[1])),                          # (d, rn)
    'DFFS': (2, lambda a: _or(a[0], _n(a[1]))),                       # (d, sn)
    'DFFRS': (3, lambda a: _and(_or(a[0], _n(a[2])), a[1])),          # (d, rn, sn): nangate: (D | !SN) & RN
    'DFFSR': (3, lambda a: _or(_and(a[0], a[1]), _n(a[2]))),          # (d, rn, sn): gsc/saed: (D & RN) | !SN
    'SDFF': (3, lambda a: a[1] if a[2] else a[0]),                    # (d, si, se)
    'LATCH': (1, lambda a: a[0]),
}

# families that the bench format can express, with the bench kind spellings
BENCH_KINDS = {
    'BUF': ['buf', 'BUF', 'BUFF', 'buff', 'Buf'], 'INV': ['not', 'NOT', 'inv', 'INV', 'Not'],
    'CONST0': ['__const0__'], 'CONST1': ['__const1__'],
    'DFF': ['dff', 'DFF', 'Dff'],
}
for _k in (2, 3, 4):
    for _f in ('AND', 'NAND', 'OR', 'NOR', 'XOR', 'XNOR'):
        BENCH_KINDS[f'{_f}{_k}'] = [_f.lower(), _f, _f.capitalize(), f'{_f}{_k}', f'{_f.lower()}{_k}']
for _k in (5, 6, 7, 8, 9):      # wide gates as real ISCAS files write them: the bare family name (and a numbered spelling)
    for _f in ('AND', 'NAND', 'OR', 'NOR', 'XOR', 'XNOR'):
        BENCH_KINDS[f'{_f}{_k}'] = [_f.lower(), _f, _f, f'{_f}{_k}']


# asymmetric primitives that the simulator knows by kind prefix: a bench text may use them, and only they make the ARGUMENT ORDER
# of a bench gate observable in the truth table (and/or/xor are symmetric)
for _f, _names in (('AO21', ['AO21', 'ao21']), ('OA21', ['OA21', 'oa21']), ('AOI21', ['AOI21', 'aoi21']), ('OAI21', ['OAI21', 'oai21']),
                   ('AO22', ['AO22', 'ao22']), ('OA22', ['OA22', 'oa22']), ('AOI22', ['AOI22', 'aoi22']), ('OAI22', ['OAI22', 'oai22']),
                   ('AOI211', ['AOI211', 'aoi211']), ('OAI211', ['OAI211', 'oai211']), ('MUX2', ['MUX21', 'mux21', 'Mux21'])):
    BENCH_KINDS[_f] = _names


def _x(pattern, sizes, suffixes=('',)):
    return [pattern.replace('#', str(s)) + suf for s in sizes for suf in suffixes]


def _entry(fam, kinds, ins, outs, clk=None):
    """ins: pin names in logical-argument order; outs: pin names in family-output order; clk: clock/enable pin (value irrelevant)"""
    return {'fam': fam, 'kinds': kinds, 'ins': list(ins), 'outs': list(outs), 'clk': clk}


def _nangate():
    L = []
    s124 = (1, 2, 4)
    L.append(_entry('BUF', _x('BUF_X#', (1, 2, 4, 8, 16, 32)) + _x('CLKBUF_X#', (1, 2, 3)), ['A'], ['Z']))
    L.append(_entry('INV', _x('INV_X#', (1, 2, 4, 8, 16, 32)), ['I'], ['ZN']))
    L.append(_entry('CONST0', ['LOGIC0_X1'], [], ['Z']))
    L.append(_entry('CONST1', ['LOGIC1_X1'], [], ['Z']))
    for k in (2, 3, 4):
        pins = [f'A{i + 1}' for i in range(k)]
        L.append(_entry(f'AND{k}', _x(f'AND{k}_X#', s124), pins, ['Z']))
        L.append(_entry(f'OR{k}', _x(f'OR{k}_X#', s124), pins, ['Z']))
        L.append(_entry(f'NAND{k}', _x(f'NAND{k}_X#', s124), pins, ['ZN']))
        L.append(_entry(f'NOR{k}', _x(f'NOR{k}_X#', s124), pins, ['ZN']))
    L.append(_entry('XOR2', _x('XOR2_X#', (1, 2)), ['A1', 'A2'], ['Z']))
    L.append(_entry('XNOR2', _x('XNOR2_X#', (1, 2)), ['A1', 'A2'], ['ZN']))
    L.append(_entry('AOI21', _x('AOI21_X#', s124), ['B1', 'B2', 'A'], ['ZN']))
    L.append(_entry('OAI21', _x('OAI21_X#', s124), ['B1', 'B2', 'A'], ['ZN']))
    L.append(_entry('AOI22', _x('AOI22_X#', s124), ['A1', 'A2', 'B1', 'B2'], ['ZN']))
    L.append(_entry('OAI22', _x('OAI22_X#', s124), ['A1', 'A2', 'B1', 'B2'], ['ZN']))
    L.append(_entry('AOI211', _x('AOI211_X#', s124), ['C1', 'C2', 'A', 'B'], ['ZN']))
    L.append(_entry('OAI211', _x('OAI211_X#', s124), ['C1', 'C2', 'A', 'B'], ['ZN']))
    L.append(_entry('AOI221', _x('AOI221_X#', s124), ['B1', 'B2', 'C1', 'C2', 'A'], ['ZN']))
    L.append(_entry('OAI221', _x('OAI221_X#', s124), ['B1', 'B2', 'C1', 'C2', 'A'], ['ZN']))
    L.append(_entry('AOI222', _x('AOI222_X#', s124), ['A1', 'A2', 'B1', 'B2', 'C1', 'C2'], ['ZN']))
    L.append(_entry('OAI222', _x('OAI222_X#', s124), ['A1', 'A2', 'B1', 'B2', 'C1', 'C2'], ['ZN']))
    L.append(_entry('OAI33', ['OAI33_X1'], ['A1', 'A2', 'A3', 'B1', 'B2', 'B3'], ['ZN']))
    L.append(_entry('MUX2', _x('MUX2_X#', (1, 2)), ['A', 'B', 'S'], ['Z']))
    L.append(_entry('DFF', _x('DFF_X#', (1, 2)), ['D'], ['Q', 'QN'], clk='CK'))
    L.append(_entry('DFFR', _x('DFFR_X#', (1, 2)), ['D', 'RN'], ['Q', 'QN'], clk='CK'))
    L.append(_entry('DFFS', _x('DFFS_X#', (1, 2)), ['D', 'SN'], ['Q', 'QN'], clk='CK'))
    L.append(_entry('DFFRS', _x('DFFRS_X#', (1, 2)), ['D', 'RN', 'SN'], ['Q', 'QN'], clk='CK'))
    L.append(_entry('SDFF', _x('SDFF_X#', (1, 2)), ['D', 'SI', 'SE'], ['Q', 'QN'], clk='CK'))
    L.append(_entry('LATCH', _x('DLH_X#', (1, 2)), ['D'], ['Q'], clk='G'))
    return L


def _saed(lib):
    s32 = lib == 'SAED32'
    suf = ('_RVT',) if s32 else ('', '_LVT', '_HVT')
    ipin = (lambda i: f'A{i}') if s32 else (lambda i: f'IN{i}')
    one = 'A' if s32 else 'INP'
    o = (lambda inverting: 'Y') if s32 else (lambda inverting: 'QN' if inverting else 'Q')
    L = []
    L.append(_entry('BUF', _x('NBUFFX#', (2, 4, 8, 16, 32), suf) + _x('AOBUFX#', (1, 2, 4), suf) + _x('DELLN#X2', (1, 2, 3), suf),
                    [one], ['Y' if s32 else 'Z']))
    L.append(_entry('INV', _x('INVX#', (0, 1, 2, 4, 8, 16, 32), suf) + _x('AOINVX#', (1, 2, 4), suf) + _x('IBUFFX#', (2, 4, 8, 16, 32), suf),
                    [one], ['Y' if s32 else 'ZN']))
    L.append(_entry('CONST1', _x('TIEH', (0,), suf), [], ['Y' if s32 else 'Z']))
    L.append(_entry('CONST0', _x('TIEL', (0,), suf), [], ['Y' if s32 else 'ZN']))
    for k in (2, 3, 4):
        pins = [ipin(i + 1) for i in range(k)]
        L.append(_entry(f'AND{k}', _x(f'AND{k}X#', (1, 2, 4), suf), pins, [o(False)]))
        L.append(_entry(f'OR{k}', _x(f'OR{k}X#', (1, 2, 4), suf), pins, [o(False)]))
        L.append(_entry(f'NAND{k}', _x(f'NAND{k}X#', (0, 1, 2, 4) if k < 4 else (0, 1), suf), pins, [o(True)]))
        L.append(_entry(f'NOR{k}', _x(f'NOR{k}X#', (0, 1, 2, 4) if k < 4 else (0, 1), suf), pins, [o(True)]))
    for k in (2, 3):
        pins = [ipin(i + 1) for i in range(k)]
        L.append(_entry(f'XOR{k}', _x(f'XOR{k}X#', (1, 2), suf), pins, [o(False)]))
        L.append(_entry(f'XNOR{k}', _x(f'XNOR{k}X#', (1, 2), suf), pins, [o(False)]))     # saed90: XNOR has output Q
    for fam, inv in (('AO21', False), ('OA21', False), ('AOI21', True), ('OAI21', True)):
        L.append(_entry(fam, _x(f'{fam}X#', (1, 2), suf), [ipin(1), ipin(2), ipin(3)], [o(inv)]))
    for fam, inv in (('AO22', False), ('OA22', False), ('AOI22', True), ('OAI22', True)):
        L.append(_entry(fam, _x(f'{fam}X#', (1, 2), suf), [ipin(i) for i in (1, 2, 3, 4)], [o(inv)]))
    for fam, inv in (('AO221', False), ('OA221', False), ('AOI221', True), ('OAI221', True)):
        L.append(_entry(fam, _x(f'{fam}X#', (1, 2), suf), [ipin(i) for i in (1, 2, 3, 4, 5)], [o(inv)]))
    for fam, inv in (('AO222', False), ('OA222', False), ('AOI222', True), ('OAI222', True)):
        L.append(_entry(fam, _x(f'{fam}X#', (1, 2), suf), [ipin(i) for i in (1, 2, 3, 4, 5, 6)], [o(inv)]))
    L.append(_entry('MUX2', _x('MUX21X#', (1, 2), suf), [ipin(1), ipin(2), 'S0' if s32 else 'S'], [o(False)]))
    L.append(_entry('MUX4', _x('MUX41X#', (1, 2), suf), [ipin(1), ipin(2), ipin(3), ipin(4), 'S0', 'S1'], [o(False)]))
    if s32:
        L.append(_entry('DEC24', _x('DEC24X#', (1, 2), suf), ['A0', 'A1'], ['Y0', 'Y1', 'Y2', 'Y3']))
    else:
        L.append(_entry('DEC24', _x('DEC24X#', (1, 2), suf), ['IN1', 'IN2'], ['Q0', 'Q1', 'Q2', 'Q3']))
    L.append(_entry('ISOLAND', _x('ISOLANDX#', (1, 2, 4, 8), suf) + _x('ISOLANDAOX#', (1, 2, 4, 8), suf), ['ISO', 'D'], ['Q']))
    L.append(_entry('ISOLOR', _x('ISOLORX#', (1, 2, 4, 8), suf) + _x('ISOLORAOX#', (1, 2, 4, 8), suf), ['ISO', 'D'], ['Q']))
    L.append(_entry('DFF', _x('DFFX#', (1, 2), suf), ['D'], ['Q', 'QN'], clk='CLK'))
    L.append(_entry('DFFR', _x('DFFARX#', (1, 2), suf) + _x('AODFFARX#', (1, 2), suf), ['D', 'RSTB'], ['Q', 'QN'], clk='CLK'))
    L.append(_entry('DFFS', _x('DFFASX#', (1, 2), suf), ['D', 'SETB'], ['Q', 'QN'], clk='CLK'))
    L.append(_entry('DFFSR', _x('DFFASRX#', (1, 2), suf) + _x('DFFSSRX#', (1, 2), suf), ['D', 'RSTB', 'SETB'], ['Q', 'QN'], clk='CLK'))
    L.append(_entry('SDFF', _x('SDFFX#', (1, 2), suf), ['D', 'SI', 'SE'], ['Q', 'QN'], clk='CLK'))
    L.append(_entry('LATCH', _x('LATCHX#', (1, 2), suf), ['D'], ['Q', 'QN'], clk='CLK'))
    return L


def _gsc180():
    L = []
    L.append(_entry('BUF', _x('BUFX#', (1, 3)) + _x('CLKBUFX#', (1, 2, 3)), ['A'], ['Y']))
    L.append(_entry('INV', _x('INVX#', (1, 2, 4, 8)), ['A'], ['Y']))
    L.append(_entry('AND2', ['AND2X1'], ['A', 'B'], ['Y']))
    L.append(_entry('NAND2', ['NAND2X1', 'NAND2X2'], ['A', 'B'], ['Y']))
    L.append(_entry('NAND3', ['NAND3X1'], ['A', 'B', 'C'], ['Y']))
    L.append(_entry('NAND4', ['NAND4X1'], ['A', 'B', 'C', 'D'], ['Y']))
    L.append(_entry('OR2', ['OR2X1'], ['A', 'B'], ['Y']))
    L.append(_entry('OR4', ['OR4X1'], ['A', 'B', 'C', 'D'], ['Y']))
    L.append(_entry('NOR2', ['NOR2X1'], ['A', 'B'], ['Y']))
    L.append(_entry('NOR3', ['NOR3X1'], ['A', 'B', 'C'], ['Y']))
    L.append(_entry('NOR4', ['NOR4X1'], ['A', 'B', 'C', 'D'], ['Y']))
    L.append(_entry('XOR2', ['XOR2X1'], ['A', 'B'], ['Y']))
    L.append(_entry('MUX2', ['MX2X1'], ['A', 'B', 'S0'], ['Y']))
    L.append(_entry('AOI21', ['AOI21X1'], ['A0', 'A1', 'B0'], ['Y']))
    L.append(_entry('AOI22', ['AOI22X1'], ['A0', 'A1', 'B0', 'B1'], ['Y']))
    L.append(_entry('OAI21', ['OAI21X1'], ['A0', 'A1', 'B0'], ['Y']))
    L.append(_entry('OAI22', ['OAI22X1'], ['A0', 'A1', 'B0', 'B1'], ['Y']))
    L.append(_entry('OAI33', ['OAI33X1'], ['A0', 'A1', 'A2', 'B0', 'B1', 'B2'], ['Y']))
    L.append(_entry('DFF', ['DFFX1'], ['D'], ['Q', 'QN'], clk='CK'))
    L.append(_entry('DFFSR', ['DFFSRX1'], ['D', 'RN', 'SN'], ['Q', 'QN'], clk='CK'))
    L.append(_entry('LATCH', ['TLATX1'], ['D'], ['Q', 'QN'], clk='C'))
    return L


LIBS = {'NANGATE': _nangate(), 'SAED32': _saed('SAED32'), 'SAED90': _saed('SAED90'), 'GSC180': _gsc180()}


def is_seq(fam): return fam in SEQ


def catalog_check():
    """compare the hand-written pin names/directions with the library's pin tables: kinds missing in the library or pins
    that differ are returned (and left out of generation): the datasheet must at least name existing pins"""
    from kyupy import techlib
    problems = []
    for lib, entries in LIBS.items():
        tl = getattr(techlib, lib)
        for e in entries:
            for kind in list(e['kinds']):
                if kind not in tl.cells:
                    problems.append(f'{lib}.{kind}: not in library'); e['kinds'].remove(kind); continue
                pd = tl.cells[kind][1]
                mine = {p: False for p in e['ins']}
                if e['clk']: mine[e['clk']] = False
                mine.update({p: True for p in e['outs']})
                theirs = {p: v[1] for p, v in pd.items()}
                if mine != theirs:
                    problems.append(f'{lib}.{kind}: datasheet pins {mine} != library pins {theirs}'); e['kinds'].remove(kind)
    return problems
