"""C20 — DEF data is extracted as written, with wildcards and via arrays expanded.

Generator of DEF ASTs in the subset the grammar of kyupy.def_file supports -> DEF text -> real def_file.parse ->
  (oracle)          every extracted attribute vs the AST; DefNet.wires / DefNet.vias vs ground-truth geometry
  (correspondence)  DefWire.wire_points / DefWire.vias / DefNet.wires / DefNet.vias vs the Lean model (driver `def ...`)
plus a 'direct' stream that builds DefNet/DefWire objects without the parser (more routing variety per second).

Verdict classes (ck.violation cls): 'regular-net-wires' (DefNet.wires raises TypeError on a routed regular net), 'wildcard-in-wires'
('*' left as None in DefNet.wires), 'unrouted-net-wires' (wires/vias raise AttributeError without '+ ROUTED'),
'comment-after-orientation' (a comment one blank behind a via orientation is read as vias), 'parse', 'attr-<section>', 'wires',
'vias', 'wires-raise', 'vias-raise'. The correspondence accepts the demanded reading or one of the modelled as-is readings of
wires (Model/Def.lean: netWires | netWiresAsIs | netWiresRaw) — WHICH of them the tree under test shows is probed once per run
(`probe_variants`) and every case is then compared with exactly that one; anything else is a broken tie.

Supported subset (what the generator stays inside; found by reading the grammar and probing the lexer):
 * tokens separated by white space; non-negative integer coordinates (NUMBER is unsigned, int() rejects 1.0); signed STEP values;
 * names: the ID token, not starting with '+' or '#', not one of the literals accepted at the same place ('NEW' as a via name),
   regular-net via names that do not look like an orientation (N, FS, ...);
 * net pins before options/wiring (a '(' after routing points is always read as a point); every option keyword at most once per
   net; one to three wiring statements per net (ROUTED / FIXED / COVER / NOSHIELD, repeated keywords included): ground truth of
   wires/vias = the concatenation over all wiring statements in file order (audit finding 4 / D35: the tree before the repair kept
   the last '+ ROUTED' statement only, class 'wiring-statements'); unique names per section;
 * one LAYER per pin; rows 'DO n BY 1 STEP w 0' or 'DO 1 BY n STEP 0 h' (the extractor keeps max(n, 1) and max(w, 0));
 * FIXED / COVER / NOSHIELD wiring is listed by wires/vias like ROUTED wiring;
 * first point of every wire explicit and width tokens plain digits — for the ORACLE. The grammar also accepts `( * 5 )` as first
   point and NUMBER forms like `1.5` / `1e3` / `7.` as width (audit 2, finding 5): such wires are generated too (tags
   `dom-hyp:start-wildcard`, `dom-hyp:width-non-int-listed`, `dom-hyp:width-non-int-unlisted`); there the TIE compares the model's partial functions
   (`netWiresR`, `netViasR`, `Wire.vias?`, `Wire.wirePoints?`) with the REAL outcome of `dnet.wires` / `dnet.vias` / `dw.vias` /
   `dw.wire_points` (`!value`: ValueError raised by kyupy's own `int(width)`; `!start`: `None` inside the listing or TypeError);
   a bad width on a wire WITHOUT second point stays inside the oracle's domain (the code must list wires and vias as usual).
"""
import json, random, re
from . import common, textmut
from .circ import pct

PID = 'C20'
TARGETS = ['KyupyVerif.Props.C20']
RULE = ('cases: (a) generated DEF files (header statements, UNITS, DIEAREA, ROW, TRACKS, VIAS, COMPONENTS, PINS, SPECIALNETS, NETS, '
        'filler sections, comments, mixed white space) parsed by the real def_file.parse: every attribute vs the AST, wires/vias '
        'of every net vs ground truth and vs the Lean model; (b) DefNet/DefWire objects built directly (no parser) with random '
        'routing. distinct = distinct (file AST) resp. (net routing) descriptors; non-trivial = at least one net with >= 2 wire '
        'segments, a wildcard and a via (files) / a wire with >= 3 entries (direct)')

ORIENTS = ['N', 'S', 'W', 'E', 'FN', 'FS', 'FW', 'FE']
ORIENT_RE = re.compile(r'^F?[NWES]$')


# ----------------------------------------------------------------------------------------------------------------
# names
TRICKY = ['NEWVIA', 'DOx', 'END', 'DESIGN', 'NETS', 'ROUTED', 'TAPER', 'STYLE', 'a+b', 'x;y', 'v#1', 'q(1)', 'BY', 'STEP',
          '1x', '12', '-', 'PIN', 'LAYER', 'n*', '"s"', 'a=b', 'p%q', 'r|s', 't:u', 'c,d', 'm&n', 'w@v']


class Names:
    def __init__(self, rng):
        self.rng, self.used, self.n = rng, set(), 0

    def fresh(self, prefix, tricky_ok=True, via=False):
        rng = self.rng
        for _ in range(50):
            self.n += 1
            r = rng.random()
            if r < 0.08 and tricky_ok:
                s = rng.choice(TRICKY) + (str(self.n) if rng.random() < 0.5 else '')
            elif r < 0.25:
                s = f'top/u{rng.randint(0, 9)}/{prefix}\\[{self.n}\\]'
            elif r < 0.35:
                s = f'{prefix}[{self.n}]'
            elif r < 0.42:
                s = f'{prefix.upper()}_{self.n}$x'
            elif r < 0.47:
                s = f'{prefix}<{self.n}>.q'
            else:
                s = f'{prefix}{self.n}'
            if s in self.used or s == 'NEW' or (via and ORIENT_RE.match(s)) or s[0] in '+#':
                continue
            self.used.add(s)
            return s
        self.n += 1
        return f'{prefix}_{self.n}_z'


# ----------------------------------------------------------------------------------------------------------------
# routing generator (shared by both streams)
def gen_coord(rng):
    r = rng.random()
    if r < 0.5: return rng.randint(0, 50) * 10
    if r < 0.9: return rng.randint(0, 2_000_000)
    if r < 0.95: return 0
    return rng.randint(10**9, 10**13)


WILD_START = 0.03
BAD_WIDTHS = ['1.5', '1e3', '.5', '7.', '12.0E+1', '0.0']     # NUMBER tokens that int() rejects
ODD_WIDTHS = ['007', '0', '00']                               # ... that int() accepts


def gen_entries(rng, special, vianames, n_max=7):
    """entries of one wire: first an explicit point, then >= 1 of point / via / via array.
    written values only; ground truth is recomputed by truth_points (most recent explicit value on the axis)"""
    ents = [{'k': 'p', 'x': gen_coord(rng), 'y': gen_coord(rng)}]
    if rng.random() < 0.1: ents[0]['ext'] = rng.randint(0, 500)
    if rng.random() < WILD_START:   # accepted by the grammar, not DEF: outside the oracle's domain, inside the tie's
        ents[0][rng.choice('xy')] = None
    n = rng.choice([1, 1, 2, 2, 3, 3, 4, 5, n_max])
    only_vias = rng.random() < 0.08
    for _ in range(n):
        r = rng.random()
        if r < 0.55 and not only_vias:
            style = rng.random()
            e = {'k': 'p', 'x': gen_coord(rng), 'y': gen_coord(rng)}
            if style < 0.35: e['x'] = None
            elif style < 0.7: e['y'] = None
            elif style < 0.78: e['x'] = e['y'] = None
            if rng.random() < 0.12: e['ext'] = rng.randint(0, 500)
            ents.append(e)
        elif r < 0.8 or not special:
            e = {'k': 'v', 'name': rng.choice(vianames)}
            if not special and rng.random() < 0.5: e['orient'] = rng.choice(ORIENTS)
            ents.append(e)
        else:
            one_dim = rng.random() < 0.5
            nx, ny = rng.choice([1, 2, 2, 3, 4, 7]), rng.choice([1, 2, 3, 5])
            dx, dy = rng.choice([-300, -1, 1, 20, 380, 0]), rng.choice([-280, -7, 5, 140, 0])
            if one_dim:
                if rng.random() < 0.5: ny, dy = 1, 0
                else: nx, dx = 1, 0
            ents.append({'k': 'a', 'name': rng.choice(vianames), 'nx': nx, 'ny': ny, 'dx': dx, 'dy': dy})
    return ents


def gen_wire(rng, special, layers, vianames):
    w = {'layer': rng.choice(layers), 'entries': gen_entries(rng, special, vianames)}
    if special:
        w['width'] = rng.choice([0, 1, 100, 480, 1200, 99999])
        r = rng.random()
        if r < 0.05: w['wtok'] = rng.choice(BAD_WIDTHS)      # raw token as written; `width` keeps the nominal value
        elif r < 0.08:
            w['wtok'] = rng.choice(ODD_WIDTHS); w['width'] = int(w['wtok'])
        w['opts'] = rng.choice([[], [], [['SHAPE', rng.choice(['STRIPE', 'RING', 'FOLLOWPIN', 'IOWIRE'])]],
                                [['SHAPE', 'STRIPE'], ['STYLE', str(rng.randint(0, 3))]], [['STYLE', '1']]])
    else:
        w['width'] = None
        w['opts'] = rng.choice(['', '', '', 'TAPER', 'TAPERRULE rule1', 'STYLE 2', 'TAPER STYLE 1', 'TAPERRULE r2 STYLE 0'])
    return w


# ----------------------------------------------------------------------------------------------------------------
# ground truth (the property, computed independently of the code's left-to-right state machine)
def truth_points(ents):
    """resolved (x, y) of every point entry, index-aligned with ents (None for via entries): for each axis search BACKWARDS for
    the most recent point entry with an explicit value"""
    out = []
    for i, e in enumerate(ents):
        if e['k'] != 'p':
            out.append(None); continue
        xy = []
        for ax in ('x', 'y'):
            v = None
            for j in range(i, -1, -1):
                if ents[j]['k'] == 'p' and ents[j][ax] is not None:
                    v = ents[j][ax]; break
            xy.append(v)
        out.append(tuple(xy))
    return out


def truth_wire_points(w):
    ents = w['entries']
    tp = truth_points(ents)
    pts = [list(tp[i]) + ([e['ext']] if e.get('ext') is not None else []) for i, e in enumerate(ents) if e['k'] == 'p']
    return pts if len(pts) >= 2 else []


def truth_via_events(w):
    """ordered via events of one wire: (type, set-as-sorted-list of (x, y, orient))"""
    ents = w['entries']
    tp = truth_points(ents)
    evs, loc = [], None
    for i, e in enumerate(ents):
        if e['k'] == 'p':
            loc = tp[i]
        elif e['k'] == 'v':
            evs.append((e['name'], [[loc[0], loc[1], e.get('orient') or 'N']]))
        else:
            evs.append((e['name'], sorted([loc[0] + a * e['dx'], loc[1] + b * e['dy'], 'N']
                                          for a in range(e['nx']) for b in range(e['ny']))))
    return evs


def wtok(w):
    """the width token as written (None for a regular-net wire)"""
    return None if w['width'] is None else str(w.get('wtok', w['width']))


def wire_domain(w):
    """'ok' | 'start' (first point carries '*') | 'width' (LISTED wire whose width token int() rejects) — the last two are
    outside the domain of the oracle (DEF requires an explicit first point and integer widths)"""
    e0 = w['entries'][0]
    if e0['x'] is None or e0['y'] is None: return 'start'
    t = wtok(w)
    if t is not None and not (t.isascii() and t.isdigit()) and truth_wire_points(w): return 'width'
    return 'ok'


def net_domain(routed):
    ds = {wire_domain(w) for w in routed or []}
    return 'start' if 'start' in ds else 'width' if 'width' in ds else 'ok'


def truth_net(routed):
    """expected DefNet.wires (exact) and DefNet.vias (per type: list of event blocks) of a net with ROUTED wires `routed`
    (None = no ROUTED statement: nothing is listed)"""
    wires, vias = {}, {}
    for w in routed or []:
        pts = truth_wire_points(w)
        if pts: wires.setdefault(w['layer'], []).append([w['width'], pts])
        for name, block in truth_via_events(w):
            if block: vias.setdefault(name, []).append(block)
    return wires, vias


def vias_match(real, blocks_by_type):
    """real: {type: [[x, y, o], ...]} in order; expected: per type a list of blocks, each block is a set of positions (the
    property fixes the set of an array's positions, not their order) -> None or a description of the difference"""
    if list(real.keys()) != list(blocks_by_type.keys()):
        return f'via types {list(real.keys())} != {list(blocks_by_type.keys())}'
    for t, blocks in blocks_by_type.items():
        got, k = real[t], 0
        if len(got) != sum(len(b) for b in blocks):
            return f'{t}: {len(got)} entries, expected {sum(len(b) for b in blocks)}'
        for b in blocks:
            if sorted(got[k:k + len(b)]) != b:
                return f'{t}: entries {k}..{k + len(b) - 1} are {got[k:k + len(b)]}, expected the positions {b}'
            k += len(b)
    return None


# ----------------------------------------------------------------------------------------------------------------
# canonical forms of real objects
def jpt(p):
    return [None if v is None else int(v) for v in p]


def real_entries(points):
    """DefWire.points -> entry dicts (same shape as the AST's, as far as the parsed data says)"""
    out = []
    for p in points:
        if isinstance(p[0], str):
            name, param = p
            if isinstance(param, tuple): out.append({'k': 'a', 'name': name, 'nx': param[0], 'ny': param[1], 'dx': param[2], 'dy': param[3]})
            else: out.append({'k': 'v', 'name': name, 'param': param})
        else:
            e = {'k': 'p', 'x': p[0], 'y': p[1]}
            if len(p) > 2: e['ext'] = p[2]
            out.append(e)
    return out


def expected_entries(w, special):
    out = []
    for e in w['entries']:
        if e['k'] == 'p':
            d = {'k': 'p', 'x': e['x'], 'y': e['y']}
            if e.get('ext') is not None: d['ext'] = e['ext']
            out.append(d)
        elif e['k'] == 'v':
            out.append({'k': 'v', 'name': e['name'], 'param': None if special else (e.get('orient') or 'N')})
        else:
            out.append({k: e[k] for k in ('k', 'name', 'nx', 'ny', 'dx', 'dy')})
    return out


def call(f):
    try:
        return 'ok', f()
    except Exception as ex:
        return type(ex).__name__, str(ex)[:160]


def canon_wires(d):
    return {k: [[None if w is None else int(w), [jpt(p) for p in pts]] for w, pts in v] for k, v in d.items()}


def canon_vias(d):
    return {k: [[None if x is None else int(x), None if y is None else int(y), o] for x, y, o in v] for k, v in d.items()}


def has_none_wires(d): return any(c is None for v in d.values() for w, pts in v for p in pts for c in p[:2])
def has_none_vias(d): return any(x is None or y is None for v in d.values() for x, y, o in v)


# ----------------------------------------------------------------------------------------------------------------
# encoding for the Lean driver
def enc_coord(v): return '*' if v is None else str(int(v))


def enc_points(width, layer, points):
    its = []
    for p in points:
        if isinstance(p[0], str):
            name, param = p
            if isinstance(param, tuple): its.append('a,%s,%d,%d,%d,%d' % ((pct(name),) + tuple(param)))
            elif param is None: its.append('v,' + pct(name))
            else: its.append('v,%s,%s' % (pct(name), pct(param)))
        else:
            its.append('p,' + ','.join(enc_coord(v) for v in p))
    # the RAW width attribute (DefWire.width is the unconverted token): the model, not the harness, decides where int() runs
    return '%s:%s:%s' % (pct(layer), '-' if width is None else 't' + pct(str(width)), ';'.join(its))


def enc_wire(dw): return enc_points(dw.width, dw.layer, dw.points)


def enc_net(routed):
    if routed is None: return '~'
    return '|'.join(enc_wire(dw) for dw in routed) or '.'


def show_pt(p): return ','.join(enc_coord(v) for v in p)


def show_dict(d, f):
    return '|'.join('%s=%s' % (pct(k), '&'.join(f(e) for e in v)) for k, v in d.items()) or '.'


def show_wires(d): return show_dict(d, lambda e: '%s@%s' % ('-' if e[0] is None else e[0], ';'.join(show_pt(p) for p in e[1])))
def show_vias(d): return show_dict(d, lambda e: '%d,%d,%s' % (e[0], e[1], pct(e[2])))
def show_exc(kind): return {'AttributeError': '!attr', 'TypeError': '!type', 'ValueError': '!value'}.get(kind, '!' + kind)


def outcome_wires(kw, rw):
    """REAL outcome of `dnet.wires` in the driver's answer format: listing | !value (kyupy's int(width) raised) | !start (None
    inside the listing: a listed wire starts with '*') | !attr | !type"""
    if kw != 'ok': return show_exc(kw)
    return '!start' if has_none_wires(rw) else show_wires(rw)


def outcome_vias(kv, rv):
    """REAL outcome of `dnet.vias` / `dw.vias`: listing | !start (None inside a tuple, or TypeError from `None + x*x_sp`) | !attr"""
    if kv == 'TypeError': return '!start'
    if kv != 'ok': return show_exc(kv)
    return '!start' if has_none_vias(rv) else show_vias(rv)


# ----------------------------------------------------------------------------------------------------------------
# one net: oracle + correspondence
def wstr(where): return '/'.join(map(str, where)) if where else 'file'


def check_net(dnet, routed_ast, where, findings, reqs, routed_old=False):
    """dnet: real DefNet; routed_ast: list of AST wires of all wiring statements in file order, or None;
    routed_old: what the tree before D35 kept (wires of the last ROUTED statement or None; False = not applicable)"""
    n0 = len(findings)
    try:
        _check_net(dnet, routed_ast, where, findings, reqs)
    finally:
        if routed_old is not False and routed_old != routed_ast and len(findings) > n0:
            ow, ov = truth_net(routed_old)
            kw, rw = call(lambda: canon_wires(dnet.wires))
            kv, rv = call(lambda: canon_vias(dnet.vias))
            if kw == 'ok' and kv == 'ok' and rw == ow and vias_match(rv, ov) is None:
                for i in range(n0, len(findings)):
                    cls, what, o, e, wh = findings[i]
                    if cls in ('wires', 'vias'):
                        findings[i] = ('wiring-statements', what + ' (it lists the wires of the LAST + ROUTED statement only: an earlier + ROUTED '
                                       'statement is replaced, + FIXED / + COVER / + NOSHIELD wiring is never listed)', o, e, wh)


def _check_net(dnet, routed_ast, where, findings, reqs):
    ws = wstr(where)
    dom = net_domain(routed_ast)
    exp_w, exp_v = truth_net(routed_ast) if dom == 'ok' else ({}, {})
    regular = bool(routed_ast) and any(w['width'] is None for w in routed_ast)
    kw, rw = call(lambda: canon_wires(dnet.wires))
    kv, rv = call(lambda: canon_vias(dnet.vias))
    # ---- oracle (inside its domain: first points explicit, listed widths integer)
    if dom != 'ok':
        pass
    elif kw != 'ok':
        cls = ('unrouted-net-wires' if routed_ast is None and kw == 'AttributeError' else
               'regular-net-wires' if regular and kw == 'TypeError' else 'wires-raise')
        findings.append((cls, f'{ws}: DefNet.wires raises {kw}', {'raised': f'{kw}: {rw}'}, {'wires': exp_w}, where))
    elif rw != exp_w:
        def unres(real, exp):  # same shape, differing only where the real value is None
            if list(real.keys()) != list(exp.keys()): return False
            for k in exp:
                if len(real[k]) != len(exp[k]): return False
                for (w1, p1), (w2, p2) in zip(real[k], exp[k]):
                    if w1 != w2 or len(p1) != len(p2): return False
                    for a, b in zip(p1, p2):
                        if len(a) != len(b) or any(x is not None and x != y for x, y in zip(a, b)): return False
            return True
        cls = 'wildcard-in-wires' if unres(rw, exp_w) else 'wires'
        findings.append((cls, f"{ws}: DefNet.wires differs from the routing written in the file"
                         + (" ('*' left unresolved)" if cls == 'wildcard-in-wires' else ''), {'wires': rw}, {'wires': exp_w}, where))
    if dom == 'start':
        pass
    elif kv != 'ok':
        cls = 'unrouted-net-wires' if routed_ast is None and kv == 'AttributeError' else 'vias-raise'
        findings.append((cls, f'{ws}: DefNet.vias raises {kv}', {'raised': f'{kv}: {rv}'}, {'vias': exp_v}, where))
    else:
        diff = vias_match(rv, exp_v if dom == 'ok' else truth_net(routed_ast)[1])   # vias never read the width
        if diff:
            findings.append(('vias', f'{ws}: DefNet.vias differs from the routing written in the file: {diff}', {'vias': rv}, {'vias': exp_v}, where))
    # ---- correspondence requests (model input = the parsed objects, the model starts after parsing)
    routed = getattr(dnet, 'routed', None)
    try:
        e = enc_net(routed)
    except Exception as ex:
        reqs.append(('encode', where, None, f'{type(ex).__name__}: {ex}'[:200], None)); return
    real_w = outcome_wires(kw, rw)
    real_v = outcome_vias(kv, rv)
    if where and where[0] != 'probe':
        OUTCOMES['tie-hyp:net-wires:' + (real_w if real_w.startswith('!') else 'listing')] += 1
        OUTCOMES['tie-hyp:net-vias:' + (real_v if real_v.startswith('!') else 'listing')] += 1
    reqs.append(('net-wires', where, [f'def wires {e}', f'def wiresasis {e}', f'def wiresraw {e}'], real_w, show_wires(exp_w) if dom == 'ok' else None))
    reqs.append(('net-vias', where, [f'def vias {e}', f'def viasasis {e}'], real_v, None))


def check_wire_corr(dw, where, reqs):
    try:
        e = enc_wire(dw)
    except Exception as ex:
        reqs.append(('encode', where, None, f'{type(ex).__name__}: {ex}'[:200], None)); return
    k1, r1 = call(lambda: dw.wire_points)
    if k1 == 'ok': r1 = '!start' if any(c is None for p in r1 for c in p[:2]) else (';'.join(show_pt(p) for p in r1) or '.')
    k2, r2 = call(lambda: canon_vias(dw.vias))
    reqs.append(('wire-points', where, [f'def resolve {e}', f'def wpoints {e}'], r1 if k1 == 'ok' else show_exc(k1), None))
    reqs.append(('wire-vias', where, [f'def wvias {e}'], outcome_vias(k2, r2), None))


import collections
OUTCOMES = collections.Counter()    # REAL outcomes of dnet.wires / dnet.vias met by the net-level tie (merged into the histogram by run)

VARIANTS = {'net-wires': ['wires', 'wiresasis', 'wiresraw'], 'net-vias': ['vias', 'viasasis'],
            'wire-points': ['resolve', 'wpoints'], 'wire-vias': ['wvias']}
_variant = {}


def probe_variants():
    """which of the modelled readings the tree under test shows, decided ONCE on three hand-made nets (special net with a
    wildcard and a via, regular net with a wildcard, net without wiring); afterwards every case is compared with exactly
    that reading. -> {request kind: driver command} (a kind is missing when no single reading fits all probes)"""
    from kyupy import def_file
    key = getattr(def_file, '__file__', '?')
    if _variant.get('__key__') == key: return _variant
    _variant.clear(); _variant['__key__'] = key
    probes = [{'kind': 'direct', 'special': True, 'routed': [{'layer': 'm1', 'width': 100, 'opts': [], 'entries': [
                  {'k': 'p', 'x': 0, 'y': 0}, {'k': 'p', 'x': None, 'y': 5}, {'k': 'v', 'name': 'v1'}, {'k': 'p', 'x': 7, 'y': None, 'ext': 3}]}]},
              {'kind': 'direct', 'special': False, 'routed': [{'layer': 'm2', 'width': None, 'opts': '', 'entries': [
                  {'k': 'p', 'x': 1, 'y': 2}, {'k': 'p', 'x': 5, 'y': None}, {'k': 'v', 'name': 'v2', 'orient': 'FS'}]}]},
              {'kind': 'direct', 'special': True, 'routed': None}]
    reqs = []
    for i, case in enumerate(probes):
        net = build_direct(case)
        check_net(net, case['routed'], ('probe', i), [], reqs)
        for j, dw in enumerate(getattr(net, 'routed', []) or []):
            check_wire_corr(dw, ('probe', i, j), reqs)
    lines = [l for r in reqs if r[2] for l in r[2]]
    ans = common.run_driver(lines)
    fits, k = {}, 0
    for name, where, ls, real, truth in reqs:
        if ls is None: continue
        for l, a in zip(ls, ans[k:k + len(ls)]):
            cmd = l.split(' ')[1]
            fits.setdefault(name, {}).setdefault(cmd, True)
            if a != real: fits[name][cmd] = False
        k += len(ls)
    for name, cmds in VARIANTS.items():
        ok = [c for c in cmds if fits.get(name, {}).get(c)]
        if ok: _variant[name] = ok[0]
    return _variant


def run_corr(reqs):
    """returns list of (name, where, detail) for real results that differ from the answer of the model reading that the
    probe selected for the tree under test (exactly one reading per request kind, not "one of several")"""
    lines = [l for r in reqs if r[2] for l in r[2]]
    ans = common.run_driver(lines) if lines else []
    var = probe_variants() if lines else {}
    bad, k = [], 0
    for name, where, ls, real, truth in reqs:
        if ls is None:
            bad.append((name, where, real)); continue
        got = ans[k:k + len(ls)]; k += len(ls)
        want = var.get(name)
        if want is None:
            bad.append((name, where, f'no modelled reading fits the tree under test on the probe nets (readings {VARIANTS.get(name)})'))
            continue
        sel = [a for l, a in zip(ls, got) if l.split(' ')[1] == want]
        if not sel or real != sel[0]:
            bad.append((name, where, f'real {real!r} vs model reading `{want}` {sel[:1]!r}'))
        if truth is not None and got[0] != truth:
            bad.append(('model-vs-ground-truth', where, f'model {got[0]!r} vs ground truth {truth!r}'))
    return bad


# ----------------------------------------------------------------------------------------------------------------
# DEF AST generator
def gen_net(rng, names, special, comps, layers, vianames, pinnames):
    net = {'name': names.fresh('VDD' if special and rng.random() < 0.5 else 'n'), 'pins': [], 'tail': []}
    for _ in range(rng.choice([0, 1, 2, 2, 3, 5])):
        r = rng.random()
        if special and r < 0.3: net['pins'].append(['*', rng.choice(['VDD', 'VSS', 'vdd!'])])
        elif r < 0.45 and pinnames: net['pins'].append(['PIN', rng.choice(pinnames)])
        else: net['pins'].append([rng.choice(comps) if comps else 'u0', rng.choice(['A', 'B', 'ZN', 'D', 'Q', 'CK', 'A1', 'o[3]'])])
    if rng.random() < 0.6:
        net['tail'].append({'t': 'opt', 'k': 'USE', 'v': rng.choice(['POWER', 'GROUND'] if special else ['SIGNAL', 'CLOCK', 'SCAN'])})
    if rng.random() < 0.15:
        net['tail'].append({'t': 'opt', 'k': 'NONDEFAULTRULE', 'v': rng.choice(['rule1', 'r2', 'NDR_2W2S'])})
    if rng.random() < 0.8:
        def stmt(kind):
            return {'t': 'wiring', 'k': kind, 'wires': [gen_wire(rng, special, layers, vianames) for _ in range(rng.choice([1, 1, 2, 2, 3, 4, 6]))]}
        kinds = ['ROUTED', 'ROUTED', 'ROUTED', 'FIXED', 'COVER'] + ([] if special else ['NOSHIELD'])
        r = rng.random()
        if r < 0.55: ks = ['ROUTED']
        elif r < 0.62: ks = [rng.choice(kinds[3:])]                      # a net with FIXED / COVER / NOSHIELD wiring only
        elif r < 0.85: ks = [rng.choice(kinds), rng.choice(kinds)]       # two wiring statements (the same keyword twice included)
        else: ks = [rng.choice(kinds) for _ in range(3)]                 # three
        for kind in ks: net['tail'].append(stmt(kind))
    rng.shuffle(net['tail'])
    return net


def gen_ast(rng, size=None):
    names = Names(rng)
    size = size if size is not None else rng.choice([0, 1, 1, 2, 2, 3])
    ast = {'fmt': rng.randint(0, 2**31 - 1), 'head_comment': rng.random() < 0.3, 'file': [], 'design': names.fresh('top', tricky_ok=False),
           'stmts': [], 'comments': rng.random() < 0.4}
    if rng.random() < 0.8: ast['file'].append(['VERSION', rng.choice(['5.8', '5.7', '5.6'])])
    if rng.random() < 0.7: ast['file'].append(['DIVIDERCHAR', rng.choice(['/', '.', '|'])])
    if rng.random() < 0.7: ast['file'].append(['BUSBITCHARS', rng.choice(['[]', '<>', '()'])])
    if rng.random() < 0.15: rng.shuffle(ast['file'])
    layers = [names.fresh(p, tricky_ok=False) for p in rng.sample(['metal', 'M', 'met', 'li', 'poly'], rng.randint(1, 4))]
    if rng.random() < 0.3: layers.append(names.fresh('L'))
    st = ast['stmts']
    if rng.random() < 0.85:
        st.append({'t': 'units', 'a': 'DISTANCE', 'b': 'MICRONS', 'n': rng.choice([100, 1000, 2000, 4000, 10000])})
    if rng.random() < 0.85:
        n = rng.choice([2, 2, 2, 4, 6])
        st.append({'t': 'diearea', 'pts': [[gen_coord(rng), gen_coord(rng)] for _ in range(n)]})
    for i in range(rng.choice([0, 1, 2, 3]) * (1 if size else 0) + (1 if rng.random() < 0.5 else 0)):
        horiz = rng.random() < 0.75
        n, step = rng.choice([1, 2, 17, 100, 5000]), rng.choice([1, 190, 380, 460])
        st.append({'t': 'row', 'name': names.fresh('ROW_'), 'site': rng.choice(['core', 'unit', 'FreePDK45_38x28_10R_NP_162NW_34O']),
                   'x': gen_coord(rng), 'y': gen_coord(rng), 'orient': rng.choice(ORIENTS), 'horiz': horiz, 'n': n, 'step': step})
    for i in range(rng.choice([0, 1, 2, 4]) if size else rng.choice([0, 1])):
        st.append({'t': 'tracks', 'dir': rng.choice('XY'), 'start': gen_coord(rng), 'n': rng.randint(1, 3000), 'step': rng.choice([1, 140, 190, 380]),
                   'layer': rng.choice(layers)})
    if rng.random() < 0.12: st.append({'t': 'propdef'})
    vianames = []
    if rng.random() < 0.85:
        items = []
        for i in range(rng.choice([1, 2, 3, 5])):
            v = {'name': names.fresh('via', via=True), 'opts': []}
            vianames.append(v['name'])
            if rng.random() < 0.7:
                cand = [['VIARULE', rng.choice(['Via1Array', 'M2_M1', 'genrule-3'])], ['CUTSIZE', rng.randint(1, 200), rng.randint(1, 200)],
                        ['LAYERS', rng.choice(layers), names.fresh('cut', tricky_ok=False) if rng.random() < 0.3 else 'via1', rng.choice(layers)],
                        ['CUTSPACING', rng.randint(0, 200), rng.randint(0, 200)],
                        ['ENCLOSURE', rng.randint(0, 90), rng.randint(0, 90), rng.randint(0, 90), rng.randint(0, 90)],
                        ['ROWCOL', rng.randint(1, 9), rng.randint(1, 9)], ['PATTERN', rng.choice(['2_F0F0', '1_F', '3_FFF0_2_0FF0'])]]
                v['opts'] = [c for c in cand if rng.random() < 0.6]
                if rng.random() < 0.3: rng.shuffle(v['opts'])
            items.append(v)
        st.append({'t': 'vias', 'items': items})
    while len(vianames) < 2: vianames.append(names.fresh('VIA12_', via=True))   # vias may be referenced without a definition
    if rng.random() < 0.1: st.append({'t': 'nondef'})
    comps = []
    if rng.random() < 0.85:
        items = []
        for i in range(rng.choice([1, 2, 3, 6]) * max(size, 1)):
            c = {'name': names.fresh('u'), 'kind': rng.choice(['NAND2_X1', 'DFF_X1', 'sky130_fd_sc_hd__inv_2', 'BUFx2_ASAP7_75t_R', names.fresh('CELL')]),
                 'x': gen_coord(rng), 'y': gen_coord(rng), 'orient': rng.choice(ORIENTS)}
            comps.append(c['name']); items.append(c)
        st.append({'t': 'components', 'items': items})
    pinnames = []
    if rng.random() < 0.8:
        items = []
        for i in range(rng.choice([1, 2, 3, 5])):
            p = {'name': names.fresh('io'), 'opts': []}
            pinnames.append(p['name'])
            cand = [['NET', names.fresh('pn') if rng.random() < 0.5 else p['name']]]
            if rng.random() < 0.3: cand.append(['SPECIAL'])
            if rng.random() < 0.8: cand.append(['DIRECTION', rng.choice(['INPUT', 'OUTPUT', 'INOUT', 'FEEDTHRU'])])
            if rng.random() < 0.7: cand.append(['USE', rng.choice(['SIGNAL', 'POWER', 'GROUND', 'CLOCK'])])
            if rng.random() < 0.4: cand.append(['PORT'])
            if rng.random() < 0.7: cand.append(['LAYER', rng.choice(layers), [gen_coord(rng), gen_coord(rng)], [gen_coord(rng), gen_coord(rng)]])
            for _ in range(rng.choice([0, 1, 1, 1, 2])): cand.append(['PLACED', [gen_coord(rng), gen_coord(rng)], rng.choice(ORIENTS)])
            if rng.random() < 0.2:
                head, tail = cand[:1], cand[1:]; rng.shuffle(tail); cand = head + tail
            p['opts'] = cand
            items.append(p)
        st.append({'t': 'pins', 'items': items})
    if rng.random() < 0.1: st.append({'t': 'pinprop', 'pin': rng.choice(pinnames) if pinnames else 'a'})
    if rng.random() < 0.8:
        st.append({'t': 'specialnets', 'items': [gen_net(rng, names, True, comps, layers, vianames, pinnames) for _ in range(rng.choice([1, 1, 2, 3]))]})
    if rng.random() < 0.9:
        st.append({'t': 'nets', 'items': [gen_net(rng, names, False, comps, layers, vianames, pinnames)
                                          for _ in range(rng.choice([1, 2, 3, 5]) * max(size, 1))]})
    if rng.random() < 0.1:  # statement order inside DESIGN is free for the grammar
        rng.shuffle(st)
    return ast


# ----------------------------------------------------------------------------------------------------------------
# AST -> text
def render(ast):
    """token list -> text with seeded white space / comments. A comment is never put directly behind a via orientation unless
    the AST asks for it (ast['comment_after_orient']): ORIENTATION swallows one white-space character."""
    rng = random.Random(ast['fmt'])
    toks = []   # (text, flag) flag 'nl' = end of statement, 'o' = orientation token of a regular-net via

    def T(*a):
        for x in a: toks.append((str(x), ''))

    def NL():
        if toks: toks[-1] = (toks[-1][0], 'nl')

    def point(p, ext=None):
        T('(', '*' if p[0] is None else p[0], '*' if p[1] is None else p[1])
        if ext is not None: T(ext)
        T(')')

    def num(v):
        return ('+' + str(v)) if (v > 0 and rng.random() < 0.05) else str(v)

    def entries(ents, special):
        for e in ents:
            if e['k'] == 'p': point((e['x'], e['y']), e.get('ext'))
            elif e['k'] == 'v':
                T(e['name'])
                if e.get('orient'):
                    toks.append((e['orient'], 'o'))
            else:
                T(e['name'], 'DO', e['nx'], 'BY', e['ny'], 'STEP', num(e['dx']), num(e['dy']))

    def net(n, special):
        T('-', n['name'])
        for c, p in n['pins']: T('(', c, p, ')')
        for t in n['tail']:
            if t['t'] == 'opt': T('+', t['k'], t['v'])
            else:
                T('+', t['k'])
                for i, w in enumerate(t['wires']):
                    if i: T('NEW')
                    T(w['layer'])
                    if special:
                        T(wtok(w))
                        for o in w['opts']: T('+', *o)
                    elif w['opts']:
                        T(*w['opts'].split())
                    entries(w['entries'], special)
        T(';'); NL()

    for k, v in ast['file']:
        T(k, v if k == 'VERSION' else '"%s"' % v, ';'); NL()
    T('DESIGN', ast['design'], ';'); NL()
    for s in ast['stmts']:
        t = s['t']
        if t == 'units': T('UNITS', s['a'], s['b'], s['n'], ';'); NL()
        elif t == 'diearea':
            T('DIEAREA')
            for p in s['pts']: point(p)
            T(';'); NL()
        elif t == 'row':
            T('ROW', s['name'], s['site'], s['x'], s['y'], s['orient'], 'DO')
            if s['horiz']: T(s['n'], 'BY', 1, 'STEP', s['step'], 0)
            else: T(1, 'BY', s['n'], 'STEP', 0, s['step'])
            T(';'); NL()
        elif t == 'tracks':
            T('TRACKS', s['dir'], s['start'], 'DO', s['n'], 'STEP', s['step'], 'LAYER', s['layer'], ';'); NL()
        elif t == 'propdef':
            T('PROPERTYDEFINITIONS'); NL(); T('COMPONENTPIN', 'foo', 'STRING', ';'); NL(); T('END', 'PROPERTYDEFINITIONS'); NL()
        elif t == 'nondef':
            T('NONDEFAULTRULES', 1, ';'); NL()
            T('-', 'rule1', '+', 'HARDSPACING', '+', 'LAYER', 'm1', 'WIDTH', 10, 'SPACING', 20, '+', 'VIA', 'v1', ';'); NL()
            T('END', 'NONDEFAULTRULES'); NL()
        elif t == 'pinprop':
            T('PINPROPERTIES', 1, ';'); NL(); T('-', 'PIN', s['pin'], '+', 'PROPERTY', 'foo', '"b c"', ';'); NL(); T('END', 'PINPROPERTIES'); NL()
        elif t == 'vias':
            T('VIAS', len(s['items']), ';'); NL()
            for v in s['items']:
                T('-', v['name'])
                for o in v['opts']: T('+', *o)
                T(';'); NL()
            T('END', 'VIAS'); NL()
        elif t == 'components':
            T('COMPONENTS', len(s['items']), ';'); NL()
            for c in s['items']:
                T('-', c['name'], c['kind'], '+', 'PLACED'); point((c['x'], c['y'])); T(c['orient'], ';'); NL()
            T('END', 'COMPONENTS'); NL()
        elif t == 'pins':
            T('PINS', len(s['items']), ';'); NL()
            for p in s['items']:
                T('-', p['name'])
                for o in p['opts']:
                    T('+', o[0])
                    if o[0] == 'LAYER': T(o[1]); point(o[2]); point(o[3])
                    elif o[0] == 'PLACED': point(o[1]); T(o[2])
                    elif len(o) > 1: T(o[1])
                T(';'); NL()
            T('END', 'PINS'); NL()
        elif t in ('specialnets', 'nets'):
            kw = 'SPECIALNETS' if t == 'specialnets' else 'NETS'
            T(kw, len(s['items']), ';'); NL()
            for n in s['items']: net(n, t == 'specialnets')
            T('END', kw); NL()
    T('END', 'DESIGN'); NL()
    out = ['# generated by harness/c20.py\n'] if ast['head_comment'] else []
    style = rng.choice(['plain', 'plain', 'wild'])
    for text, flag in toks:
        out.append(text)
        want_comment = ast['comments'] and rng.random() < 0.04
        if flag == 'o' and want_comment and not ast.get('comment_after_orient'):
            want_comment = False
        if flag == 'o' and ast.get('comment_after_orient') and ast['comments']:
            out.append(' # via comment\n'); continue
        if want_comment:
            out.append(rng.choice([' # a comment ; ( 1 2 ) + ROUTED\n', '  #c\n', '\n# full line\n', '\t# t\n#second line\n  ']))
        elif flag == 'nl':
            out.append('\n' if style == 'plain' or rng.random() < 0.8 else ' ')
        elif style == 'plain':
            out.append(' ')
        else:
            out.append(rng.choice([' ', ' ', ' ', '  ', '\n', '\n    ', '\t', ' \r\n', '\f']))
    return ''.join(out)


# ----------------------------------------------------------------------------------------------------------------
# expected extraction
def expected_file(ast):
    e = {'units': [], 'rows': [], 'tracks': [], 'vias': {}, 'components': {}, 'pins': {}, 'specialnets': {}, 'nets': {}}
    for k, v in ast['file']: e[k.lower()] = v
    e['design'] = ast['design']
    for s in ast['stmts']:
        t = s['t']
        if t == 'units': e['units'].append([s['a'], s['b'], s['n']])
        elif t == 'diearea': e['diearea'] = [list(p) for p in s['pts']]
        elif t == 'row': e['rows'].append([s['name'], s['site'], [s['x'], s['y']], s['orient'], s['n'], s['step']])
        elif t == 'tracks': e['tracks'].append([s['dir'], s['start'], s['n'], s['step'], s['layer']])
        elif t == 'vias':
            for v in s['items']:
                d = {'name': v['name'], 'rowcol': [1, 1], 'cutspacing': [0, 0]}
                for o in v['opts']: d[o[0].lower()] = o[1] if o[0] in ('VIARULE', 'PATTERN') else list(o[1:])
                e['vias'][v['name']] = d
        elif t == 'components':
            for c in s['items']: e['components'][c['name']] = [c['kind'], [c['x'], c['y']], c['orient']]
        elif t == 'pins':
            for p in s['items']:
                d = {'name': p['name'], 'points': []}
                for o in p['opts']:
                    if o[0] == 'PLACED': d['points'].append([o[1][0], o[1][1], o[2]])
                    elif o[0] == 'LAYER': d['layer'] = [o[1], list(o[2]), list(o[3])]
                    elif o[0] in ('SPECIAL', 'PORT'): d[o[0].lower()] = []
                    else: d[o[0].lower()] = o[1]
                e['pins'][p['name']] = d
        elif t in ('specialnets', 'nets'):
            sp = t == 'specialnets'
            for n in s['items']:
                d = {'name': n['name'], 'pins': [list(p) for p in n['pins']]}
                for x in n['tail']:
                    if x['t'] == 'opt': d[x['k'].lower()] = x['v']
                    else:   # the wires of all wiring statements, in file order, under `routed` (D35)
                        d.setdefault('routed', []).extend(
                            dict({'layer': w['layer'], 'width': wtok(w),
                                  'points': expected_entries(w, sp)}, **({'kind': x['k'].lower()} if wire_has_kind() else {}))
                            for w in x['wires'])
                e[t][n['name']] = d
    return e


def wire_has_kind():
    """the repaired tree (D35) records the keyword of the wiring statement on every DefWire"""
    from kyupy import def_file
    return hasattr(def_file.DefWire(), 'kind')


def all_wires(n):
    """AST wires of all wiring statements of a net in file order (None: no wiring statement); and what the tree before
    D35 kept: the wires of the last ROUTED statement (None: no ROUTED statement)"""
    ws = [x for x in n['tail'] if x['t'] == 'wiring']
    routed = [x for x in ws if x['k'] == 'ROUTED']
    return ([w for x in ws for w in x['wires']] if ws else None), (routed[-1]['wires'] if routed else None)


def observed_file(d):
    def val(v):
        if isinstance(v, (list, tuple)): return [val(x) for x in v]
        if isinstance(v, dict): return {a: val(b) for a, b in v.items()}
        return v
    o = {}
    for k, v in vars(d).items():
        if k in ('vias', 'pins'):
            o[k] = {n: {a: val(b) for a, b in vars(x).items()} for n, x in v.items()}
        elif k in ('specialnets', 'nets'):
            o[k] = {}
            for n, x in v.items():
                dd = {}
                for a, b in vars(x).items():
                    if a == 'routed' and b == []: continue   # "no ROUTED wiring": absent attribute or empty list
                    if isinstance(b, list) and b and hasattr(b[0], 'points'):
                        dd[a] = [dict({'layer': w.layer, 'width': w.width, 'points': real_entries(w.points)},
                                      **({'kind': w.kind} if hasattr(w, 'kind') else {})) for w in b]
                    else: dd[a] = val(b)
                o[k][n] = dd
        else:
            o[k] = val(v)
    return o


TABLES = ('vias', 'components', 'pins', 'specialnets', 'nets')


def same_scalar(obs, exp):
    if exp is None or obs is None: return obs is exp
    if isinstance(exp, bool) or isinstance(obs, bool): return obs is exp
    if isinstance(exp, int): return isinstance(obs, int) and obs == exp
    if isinstance(exp, str): return isinstance(obs, str) and obs == exp
    return obs == exp


def first_diff(obs, exp, path=()):
    """first differing path (tuple of keys/indices) between two JSON-like values. The order of the name-keyed tables (file
    order) is compared; attribute dictionaries are compared as unordered records."""
    if isinstance(exp, dict) and isinstance(obs, dict):
        ordered = len(path) == 1 and path[0] in TABLES
        ko, ke = list(obs.keys()), list(exp.keys())
        if (ko != ke) if ordered else (sorted(map(str, ko)) != sorted(map(str, ke))):
            return path, {'keys': ko}, {'keys': ke}
        for k in exp:
            r = first_diff(obs[k], exp[k], path + (k,))
            if r: return r
        return None
    if isinstance(exp, list) and isinstance(obs, list):
        if len(obs) != len(exp): return path, obs, exp
        for i, (a, b) in enumerate(zip(obs, exp)):
            r = first_diff(a, b, path + (i,))
            if r: return r
        return None
    if isinstance(exp, (dict, list)) or isinstance(obs, (dict, list)) or not same_scalar(obs, exp):
        return path, obs, exp
    return None


# ----------------------------------------------------------------------------------------------------------------
# text level: the grammar itself (Model/DefText.lean through driver `defparse`) against lark on the same texts
_lark = None


def lark_sexp(text):
    """the parse tree of the REAL grammar with all tokens kept, as `rule[child,..]` with percent-encoded token texts;
    None when lark rejects"""
    global _lark
    from lark import Lark, Token
    from kyupy import def_file
    if _lark is None or _lark[0] is not def_file.GRAMMAR:
        _lark = (def_file.GRAMMAR, Lark(def_file.GRAMMAR, parser='lalr', keep_all_tokens=True))
    def sexp(t):
        if isinstance(t, Token): return textmut.pct(str(t))
        return f"{t.data}[{','.join(sexp(c) for c in t.children)}]"
    try:
        return sexp(_lark[1].parse(text))
    except Exception:
        return None


def real_parse_status(text):
    from kyupy import def_file
    try:
        def_file.parse(text)
        return 'ok'
    except Exception:
        return 'raise'


TEXT_ALPHABET = '();+-*# \n\t"0123456789.eNSFWXYab\\'
TEXT_FRAGMENTS = [' ', '\n', ' # c\n', '#c\n', ' ;', ' ( 1 2 )', ' ( * 5 3 )', ' NEW m1', ' + ROUTED m1 ( 0 0 ) ( 5 * )', ' via1', ' N', ' FS ',
                  ' DO 2 BY 2 STEP 1 1', ' END', ' + USE X', ' TAPER', ' TAPERRULE r', ' STYLE 1', ' - n ;', ' ( a b )', ' + SHAPE RING', '1.5',
                  '1e3', ' +', 'NEW', 'DO', '(', ')', ';']
HAND_TEXTS = ['', ' ', '#x', '# x\n#y', ' #x\nVERSION 5.8 ;', 'VERSION 5.8;', 'VERSION 5.8 ;', 'VERSION 5.8 ;#c', 'VERSION 5.8 ; #c', 'VERSION #5 ;', 'VERSION\t+5 ;',
         'DIVIDERCHAR "/" ;', 'DIVIDERCHAR "a\\"b" ;', 'DIVIDERCHAR "a\\\\" ;', 'DIVIDERCHAR "a\\\\\\"b" ;x', 'DIVIDERCHAR "" ;', 'DIVIDERCHAR "\\" ;', 'BUSBITCHARS "[\n]" ;', 'DIVIDERCHAR"/";',
         'DESIGN t ; END DESIGN', 'DESIGN t ; END DESIGN\n', 'DESIGNt ;ENDDESIGN', 'DESIGN t ; END DESIGN VERSION 1 ;', 'DESIGN t ; END DESIGN DESIGN u ; END DESIGN',
         'DESIGN t ; UNITS DISTANCE MICRONS 1000 ; END DESIGN', 'DESIGN t ; UNITS DISTANCE MICRONS 1000; END DESIGN', 'DESIGN t ; UNITS DISTANCE MICRONS 1.5 ; END DESIGN',
         'DESIGN t ; UNITS DISTANCE MICRONS 1e3 ; END DESIGN', 'DESIGN t ; UNITS DISTANCE MICRONS 1e ; END DESIGN', 'DESIGN t ; UNITS DISTANCE MICRONS .5e-3x ; END DESIGN',
         'DESIGN t ; DIEAREA ( 0 0 ) ( 10 10 ) ; END DESIGN', 'DESIGN t ; DIEAREA (0 0) (10 10) ; END DESIGN', 'DESIGN t ; DIEAREA ( 0 0 )( 10 10 ) ; END DESIGN', 'DESIGN t ; DIEAREA ( 0 0 ) ( 10 10 ); END DESIGN',
         'DESIGN t ; DIEAREA ( 0 0 ) ( 10 10 ) ;END DESIGN', 'DESIGN t ; DIEAREA ( 0 0 ) NEW ; END DESIGN', 'DESIGN t ; DIEAREA ( * 0 5 ) ( 10 * ) ; END DESIGN', 'DESIGN t ; DIEAREA ( 0 0 5 6 ) ; END DESIGN',
         'DESIGN t ; ROW r s 0 0 N DO 2 BY 1 STEP 3 0 ; END DESIGN', 'DESIGN t ; ROW r s 0 0 N DO 2 BY 1 STEP +3 -0 ; END DESIGN', 'DESIGN t ; ROW r s 0 0 N DO 2 BY 1 STEP 3 0; END DESIGN', 'DESIGN t ; ROW r s 0 0 N DO 2 BY 1 STEP 3 0 NEW END DESIGN',
         'DESIGN t ; TRACKS X 0 DO 3 STEP 1 LAYER m ; END DESIGN', 'DESIGN t ; TRACKS Z 0 DO 3 STEP 1 LAYER m ; END DESIGN', 'DESIGN t ; TRACKS Y0DO3STEP1LAYER m ; END DESIGN',
         'DESIGN t ; VIAS 1 ; - v + ROWCOL 1 2 + LAYERS a b c + VIARULE x + PATTERN p + CUTSIZE 1 2 + CUTSPACING 3 4 + ENCLOSURE 1 2 3 4 ; END VIAS END DESIGN', 'DESIGN t ; VIAS 1 ; - v + ROWCOL 1.5 2 ; END VIAS END DESIGN',
         'DESIGN t ; VIAS 1; - v; END VIAS END DESIGN', 'DESIGN t ; VIAS 1 ; - v ; END VIAS END DESIGN', 'DESIGN t ; VIAS 1 ; -v ; END VIAS END DESIGN', 'DESIGN t ; VIAS 1 ; - v +ROWCOL 1 2 ; END VIAS END DESIGN',
         'DESIGN t ; COMPONENTS 1 ; - u k + PLACED ( 1 2 ) N ; END COMPONENTS END DESIGN', 'DESIGN t ; COMPONENTS 1 ; - u k + PLACED ( 1 2 ) NEW ; END COMPONENTS END DESIGN', 'DESIGN t ; COMPONENTS 1 ; - u k + PLACED ( 1 2 ) ; ; END COMPONENTS END DESIGN',
         'DESIGN t ; COMPONENTS 1 ; - u k + PLACED ( 1 2 ) ( ; END COMPONENTS END DESIGN', 'DESIGN t ; COMPONENTS 1 ; - u k + PLACED ( 1 2 ) (x ; END COMPONENTS END DESIGN', 'DESIGN t ; COMPONENTS 1 ; - u k + PLACED ( 1 2 ) +N ; END COMPONENTS END DESIGN',
         'DESIGN t ; PINS 1 ; - p + NET n + SPECIAL + DIRECTION INPUT + USE SIGNAL + PORT + LAYER m ( 0 0 ) ( 1 1 ) + PLACED ( 5 5 ) N ; END PINS END DESIGN', 'DESIGN t ; PINS 1 ; - p + LAYER m ( 0 0 ) ( 1 1 ) ; END PINS END DESIGN',
         'DESIGN t ; PINS 1 ; - p + LAYER m ( 0 0 ) ( 1 1 ) + PORT ; END PINS END DESIGN', 'DESIGN t ; PINS 1 ; - p + LAYER m ( 0 0 ) (1 1 ) ; END PINS END DESIGN', 'DESIGN t ; PINS 1 ; - p + PLACED ( 5 5 ) N; END PINS END DESIGN',
         'DESIGN t ; NETS 1 ; - n ( a b ) + USE S + ROUTED m1 ( 0 0 ) ( 5 * ) v1 N ( * 7 ) NEW m2 TAPER ( 1 1 ) v2 + FIXED m3 TAPERRULE r STYLE 2 ( 1 1 ) ( 2 2 ) ; END NETS END DESIGN',
         'DESIGN t ; NETS 1 ; - n + ROUTED m1 ( 0 0 ) v1 N\n; END NETS END DESIGN', 'DESIGN t ; NETS 1 ; - n + ROUTED m1 ( 0 0 ) v1 N; END NETS END DESIGN', 'DESIGN t ; NETS 1 ; - n + ROUTED m1 ( 0 0 ) N N ; END NETS END DESIGN',
         'DESIGN t ; NETS 1 ; - n + ROUTED m1 ( 0 0 ) N1 N ; END NETS END DESIGN', 'DESIGN t ; NETS 1 ; - n + ROUTED m1 ( 0 0 ) v FN # c\n ; END NETS END DESIGN', 'DESIGN t ; NETS 1 ; - n + ROUTED m1 ( 0 0 ) v F ; END NETS END DESIGN',
         'DESIGN t ; NETS 1 ; - n + ROUTED m1 ( 0 0 ) NEWVIA NEW m2 ( 1 1 ) ( 2 2 ) ; END NETS END DESIGN', 'DESIGN t ; NETS 1 ; - n + ROUTED m1 ( 0 0 ) ; END NETS END DESIGN', 'DESIGN t ; NETS 1 ; - n + ROUTED m1 ( 0 0 ) (1 2 ) ; END NETS END DESIGN',
         'DESIGN t ; NETS 1 ; - n + ROUTED m1 ( 0 0 ) ( 1 2 ) ( a b ) ; END NETS END DESIGN', 'DESIGN t ; NETS 1 ; - n + ROUTED m1 TAPERx ( 0 0 ) ( 1 2 ) ; END NETS END DESIGN', 'DESIGN t ; NETS 1 ; - n + ROUTED m1 TAPERRULEx ( 0 0 ) ( 1 2 ) ; END NETS END DESIGN',
         'DESIGN t ; NETS 1 ; - n + ROUTED m1 STYLE 1 ( 0 0 ) ( 1 2 ) + NOSHIELD m2 ( 0 0 ) v ; END NETS END DESIGN', 'DESIGN t ; NETS 1 ; - n +ROUTED m1 ( 0 0 ) ( 1 2 ) +USE x ; END NETS END DESIGN', 'DESIGN t ; NETS 1 ; - n + ROUTED m1 ( 0 0 ) ( 1 2 )+ USE x ; END NETS END DESIGN',
         'DESIGN t ; NETS 1 ; - n + ROUTED m1 ( 0 0 ) v+ USE x ; END NETS END DESIGN', 'DESIGN t ; NETS 1 ; - n + NONDEFAULTRULE r + NOSHIELDx ( 0 0 ) v ; END NETS END DESIGN',
         'DESIGN t ; SPECIALNETS 1 ; - n ( * VDD ) + ROUTED m1 100 + SHAPE RING + STYLE 2 ( 0 0 ) v1 DO 2 BY 3 STEP 10 -20 ( 5 * ) v2 NEW m2 5 ( 1 1 ) DO + USE POWER ; END SPECIALNETS END DESIGN',
         'DESIGN t ; SPECIALNETS 1 ; - n + ROUTED m1 100 ( 0 0 ) v1 DO 2 BY 3 STEP 1.5 2 ; END SPECIALNETS END DESIGN', 'DESIGN t ; SPECIALNETS 1 ; - n + ROUTED m1 1e2 ( 0 0 ) v1 DOx ; END SPECIALNETS END DESIGN', 'DESIGN t ; SPECIALNETS 1 ; - n + NOSHIELD m1 1 ( 0 0 ) v1 ; END SPECIALNETS END DESIGN',
         'DESIGN t ; SPECIALNETS 1 ; - n + ROUTED m1 100 ( 0 0 ) v1 N ; END SPECIALNETS END DESIGN',
         'DESIGN t ; PROPERTYDEFINITIONS COMPONENTPIN a b ; END PROPERTYDEFINITIONS NONDEFAULTRULES 1 ; - r + HARDSPACING + LAYER m WIDTH 1 SPACING 2 + VIA v ; END NONDEFAULTRULES PINPROPERTIES 1 ; - PIN p + PROPERTY a "b c" ; END PINPROPERTIES END DESIGN',
         'DESIGN t ; NONDEFAULTRULES 1 ; END NONDEFAULTRULES END DESIGN', 'DESIGN t ; PINS 2 ; END PINSEND DESIGN', 'DESIGN t ; PINPROPERTIES 0 ; END PINPROPERTIES END DESIGN', 'DESIGN t ; PINSx 0 ; END PINS END DESIGN']


def mutate_text(rng, t):
    m = textmut.mutate(rng, t, TEXT_ALPHABET, TEXT_FRAGMENTS, ' \n')
    if rng.random() < 0.25: m = textmut.mutate(rng, m, TEXT_ALPHABET, TEXT_FRAGMENTS, ' \n')
    return m


def real_routed(text):
    """{'S:name' | 'N:name': enc_net(routed)} of the real parse result (the DefWire records of every net)"""
    from kyupy import def_file
    d = def_file.parse(text)
    out = {}
    for tag, table in (('S:', d.specialnets), ('N:', d.nets)):
        for name, dnet in table.items():
            v = enc_net(getattr(dnet, 'routed', None))      # raw records (width token as stored)
            if not hasattr(dnet, 'routed'): ow = ov = '.'   # tree before D35: no attribute = nothing listed (demanded reading)
            else:
                ow = outcome_wires(*call(lambda: canon_wires(dnet.wires)))   # the REAL outcomes: kyupy's own int() raises or not
                ov = outcome_vias(*call(lambda: canon_vias(dnet.vias)))
            out[tag + pct(name)] = ('.' if v == '~' else v) + '>' + ow + '>' + ov
    return out


def text_level(ck, texts, origin):
    """same parse tree (every token, every rule) or both reject; same accept/raise of the transformer; for generated
    texts also the hand-over: the ROUTED wires of every net as the routing model `KV.Def` receives them"""
    outs = textmut.drv([f'defparse {textmut.pct(t)}' for t in texts])
    for t, o in zip(texts, outs):
        lt = lark_sexp(t)
        exp = 'syntax' if lt is None else real_parse_status(t) + ' ' + lt
        f = o.split(' ')
        got = o if len(f) < 3 else f[0] + ' ' + f[1]
        ck.case(key=('text', t), nontrivial=lt is not None, tag=[f'text:{origin}', 'text-result:' + exp.split(' ')[0]])
        if got != exp:
            i = next((k for k in range(min(len(got), len(exp))) if got[k] != exp[k]), min(len(got), len(exp)))
            ck.broken_tie(f'DEF text model (grammar of def_file.py) vs lark, {origin} text',
                          f'real {exp[:60]} .. {exp[max(0, i - 80):i + 80]} != model {got[:60]} .. {got[max(0, i - 80):i + 80]}', inp={'def_text': t})
            continue
        if origin == 'generated' and f[0] == 'ok' and len(f) == 3:
            norm = lambda v: ('.' + v[1:]) if v.startswith('~>') else v     # "no ROUTED statement": absent attribute (~) or empty list (.)
            model = {} if f[2] == '-' else {k: norm(v) for k, v in (x.split('=', 1) for x in re.split(r'!(?=[SN]:)', f[2]))}   # outcomes `!value` / `!start` contain the separator
            try:
                real = real_routed(t)
            except Exception as ex:
                ck.broken_tie('DEF text model hand-over', f'{type(ex).__name__}: {ex}'[:300], inp={'def_text': t}); continue
            ck.hist['text-nets-compared'] += len(real)
            for v in real.values():
                _, ow, ov = v.rsplit('>', 2)
                ck.hist['tie-hyp:text-net-wires:' + (ow if ow.startswith('!') else 'listing')] += 1
                ck.hist['tie-hyp:text-net-vias:' + (ov if ov.startswith('!') else 'listing')] += 1
            if model != real:
                k = next((k for k in list(real) + list(model) if real.get(k) != model.get(k)), None)
                ck.broken_tie('DEF text model hand-over (ROUTED wires of a net as DefWire records)',
                              f'{k}: real {str(real.get(k))[:200]} != model {str(model.get(k))[:200]}', inp={'def_text': t})


HANDOVER_TEXTS = [   # hand-over of the wiring statements (audit finding 4): repeated ROUTED, FIXED/COVER only, a width int() rejects
    'DESIGN t ; SPECIALNETS 1 ; - VDD ( * VDD ) + ROUTED m1 100 ( 0 0 ) ( 50 * ) + ROUTED m2 100 ( 0 0 ) ( * 70 ) v1 + USE POWER ; END SPECIALNETS END DESIGN',
    'DESIGN t ; SPECIALNETS 2 ; - VDD + FIXED m1 100 ( 0 0 ) ( 50 * ) ; - VSS + COVER m1 7 ( 0 0 ) v1 NEW m2 8 ( 1 1 ) ( 2 2 ) + ROUTED m3 9 ( 3 3 ) ( * 4 ) + FIXED m1 1 ( 5 5 ) ( 6 * ) ; END SPECIALNETS END DESIGN',
    'DESIGN t ; NETS 2 ; - n + NOSHIELD m1 ( 0 0 ) ( 5 * ) + ROUTED m1 ( 0 0 ) v N + ROUTED m2 TAPER ( 1 1 ) ( * 2 ) ; - k ; END NETS END DESIGN',
    'DESIGN t ; SPECIALNETS 1 ; - VDD + ROUTED m1 15 ( 0 0 ) ( 50 * ) ; END SPECIALNETS END DESIGN']
HANDOVER_WIDTH = 'DESIGN t ; SPECIALNETS 1 ; - VDD + ROUTED m1 1.5 ( 0 0 ) ( 50 * ) ; END SPECIALNETS END DESIGN'
HANDOVER_AUDIT2 = [   # audit 2, finding 5: bad width on a wire without second point (wires AND vias return data); '*' in a first point
    'DESIGN t ; SPECIALNETS 1 ; - VDD + ROUTED m1 1.5 ( 0 0 ) v1 NEW m2 7 ( 1 1 ) ( 2 * ) v2 DO 2 BY 1 STEP 3 0 ; END SPECIALNETS END DESIGN',
    'DESIGN t ; SPECIALNETS 1 ; - VDD + ROUTED m1 1.5 ( 0 0 ) ( 5 5 ) v1 NEW m2 1e3 ( 1 1 ) v2 ; END SPECIALNETS END DESIGN',
    'DESIGN t ; SPECIALNETS 1 ; - VDD + ROUTED m1 100 ( * 5 ) v1 ; END SPECIALNETS END DESIGN',
    'DESIGN t ; SPECIALNETS 1 ; - VDD + ROUTED m1 100 ( * 5 ) v1 DO 2 BY 1 STEP 10 0 ; END SPECIALNETS END DESIGN',
    'DESIGN t ; SPECIALNETS 1 ; - VDD + ROUTED m1 100 ( * 5 ) v1 DO 0 BY 3 STEP 10 0 ; END SPECIALNETS END DESIGN',
    'DESIGN t ; SPECIALNETS 1 ; - VDD + ROUTED m1 100 ( * 5 ) ( 7 * ) v1 DO 2 BY 1 STEP 10 0 ; END SPECIALNETS END DESIGN',
    'DESIGN t ; SPECIALNETS 1 ; - VDD + ROUTED m1 1.5 ( * 5 ) ( 7 * ) NEW m2 5 ( 5 * ) ( 7 8 ) ; END SPECIALNETS END DESIGN',
    'DESIGN t ; NETS 1 ; - n + ROUTED m1 ( 3 * ) v N ( 4 4 ) v FS + NOSHIELD m2 ( 1 1 ) ( * 2 ) ; END NETS END DESIGN']


def text_stream(ck, scale):
    rng = ck.rng
    try:
        text_level(ck, HANDOVER_TEXTS + [HANDOVER_WIDTH] + HANDOVER_AUDIT2, 'generated')
        text_level(ck, HAND_TEXTS, 'hand-written')
        text_level(ck, [mutate_text(rng, t) for t in HAND_TEXTS for _ in range(2 * scale)], 'mutated')
        for it in range(40 * scale):
            ast = gen_ast(rng)
            if ast['comments'] and rng.random() < 0.25: ast['comment_after_orient'] = True
            t = render(ast)
            text_level(ck, [t], 'generated')
            text_level(ck, [mutate_text(rng, t) for _ in range(4)], 'mutated')
    except Exception as ex:
        ck.broken_tie('DEF text model correspondence', f'{type(ex).__name__}: {ex}'[:300])


# ----------------------------------------------------------------------------------------------------------------
# cases
def check_file(case):
    """-> (findings, corr_bad, stats). findings: (cls, what, observed, expected, where)"""
    from kyupy import def_file
    ast = case['ast']
    text = render(ast)
    findings, reqs = [], []
    try:
        d = common.after_failed_parse(def_file.parse, text)
    except Exception as ex:
        cls = 'comment-after-orientation' if ast.get('comment_after_orient') else 'parse'
        return [(cls, 'def_file.parse rejects a DEF text of the supported subset', {'raised': f'{type(ex).__name__}: {str(ex)[:300]}'}, None, None)], [], {}
    exp, obs = expected_file(ast), observed_file(d)
    diff = first_diff(obs, exp)
    if diff:
        path, o, e = diff
        sect = path[0] if path else 'file'
        cls = 'comment-after-orientation' if ast.get('comment_after_orient') and sect == 'nets' else f'attr-{sect}'
        where = (path[0], path[1]) if len(path) >= 2 and path[0] in ('specialnets', 'nets') else None
        okeys = set(o.get('keys', [])) if isinstance(o, dict) else set()
        suffix = (len(path) == 3 and path[2] == 'routed' and isinstance(o, list) and isinstance(e, list) and len(o) < len(e)
                  and first_diff(o, e[len(e) - len(o):]) is None)     # the tree kept the last ROUTED statement only
        if where and (cls.startswith('attr-') or suffix or (len(path) == 2 and okeys & {'fixed', 'cover', 'noshield'})):
            nn = [n for s in ast['stmts'] if s['t'] == where[0] for n in s['items'] if n['name'] == where[1]]
            wk = [x['k'] for x in nn[0]['tail'] if x['t'] == 'wiring'] if nn else []
            if wk and wk != ['ROUTED'] and (len(path) == 2 or path[2] == 'routed'):
                cls = 'wiring-statements'   # D35: several wiring statements / FIXED, COVER, NOSHIELD wiring not under `routed`
        ps = '/'.join(map(str, path))
        findings.append((cls, f'extracted attribute {ps} differs from what the file states', {'path': ps, 'value': o}, {'value': e}, where))
    for s in ast['stmts']:
        if s['t'] not in ('specialnets', 'nets'): continue
        table = getattr(d, s['t'], {})
        for n in s['items']:
            where = (s['t'], n['name'])
            dnet = table.get(n['name'])
            if dnet is None: continue   # reported by the attribute comparison
            routed, routed_old = all_wires(n)
            if ast.get('comment_after_orient') and diff: continue
            check_net(dnet, routed, where, findings, reqs, routed_old=routed_old)
            for k in ('routed', 'fixed', 'cover', 'noshield'):   # every DefWire record the tree keeps (before D35: one list per keyword)
                for i, dw in enumerate(getattr(dnet, k, []) or []):
                    check_wire_corr(dw, where + (k.upper(), i), reqs)
    return findings, run_corr(reqs), {'text_len': len(text)}


def build_direct(case):
    from kyupy import def_file
    special = case['special']
    net = def_file.DefNet(case.get('name', 'n'))
    if case['routed'] is not None:
        net.routed = []
        for w in case['routed']:
            dw = def_file.DefWire()
            dw.layer = w['layer']
            dw.width = wtok(w)
            pts = []
            for e in w['entries']:
                if e['k'] == 'p': pts.append(tuple([e['x'], e['y']] + ([e['ext']] if e.get('ext') is not None else [])))
                elif e['k'] == 'v': pts.append((e['name'], None if special else (e.get('orient') or 'N')))
                else: pts.append((e['name'], (e['nx'], e['ny'], e['dx'], e['dy'])))
            dw.points = pts
            net.routed.append(dw)
    return net


def check_direct(case):
    findings, reqs = [], []
    net = build_direct(case)
    check_net(net, case['routed'], ('direct',), findings, reqs)
    for i, dw in enumerate(getattr(net, 'routed', []) or []):
        check_wire_corr(dw, ('direct', 'ROUTED', i), reqs)
    return findings, run_corr(reqs), {}


def check_case(case):
    return check_file(case) if case['kind'] == 'file' else check_direct(case)


def eval_case(case):
    """(ok, observed, expected) of ONE case on the real code: first oracle finding, else first correspondence mismatch"""
    findings, bad, _ = check_case(case)
    if case.get('only_class'):
        findings = [f for f in findings if f[0] == case['only_class']]
        bad = []
    if findings:
        cls, what, obs, exp, where = findings[0]
        return False, dict(obs or {}, **{'class': cls, 'what': what}), exp
    if bad:
        return False, {'correspondence': bad[0][0], 'where': wstr(bad[0][1]), 'detail': bad[0][2]}, None
    return True, None, None


# ----------------------------------------------------------------------------------------------------------------
# reduction of a failing file case to the smallest DEF text that still shows the same class
def _classes(case):
    try:
        return {f[0] for f in check_case(case)[0]}
    except Exception:
        return set()


def minimise(case, cls, where):
    if case['kind'] != 'file' or not where or len(where) < 2: return case
    sect, name = where[0], where[1]
    if sect not in ('specialnets', 'nets'): return case
    ast = case['ast']
    items = [n for s in ast['stmts'] if s['t'] == sect for n in s['items'] if n['name'] == name]
    if not items: return case
    net = json.loads(json.dumps(items[0]))
    small = {'kind': 'file', 'ast': {'fmt': 1, 'head_comment': False, 'file': [], 'design': 'top', 'comments': ast.get('comment_after_orient', False),
                                     'stmts': [{'t': sect, 'items': [net]}]}}
    if ast.get('comment_after_orient'): small['ast']['comment_after_orient'] = True
    if cls not in _classes(small): return case
    best = small

    def attempt(mut):
        nonlocal best
        cand = json.loads(json.dumps(best))
        n = cand['ast']['stmts'][0]['items'][0]
        try:
            if mut(n) is False: return False
        except Exception:
            return False
        if cls in _classes(cand):
            best = cand; return True
        return False
    changed = True
    while changed:
        changed = False
        n = best['ast']['stmts'][0]['items'][0]
        if n['pins'] and attempt(lambda n: n.__setitem__('pins', [])): changed = True; continue
        for i in range(len(n['tail'])):
            if attempt(lambda n, i=i: n['tail'].pop(i)): changed = True; break
        if changed: continue
        for ti, t in enumerate(n['tail']):
            if t['t'] != 'wiring': continue
            for wi in range(len(t['wires'])):
                if len(t['wires']) > 1 and attempt(lambda n, ti=ti, wi=wi: n['tail'][ti]['wires'].pop(wi)): changed = True; break
            if changed: break
            for wi, w in enumerate(t['wires']):
                for ei in range(1, len(w['entries'])):
                    if len(w['entries']) > 2 and attempt(lambda n, ti=ti, wi=wi, ei=ei: n['tail'][ti]['wires'][wi]['entries'].pop(ei)): changed = True; break
                if changed: break
                if w['opts'] and attempt(lambda n, ti=ti, wi=wi: n['tail'][ti]['wires'][wi].__setitem__('opts', [] if isinstance(w['opts'], list) else '')):
                    changed = True; break
                for ei, e in enumerate(w['entries']):   # make wildcards explicit / drop third values where the class does not need them
                    for ax, v in (('x', 10 * ei), ('y', 20 * ei)):
                        if e['k'] == 'p' and e[ax] is None and attempt(lambda n, ti=ti, wi=wi, ei=ei, ax=ax, v=v: n['tail'][ti]['wires'][wi]['entries'][ei].__setitem__(ax, v)):
                            changed = True; break
                    if changed: break
                    if e['k'] == 'p' and e.get('ext') is not None and attempt(lambda n, ti=ti, wi=wi, ei=ei: n['tail'][ti]['wires'][wi]['entries'][ei].pop('ext')):
                        changed = True; break
                if changed: break
            if changed: break
    best['only_class'] = cls
    return best


# ----------------------------------------------------------------------------------------------------------------
def tags_of_file(ast):
    tags, nets, nontrivial = [], 0, False
    for s in ast['stmts']:
        tags.append('sect:' + s['t'])
        if s['t'] in ('specialnets', 'nets'):
            for n in s['items']:
                nets += 1
                for x in n['tail']:
                    if x['t'] != 'wiring': continue
                    tags.append(f"{s['t']}:{x['k']}")
                    segs = len(x['wires'])
                    tags.append('segments:' + ('1' if segs == 1 else '2-3' if segs <= 3 else '4+'))
                    kinds = {('wild' if (e['k'] == 'p' and (e['x'] is None or e['y'] is None)) else
                              'via-orient' if (e['k'] == 'v' and e.get('orient')) else
                              {'p': 'point', 'v': 'via-plain', 'a': 'via-array'}[e['k']]) for w in x['wires'] for e in w['entries']}
                    tags += ['has:' + k for k in kinds]
                    if any(e.get('ext') is not None for w in x['wires'] for e in w['entries']): tags.append('has:ext')
                    if any(len([e for e in w['entries'] if e['k'] == 'p']) < 2 for w in x['wires']): tags.append('has:via-only-wire')
                    tags += domain_tags(x['wires'])
                    if segs >= 2 and 'wild' in kinds and kinds & {'via-plain', 'via-orient', 'via-array'}: nontrivial = True
                wk = [x['k'] for x in n['tail'] if x['t'] == 'wiring']
                if not wk: tags.append(f"{s['t']}:unrouted")
                else: tags.append(f'wiring-statements:{len(wk)}')
                if wk.count('ROUTED') > 1: tags.append('wiring:ROUTED-repeated')
                if wk and 'ROUTED' not in wk: tags.append('wiring:no-ROUTED')
    if ast['comments']: tags.append('fmt:comments')
    if ast.get('comment_after_orient'): tags.append('fmt:comment-after-orientation')
    return tags, nontrivial


def domain_tags(wires):
    tags = []
    for w in wires:
        d = wire_domain(w)
        if d == 'start': tags.append('dom-hyp:start-wildcard')
        t = wtok(w)
        if t is not None and not t.isdigit():
            tags.append('dom-hyp:width-non-int-listed' if truth_wire_points(w) else 'dom-hyp:width-non-int-unlisted')
        elif t is not None and t != str(int(t)): tags.append('dom-hyp:width-leading-zeros')
    return tags


def gen_direct(rng):
    special = rng.random() < 0.5
    layers = rng.sample(['m1', 'm2', 'm3', 'metal4', 'M+5', 'a,b'], rng.randint(1, 4))
    vias = rng.sample(['v12', 'v23', 'via3_4', 'V,4', 'N1', 'x y'], rng.randint(1, 4))
    if rng.random() < 0.06:
        return {'kind': 'direct', 'special': special, 'routed': None}
    routed = []
    for _ in range(rng.choice([1, 1, 2, 3, 4, 8])):
        w = gen_wire(rng, special, layers, vias)
        w['opts'] = [] if special else ''
        if special and rng.random() < 0.1:   # counts of zero are accepted by the grammar (DO 0 BY 3)
            for e in w['entries']:
                if e['k'] == 'a': e['nx'] = 0
        routed.append(w)
    return {'kind': 'direct', 'special': special, 'routed': routed}


def handle(ck, case, key, nontrivial, tags, sample):
    try:
        findings, bad, _ = check_case(case)
    except Exception as ex:
        findings, bad = [('harness', f'check raised {type(ex).__name__}: {ex}'[:300], {'raised': str(ex)[:300]}, None, '')], []
    ck.case(key=key, nontrivial=nontrivial, sample=sample, tag=tags)
    seen = set()
    for cls, what, obs, exp, where in findings:
        if cls in seen: continue   # one (minimised) replay per class and case
        seen.add(cls)
        ck.hist['finding:' + cls] += 1
        if ck.n_min.get(cls, 0) >= 1: continue   # one (minimised) replay per class and run; the histogram counts every hit
        ck.n_min[cls] = 1
        small = minimise(case, cls, where) if case['kind'] == 'file' else dict(case, only_class=cls)
        if small is not case and small.get('kind') == 'file':
            ok, o2, e2 = eval_case(small)
            if not ok:
                obs, exp = dict(o2, def_text=render(small['ast'])), e2
        ck.violation(cls, what, small, obs, exp)
    for name, where, detail in bad:
        ck.broken_tie(f'correspondence {name} (Lean model Model/Def.lean vs kyupy.def_file)', f'{wstr(where)}: {detail}'[:600], inp=case)


def oracle(ck, scale):
    rng = ck.rng
    if not hasattr(ck, 'n_min'): ck.n_min = {}
    n_files = 110 * scale
    n_direct = 500 * scale
    for it in range(n_files):
        ast = gen_ast(rng)
        if ast['comments'] and rng.random() < 0.25: ast['comment_after_orient'] = True
        tags, nontrivial = tags_of_file(ast)
        case = {'kind': 'file', 'ast': ast}
        handle(ck, case, json.dumps(ast, sort_keys=True), nontrivial, ['kind:file'] + tags,
               {'kind': 'file', 'def_text': render(ast)[:1500]})
    for it in range(n_direct):
        case = gen_direct(rng)
        nontrivial = bool(case['routed']) and any(len(w['entries']) >= 3 for w in case['routed'])
        tags = ['kind:direct', 'direct:' + ('special' if case['special'] else 'regular')]
        if case['routed'] is None: tags.append('direct:unrouted')
        else: tags += domain_tags(case['routed'])
        handle(ck, case, json.dumps(case, sort_keys=True), nontrivial, tags, None)


def theorems():
    return common.theorems_of('KyupyVerif/Props/C20.lean', 'KV.C20')


def run(ck):
    ck.prove([], TARGETS, theorems())
    OUTCOMES.clear()
    oracle(ck, ck.scale)
    text_stream(ck, ck.scale)
    if ck.broken and not ck.violations:
        oracle(ck, ck.scale * 8)
    ck.hist.update(OUTCOMES)
    ck.assumptions += ['grammar/lexer of def_file.py: modelled (Model/DefText.lean, round-trip theorem) and compared with lark on generated, hand-written and mutated texts (parse tree with all tokens); that lark implements the grammar as the model reads it is checked there, not proved; the transformer callbacks are exercised by the attribute oracle',
                       'ground truth of wires/vias: backwards search for the most recent explicit coordinate; array positions as a set per DO statement',
                       'wires/vias list the wiring of ALL wiring statements of a net in file order (ROUTED, FIXED, COVER, NOSHIELD; D35); the tree '
                       'before D35 is reported with class wiring-statements',
                       f'model reading compared per request kind (probed once on three hand-made nets): { {k: v for k, v in probe_variants().items() if k != "__key__"} }',
                       'demanded listing for a regular-net wire: width None; for a net without + ROUTED: empty listings',
                       'domain of the oracle: first point of every wire explicit, width token of every LISTED wire plain digits (DEF); outside it '
                       '(tags dom-hyp:start-wildcard, dom-hyp:width-non-int-listed) only the tie runs: model outcome (!value = ValueError of '
                       "kyupy's own int(width); !start = None in the listing / TypeError) vs the REAL outcome of dnet.wires / dnet.vias (tags tie-hyp:*); "
                       'a non-integer width on a wire without second point is INSIDE the domain (wires and vias list as usual)']
    return ck.finish(RULE)


def replay(rep):
    inp = rep.get('input')
    if inp is None and rep.get('broken'):
        inp = next((b['input'] for b in rep['broken'] if b.get('input')), None)
    if inp is None:
        print(json.dumps({'ok': False, 'note': 'replay names a broken proof obligation; re-run the check itself'})); return 1
    ok, obs, exp = eval_case(inp)
    print(json.dumps({'ok': ok, 'observed': obs, 'expected': exp}, default=str))
    return 0 if ok else 1
