"""C08 — signal-memory map and allocator never let live data overlap."""
import json, pickle, base64, random
import numpy as np
from . import common, circ, simcorr

PID = 'C08'
TARGETS = ['KyupyVerif.Props.C08']
RULE = ('(a) allocator: random alloc/free histories (sizes 1-64, 1-150 steps quick / 400 thorough; biased to adjacent frees, exact-size refills, tail '
        'frees) on the real sim.Heap: after EVERY step the whole state (return value, chunks, released list, current_size, max_size) must equal the '
        'Lean list model, and an abstract set-of-live-intervals oracle checks overlap / tiling / coalescing / high-water mark on the real tables; '
        '(b) map: random circuits x capacity vectors (uniform, per line, below c_caps_min) x {c_reuse} x {strip_forks}: exact correspondence of the Lean '
        'SimOps model with the real c_locs/c_caps/c_len, the Lean certificate checker MapIn.check on the REAL arrays and the hypotheses of simops_map_accepted (wfB, orderOKB, forksOKB, readsDrivenB: driver simopscert) on the real circuit and order; oracle: results at ports are '
        'independent of c_reuse for LogicSim (m=2,8) and WaveSim. distinct = history / (circuit, options, caps) descriptors')


def theorems():
    return common.theorems_of('KyupyVerif/Props/C08.lean', 'KV.C08')


# ------------------------------------------------------------------ heap
def heap_dump(h):
    parts = [f"{k}:{h.chunks[k]}:{'f' if k in h.released else 'u'}" for k in sorted(h.chunks)]
    return f"{' '.join(parts)} | cur={h.current_size} max={h.max_size}"


def heap_history(rng, nsteps):
    """list of ('alloc', n) / ('free', k-th live) decisions, as concrete ops generated against the real heap"""
    from kyupy.sim import Heap
    h = Heap(); live = []; ops = []; dumps = []
    mode = rng.choice(['mixed', 'adjacent', 'refill', 'tail'])
    hw = 0
    for _ in range(nsteps):
        do_free = live and rng.random() < (0.5 if mode == 'mixed' else 0.55)
        if do_free:
            if mode == 'adjacent' and len(live) > 1:
                live.sort(); k = rng.randrange(len(live)); l = live[k]
            elif mode == 'tail':
                l = max(live) if rng.random() < 0.6 else rng.choice(live)
            else:
                l = rng.choice(live)
            live.remove(l); size = h.chunks[l]
            h.free(l); ops.append(('free', l)); dumps.append('ok ; ' + heap_dump(h))
            last_freed = size
        else:
            s = rng.randint(1, 9) if rng.random() < 0.8 else rng.randint(10, 64)
            if mode == 'refill' and 'last_freed' in dir() and rng.random() < 0.5: s = last_freed
            l = h.alloc(s); live.append(l); ops.append(('alloc', s)); dumps.append(f'{l} ; ' + heap_dump(h))
        err = heap_oracle(h, live)
        if err: return ops, dumps, err
    return ops, dumps, None


def heap_oracle(h, live):
    """abstract statement on the real tables: tiling, no overlap, coalescing, live stable, high-water mark"""
    keys = sorted(h.chunks)
    pos = 0
    for k in keys:
        if k != pos: return {'tiling': f'chunk starts at {k}, expected {pos}'}
        if h.chunks[k] <= 0: return {'size': h.chunks[k]}
        pos += h.chunks[k]
    if pos != h.current_size: return {'current_size': h.current_size, 'sum': pos}
    if h.max_size < h.current_size: return {'max_size': h.max_size, 'current_size': h.current_size}
    rel = list(h.released)
    if rel != sorted(rel) or len(set(rel)) != len(rel): return {'released': rel}
    for a, b in zip(keys, keys[1:]):
        if a in h.released and b in h.released: return {'adjacent_free': [a, b]}
    if keys and keys[-1] in h.released: return {'trailing_free': keys[-1]}
    used = [k for k in keys if k not in h.released]
    if sorted(used) != sorted(live): return {'live': sorted(live), 'used': used}
    return None


def corr_heap(ck, n, maxsteps):
    for it in range(n):
        seed = ck.rng.randint(0, 2**31 - 1)
        rng = random.Random(seed)
        nsteps = rng.randint(1, maxsteps)
        ops, dumps, err = heap_history(rng, nsteps)
        case = {'kind': 'heap', 'seed': seed, 'steps': nsteps, 'ops': ops[:60]}
        if err:
            ck.violation('heap', 'sim.Heap violates its specification', {'kind': 'heap', 'ops': ops}, err, None)
        out = common.run_driver(['heap new'] + [f'heap {a} {b}' for a, b in ops])[1:]
        bad = next((i for i, (r, m) in enumerate(zip(dumps, out)) if r != m), None)
        # domain of C08.allocator_invariant / hist_hwm evaluated by the driver on THIS history (histOkB: every release is of the start
        # of a chunk live at that moment; the real Heap.free does not check it and corrupts its tables otherwise — API misuse, outside)
        dom = common.run_driver(['heaphist ' + ','.join(('a' if a == 'alloc' else 'f') + str(b) for a, b in ops)])[0]
        real_max = dumps[-1].split('max=')[-1] if dumps else '0'
        ck.case(key=('heap', seed), nontrivial=len(ops) >= 4, sample=case,
                tag=['heap', f'steps:{min(len(ops) // 50, 8) * 50}+', 'heap-hyp:' + ('inside' if dom.startswith('ok=true strict=true') else 'OUTSIDE')])
        if not dom.startswith('ok=true strict=true'):
            ck.broken_tie('domain histOkB of the allocator theorems on a generated history (the harness must release live chunk starts only)', dom,
                          inp={'kind': 'heap', 'ops': ops})
        elif not err and f'peak={real_max} max={real_max} ' not in dom + ' ':
            ck.broken_tie('hist_hwm: max_size of the real heap after the history vs running maximum of the model', f'real max={real_max}; model {dom}',
                          inp={'kind': 'heap', 'ops': ops})
        if bad is not None:
            ck.broken_tie('sim.Heap vs Lean Heap model', f'step {bad} {ops[bad]}: real "{dumps[bad]}" != model "{out[bad]}"',
                          inp={'kind': 'heap', 'ops': ops[:bad + 1]})
        # release order (theorem release_order_irrelevant; SimOps iterates a Python set): the state after releasing a set of
        # live chunks must not depend on the order
        oc = {'kind': 'heap-order', 'ops': ops, 'pseed': rng.randint(0, 2**31 - 1)}
        try:
            ok, obs, exp = eval_case(oc)
        except Exception as ex:      # the same history replayed on a FRESH Heap object does not reproduce (state outside the object)
            ok, obs, exp = False, {'replay_on_fresh_heap_raised': f'{type(ex).__name__}: {ex}'[:200]}, {'same_locations': 'as in the first run of this history'}
        if not ok: ck.violation('heap-order', 'the heap state after releasing a set of chunks depends on the order', oc, obs, exp)


# ------------------------------------------------------------------ map
def map_case(rng, thorough=False):
    c = circ.rand_circuit(rng, n_gates=rng.randint(1, 25 if not thorough else 70))
    n = len(c.lines) + 3
    mode = rng.choice(['logic', 'u4', 'u8', 'perline', 'below-min'])
    if mode == 'logic': caps, cmin = 1, 1
    elif mode == 'u4': caps, cmin = 4, 4
    elif mode == 'u8': caps, cmin = 8, 4
    elif mode == 'perline': caps, cmin = [rng.choice([4, 8, 12, 16, 20]) for _ in range(n)], 4
    else: caps, cmin = [rng.choice([1, 2, 4, 8]) for _ in range(n)], 4
    return {'kind': 'map', 'circuit': base64.b64encode(pickle.dumps(c)).decode(), 'caps': caps, 'cmin': cmin,
            'strip': rng.random() < 0.5, 'reuse': rng.random() < 0.7, 'sseed': rng.randint(0, 2**31 - 1)}


def map_cert(c, so, strip, cmin):
    ops = '/'.join(','.join(str(int(x)) for x in row[:6]) for row in so.ops)
    rest = '|'.join([ops, ','.join(str(int(x)) for x in so.level_starts), ','.join(str(int(x)) for x in so.c_locs),
                     ','.join(str(int(x)) for x in so.c_caps), str(int(so.c_len))])
    return common.run_driver([f'net {circ.dump_net(c)}', f'mapok {int(strip)} {cmin} {rest}'])[1]


def eval_case(case):
    """oracle: port results do not depend on c_reuse (memory of live signals is never overwritten)"""
    if case['kind'] == 'heap-order':
        from kyupy.sim import Heap
        res = []
        prng = random.Random(case['pseed'])
        for variant in range(3):
            h = Heap(); live = []
            for a, b in case['ops']:
                if a == 'alloc': live.append(h.alloc(b))
                else: live.remove(b); h.free(b)
            if variant == 0:
                sub = [l for l in sorted(live) if prng.random() < 0.6]
                order = list(sub)
            elif variant == 1: order = list(reversed(sub))
            else: order = list(sub); prng.shuffle(order)
            for l in order: h.free(l)
            err = heap_oracle(h, [l for l in live if l not in sub])
            if err: return False, err, None
            res.append((order, heap_dump(h)))
        for order, d in res[1:]:
            if d != res[0][1]:
                return False, {'order': order, 'heap': d}, {'order': res[0][0], 'heap': res[0][1]}
        return True, None, None
    if case['kind'] == 'heap':
        from kyupy.sim import Heap
        h = Heap(); live = []
        for a, b in case['ops']:
            if a == 'alloc': live.append(h.alloc(b))
            else: live.remove(b); h.free(b)
            err = heap_oracle(h, live)
            if err: return False, err, None
        return True, None, None
    from kyupy import logic
    from kyupy.logic_sim import LogicSim
    c = pickle.loads(base64.b64decode(case['circuit']))
    rs = np.random.RandomState(case['sseed'] % (2**31))
    s_len = len(c.s_nodes)
    for m in (2, 8):
        stim = rs.randint(0, 2 if m == 2 else 8, size=(s_len, 9)).astype(np.uint8) * (3 if m == 2 else 1)
        res = []
        for reuse in (False, True):
            with common.quiet():
                ls = LogicSim(c, 9, m=m, c_reuse=reuse, strip_forks=case['strip'])
            ls.s[0] = logic.mv_to_bp(stim); ls.s_to_c(); ls.c_prop(); ls.c_to_s()
            res.append(logic.bp_to_mv(ls.s[1])[:, :9].copy())
        if not np.array_equal(res[0], res[1]):
            k = np.argwhere(res[0] != res[1])[0]
            return False, {'sim': f'LogicSim m={m}', 's_node': int(k[0]), 'lane': int(k[1]), 'with_reuse': int(res[1][tuple(k)])}, {'without_reuse': int(res[0][tuple(k)])}
    if case['cmin'] == 4:
        from . import wavecorr as wc
        drng = random.Random(case['sseed'])
        delays = wc.rand_delays(drng, len(c.lines))
        res = []
        for reuse in (False, True):
            srng = random.Random(case['sseed'] + 1)
            ws = wc.make_sim(c, delays, 3, c_caps=case['caps'] if not isinstance(case['caps'], list) else [max(4, (x // 4) * 4) for x in case['caps']],
                             strip=case['strip'], reuse=reuse)
            i, t, f = wc.rand_stim(srng, ws.s_len, 3); wc.assign(ws, i, t, f)
            with common.quiet():
                ws.c_prop(); ws.c_to_s()
            res.append(np.array(ws.s)[3:].copy())
        if not np.array_equal(res[0], res[1]):
            k = np.argwhere(res[0] != res[1])[0]
            return False, {'sim': 'WaveSim', 's_field': int(k[0]) + 3, 's_node': int(k[1]), 'lane': int(k[2])}, {'equal': 'with and without c_reuse'}
    return True, None, None


def corr_map(ck, n, thorough=False):
    for it in range(n):
        cs = map_case(ck.rng, thorough)
        c = pickle.loads(base64.b64decode(cs['circuit']))
        dump = circ.dump_net(c)
        hyp_tag = 'simops-hyp:not-evaluated'
        try:
            ok, real, model, diff, so = simcorr.compare(c, cs['strip'], cs['reuse'], cs['caps'], cs['cmin'])
            if not ok:
                ck.broken_tie(f'SimOps model correspondence ({diff})', f'real {real[-200:]} != model {model[-200:]}',
                              inp={k: v for k, v in cs.items() if k != 'circuit'} | {'net': dump})
            cert = map_cert(c, so, cs['strip'], cs['cmin'])
            if cert != 'ok':
                ck.broken_tie('map certificate MapIn.check on the real arrays', cert, inp={k: v for k, v in cs.items() if k != 'circuit'} | {'net': dump})
            # hypotheses of simops_map_accepted (theorem: the MODEL's map passes the certificate for all circuits) on the
            # real circuit and the real topological order
            order = ','.join(str(n.index) for n in c.topological_order())
            hyp = common.run_driver([f'net {dump}', f"simopscert {int(cs['strip'])} {order}"])[1]
            hyp_tag = 'simops-hyp:ok' if hyp == 'wf=true order=true forks=true reads=true' else 'simops-hyp:outside'
            if hyp_tag != 'simops-hyp:ok' and 'wf=true order=true' not in hyp:
                ck.broken_tie('hypotheses Net.wfB / orderOKB of simops_map_accepted on the real circuit and order', hyp,
                              inp={k: v for k, v in cs.items() if k != 'circuit'} | {'net': dump})
            ok2, obs, exp = eval_case(cs)
        except Exception as ex:
            ok2, obs, exp = False, {'raised': f'{type(ex).__name__}: {ex}'[:300]}, None
        ck.case(key=('map', dump, str(cs['caps'])[:60], cs['strip'], cs['reuse']), nontrivial=len(c.lines) >= 4,
                sample={k: v for k, v in cs.items() if k != 'circuit'} | {'net': dump},
                tag=['map', f"strip:{cs['strip']}", f"reuse:{cs['reuse']}", 'caps:' + ('list' if isinstance(cs['caps'], list) else str(cs['caps'])), f"cmin:{cs['cmin']}", hyp_tag])
        if not ok2:
            ck.violation('map-reuse', 'results at ports depend on c_reuse (live memory overwritten)', cs, obs, exp)


def run(ck):
    ck.prove([], TARGETS, theorems())
    nh, steps, nm = (200, 150, 160) if ck.tier == 'quick' else (3000, 400, 2500)
    corr_heap(ck, nh, steps)
    corr_map(ck, nm, ck.tier == 'thorough')
    if ck.broken and not ck.violations:
        corr_heap(ck, nh * 4, steps); corr_map(ck, nm * 4, ck.tier == 'thorough')
    ck.assumptions += ['allocator domain: sizes > 0 and free() only of the start of a LIVE chunk (histOkB, evaluated by the driver on every generated history: tag heap-hyp). OUTSIDE the domain the real Heap.free does not raise: a second Heap.free(0) silently corrupts the tables (API misuse, witness /tmp/audit/v_heap.py: alloc 4 x3, free 0, free 0); the model returns none there and nothing is claimed. SimOps never leaves the domain: theorem memMap_frees_live',
                       'the map certificate MapIn.check is sound (map_certificate_sound, kernel-checked); that the map of the Lean SimOps model passes it is a theorem for all circuits (simops_map_accepted, hypotheses wfB/orderOKB/forksOKB/readsDrivenB evaluated on every real circuit: tag simops-hyp); that the real SimOps computes the tables of the model is exact correspondence per generated instance, and the certificate is still evaluated on the real tables']
    return ck.finish(RULE)


def replay(rep):
    ok, obs, exp = eval_case(rep['input'])
    print(json.dumps({'ok': ok, 'observed': obs, 'expected': exp}, default=str))
    return 0 if ok else 1
