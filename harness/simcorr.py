"""Correspondence between the real `sim.SimOps` and the Lean model (Model/SimOps.lean)."""
import numpy as np
from . import common, circ


def real_simops(c, strip=False, reuse=False, c_caps=1, c_caps_min=1):
    from kyupy.sim import SimOps
    with common.quiet():
        return SimOps(c, c_caps=c_caps, c_caps_min=c_caps_min, c_reuse=reuse, strip_forks=strip)


def fmt_real(so):
    ops = ' '.join(','.join(str(int(x)) for x in row[:6]) for row in so.ops) if len(so.ops) else ''
    return (f"{ops} ; {','.join(str(int(x)) for x in so.level_starts)} ; {','.join(str(int(x)) for x in so.c_locs)} ; "
            f"{','.join(str(int(x)) for x in so.c_caps)} ; {int(so.c_len)}")


def model_lines(c, strip, reuse, caps_spec, caps_min, order=None):
    order = order if order is not None else [n.index for n in c.topological_order()]
    return [f'net {circ.dump_net(c)}',
            f"simops {int(strip)} {int(reuse)} {caps_min} {caps_spec} {','.join(map(str, order))}"]


def compare(c, strip=False, reuse=False, c_caps=1, c_caps_min=1):
    """returns (equal, real_str, model_str, first_difference_field)"""
    so = real_simops(c, strip, reuse, c_caps, c_caps_min)
    caps_spec = str(c_caps) if isinstance(c_caps, int) else ','.join(map(str, c_caps))
    out = common.run_driver(model_lines(c, strip, reuse, caps_spec, c_caps_min))
    real, model = fmt_real(so), out[1]
    if real == model: return True, real, model, None, so
    names = ['ops', 'level_starts', 'c_locs', 'c_caps', 'c_len']
    rf, mf = real.split(' ; '), model.split(' ; ')
    diff = next((n for n, a, b in zip(names, rf, mf) if a != b), 'format')
    return False, real, model, diff, so


def signal_rows(c, strip, caps=1, cmin=1):
    """the real op rows at SIGNAL level: operands of stripped fan-out branches are resolved to the signal that owns their
    memory in the map built WITHOUT reuse (a bijection signal <-> location), writers of the scratch slot are renamed apart
    (nobody reads them). returns (rows as 'lut,out,i0,i1,i2,i3' strings, level_starts of the program)"""
    so0 = real_simops(c, strip, False, caps, cmin)
    ops = np.array(so0.ops); locs0 = np.array(so0.c_locs)
    written = set(int(r[1]) for r in ops) | set(so0.ppi_offset + i for i in range(so0.s_len))
    by0 = {}
    for w in written:
        if w not in (so0.tmp_idx, so0.tmp2_idx): by0.setdefault(int(locs0[w]), w)
    def src(i):
        i = int(i)
        return i if i in written else by0.get(int(locs0[i]), i)
    rows = []; fresh = len(locs0) + 10
    for r in ops:
        o = int(r[1])
        if o == so0.tmp_idx: o = fresh; fresh += 1
        rows.append(','.join(str(x) for x in [int(r[0]), o] + [src(v) for v in r[2:6]]))
    return rows, [int(x) for x in so0.level_starts]
