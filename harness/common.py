"""Shared machinery of check.py: generators, lake build, axiom audit, driver, evidence, verdict."""
import collections, contextlib, fcntl, hashlib, io, json, os, random, re, subprocess, sys, time

VERIF = os.path.dirname(os.path.dirname(os.path.abspath(__file__)))
LEAN = os.path.join(VERIF, 'lean')
REPO = os.environ.get('KYUPY_REPO', '/repo')
WORK = os.path.join(VERIF, 'work')
DRIVER = os.path.join(LEAN, '.lake', 'build', 'bin', 'driver')
ALLOWED_AXIOMS = {'propext', 'Classical.choice', 'Quot.sound'}
FORBIDDEN = re.compile(r'\bsorry\b|\badmit\b|^axiom\s|native_decide|bv_decide|implemented_by|\bunsafe\s|maxHeartbeats 0', re.M)

TRUSTED_BASE = [
    'Lean 4.33.0 kernel; axioms allowed in property theorems: propext, Classical.choice, Quot.sound '
    '(decide +kernel is kernel evaluation and adds no axiom)',
    'translator gen/*.py: symbolic execution of the unmodified kyupy code / table dumps, '
    'self-checked against concrete runs on the complete value domain on every run',
    'correspondence harness (harness/*.py) and the compiled Lean driver (Lean compiler + runtime) for '
    'what model code computes in correspondence, certificate and oracle runs',
    'NumPy, CPython, lark, re: modelled, not verified',
]


def ensure_dirs():
    for d in (WORK, os.path.join(VERIF, 'evidence'), os.path.join(VERIF, 'replays')):
        os.makedirs(d, exist_ok=True)


@contextlib.contextmanager
def build_lock():
    ensure_dirs()
    with open(os.path.join(WORK, '.build.lock'), 'w') as f:
        fcntl.flock(f, fcntl.LOCK_EX)
        try:
            yield
        finally:
            fcntl.flock(f, fcntl.LOCK_UN)


def strip_comments(src):
    src = re.sub(r'/-.*?-/', '', src, flags=re.S)
    src = re.sub(r'--.*', '', src)
    return src


def enclosing_decl(path, line):
    try:
        lines = open(path).read().split('\n')
    except OSError:
        return None
    for k in range(min(line, len(lines)) - 1, -1, -1):
        m = re.match(r'\s*(?:@\[[^\]]*\]\s*)?(?:private\s+|protected\s+)?(theorem|lemma|def|example|instance|abbrev)\s+([^\s:({\[]+)?', lines[k])
        if m:
            return (m.group(1), m.group(2) or '<example>')
    return None


def lake_build(targets, timeout=3000):
    """returns (ok, failures) ; failures = list of dict(module, file, line, decl, msg)"""
    with build_lock():
        t0 = time.time()
        p = subprocess.run(['lake', 'build'] + list(targets), cwd=LEAN, capture_output=True, text=True, timeout=timeout)
        out = p.stdout + p.stderr
    fails = []
    for m in re.finditer(r'^error: ([^\s:]+\.lean):(\d+):(\d+): (.*)$', out, re.M):
        path = m.group(1)
        full = path if os.path.isabs(path) else os.path.join(LEAN, path)
        d = enclosing_decl(full, int(m.group(2)))
        fails.append({'file': path, 'line': int(m.group(2)), 'decl': d[1] if d else None,
                      'kind': d[0] if d else None, 'msg': m.group(4)[:300]})
    ok = p.returncode == 0
    if not ok and not fails:
        fails.append({'file': None, 'line': 0, 'decl': None, 'kind': None, 'msg': out[-1500:]})
    return ok, fails, time.time() - t0, out


def audit_axioms(pid, imports, theorems):
    """#print axioms for each theorem; returns dict name -> list of axioms or None (missing)"""
    ensure_dirs()
    path = os.path.join(WORK, f'audit_{pid}.lean')
    with open(path, 'w') as f:
        for i in imports: f.write(f'import {i}\n')
        for t in theorems: f.write(f'#print axioms {t}\n')
    with build_lock():
        p = subprocess.run(['lake', 'env', 'lean', path], cwd=LEAN, capture_output=True, text=True, timeout=1200)
    out = p.stdout + p.stderr
    res = {t: None for t in theorems}
    for m in re.finditer(r"'([^']+)' depends on axioms: \[([^\]]*)\]", out, re.S):
        res[m.group(1)] = [a.strip() for a in m.group(2).replace('\n', ' ').split(',') if a.strip()]
    for m in re.finditer(r"'([^']+)' does not depend on any axioms", out):
        res[m.group(1)] = []
    return res, out


def forbidden_tokens():
    """scan all Lean sources of the project (comments stripped) for sorry/axiom/native_decide/..."""
    hits = []
    for root, _, files in os.walk(LEAN):
        if '.lake' in root: continue
        for fn in files:
            if not fn.endswith('.lean'): continue
            p = os.path.join(root, fn)
            src = strip_comments(open(p).read())
            for m in FORBIDDEN.finditer(src):
                hits.append((os.path.relpath(p, LEAN), m.group(0).strip()))
    return hits


_drv = None


def _driver_proc():
    global _drv
    if _drv is None or _drv.poll() is not None:
        if not os.path.exists(DRIVER):
            raise RuntimeError('driver binary missing (run setup / lake build driver)')
        _drv = subprocess.Popen([DRIVER], stdin=subprocess.PIPE, stdout=subprocess.PIPE, text=True, bufsize=1)
    return _drv


class DriverError(RuntimeError):
    """the compiled Lean driver could not answer (killed, crashed): an infrastructure failure, never a property violation"""


def run_driver(lines, timeout=1200):
    """send request lines to the (persistent) compiled Lean driver, one answer line each. A driver that dies is restarted
    and the whole batch is sent again (every batch is self-contained: context lines such as `net …` precede their uses);
    after three deaths on the same batch DriverError is raised."""
    last = None
    for attempt in range(3):
        try:
            return _run_driver_once(lines)
        except DriverError as ex:
            last = ex
            time.sleep(0.2 * (attempt + 1))
    raise last


def _run_driver_once(lines):
    global _drv
    p = _driver_proc()
    out = []
    try:
        for chunk in range(0, len(lines), 256):
            part = lines[chunk:chunk + 256]
            p.stdin.write('\n'.join(part) + '\n'); p.stdin.flush()
            for _ in part:
                l = p.stdout.readline()
                if l == '':
                    raise DriverError(f'driver died (rc={p.poll()}) on request {lines[len(out)][:200]!r}')
                out.append(l.rstrip('\n'))
    except OSError as ex:       # broken pipe: the driver went away while we were writing
        try: p.kill()
        except Exception: pass
        _drv = None
        raise DriverError(f'driver died ({type(ex).__name__}: {ex})')
    except Exception:
        try: p.kill()
        except Exception: pass
        _drv = None
        raise
    return out


def load_known():
    try:
        return json.load(open(os.path.join(VERIF, 'known_findings.json')))
    except FileNotFoundError:
        return []


class Check:
    def __init__(self, pid, tier, seed):
        self.pid, self.tier, self.seed = pid, tier, seed
        self.rng = random.Random(seed * 1000003 + sum(map(ord, pid)))
        self.t0 = time.time()
        self.evals = 0
        self.distinct = set()
        self.samples = []
        self.hist = collections.Counter()
        self.violations = []
        self.broken = []
        self.infra = []         # infrastructure failures (driver killed / crashed after retries): exit 2, never a violation
        self.obligations = []   # (name, ok, axioms)
        self.notes = []
        self.extra = {}
        self.assumptions = []
        self.known = [k for k in load_known() if k.get('property') == pid]
        self.known_hit = collections.OrderedDict()
        self.scale = 1 if tier == 'quick' else 12

    # ---- accounting
    def case(self, key=None, nontrivial=True, sample=None, tag=None):
        self.evals += 1
        if nontrivial and key is not None:
            self.distinct.add(key if isinstance(key, (str, int, tuple)) else json.dumps(key, sort_keys=True, default=str))
        if sample is not None and len(self.samples) < 4:
            self.samples.append(sample)
        if tag is not None:
            for t in ([tag] if isinstance(tag, str) else tag): self.hist[t] += 1

    def violation(self, cls, what, inp, observed=None, expected=None):
        """a concrete failing input against the real code. cls = class key for known_findings matching"""
        if 'driver died' in str(observed) or 'DriverError' in str(observed):    # infrastructure, not the property
            self.infra.append(str(observed)[:300]); return False
        for k in self.known:
            if k.get('status') == 'finding' and k.get('class') == cls:
                self.known_hit.setdefault(cls, (k, what))
                return False
        if len(self.violations) < 20:
            self.violations.append({'kind': 'counterexample', 'class': cls, 'what': what, 'input': inp,
                                    'observed': observed, 'expected': expected})
        return True

    def broken_tie(self, name, detail, kind='broken-correspondence', inp=None):
        if 'driver died' in str(detail) or 'DriverError' in str(detail):
            self.infra.append(str(detail)[:300]); return
        if len(self.broken) < 20:
            self.broken.append({'kind': kind, 'name': name, 'detail': detail, 'input': inp})

    # ---- proof side
    def prove(self, gens, targets, theorems, imports=None):
        """GEN + BUILD + AUDIT. records broken obligations; never raises for a failed proof."""
        ensure_dirs()
        for g in gens:
            try:
                info = g()
                if info: self.extra.setdefault('gen', {}).update({g.__module__ + '.' + g.__name__: _small(info)})
            except Exception as ex:  # GenError, SymError, or anything the changed code throws
                self.broken_tie(f'translator {g.__module__}.{g.__name__}', f'{type(ex).__name__}: {ex}'[:500], kind='broken-translator')
        ok, fails, secs, out = lake_build(list(targets) + ['driver'])
        self.extra['lake_build_s'] = round(secs, 1)
        failed_decls = set()
        for f in fails:
            failed_decls.add(f['decl'])
            self.broken_tie(f"theorem {f['decl']} ({f['file']}:{f['line']})", f['msg'], kind='broken-obligation')
        hits = forbidden_tokens()
        for h in hits:
            self.broken_tie(f'forbidden token {h[1]!r} in {h[0]}', 'sorry/axiom/native_decide etc. are not allowed', kind='broken-obligation')
        if ok:
            res, aout = audit_axioms(self.pid, imports or targets, theorems)
        else:
            res, aout = ({t: None for t in theorems}, '')
            # try auditing anyway: theorems in modules that did build are still checked
            try:
                res, aout = audit_axioms(self.pid, imports or targets, theorems)
            except Exception:
                pass
        for t in theorems:
            ax = res.get(t)
            good = ax is not None and set(ax) <= ALLOWED_AXIOMS
            self.obligations.append((t, good, ax))
            if not good and ok:
                self.broken_tie(f'theorem {t}', f'axioms {ax}' if ax is not None else 'not found / did not check', kind='broken-obligation')
            elif not good and not any(b['kind'] == 'broken-obligation' for b in self.broken):
                self.broken_tie(f'theorem {t}', 'did not check', kind='broken-obligation')
        if ok and self.tier == 'thorough':
            # independent re-check of the compiled property modules by the toolchain's external kernel replayer
            t0 = time.time()
            try:
                p = subprocess.run(['lake', 'env', 'leanchecker'] + list(targets), cwd=LEAN, capture_output=True, text=True, timeout=3600)
                self.extra['leanchecker'] = {'modules': list(targets), 'rc': p.returncode, 'wall_s': round(time.time() - t0, 1)}
                if p.returncode != 0:
                    self.broken_tie('leanchecker replay of ' + ' '.join(targets), (p.stdout + p.stderr)[-500:], kind='broken-obligation')
            except Exception as ex:
                self.extra['leanchecker'] = {'modules': list(targets), 'error': f'{type(ex).__name__}: {ex}'[:200]}
        return ok

    # ---- verdict
    def finish(self, rule, level='proof', checker_cmd=None):
        ensure_dirs()
        lines = []
        for cls, (k, what) in self.known_hit.items():
            ln = f"KNOWN-FINDING: property={self.pid} {k.get('id', cls)} {k.get('summary', what)}"
            if ln not in lines:     # several failure classes may map to one listed finding: one line per finding
                lines.append(ln)
        rc = 0
        replays = []
        if self.violations:
            for v in self.violations[:5]:
                path = self._write_replay(v)
                lines.append(f'VIOLATION property={self.pid} replay={path}')
                replays.append(path)
            rc = 1
        elif self.broken:
            rep = {'kind': 'broken-obligation', 'property': self.pid, 'broken': self.broken,
                   'note': 'a proof obligation or a model/implementation correspondence no longer checks; the enlarged '
                           'search on the real code found no failing input'}
            path = self._write_replay(rep)
            lines.append(f'VIOLATION property={self.pid} replay={path} no-failing-input-found')
            replays.append(path)
            rc = 1
        n_ob = len(self.obligations)
        n_ok = sum(1 for _, g, _ in self.obligations if g)
        cov = {
            'obligations': max(n_ob, 1), 'discharged': n_ok,
            'checker_cmd': checker_cmd or 'cd lean && lake build <Props module> && lake env lean work/audit_<id>.lean (#print axioms)',
            'trusted_base': TRUSTED_BASE,
            'theorems': [{'name': n, 'checked': g, 'axioms': a} for n, g, a in self.obligations],
            'evaluations': self.evals, 'distinct_nontrivial': len(self.distinct), 'rule': rule,
            'samples': self.samples[:4] or ['(no sampled cases: property decided by kernel-checked tables only)'],
            'histogram': {**dict(self.hist.most_common(40)), **{k: v for k, v in self.hist.items() if '-hyp:' in str(k)}},   # every hypothesis tag is kept
            'known_findings_hit': list(self.known_hit.keys()),
            'broken': self.broken[:10],
            'notes': self.notes,
        }
        cov.update(self.extra)
        ev = {'property_id': self.pid, 'tier': self.tier, 'seed': self.seed, 'level': level, 'coverage': cov,
              'assumptions': self.assumptions, 'wall_s': round(time.time() - self.t0, 2),
              'violations': len(self.violations) + (1 if (self.broken and not self.violations) else 0)}
        evdir = os.environ.get('VERIF_EVIDENCE_DIR') or os.path.join(VERIF, 'evidence')   # seeded-change runs write elsewhere
        os.makedirs(evdir, exist_ok=True)
        with open(os.path.join(evdir, f'{self.pid}.json'), 'w') as f:
            json.dump(ev, f, indent=1, default=str)
        if self.infra and rc == 0:
            rc = 2      # some cases could not be evaluated (driver killed / crashed three times in a row): neither pass nor violation
            lines.append(f'[{self.pid}] harness error: {len(self.infra)} case(s) lost to infrastructure failures, first: {self.infra[0][:200]}')
        for l in lines: print(l)
        print(f'[{self.pid}] tier={self.tier} seed={self.seed} theorems={n_ok}/{n_ob} cases={self.evals} '
              f'distinct={len(self.distinct)} violations={len(self.violations)} broken={len(self.broken)} '
              f'known={len(self.known_hit)} wall={ev["wall_s"]}s rc={rc}')
        return rc

    def _write_replay(self, obj):
        obj = dict(obj); obj.setdefault('property', self.pid)
        obj['how_to_run'] = f'/venv/bin/python check.py {self.pid} --replay <this file>'
        s = json.dumps(obj, sort_keys=True, default=str, indent=1)
        h = hashlib.sha1(s.encode()).hexdigest()[:10]
        path = os.path.join(VERIF, 'replays', f'{self.pid}-{h}.json')
        with open(path, 'w') as f: f.write(s)
        return path


def _small(info):
    try:
        s = json.dumps(info, default=str)
        return info if len(s) < 2000 else s[:2000]
    except Exception:
        return str(info)[:2000]


@contextlib.contextmanager
def quiet():
    buf = io.StringIO()
    with contextlib.redirect_stdout(buf):
        yield buf


def allcirc_hyp(ck, c, strips, what):
    """hypotheses of the `..._all_circuits` theorems (Net.wfB, orderOKB, forksOKB when stripping, readsDrivenB), evaluated by
    the Lean driver (`simopscert`) on the REAL circuit and its REAL topological order. Returns the histogram tag; a circuit
    whose pin tables / order fail the certificate is a broken tie (the theorems would not speak about it), a circuit
    outside `forksOKB` / `readsDrivenB` (unknown cell kinds, unscheduled output pins) is only counted."""
    from . import circ
    try:
        dump = circ.dump_net(c)
        order = ','.join(str(n.index) for n in c.topological_order())
        lines = [f'net {dump}'] + [f'simopscert {int(bool(st))} {order}' for st in strips]
        out = run_driver(lines)[1:]
    except Exception as ex:
        return f'allcirc-hyp:not-evaluated({type(ex).__name__})'
    if any('wf=true order=true' not in h for h in out):
        ck.broken_tie(f'hypotheses Net.wfB / orderOKB of the all-circuits theorems on the real circuit and order ({what})',
                      ' / '.join(out), inp={'net': dump, 'order': order})
        return 'allcirc-hyp:FAIL'
    return 'allcirc-hyp:ok' if all(h == 'wf=true order=true forks=true reads=true' for h in out) else 'allcirc-hyp:outside'


def netspec_hyp(c):
    """hypotheses of the netlist-level reading (C02.sim8_netlist_all_circuits: forksOKB; oracle_labelling_is_simulation:
    additionally linesDrivenB; the arity domain Net.arityOKB, audit finding 1 / D33) on the real circuit and order; histogram tag only"""
    from . import circ
    try:
        order = ','.join(str(n.index) for n in c.topological_order())
        out = ' '.join(run_driver([f'net {circ.dump_net(c)}', f'netspeccert {order}', 'netarity'])[1:])
    except Exception as ex:
        return f'netspec-hyp:not-evaluated({type(ex).__name__})'
    return 'netspec-hyp:' + ('ok' if out == 'forks=true lines=true arity=true' else out.replace(' ', ','))


def theorems_of(relpath, namespace):
    """names of all `theorem`s declared in a Props file (comments stripped), qualified by its namespace"""
    src = strip_comments(open(os.path.join(LEAN, relpath)).read())
    names = re.findall(r'^\s*theorem\s+([^\s:({\[]+)', src, re.M)
    return [f'{namespace}.{n}' for n in names]


def after_failed_parse(parse, text, **kw):
    """In 2 of 5 cases (decided by a checksum of the text, so that a case replays exactly) the parser is first given a
    TRUNCATED copy of the text, which it rejects (or, rarely, accepts): a parse must not depend on what the same process
    parsed - or failed to parse - before (parser objects, transformers and caches kept between calls)."""
    import zlib
    h = zlib.crc32(text.encode('utf-8', 'replace'))
    if h % 5 < 2 and len(text) > 20:
        cut = 10 + (h >> 3) % (len(text) - 15)
        try:
            with quiet(): parse(text[:cut], **kw)
        except BaseException as ex:
            if isinstance(ex, (KeyboardInterrupt, SystemExit)): raise
    return parse(text, **kw)
