"""C03 — timing simulation settles to the Boolean function for any delays/capacity."""
import json, pickle, base64
import numpy as np
from . import common, circ, wavecorr as wc

PID = 'C03'
TARGETS = ['KyupyVerif.Props.C03']
RULE = ('(a) gate-level correspondence: direct calls of the real wave_eval_cpu (random LUT of all 33 primitives, 0-6 transitions per '
        'operand with/without leading TMIN, operand terminators TMAX/TMAX_OVL, four independent polarity entries per delay, capacities '
        '4..32 incl. overflowing ones) vs the Lean transcription; (b) circuit-level correspondence: whole WaveSim runs on random circuits, every '
        'signal waveform vs Lean simWave fed with the real ops/delays/capacities; (c) oracle: initial/final value of every signal waveform and '
        'captured s[3]/s[6] vs 2-valued evaluation of the initial/final input values (real LogicSim per line, Lean spec evaluator at ports), uniform '
        'and per-line capacities (multiples of 4), multi-transition input waveforms, all option tuples. distinct = (circuit, config) / gate-call '
        'descriptors; non-trivial = at least one finite transition produced')


def theorems():
    return common.theorems_of('KyupyVerif/Props/C03.lean', 'KV.C03')


# ---------------------------------------------------------------- gate level
def gate_case(rng):
    from kyupy import sim
    luts = sorted(set(int(v) for v in sim.names))
    ins = []
    for i in range(4):
        n = rng.randint(0, 6)
        ts = sorted(rng.sample(range(0, 60), n))
        w = (['m'] if rng.random() < 0.5 else []) + [str(t) for t in ts]
        ins.append({'w': w, 'term': 'O' if rng.random() < 0.1 else 'M'})
    d = []
    for i in range(4):
        if rng.random() < 0.3:
            v = rng.choice([0, 1, 2, 4, 10, 18]); d.append([v, v, v, v])
        else:
            d.append([rng.choice([0, 1, 2, 4, 10, 18]) for _ in range(4)])
    return {'kind': 'gate', 'lut': rng.choice(luts), 'cap': rng.choice([4, 4, 8, 16, 32]), 'ins': ins, 'd': d}


def run_gate_real(case):
    from kyupy.wave_sim import wave_eval_cpu
    TMIN, TMAX, TOVL = wc.consts()
    CAP = 16
    cap = case['cap']
    GUARD = 777.25
    c = np.full((4 * CAP + cap + 4, 1), TMAX, dtype=np.float32)
    c[4 * CAP + cap:] = GUARD       # guard rows behind the output region: must never be written
    for i, inp in enumerate(case['ins']):
        w = [wc.dec(t) for t in inp['w']]
        c[i * CAP:i * CAP + len(w), 0] = w
        c[i * CAP + len(w), 0] = wc.dec(inp['term'])
    d = np.zeros((1, 5, 2, 2), dtype=np.float32)
    for i in range(4):
        for p in range(2):
            for q in range(2):
                d[0, i, p, q] = case['d'][i][2 * p + q] / wc.GRID
    nr, nf = wave_eval_cpu((case['lut'], 4, 0, 1, 2, 3, -1, 0, 0), c, np.arange(5) * CAP, np.array([CAP] * 4 + [cap]), 0, d,
                           np.asarray([0, 0], dtype=np.int32))
    if not np.all(c[4 * CAP + cap:] == np.float32(GUARD)):
        raise WroteBeyondCapacity(f'output waveform of capacity {cap} wrote behind its region')
    ents, term = wc.read_wave(c, 4 * CAP, cap, 0)
    if term == '?': raise WroteBeyondCapacity(f'no terminator inside capacity {cap}')
    return ents, term, int(nr), int(nf)


class WroteBeyondCapacity(Exception):
    pass


def gate_request(case):
    f = ['wave', str(case['lut']), str(case['cap'])]
    for inp in case['ins']:
        f += [','.join(inp['w']) or '-', inp['term']]
    for i in range(4):
        f += [str(v) for v in case['d'][i]]
    return ' '.join(f)


def gate_oracle(case, ents, term):
    """the property at gate level, on the real result: first entry / parity vs LUT of initial / final operand values"""
    lut = case['lut']
    ini = [1 if (inp['w'][:1] == ['m']) else 0 for inp in case['ins']]
    fin = [len(inp['w']) % 2 for inp in case['ins']]
    bit = lambda v: (lut >> (v[0] + 2 * v[1] + 4 * v[2] + 8 * v[3])) & 1
    TMIN = wc.consts()[0]
    got_i = 1 if (ents and ents[0] <= TMIN) else 0
    got_f = len(ents) % 2
    if got_i != bit(ini): return False, {'initial': got_i}, {'initial': bit(ini)}
    if got_f != bit(fin): return False, {'final': got_f}, {'final': bit(fin)}
    return True, None, None


# ---------------------------------------------------------------- circuit level
def circuit_case(rng, thorough=False):
    if rng.random() < 0.25:
        c = circ.xor_tree(rng)        # long waveforms at the ports
    else:
        c = circ.rand_circuit(rng, n_gates=rng.randint(1, 18 if not thorough else 50), allow_consts=True,
                              xor_bias=rng.choice([0.0, 0.4, 0.8]))
    n_lines = len(c.lines)
    capmode = rng.choice(['u4', 'u8', 'u16', 'perline', 'skewed', 'skewed'])
    caps = {'u4': 4, 'u8': 8, 'u16': 16}.get(capmode)
    if capmode == 'perline':
        caps = [rng.choice([4, 8, 12, 16]) for _ in range(n_lines + 3)]
    elif capmode == 'skewed':     # small capacities on the low line indices, large ones elsewhere
        k = len(c.s_nodes) + 2
        caps = [4 if i < k else rng.choice([16, 20, 24]) for i in range(n_lines + 3)]
    return {'kind': 'circuit', 'circuit': base64.b64encode(pickle.dumps(c)).decode(), 'caps': caps,
            'dseed': rng.randint(0, 2**31 - 1), 'sseed': rng.randint(0, 2**31 - 1), 'sims': rng.choice([1, 2, 3, 5]),
            'strip': rng.random() < 0.3, 'reuse': rng.random() < 0.3, 'multi': rng.random() < 0.5,
            'cuda': rng.random() < 0.25,
            # captured initial/final values do not depend on the capture time (None = the default: end of time)
            'ctime': rng.choice([None, None, 0.0, 3.5, 12.0, 25.0, 60.0])}


def run_circuit(case):
    import random
    c = pickle.loads(base64.b64decode(case['circuit']))
    drng = random.Random(case['dseed']); srng = random.Random(case['sseed'])
    delays = wc.rand_delays(drng, len(c.lines))
    ws = wc.make_sim(c, delays, case['sims'], c_caps=case['caps'], strip=case['strip'], reuse=case['reuse'], cuda=case.get('cuda', False))
    i, t, f = wc.rand_stim(srng, ws.s_len, case['sims'])
    wc.assign(ws, i, t, f)
    ws.assign_check = ws.assign_mismatch      # s_to_c must write the stimulus it was given (also on an object with a history)
    if case['multi']: wc.overwrite_inputs(ws, srng)
    # value sources of the rows resolved through the stems of the Lean SimOps model (= `MapIn.src`); without stripping: identity
    stems = wc.model_stems(c, case['strip'])
    reqs = [wc.model_request(ws, s, stems=stems) for s in range(case['sims'])]
    # initial/final of the input waveforms actually assigned (read back)
    TMIN = wc.consts()[0]
    ini = np.zeros((ws.s_len, case['sims']), dtype=np.uint8); fin = np.zeros_like(ini)
    cc = np.array(ws.c)
    for s_loc in ws.pippi_s_locs:
        idx = ws.ppi_offset + int(s_loc)
        for s in range(case['sims']):
            ents, _ = wc.read_wave(cc, int(ws.c_locs[idx]), int(ws.c_caps[idx]), s)
            ini[s_loc, s] = 1 if (ents and ents[0] <= TMIN) else 0
            fin[s_loc, s] = len(ents) % 2
    with common.quiet():
        ws.c_prop()
        if case.get('ctime') is None: ws.c_to_s()
        else: ws.c_to_s(time=np.float32(case['ctime']))
    return c, ws, reqs, ini, fin, stems


def eval_case(case):
    if case['kind'] == 'gate':
        try:
            ents, term, nr, nf = run_gate_real(case)
        except Exception as ex:
            return False, {'raised': f'{type(ex).__name__}: {ex}'[:200]}, None
        return gate_oracle(case, ents, term)
    c, ws, reqs, ini, fin, _ = run_circuit(case)
    TMIN = wc.consts()[0]
    if getattr(ws, 'assign_check', None):
        return False, ws.assign_check, {'waveform_in_memory': 'the assigned stimulus'}
    # ports: s[3], s[6] vs Lean spec evaluator on inits / finals
    lines = [f'net {circ.dump_net(c)}']
    for s in range(case['sims']):
        lines.append('eval2 ' + ''.join(str(int(b)) for b in ini[:, s]) + ' 0')
        lines.append('eval2 ' + ''.join(str(int(b)) for b in fin[:, s]) + ' 0')
    out = common.run_driver(lines)[1:]
    S = np.array(ws.s)
    for s in range(case['sims']):
        ci = out[2 * s].split(' ')[0]; cf = out[2 * s + 1].split(' ')[0]
        if ci.endswith('!'): return True, {'skipped': 'loop'}, None
        for j in range(ws.s_len):
            if ci[j] == '-': continue
            if int(S[3, j, s]) != int(ci[j]):
                return False, {'lane': s, 's_node': j, 's3_initial': int(S[3, j, s])}, {'initial': int(ci[j])}
            if int(S[6, j, s]) != int(cf[j]):
                return False, {'lane': s, 's_node': j, 's6_final': int(S[6, j, s]), 'overflow': int(S[10, j, s])}, {'final': int(cf[j])}
    # every line (only meaningful without reuse): vs real LogicSim m=2 lines
    if not case['reuse']:
        from kyupy import logic
        from kyupy.logic_sim import LogicSim
        for which, stim in (('initial', ini), ('final', fin)):
            with common.quiet():
                ls = LogicSim(c, case['sims'], m=2, strip_forks=case['strip'])
            ls.s[0] = logic.mv_to_bp((stim * 3).astype(np.uint8)); ls.s_to_c(); ls.c_prop()
            cc = np.array(ws.c)
            for row in np.array(ws.ops):
                o = int(row[1])
                if o >= len(c.lines): continue
                for s in range(case['sims']):
                    ents, term = wc.read_wave(cc, int(ws.c_locs[o]), int(ws.c_caps[o]), s)
                    if term == '?': return False, {'line': o, 'lane': s, 'waveform': 'no terminator inside its capacity'}, None
                    got = (1 if (ents and ents[0] <= TMIN) else 0) if which == 'initial' else len(ents) % 2
                    exp = (int(ls.c[ls.c_locs[o], 0, s // 8]) >> (s % 8)) & 1
                    if got != exp:
                        return False, {'line': o, 'lane': s, which: got, 'waveform': wc.fmt_wave(ents, term)}, {which: exp}
    return True, None, None


def corr_gate(ck, n):
    cases = [gate_case(ck.rng) for _ in range(n)]
    reals = []
    for cs in cases:
        try:
            ents, term, nr, nf = run_gate_real(cs)
            reals.append(f"{','.join(wc.enc(t) for t in ents)} {term} {nr} {nf}")
        except Exception as ex:
            reals.append(f'RAISED {type(ex).__name__}: {ex}'[:200])
    out = common.run_driver([gate_request(cs) for cs in cases])
    for cs, r, m in zip(cases, reals, out):
        if r.startswith('RAISED'):
            ck.case(key=('gate', json.dumps(cs, sort_keys=True)), sample={'gate': cs, 'result': r}, tag=['gate', 'gate-raised'])
            ck.violation('wave-gate', 'wave_eval_cpu raised or wrote outside the capacity of its output waveform', cs, {'raised': r}, {'model': m})
            continue
        ovl = ' O ' in (' ' + r + ' ')
        ck.case(key=('gate', json.dumps(cs, sort_keys=True)), nontrivial=any(ch.isdigit() for ch in r.split(' ')[0]),
                sample={'gate': cs, 'result': r}, tag=['gate', 'gate-overflow' if ovl else 'gate-no-overflow', f"cap:{cs['cap']}"])
        if r != m:
            ck.broken_tie('wave_eval_cpu vs Lean waveEval', f'real "{r}" != model "{m}"', inp=cs)
        ok, obs, exp = gate_oracle(cs, *([wc.dec(t) for t in r.split(' ')[0].split(',') if t], r.split(' ')[1]))
        if not ok:
            ck.violation('wave-gate', 'wave_eval_cpu: initial/final value of the produced waveform is not the LUT of the operands', cs, obs, exp)


def corr_circuit(ck, n, thorough=False):
    for it in range(n):
        cs = circuit_case(ck.rng, thorough)
        try:
            c, ws, reqs, ini, fin, stems = run_circuit(cs)
            d = circ.describe(c)
            out = common.run_driver(reqs)
            n_ppo = 0
            for s, m in enumerate(out):
                ms = m.split(' ; ')[0].split(' ')
                if not cs['reuse']:      # every written signal has its own region: compare them all
                    real = ' '.join(wc.real_signals(ws, s))
                    if real != m.split(' ; ')[0]:
                        rs = real.split(' ')
                        k = next((i for i, (a, b) in enumerate(zip(rs, ms)) if a != b), -1)
                        ck.broken_tie('WaveSim vs Lean simWave', f'signal {k}: real {rs[k] if k >= 0 else "?"} != model {ms[k] if k >= 0 else "?"}',
                                      inp={k2: v for k2, v in cs.items()})
                        break
                # memory level (C03.wave_memory_sound), ALSO with c_reuse: the region of every output slot, addressed through
                # c_locs/c_caps of the SLOT index and read as `Wave.rdWave` reads it, holds the model's signal-level waveform of
                # the captured signal (data line resolved through the stems of the Lean SimOps model)
                bad = next(((j, sig, tok) for j, sig, tok in wc.ppo_memory(c, ws, s, stems)
                            if sig >= len(ms) or tok != ms[sig]), None)
                n_ppo += len(wc.ppo_memory(c, ws, s, stems))
                if bad is not None:
                    j, sig, tok = bad
                    ck.broken_tie('WaveSim memory at an output slot vs Lean simWave of the captured signal',
                                  f'lane {s} slot {j} captures signal {sig}: memory reads {tok} != model {ms[sig] if sig < len(ms) else "?"}',
                                  inp={k2: v for k2, v in cs.items()})
                    break
            ck.hist['ppo-memory-regions-compared'] += n_ppo
            ok, obs, exp = eval_case(cs)
        except wc.OffGrid:
            ck.hist['off-grid-discarded'] += 1
            continue
        except Exception as ex:
            ok, obs, exp = False, {'raised': f'{type(ex).__name__}: {ex}'[:300]}, None
            d = {'lines': 0, 'ff': 0}
        S = np.array(ws.s) if ok is not None and 'ws' in dir() else None
        ovf = bool(S is not None and S[10].any())
        ck.case(key=(cs['circuit'][:80], str(cs['caps'])[:40], cs['strip'], cs['reuse'], cs['multi'], cs['cuda'], cs['dseed']),
                nontrivial=d['lines'] >= 4,
                sample={k: (v if k != 'circuit' else circ.dump_net(pickle.loads(base64.b64decode(v)))) for k, v in cs.items()},
                tag=['circuit', f"strip:{cs['strip']}", f"reuse:{cs['reuse']}", f"multi:{cs['multi']}", f"cuda:{cs['cuda']}",
                     'caps:' + (str(cs['caps']) if isinstance(cs['caps'], int) else 'perline'), 'overflow' if ovf else 'no-overflow',
                     common.allcirc_hyp(ck, pickle.loads(base64.b64decode(cs['circuit'])), [cs['strip']], 'C03')])   # hypotheses of wave_sim_end_to_end_all_circuits
        if not ok:
            ck.violation('wave-settle', 'WaveSim: initial/final value differs from the Boolean function of the inputs', cs, obs, exp)


def run(ck):
    ck.prove([], TARGETS, theorems())
    ng, nc = (1500, 150) if ck.tier == 'quick' else (30000, 2000)
    corr_gate(ck, ng)
    corr_circuit(ck, nc, ck.tier == 'thorough')
    if ck.broken and not ck.violations:
        corr_gate(ck, ng * 4); corr_circuit(ck, nc * 4, ck.tier == 'thorough')
    ck.assumptions += ['float32 arithmetic is exact on the dyadic grid used (multiples of 0.5 below 2^21); cases that leave the grid are discarded and counted',
                       'delays >= 0 and finite; capacities positive multiples of 4']
    return ck.finish(RULE)


def replay(rep):
    ok, obs, exp = eval_case(rep['input'])
    print(json.dumps({'ok': ok, 'observed': obs, 'expected': exp}, default=str))
    return 0 if ok else 1
