"""C11 generator: random flat gate-level netlists WITH ground-truth semantics, and their renderings as Verilog / bench text
together with the statement list (`ast`) that lark hands to the transformers (input of the Lean model)."""
import re
from . import c11_cells as cells

CONST = {"1'b0": 0, "1'b1": 1}


def bitname(base, idx):
    return base if idx is None else f'{base}[{idx}]'


def rng_list(r):
    l, rr = r
    return list(range(l, rr + 1)) if l <= rr else list(range(l, rr - 1, -1))


def sig_bits(base, info):
    return [bitname(base, None)] if info['range'] is None else [bitname(base, i) for i in rng_list(info['range'])]


# ---------------------------------------------------------------------------------------------- names
PLAIN_WORDS = ['a', 'b', 'c', 'd', 'x', 'y', 'sel', 'data', 'n', 'w', 'net', 'sig', 'in', 'out_', 'input_a', 'wire1', 'module_x',
               'assignx', 'outputs', 'endmodule_', 'N', 'G', 'U', '_t', '__u']
ESC_FORMS = ['{b}.q', '{b}$x', '{b}+', '{b}-{k}', '{b}/{k}', '{b}[{k}]', '{b}[{k}].z', '1{b}', '{b}.{k}[2]', '{b}:{k}', '{b}#', '({b})',
             '{b}\\{k}', '*{b}*', '{b}"q"', '{b}//{k}', '/*{b}*/', '{b}(*', '{b},{k}', '{b};', 'input', 'wire', 'assign', 'module']


class Names:
    def __init__(self, rng, p_esc):
        self.rng, self.p_esc, self.used, self.k = rng, p_esc, set(), 0

    def fresh(self, prefix, bus=False):
        """a fresh canonical name; buses always get plain base names (the bit name is derived from it)"""
        rng = self.rng
        for _ in range(100):
            self.k += 1
            if rng.random() < 0.5:
                b = f'{prefix}{self.k}'
            else:
                b = f'{rng.choice(PLAIN_WORDS)}{self.k}' if rng.random() < 0.7 else f'{prefix}_{rng.choice(PLAIN_WORDS)}{self.k}'
            if rng.random() < (self.p_esc * 0.5 if bus else self.p_esc):
                forms = [f for f in ESC_FORMS if '[' not in f and '{b}' in f] if bus else ESC_FORMS   # keywords as escaped identifiers too
                b = rng.choice(forms).format(b=b, k=self.k)
            if b in self.used or any(b.startswith(u + '[') or u.startswith(b + '[') for u in self.used): continue
            self.used.add(b)
            return b
        raise RuntimeError('name space exhausted')


def is_plain(n):
    return re.fullmatch(r'[A-Za-z_][A-Za-z0-9_]*', n) is not None and n not in (
        'module', 'endmodule', 'input', 'output', 'inout', 'tri', 'wire', 'assign')


# ---------------------------------------------------------------------------------------------- abstract netlist
def gen_netlist(rng, lib, bench_only=False, p_esc=0.15, p_const=0.08, max_gates=14, allow_onebit_nz=True, p_wide=0.0):
    """returns nl (JSON-able).  bench_only: use only families the bench format can express.  p_wide: probability that a gate is a
    WIDE one (5..9 inputs, `cells.WIDE`; libraries BENCH and PRIM only) — outside the arity domain of the theorems (finding D33)."""
    entries = [e for e in cells.LIBS[lib] if e['kinds']]
    if bench_only:
        entries = [e for e in entries if e['fam'] in cells.BENCH_KINDS]
    wide = [e for e in entries if cells.is_wide(e['fam'])]
    entries = [e for e in entries if not cells.is_wide(e['fam'])]
    comb = [e for e in entries if not cells.is_seq(e['fam']) and e['ins']]
    consts = [e for e in entries if not e['ins']]
    seqs = [e for e in entries if cells.is_seq(e['fam'])]
    names = Names(rng, p_esc)
    sigs, bits = {}, {}     # base -> info ; bitname -> [base, idx]

    def add_sig(base, direction, r, declared=True):
        sigs[base] = {'dir': direction, 'range': r, 'declared': declared}
        for i in ([None] if r is None else rng_list(r)):
            bits[bitname(base, i)] = [base, i]
        return sig_bits(base, sigs[base])

    def rand_range(w):
        if w == 1:
            if allow_onebit_nz and rng.random() < 0.12:
                k = rng.randint(1, 7); return [k, k]
            return [0, 0]
        lo = rng.choice([0, 0, 0, 1, 2, 5])
        return [lo, lo + w - 1] if rng.random() < 0.5 else [lo + w - 1, lo]

    def make_ports(n_bits, direction, prefix):
        out = []
        while n_bits > 0:
            r = rng.random()
            if r < 0.45 or n_bits == 1:
                w = 1
                rr = rand_range(1) if rng.random() < 0.18 else None
            else:
                w = rng.randint(2, min(4, n_bits)); rr = rand_range(w)
            base = names.fresh(prefix, bus=rr is not None)
            out += add_sig(base, direction, rr)
            n_bits -= w
        return out

    n_ff = rng.choice([0, 0, 0, 1, 1, 2, 3]) if seqs else 0
    n_pi = rng.randint(1, 7)
    pi_bits = make_ports(n_pi, 'input', 'i')
    clk = None
    if n_ff and any(e['clk'] for e in seqs):
        clk = names.fresh('clk'); add_sig(clk, 'input', None); pi_bits.append(clk)
    n_po = rng.randint(1, 5)
    po_bits = make_ports(n_po, 'output', 'o')
    # internal buses whose bits are handed out as targets
    pool_bus_bits = []
    for _ in range(rng.choice([0, 0, 1, 1, 2])):
        w = rng.randint(1, 4)
        base = names.fresh('w', bus=True)
        pool_bus_bits += add_sig(base, 'wire', rand_range(w))
    free_po = list(po_bits)
    driven = {}          # bit -> ('pi',) | ('gate', gi, k) | ('assign', ai, k)
    avail = []
    for b in pi_bits:
        if b != clk: driven[b] = ['pi']; avail.append(b)

    def new_target(allow_po=True):
        r = rng.random()
        if allow_po and free_po and r < 0.3:
            return free_po.pop(rng.randrange(len(free_po)))
        if pool_bus_bits and r < 0.55:
            return pool_bus_bits.pop(rng.randrange(len(pool_bus_bits)))
        base = names.fresh('n')
        return add_sig(base, 'wire', None, declared=rng.random() < 0.65)[0]

    def pick_src(allow_const=True):
        if allow_const and rng.random() < p_const: return rng.choice(["1'b0", "1'b1"])
        if rng.random() < 0.55: return rng.choice(avail)
        return avail[-1 - rng.randrange(min(len(avail), 4))]

    gates, assigns = [], []
    # flip-flops / latches first: outputs available from the start, data pins connected at the end
    for k in range(n_ff):
        e = rng.choice(seqs)
        inst = names.fresh('ff')
        res = []
        for oi, o in enumerate(e['outs']):
            if oi > 0 and rng.random() < 0.4: res.append(None); continue
            t = new_target(allow_po=rng.random() < 0.3)
            driven[t] = ['gate', len(gates), oi]; avail.append(t); res.append(t)
        gates.append({'inst': inst, 'kind': rng.choice(e['kinds']), 'fam': e['fam'], 'pins_in': e['ins'], 'pins_out': e['outs'],
                      'clk': e['clk'], 'args': None, 'res': res})
    n_ev = rng.randint(1, max_gates)
    for _ in range(n_ev):
        r = rng.random()
        if r < 0.22:   # an assign statement: target bits <- source bits
            ai = len(assigns)
            tb, sb = [], []
            for _part in range(rng.choice([1, 1, 1, 2, 3])):
                shape = rng.random()
                whole = [s for s, inf in sigs.items() if inf['range'] is not None and inf['dir'] != 'input'
                         and all(b not in driven and (b in pool_bus_bits or b in free_po) for b in sig_bits(s, inf))]
                if shape < 0.35 and whole:
                    s = rng.choice(whole); tbits = sig_bits(s, sigs[s])
                    if len(tbits) > 1 and rng.random() < 0.4:   # a slice in declared direction
                        a = rng.randrange(len(tbits)); bnd = rng.randint(a + 1, len(tbits)); tbits = tbits[a:bnd]
                    for b in tbits:
                        if b in pool_bus_bits: pool_bus_bits.remove(b)
                        if b in free_po: free_po.remove(b)
                else:
                    tbits = [new_target()]
                # sources: a whole available bus / slice of the same width, a constant, or individual bits
                srcs = None
                q = rng.random()
                if q < 0.35:
                    cands = [s for s, inf in sigs.items() if inf['range'] is not None
                             and sum(1 for b in sig_bits(s, inf) if b in avail) >= len(tbits)]
                    if cands:
                        s = rng.choice(cands); sbits = [b for b in sig_bits(s, sigs[s]) if b in avail]
                        a = rng.randint(0, len(sbits) - len(tbits)); srcs = sbits[a:a + len(tbits)]
                elif q < 0.55:
                    srcs = [rng.choice(["1'b0", "1'b1"]) for _ in tbits]
                if srcs is None:
                    srcs = [pick_src() for _ in tbits]
                tb += tbits; sb += srcs
            for k, (t, s) in enumerate(zip(tb, sb)):
                driven[t] = ['assign', ai, k]
            assigns.append({'t': tb, 's': sb})
            avail += tb
        else:
            e = rng.choice(consts) if (consts and r < 0.27) else rng.choice(comb)
            if len(e['ins']) > 4 and rng.random() < 0.5: e = rng.choice(comb)
            if wide and p_wide and rng.random() < p_wide: e = rng.choice(wide)
            inst = names.fresh('u')
            args = [pick_src() for _ in e['ins']]
            res = []
            for oi, o in enumerate(e['outs']):
                if len(e['outs']) > 1 and rng.random() < 0.25:
                    res.append(None); continue
                t = new_target()
                driven[t] = ['gate', len(gates), oi]; res.append(t)
            if all(x is None for x in res):
                t = new_target(); driven[t] = ['gate', len(gates), 0]; res[0] = t
            avail += [x for x in res if x is not None]
            gates.append({'inst': inst, 'kind': rng.choice(e['kinds']), 'fam': e['fam'], 'pins_in': e['ins'], 'pins_out': e['outs'],
                          'clk': None, 'args': args, 'res': res})
    # remaining output bits: by assign (possibly grouped)
    while free_po:
        ai = len(assigns)
        k = rng.randint(1, min(3, len(free_po)))
        tb = [free_po.pop(0) for _ in range(k)]
        sb = [rng.choice(["1'b0", "1'b1"]) for _ in tb] if rng.random() < 0.25 else [pick_src() for _ in tb]
        for j, t in enumerate(tb): driven[t] = ['assign', ai, j]
        assigns.append({'t': tb, 's': sb}); avail += tb
    for g in gates:
        if g['args'] is None:
            g['args'] = [pick_src(allow_const=rng.random() < 0.3) for _ in g['pins_in']]
    portlist = [s for s, inf in sigs.items() if inf['dir'] in ('input', 'output')]
    rng.shuffle(portlist)
    return {'lib': lib, 'sigs': sigs, 'bits': bits, 'portlist': portlist, 'gates': gates, 'assigns': assigns, 'clk': clk,
            'pi': [b for b in pi_bits if b != clk], 'po': po_bits, 'driven': driven}


# ---------------------------------------------------------------------------------------------- ground truth
def evaluate(nl, pi_vals, ff_vals):
    """pi_vals: {bit: 0/1}; ff_vals: {inst: 0/1}.  returns ({po bit: value}, {ff inst: captured value})"""
    memo = {}
    gates, assigns, driven = nl['gates'], nl['assigns'], nl['driven']

    def val(src):
        if src in CONST: return CONST[src]
        if src in memo: return memo[src]
        d = driven.get(src)
        if d is None: v = 0 if src != nl['clk'] else 0
        elif d[0] == 'pi': v = pi_vals[src]
        elif d[0] == 'assign': v = val(assigns[d[1]]['s'][d[2]])
        else:
            g = gates[d[1]]
            if cells.is_seq(g['fam']):
                v = ff_vals[g['inst']] if d[2] == 0 else 1 - ff_vals[g['inst']]
            else:
                v = cells.COMB[g['fam']][1]([val(a) for a in g['args']])[d[2]]
        memo[src] = v
        return v
    po = {b: val(b) for b in nl['po']}
    ff = {g['inst']: cells.SEQ[g['fam']][1]([val(a) for a in g['args']]) for g in gates if cells.is_seq(g['fam'])}
    return po, ff


def has_wide(nl):
    return any(cells.is_wide(g['fam']) for g in nl['gates'])


def narrowed(nl):
    """the netlist kyupy SIMULATES (finding D33): every wide gate replaced by the 4-input primitive of its first four pins"""
    out = dict(nl)
    out['gates'] = [dict(g, fam=cells.narrow(g['fam']), args=g['args'][:4], pins_in=g['pins_in'][:4]) if cells.is_wide(g['fam']) else g
                    for g in nl['gates']]
    return out


def ff_insts(nl):
    return [g['inst'] for g in nl['gates'] if cells.is_seq(g['fam'])]


def expected_ports(nl):
    return [b for s in nl['portlist'] for b in sig_bits(s, nl['sigs'][s])]


def assign_out_of_order(nl, order):
    """order: list of assign indices in text order.  True when some assign reads a bit that a LATER pair drives"""
    seen = set()
    for ai in order:
        a = nl['assigns'][ai]
        for t, s in zip(a['t'], a['s']):
            d = nl['driven'].get(s)
            if d is not None and d[0] == 'assign' and (d[1], d[2]) not in seen: return True
            seen.add((ai, nl['driven'][t][2]))
    return False


# ---------------------------------------------------------------------------------------------- Verilog rendering
class Tok:
    """token text + whether it starts / ends word-like (needs a separator towards another word-like token)"""
    def __init__(self, text, word=False, esc=False):
        self.text, self.word, self.esc = text, word, esc


def name_tok(rng, n, p_esc_plain=0.06):
    if is_plain(n) and rng.random() >= p_esc_plain:
        return Tok(n, word=True)
    return Tok('\\' + n, word=False, esc=True)


def kw(s): return Tok(s, word=True)
def pu(s): return Tok(s)


COMMENT_BODIES = ['c', ' synopsys translate_off ', 'a * b / c', ' module m(a); endmodule ', ' "str" ', " 1'b0 ", '* star', ' x (* y ',
                  ' wire w; ', ' } { ', '/ slash /', '**', ' C:\\designs\\top\\', ' ---- \\', '\\', ' a \\ b ', ' tab\\\t', '/*', ' (* ', '// again', ' \\ ']


def separator(rng, need, noise, after_esc):
    """text between two tokens. need: at least one blank/comment; after_esc: must START with a blank character"""
    out = ''
    if after_esc: out += rng.choice([' ', '\t', '\n', ' \n'])
    r = rng.random()
    if r < noise:
        body = rng.choice(COMMENT_BODIES)
        q = rng.random()
        if q < 0.35: out += '/*' + body.replace('*/', '* /') + ('\n' if rng.random() < 0.2 else '') + '*/'
        elif q < 0.6: out += '//' + body.replace('\n', ' ') + rng.choice(['\n', '\r\n'])
        elif q < 0.8: out += '(*' + body.replace('*)', '* )') + '*)'
        else: out += rng.choice(['\n\n', ' \t ', '\r\n', '\f', '   '])
    elif need and not out:
        out += rng.choice([' ', ' ', '  ', '\n', '\t', '\n  '])
    elif not need and rng.random() < 0.5:
        out += rng.choice([' ', ' ', '\n    ', '  '])
    return out


def join_tokens(rng, toks, noise):
    out = []
    for i, t in enumerate(toks):
        out.append(t.text)
        if i + 1 < len(toks):
            nxt = toks[i + 1]
            out.append(separator(rng, t.word and nxt.word, noise, t.esc))
        elif t.esc:
            out.append(' ')
    return ''.join(out)


def const_tok(rng, bits_):
    """a sized constant for the bit list (MSB first). returns (token text, ast)"""
    w = len(bits_)
    val = int(''.join(str(b) for b in bits_), 2)
    base = rng.choice(['b', 'b', 'h', 'd']) if w > 1 else rng.choice(['b', 'b', 'b', 'h', 'd'])
    extra = rng.choice([0, 0, 0, 1, 5]) << w if rng.random() < 0.15 else 0    # bits above the width are cut off
    v = val + extra
    if base == 'b':
        digits = format(v, 'b')
        if rng.random() < 0.7: digits = digits.rjust(w, '0')
        elif rng.random() < 0.3: digits = '0' + digits
    elif base == 'h':
        digits = format(v, rng.choice(['x', 'X']))
        if rng.random() < 0.3: digits = '0' + digits
    else:
        digits = str(v)
        if rng.random() < 0.2: digits = '0' + digits
    bch = base.upper() if rng.random() < 0.2 else base
    return f"{w}'{bch}{digits}", ['k', w, bch, digits]


def render_sel(rng, nl, srcs, pin=False):
    """sigsel text tokens + ast for a list of bit references (MSB first). pin=True: exactly one bit, no concat"""
    sigs, bits = nl['sigs'], nl['bits']
    # chunks
    chunks = []
    i = 0
    while i < len(srcs):
        s = srcs[i]
        if s in CONST:
            j = i
            while j < len(srcs) and srcs[j] in CONST and (j == i or rng.random() < 0.8): j += 1
            chunks.append(('k', [CONST[x] for x in srcs[i:j]])); i = j; continue
        base, idx = bits[s]
        if idx is None:
            chunks.append(('n', base)); i += 1; continue
        order = rng_list(sigs[base]['range'])
        j = i
        pos = order.index(idx)
        while (j + 1 < len(srcs) and srcs[j + 1] not in CONST and bits[srcs[j + 1]][0] == base and pos + 1 < len(order)
               and bits[srcs[j + 1]][1] == order[pos + 1] and rng.random() < 0.85):
            j += 1; pos += 1
        chunks.append(('b', base, [bits[x][1] for x in srcs[i:j + 1]])); i = j + 1
    parts = []
    for ch in chunks:
        if ch[0] == 'k':
            txt, ast = const_tok(rng, ch[1]); parts.append(([Tok(txt, word=True)], ast))
        elif ch[0] == 'n':
            parts.append(([name_tok(rng, ch[1])], ['n', ch[1]]))
        else:
            base, idxs = ch[1], ch[2]
            order = rng_list(sigs[base]['range'])
            nt = name_tok(rng, base)
            if idxs == order and rng.random() < (0.6 if len(order) > 1 else 0.5):
                parts.append(([nt], ['n', base]))                                  # whole bus by its base name
            elif len(idxs) == 1:
                if rng.random() < 0.08:
                    parts.append(([nt, pu('['), kw(str(idxs[0])), pu(':'), kw(str(idxs[0])), pu(']')], ['b', base, idxs[0], idxs[0]]))
                else:
                    parts.append(([nt, pu('['), kw(str(idxs[0])), pu(']')], ['b', base, idxs[0], None]))
            else:
                parts.append(([nt, pu('['), kw(str(idxs[0])), pu(':'), kw(str(idxs[-1])), pu(']')], ['b', base, idxs[0], idxs[-1]]))
    if pin:
        assert len(parts) == 1
        return parts[0]
    if len(parts) == 1 and rng.random() > 0.1:
        return parts[0]

    def build(ps):
        toks, asts = [pu('{')], []
        k = 0
        while k < len(ps):
            if len(ps) - k >= 2 and rng.random() < 0.12:      # nested concatenation
                m = rng.randint(2, len(ps) - k)
                t2, a2 = build(ps[k:k + m]); k += m
            else:
                t2, a2 = ps[k]; k += 1
            if asts: toks.append(pu(','))
            toks += t2; asts.append(a2)
        toks.append(pu('}'))
        return toks, ['c', asts]
    return build(parts)


def render_verilog(rng, nl, style=None):
    """returns {'text', 'ast': {'name', 'ports', 'stmts'}, 'tags', 'assign_order'}"""
    sigs = nl['sigs']
    style = style or {}
    noise = style.get('noise', rng.choice([0.0, 0.05, 0.05, 0.2, 0.5]))
    order_style = style.get('order', rng.choice(['grouped', 'portorder', 'shuffled', 'shuffled']))
    tags = [f'order:{order_style}', f'noise:{noise}']
    stmts = []     # (category, tokens, ast, extra)

    def rtoks(r):
        if r is None: return []
        return [pu('['), kw(str(r[0])), pu(':'), kw(str(r[1])), pu(']')]

    def decl_stmt(kind_txt, kind_ast, r, names_):
        toks = [kw(kind_txt)] + rtoks(r)
        for i, n in enumerate(names_):
            if i: toks.append(pu(','))
            toks.append(name_tok(rng, n))
        toks.append(pu(';'))
        return ('decl', toks, ['decl', kind_ast, r, list(names_)])

    # ---- declarations
    groups = {}
    decl_order = list(sigs.keys())
    if order_style == 'portorder':
        decl_order = nl['portlist'] + [s for s in sigs if s not in nl['portlist']]
    for s in decl_order:
        inf = sigs[s]
        if inf['dir'] == 'wire' and not inf['declared']:
            tags.append('implicit-wire'); continue
        ktxt = inf['dir']
        if ktxt == 'input' and rng.random() < 0.06: ktxt = 'inout'; tags.append('inout')
        key = (ktxt, tuple(inf['range']) if inf['range'] else None)
        if order_style != 'portorder' and key in groups and rng.random() < 0.5:
            groups[key][-1].append(s)
        else:
            groups.setdefault(key, []).append([s])
    decls = []
    if order_style == 'portorder':
        for s in decl_order:
            for key, lists in groups.items():
                for l in lists:
                    if l[0] == s: decls.append((key, l))
    else:
        for want in ('input', 'inout', 'output', 'wire'):
            for key, lists in groups.items():
                if key[0] == want:
                    for l in lists: decls.append((key, l))
    for key, l in decls:
        if len(l) > 1: tags.append('multi-name-declaration')
        kast = 'input' if key[0] == 'inout' else key[0]
        stmts.append(decl_stmt(key[0], kast, list(key[1]) if key[1] else None, l))
        # a redundant wire declaration of a port, before or after
        if key[0] in ('input', 'output') and rng.random() < 0.12:
            w = decl_stmt('wire', 'wire', list(key[1]) if key[1] else None, [l[0]])
            if rng.random() < 0.5: stmts.insert(len(stmts) - 1, w); tags.append('wire-before-port-declaration')
            else: stmts.append(w); tags.append('wire-after-port-declaration')
    if rng.random() < 0.1:
        stmts.append(('decl', [kw('tri'), name_tok(rng, 'unused_tri'), pu(';')], ['other']))
        tags.append('tri-declaration')
    for inf in sigs.values():
        if inf['range'] is not None:
            l, r = inf['range']
            tags.append('range:onebit0' if l == r == 0 else 'range:onebit-nonzero' if l == r else 'range:ascending' if l < r else 'range:descending')
    # ---- instances
    body = []
    for gi, g in enumerate(nl['gates']):
        pins = []
        for p, a in zip(g['pins_in'], g['args']):
            pins.append((p, a))
        if g['clk']: pins.append((g['clk'], nl['clk']))
        for p, t in zip(g['pins_out'], g['res']):
            pins.append((p, t))
        rng.shuffle(pins)
        toks = [Tok(g['kind'], word=True), name_tok(rng, g['inst']), pu('(')]
        past = []
        for i, (p, s) in enumerate(pins):
            if s is None and rng.random() < 0.5: continue          # unconnected output pin left out altogether
            if past: toks.append(pu(','))
            toks += [pu('.'), name_tok(rng, p, p_esc_plain=0.03), pu('(')]
            if s is None:
                past.append([p, None]); tags.append('unconnected-output-pin')
            else:
                if s in CONST: tags.append('const-on-pin')
                elif nl['bits'][s][1] is not None: tags.append('bit-select-on-pin')
                # a 1-bit bus may be named by its base on a pin
                t2, a2 = render_sel(rng, nl, [s], pin=True)
                toks += t2; past.append([p, a2])
            toks.append(pu(')'))
        toks += [pu(')'), pu(';')]
        body.append(('inst', toks, ['inst', g['kind'], g['inst'], past], gi))
    for ai, a in enumerate(nl['assigns']):
        tt, ta = render_sel(rng, nl, a['t'])
        st, sa = render_sel(rng, nl, a['s'])
        for x in (ta, sa):
            if x[0] == 'c': tags.append('concat-in-assign')
        if any(s in CONST for s in a['s']): tags.append('const-in-assign')
        if len(a['t']) > 1: tags.append('multi-bit-assign')
        body.append(('assign', [kw('assign')] + tt + [pu('=')] + st + [pu(';')], ['assign', ta, sa], ai))
    if order_style == 'shuffled':
        allst = stmts + body
        rng.shuffle(allst)
    else:
        if order_style == 'portorder': rng.shuffle(body)
        allst = stmts + body
    assign_order = [s[3] for s in allst if s[0] == 'assign']
    if assign_out_of_order(nl, assign_order): tags.append('assign-chain-out-of-order')
    # ---- module header
    mname = style.get('name', 'top')
    toks = [kw('module'), name_tok(rng, mname), pu('(')]
    for i, p in enumerate(nl['portlist']):
        if i: toks.append(pu(','))
        toks.append(name_tok(rng, p))
    toks += [pu(')'), pu(';')]
    for s in allst: toks += s[1]
    toks.append(kw('endmodule'))
    text = join_tokens(rng, toks, noise)
    if rng.random() < 0.3: text = rng.choice(['// header\n', '/* multi\n line */\n', '\n\n', '(* top *) ']) + text
    text += rng.choice(['\n', '', ' ', '\n// end\n', '\n/* end */'])
    if '\\' in text: tags.append('escaped-identifier')
    for c_, t_ in (('//', 'comment://'), ('/*', 'comment:/**/'), ('(*', 'attribute(**)')):
        if c_ in text: tags.append(t_)
    ast = {'name': mname, 'ports': list(nl['portlist']), 'stmts': [s[2] for s in allst]}
    return {'text': text, 'ast': ast, 'tags': sorted(set(tags)), 'assign_order': assign_order}


# ---------------------------------------------------------------------------------------------- bench rendering
def bench_expressible(nl):
    return all(g['fam'] in cells.BENCH_KINDS and (not cells.is_seq(g['fam']) or g['fam'] == 'DFF') for g in nl['gates'])


def render_bench(rng, nl):
    """returns {'text', 'ast': [stmts], 'names': {bit: bench name}, 'ffs': {inst: bench name}, 'ports': expected io names, 'tags'}"""
    used, m = set(), {}

    def bname(bit):
        if bit not in m:
            b = re.sub(r'[^-_a-zA-Z0-9]', rng.choice(['_', '-']), bit)
            if rng.random() < 0.1: b = '7' + b
            if b.lower() in ('input', 'output') or b in used or not b:
                b = f'{b}_{len(used)}'
            while b in used: b += 'x'
            used.add(b); m[bit] = b
        return m[bit]
    tags = []
    stmts = []       # (text, ast)
    extra = []

    def src_name(s):
        if s in CONST:
            n = f'konst{len(used)}'
            while n in used: n += 'k'
            used.add(n)
            kind = '__const0__' if CONST[s] == 0 else '__const1__'
            extra.append((f'{n} = {kind}()', ['gate', n, kind, []]))
            tags.append('const')
            return n
        return bname(s)
    ffs = {}
    for g in nl['gates']:
        kind = rng.choice(cells.BENCH_KINDS[g['fam']])
        if g['fam'] == 'DFF':
            q = g['res'][0]
            qn_bit = g['res'][1] if len(g['res']) > 1 else None
            qname = bname(q) if q is not None else bname(g['inst'] + '_q')
            ffs[g['inst']] = qname
            drv = [src_name(g['args'][0])]
            stmts.append((f'{qname} = {kind}({drv[0]})', ['gate', qname, kind, drv]))
            if qn_bit is not None:
                k2 = rng.choice(cells.BENCH_KINDS['INV'])
                stmts.append((f'{bname(qn_bit)} = {k2}({qname})', ['gate', bname(qn_bit), k2, [qname]]))
            continue
        drv = [src_name(a) for a in g['args']]
        out = bname(g['res'][0])
        stmts.append((f"{out} = {kind}({', '.join(drv)})", ['gate', out, kind, drv]))
    for a in nl['assigns']:
        for t, s in zip(a['t'], a['s']):
            kind = rng.choice(cells.BENCH_KINDS['BUF'])
            d = src_name(s)
            stmts.append((f'{bname(t)} = {kind}({d})', ['gate', bname(t), kind, [d]]))
    stmts += extra
    # interface statements: bits in port-list order, inputs and outputs in separate statements, one or many names each
    intf = []
    ports = []
    cur = None
    for s in nl['portlist']:
        if s == nl['clk']: continue
        d = nl['sigs'][s]['dir']
        for b in sig_bits(s, nl['sigs'][s]):
            if cur is not None and cur[0] == d and rng.random() < 0.6: cur[1].append(bname(b))
            else:
                cur = [d, [bname(b)]]; intf.append(cur)
            ports.append(bname(b))
    istm = []
    for d, ns in intf:
        kwd = d.upper() if rng.random() < 0.6 else d
        istm.append((f"{kwd}({', '.join(ns)})", ['intf', list(ns)]))
        if len(ns) > 1: tags.append('multi-name-interface')
    mode = rng.choice(['iscas', 'shuffled', 'shuffled'])
    tags.append(f'order:{mode}')
    if mode == 'iscas':
        rng.shuffle(stmts); allst = istm + stmts
    else:
        # interface statements keep their relative order (it defines the port order) but are interleaved with the gates
        allst = list(stmts); rng.shuffle(allst)
        for k, st in enumerate(istm):
            pos = rng.randint(0, len(allst))
            allst.insert(pos, ('@', st))
        # restore relative order of interface statements
        slots = [i for i, x in enumerate(allst) if x[0] == '@']
        for sl, st in zip(slots, istm): allst[sl] = st
    lines = []
    for txt, _ in allst:
        if rng.random() < 0.25: txt = txt.replace(', ', rng.choice([',', ' , ', ',\n   '])).replace(' = ', rng.choice(['=', ' =', '  =  ']))
        if rng.random() < 0.15: txt += rng.choice([' # comment', '  # z = and(a, b)', '#'])
        lines.append(txt)
        if rng.random() < 0.1: lines.append(rng.choice(['# just a comment', '', '#INPUT(x)']))
    sep = rng.choice(['\n', '\n', '\r\n', ' ']) if not any('#' in l for l in lines) else rng.choice(['\n', '\r\n'])
    text = sep.join(lines) + rng.choice(['\n', ''])
    if '#' in text: tags.append('comment:#')
    return {'text': text, 'ast': [a for _, a in allst], 'names': m, 'ffs': ffs, 'ports': ports, 'tags': sorted(set(tags))}
