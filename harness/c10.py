"""C10 — copy, pickle, fork elimination and cell substitution preserve function."""
import itertools, json, pickle, random
import numpy as np
from . import common, circ

PID = 'C10'
TARGETS = ['KyupyVerif.Props.C10', 'KyupyVerif.Props.C10Datasheet', 'KyupyVerif.Props.C10Library']
RULE = ('(a) correspondence: Lean model dumps (Model/Transform.lean) vs real copy() / pickle round trip / '
        'eliminate_1to1_forks() on random circuits (Verilog- and bench-reader port styles, permuted node order so that state '
        'elements sit anywhere incl. last, fork dictionary order != index order), NNet.wf and NNet.forkIns1 (hypotheses of '
        'elim_sem) certified on every real dump, the index maps of elimForksInM compared with the identity of the real Node/Line '
        'objects; (a2) correspondence: Model/Substitute.lean (driver command subst) vs real substitute() on random hosts x '
        'random implementation circuits (bench style with/without 1:1 forks, Verilog style, cells of the five built-in '
        'libraries; multi-output, outputs read internally, inputs with 0/1/many readers, no output, empty, state elements, '
        'feed-through; unconnected / surplus instance pins, pins driven by gates or forks, permuted node orders), canonical '
        'dumps incl. names, raising cases must raise in both; resolve_tlib_cells() vs the model resolveCells (driver command '
        'resolve) on random circuits instantiating cells of the built-in and of synthetic libraries; '
        '(b) oracle: random primitive circuits and random circuits instantiating cells of the five built-in libraries x random '
        'compositions of {copy, pickle, eliminate_1to1_forks, resolve_tlib_cells, substitute by an equivalent small implementation}: '
        'truth table at ports + state elements (real LogicSim m=2, exhaustive <= 12 sources else 256 random rows, keyed by name) '
        'against the start circuit (library circuits: against a reference flattened by an independent inliner) and '
        '[n.name for n in c.s_nodes] after every step; (c) library sweep: every sampled cell of all five libraries x subsets of '
        'connected pins (quick: all-connected + 3 random subsets per cell; thorough: all subsets when <= 6 pins, 64 random '
        'otherwise): resolve must succeed, ports stay in the circuit, outputs/next state = implementation circuit with '
        'unconnected inputs 0; (d) synthetic TechLib(src) libraries: multi-output, outputs read internally, inputs with 0/1/many '
        'readers, empty implementation, state cell with QN listed first, random implementations. distinct = (start dump, steps) '
        'resp. (library, cell, pin subset); non-trivial = something was simulated and compared')

LIBS = ['GSC180', 'NANGATE', 'NANGATE_ZN', 'SAED32', 'SAED90']


def theorems():
    return common.theorems_of('KyupyVerif/Props/C10.lean', 'KV.C10')


def theorems_ds():
    """composition with C19 (separate module: it depends on the generated library tables) and the progress theorems with the
    kernel sweep over the generated implementation dumps (Props/C10Library.lean)"""
    return (common.theorems_of('KyupyVerif/Props/C10Datasheet.lean', 'KV.C10') +
            common.theorems_of('KyupyVerif/Props/C10Library.lean', 'KV.C10'))


def get_tlib(name):
    from kyupy import techlib
    if name in LIBS: return getattr(techlib, name)
    return synth_tlib(name)


_synth_cache = {}


def synth_tlib(src):
    from kyupy import techlib
    if src not in _synth_cache:
        with common.quiet():
            _synth_cache[src] = techlib.TechLib(src)
    return _synth_cache[src]


def is_state(kind):
    k = kind.lower()
    return 'dff' in k or 'latch' in k


# ---------------------------------------------------------------------------------------------------------------------
# circuits as JSON (independent of pickle/copy, which are under test) and structural helpers
def to_json(c):
    return {'nodes': [[n.name, n.kind] for n in c.nodes],
            'lines': [[l.driver.index, l.driver_pin, l.reader.index, l.reader_pin] for l in c.lines],
            'io': [n.index for n in c.io_nodes]}


def from_json(d):
    from kyupy.circuit import Circuit, Node, Line
    c = Circuit('t')
    for name, kind in d['nodes']: Node(c, name, kind)
    for a, ap, b, bp in d['lines']: Line(c, (c.nodes[a], ap), (c.nodes[b], bp))
    for i in d['io']: c.io_nodes.append(c.nodes[i])
    return c


def permuted(rng, c):
    """same circuit, nodes and lines created in a random order (state elements may end up anywhere, e.g. last)"""
    d = to_json(c)
    n = len(d['nodes'])
    perm = list(range(n)); rng.shuffle(perm)              # new position -> old index
    inv = {old: new for new, old in enumerate(perm)}
    lines = [[inv[a], ap, inv[b], bp] for a, ap, b, bp in d['lines']]
    rng.shuffle(lines)
    return from_json({'nodes': [d['nodes'][o] for o in perm], 'lines': lines, 'io': [inv[i] for i in d['io']]})


def shifted_dict_order(c):
    """a circuit whose fork dictionary order differs from the index order: a first dummy fork is created and removed"""
    from kyupy.circuit import Circuit, Node, Line
    d = to_json(c)
    c2 = Circuit('t')
    z = Node(c2, '__zz__')
    for name, kind in d['nodes']: Node(c2, name, kind)
    for a, ap, b, bp in d['lines']: Line(c2, (c2.nodes[a + 1], ap), (c2.nodes[b + 1], bp))
    for i in d['io']: c2.io_nodes.append(c2.nodes[i + 1])
    z.remove()
    return c2


def full_dump(c):
    return circ.dump_net(c) + ' ; ' + circ.dump_names(c)


def names_arg(c):
    return circ.dump_names(c) or '~'


def skey(n):
    return f"{'f' if n.kind == '__fork__' else 'c'}:{n.name}"


def s_names(c):
    return [n.name for n in c.s_nodes]


def ports_intact(c):
    return all(n.index < len(c.nodes) and c.nodes[n.index] is n for n in c.io_nodes)


def lines_intact(c):
    return all(l.driver is not None and l.reader is not None and l.driver.index < len(c.nodes) and c.nodes[l.driver.index] is l.driver
               and l.reader.index < len(c.nodes) and c.nodes[l.reader.index] is l.reader for l in c.lines)


def has_lib_cells(c, tlib):
    return tlib is not None and any(n.kind in tlib.cells for n in c.nodes)


# ---------------------------------------------------------------------------------------------------------------------
# observation: 2-valued truth table at ports + state elements, keyed by name
def capture_keys(c):
    return [skey(n) for n in c.s_nodes if len(n.ins) > 0 and n.ins[0] is not None]


def source_keys(c):
    return [skey(n) for n in c.s_nodes if (n.kind != '__fork__' and is_state(n.kind)) or not (len(n.ins) > 0 and n.ins[0] is not None)]


def make_rows(rng, keys, limit=12, nrand=256):
    keys = sorted(keys)
    if len(keys) <= limit:
        n = 2 ** len(keys)
        return {k: [(v >> j) & 1 for v in range(n)] for j, k in enumerate(keys)}, n
    return {k: [rng.randint(0, 1) for _ in range(nrand)] for k in keys}, nrand


def captured(node):
    """is something captured for this s_node: driven ports, and every state element (data pin unconnected = constant 0)"""
    return (node.kind != '__fork__' and is_state(node.kind)) or (len(node.ins) > 0 and node.ins[0] is not None)


def simulate(c, rows, n):
    """real LogicSim(m=2): assignment per s_node key -> captured bit columns {key: [bits]} for driven ports/state elements"""
    from kyupy import logic
    from kyupy.logic_sim import LogicSim
    sn = c.s_nodes
    if not any(captured(x) for x in sn) or len(c.lines) == 0: return {}
    stim = np.zeros((len(sn), n), dtype=np.uint8)
    for j, node in enumerate(sn):
        col = rows.get(skey(node))
        if col is not None: stim[j] = col
    with common.quiet():
        ls = LogicSim(c, n, m=2)
    ls.s[0] = logic.mv_to_bp((stim * 3).astype(np.uint8))
    ls.s[1] = 0xff            # whatever is not captured must not look like a 0
    ls.s_to_c(); ls.c_prop(); ls.c_to_s()
    s1 = logic.bp_to_mv(ls.s[1])[:, :n]
    out = {}
    for j, node in enumerate(sn):
        if captured(node): out[skey(node)] = [int(x) & 1 for x in s1[j]]
    return out


def nodata_keys(c):
    return {skey(x) for x in c.nodes if x.kind != '__fork__' and is_state(x.kind) and (len(x.ins) == 0 or x.ins[0] is None)}


def first_table_diff(ref, got, rows, n):
    for k in sorted(ref):
        if k not in got:
            return {'key': k, 'observed': 'not captured'}, {'key': k, 'expected': 'captured'}
        for r in range(n):
            if ref[k][r] != got[k][r]:
                return ({'key': k, 'row': {kk: v[r] for kk, v in rows.items()}, 'captured': got[k][r]},
                        {'key': k, 'captured': ref[k][r]})
    extra = sorted(set(got) - set(ref))
    if extra:
        return {'key': extra[0], 'observed': 'captured'}, {'key': extra[0], 'expected': 'not a capture point of the start circuit'}
    return None


# ---------------------------------------------------------------------------------------------------------------------
# reference flattening (independent of Circuit.substitute): every library instance is replaced by a private copy of its
# implementation; implementation ports become forks; the first state element of an instance gets the instance's name
def flatten(c, tlib, absent=False):
    """absent=True: an unconnected instance input is unconnected inside the copy too (kyupy's own reading of a missing pin)"""
    from kyupy.circuit import Circuit, Node, Line
    f = Circuit('flat')
    nmap, inp, outp = {}, {}, {}
    for n in c.nodes:
        if n.kind in tlib.cells:
            impl, pins = tlib.cells[n.kind]
            m, named = {}, False
            for q in impl.nodes:
                if q in impl.io_nodes and q.kind == '__fork__':
                    m[q.index] = Node(f, f'{n.name}~p~{q.name}')
                elif q.kind != '__fork__' and is_state(q.kind) and not named:
                    m[q.index] = Node(f, n.name, q.kind); named = True
                else:
                    m[q.index] = Node(f, f'{n.name}~{q.name}', q.kind)
            ins = [q for q in impl.io_nodes if len(q.ins) == 0]
            dead = set()
            if absent:
                dead = {q.index for k, q in enumerate(ins) if k >= len(n.ins) or n.ins[k] is None}
            for l in impl.lines:
                if l.driver.index in dead: continue
                Line(f, (m[l.driver.index], l.driver_pin), (m[l.reader.index], l.reader_pin))
            outs = [q for q in impl.io_nodes if len(q.ins) > 0]
            inp[n.index] = [m[q.index] for q in ins]
            outp[n.index] = [m[q.index] for q in outs]
        else:
            nmap[n.index] = Node(f, n.name, n.kind)
    for l in c.lines:
        d, r = l.driver, l.reader
        if d.index in nmap: dd = (nmap[d.index], l.driver_pin)
        else:
            if l.driver_pin >= len(outp[d.index]): continue
            dd = outp[d.index][l.driver_pin]                      # port fork of the copy: next free output
        if r.index in nmap: rr = (nmap[r.index], l.reader_pin)
        else:
            if l.reader_pin >= len(inp[r.index]): continue
            rr = (inp[r.index][l.reader_pin], 0)
        Line(f, dd, rr)
    for n in c.io_nodes: f.io_nodes.append(nmap[n.index])
    return f


def expected_state_names(c, tlib):
    """names of the state elements in s_nodes order that a resolved circuit must show: primitive state nodes and
    instances whose implementation holds a flip-flop (first) / a latch"""
    def cls(n):
        if tlib is not None and n.kind in tlib.cells:
            ks = [q.kind.lower() for q in tlib.cells[n.kind][0].nodes if q.kind != '__fork__']
            return 'dff' if any('dff' in k for k in ks) else 'latch' if any('latch' in k for k in ks) else None
        k = n.kind.lower()
        return 'dff' if 'dff' in k else 'latch' if 'latch' in k else None
    return [n.name for n in c.nodes if cls(n) == 'dff'] + [n.name for n in c.nodes if cls(n) == 'latch']


# ---------------------------------------------------------------------------------------------------------------------
# transformations
EQUIV = {   # kind -> bench text of a functionally equivalent implementation (pins in kyupy's pin order)
    'AND2': 'input(a,b) output(y) t=NAND2(a,b) y=INV1(t)',
    'OR2': 'input(a,b) output(y) ta=INV1(a) tb=INV1(b) y=NAND2(ta,tb)',
    'XOR2': 'input(a,b) output(y) o=OR2(a,b) n=NAND2(a,b) y=AND2(o,n)',
    'NAND2': 'input(a,b) output(y) y=NAND2(a,b)',
    'NOR2': 'input(a,b) output(y) t=OR2(a,b) y=INV1(t)',
    'INV1': 'input(a) output(y) t=BUF1(a) y=INV1(t)',
    'BUF1': 'input(a) output(y) t=INV1(a) y=INV1(t)',
    'AND3': 'input(a,b,c) output(y) t=AND2(a,b) y=AND2(t,c)',
    'XOR3': 'input(a,b,c) output(y) t=XOR2(a,b) y=XOR2(t,c)',
    'MUX21': 'input(a,b,s) output(y) ns=INV1(s) t0=AND2(a,ns) t1=AND2(b,s) y=OR2(t0,t1)',
    'AOI21': 'input(a,b,c) output(y) t=AND2(a,b) y=NOR2(t,c)',
    'OA21': 'input(a,b,c) output(y) t=OR2(a,b) y=AND2(t,c)',
    'AO22': 'input(a,b,c,d) output(y) t=AND2(a,b) u=AND2(c,d) y=OR2(t,u)',
    'OAI22': 'input(a,b,c,d) output(y) t=OR2(a,b) u=OR2(c,d) y=NAND2(t,u)',
    'AND4': 'input(a,b,c,d) output(y) t=AND2(a,b) u=AND2(c,d) y=AND2(t,u)',
    'DFF': 'input(d,c) output(q,qn) q=DFF(d,c) qn=INV1(q)',
    'LATCH': 'input(d,c) output(q) q=LATCH(d,c)',
}


def equiv_impl(kind, elim, tag=''):
    """tag makes the internal names unique: substitute() names new nodes '<instance>~<internal name>', so substituting the
    same instance twice with the same internal names collides (AssertionError) - the caller has to choose fresh names"""
    import re
    from kyupy import bench
    txt = EQUIV[kind]
    if tag: txt = re.sub(r'\b([a-z][a-z0-9]*)\b', lambda m_: m_.group(1) if m_.group(1) in ('input', 'output') else m_.group(1) + tag, txt)
    with common.quiet():
        impl = bench.parse(txt)
    if elim: impl.eliminate_1to1_forks()
    return impl


def subst_candidates(c):
    res = []
    for n in c.nodes:
        if n.kind in EQUIV and n not in c.io_nodes:
            impl = equiv_impl(n.kind, True)
            ni = sum(1 for q in impl.io_nodes if len(q.ins) == 0)
            no = len(impl.io_nodes) - ni
            # kyupy reads a node whose LAST pins are unconnected as the smaller primitive (AND3 with two pins = AND2), the
            # implementation would read 0 there: only nodes with a connected last pin are equivalent to their EQUIV text
            if len(n.ins) == ni and n.ins[ni - 1] is not None and len(n.outs) <= no: res.append(n.name)
    return res


def apply_step(c, step, tlib):
    """returns the transformed circuit (a new object for copy/pickle, the same object otherwise)"""
    op = step[0]
    if op == 'copy': return c.copy()
    if op == 'pickle': return pickle.loads(pickle.dumps(c))
    if op == 'elim':
        c.eliminate_1to1_forks(); return c
    if op == 'resolve':
        c.resolve_tlib_cells(tlib); return c
    if op == 'subst':
        node = c.cells[step[1]]
        c.substitute(node, equiv_impl(node.kind, step[2], step[3] if len(step) > 3 else '')); return c
    raise ValueError(step)


def classify_names(before, after, op, hidden):
    """class of a difference between two s_nodes name lists"""
    if sorted(before) == sorted(after):
        return {'elim': 'elim-state-order', 'subst': 'substitute-state-order'}.get(op, 'resolve-state-order')
    if set(after) - set(before) and set(after) - set(before) <= set(hidden) and not (set(before) - set(after)):
        return 'hidden-latch-kind'
    gone, new = set(before) - set(after), set(after) - set(before)
    if gone and all(any(a.startswith(g + '~') for a in new) for g in gone): return 'state-cell-renamed'
    if new and all(any(a.startswith(h + '~') for h in hidden) for a in new) and not gone: return 'state-cell-renamed'
    if gone: return 'dangling-state-removed'
    return 'state-names-changed'


def classify_raise(ex, c=None):
    if isinstance(ex, KeyError): return 'substitute-ignored-input'
    if isinstance(ex, AttributeError): return 'substitute-no-output-body'
    if isinstance(ex, IndexError): return 'elim-undriven-fork'
    return 'transform-raises'


def unconnected_data(c):
    return any(is_state(n.kind) and n.kind != '__fork__' and (len(n.ins) == 0 or n.ins[0] is None) for n in c.nodes)


def eval_compose(case):
    """case: {'kind':'compose', 'circuit': json, 'tlib': lib name / synthetic source / None, 'steps': [...], 'seed': int}
    -> list of findings [(cls, what, observed, expected)]; empty list = property held"""
    tlib = get_tlib(case['tlib']) if case.get('tlib') else None
    c0 = from_json(case['circuit'])
    rng = random.Random(case.get('seed', 0))
    out = []
    names0 = s_names(c0)
    hidden = [n for n in expected_state_names(c0, tlib) if n not in names0]
    # reference observation
    try:
        ref_c = flatten(c0, tlib) if has_lib_cells(c0, tlib) else c0
        rows, n = make_rows(rng, source_keys(ref_c))
        ref = simulate(ref_c, rows, n)
    except Exception as ex:
        return [('harness', f'reference simulation failed: {type(ex).__name__}: {ex}'[:300], None, None)], {}
    info = {'rows': n, 'captures': len(ref), 'ones': sum(sum(v) for v in ref.values()), 'hidden': len(hidden)}
    c = from_json(case['circuit'])
    prev = names0
    for step in case['steps']:
        try:
            c = apply_step(c, step, tlib)
        except Exception as ex:
            out.append((classify_raise(ex), f'{step[0]} raised {type(ex).__name__}: {ex}'[:300],
                        {'step': step, 'raised': type(ex).__name__}, {'step': step, 'raised': None}))
            return out, info
        if not ports_intact(c):
            out.append(('dangling-removes-ports', f'after {step[0]}: a port of io_nodes is no longer a node of the circuit',
                        {'step': step, 'io_nodes_in_circuit': [ports_intact(c)]}, {'io_nodes_in_circuit': [True]}))
            return out, info
        if not lines_intact(c):
            out.append(('dangling-removes-shared-logic', f'after {step[0]}: a line is driven/read by a node that is no longer in the circuit',
                        {'step': step, 'lines_intact': False}, {'lines_intact': True}))
            return out, info
        now = s_names(c)
        if now != prev:
            cls = classify_names(prev, now, step[0], hidden)
            out.append((cls, f'[n.name for n in c.s_nodes] changed by {step[0]}', {'step': step, 's_nodes': now}, {'s_nodes': prev}))
            if cls in ('dangling-state-removed', 'state-names-changed', 'state-cell-renamed'): return out, info
        prev = now
    if has_lib_cells(c, tlib):
        info['simulated'] = False
        if any(st[0] == 'resolve' for st in case['steps']):   # resolve_tlib_cells ran and left library cells behind
            left = sorted(x.name for x in c.nodes if x.kind in tlib.cells)
            out.append(('resolve-incomplete', 'after resolve_tlib_cells() the circuit still contains library cells',
                        {'unresolved': left[:6]}, {'unresolved': []}))
        return out, info
    try:
        got = simulate(c, rows, n)
    except Exception as ex:
        cls = 'unconnected-data-pin' if unconnected_data(c) else 'sim-raises'
        out.append((cls, f'LogicSim on the transformed circuit raised {type(ex).__name__}: {ex}'[:300],
                    {'raised': type(ex).__name__}, {'raised': None}))
        return out, info
    info['simulated'] = True
    nodata = nodata_keys(c)
    bad = sorted(k for k in nodata & set(ref) if got.get(k) != ref[k])
    if bad:
        out.append(('unconnected-data-pin', 'state element with unconnected data pin: the captured value is not the constant 0',
                    {'key': bad[0], 'captured': got.get(bad[0], [None])[:8]}, {'captured': ref[bad[0]][:8]}))
    ref = {k: v for k, v in ref.items() if k not in nodata}
    got = {k: v for k, v in got.items() if k not in nodata}
    gone = sorted(k for k in ref if k not in got and k[2:] in hidden)
    if gone:
        out.append(('dangling-removes-hidden-latch', 'a latch cell whose kind does not contain "latch" was removed as dangling logic while '
                    'another instance was resolved', {'missing_state': gone}, {'state_elements': gone}))
        ref = {k: v for k, v in ref.items() if k not in gone}
    d = first_table_diff(ref, got, rows, n)
    if d is not None:
        cls = 'function-changed'
        if has_lib_cells(c0, tlib):
            try:
                alt = simulate(flatten(c0, tlib, absent=True), rows, n)
                alt = {k: v for k, v in alt.items() if k not in nodata}
                if first_table_diff(alt, got, rows, n) is None: cls = 'unconnected-pin-arity'
            except Exception:
                pass
        out.append((cls, 'captured value at a port / state element differs from the start circuit', d[0], d[1]))
    return out, info


# ---------------------------------------------------------------------------------------------------------------------
# library sweep
def build_instance(tlib, kind, pins, forks):
    from kyupy.circuit import Circuit, Node, Line
    pd = tlib.cells[kind][1]
    c = Circuit('t')
    u = Node(c, 'u', kind)
    for p in pins:
        idx, isout = pd[p]
        if isout:
            o = Node(c, p, 'output'); c.io_nodes.append(o)
            if forks:
                f = Node(c, p); Line(c, (u, idx), f); Line(c, f, o)
            else: Line(c, (u, idx), o)
        else:
            i = Node(c, p, 'input'); c.io_nodes.append(i)
            if forks:
                f = Node(c, p); Line(c, i, f); Line(c, f, (u, idx))
            else: Line(c, i, (u, idx))
    return c


_impl_cache = {}


def impl_table(tlibname, tlib, kind, conn_inputs, absent=False):
    """implementation circuit simulated by the real LogicSim: rows over the connected inputs + state, other inputs 0.
    returns (rows over pin/state keys, n, {pin or '$state': column})"""
    impl, pd = tlib.cells[kind]
    key = (tlibname, id(impl), tuple(sorted(conn_inputs)), absent)
    if key in _impl_cache: return _impl_cache[key]
    if absent:   # the unconnected input ports drive nothing inside the implementation
        d = to_json(impl)
        dead = {q.index for q in impl.io_nodes if len(q.ins) == 0 and q.name not in conn_inputs}
        d['lines'] = [l for l in d['lines'] if l[0] not in dead]
        impl = from_json(d)
    state = [q for q in impl.nodes if q.kind != '__fork__' and is_state(q.kind)]
    keys = sorted(conn_inputs) + (['$state'] if state else [])
    n = 2 ** len(keys)
    rows = {k: [(v >> j) & 1 for v in range(n)] for j, k in enumerate(keys)}
    irow = {}
    for q in impl.s_nodes:
        if q in impl.io_nodes:
            if len(q.ins) == 0 and q.name in rows: irow[skey(q)] = rows[q.name]
        else: irow[skey(q)] = rows['$state']
    res = {}
    if any(len(q.ins) > 0 for q in impl.s_nodes):
        cap = simulate(impl, irow, n)
        for q in impl.s_nodes:
            if skey(q) in cap: res[q.name if q in impl.io_nodes else '$state'] = cap[skey(q)]
    _impl_cache[key] = (rows, n, res)
    return _impl_cache[key]


def eval_cell(case):
    """case: {'kind':'cell', 'lib': name or synthetic src, 'cell': kind, 'pins': [...], 'forks': bool}"""
    tlib = get_tlib(case['lib'])
    kind, pins = case['cell'], case['pins']
    impl, pd = tlib.cells[kind]
    c = build_instance(tlib, kind, pins, case['forks'])
    out, info = [], {}
    names0 = s_names(c)
    has_state = any(q.kind != '__fork__' and is_state(q.kind) for q in impl.nodes)
    try:
        c.resolve_tlib_cells(tlib)
    except Exception as ex:
        return [(classify_raise(ex), f'resolve_tlib_cells raised {type(ex).__name__}: {ex}'[:300],
                 {'raised': type(ex).__name__}, {'raised': None})], info
    if not ports_intact(c):
        return [('dangling-removes-ports', 'a port of io_nodes is no longer a node of the circuit after resolve_tlib_cells '
                 '(remove_dangling_nodes walked through it)', {'nodes': len(c.nodes), 'io_nodes': len(c.io_nodes)},
                 {'io_nodes_in_circuit': True})], info
    if not lines_intact(c):
        return [('dangling-removes-shared-logic', 'after resolve_tlib_cells a line is driven/read by a node that is no longer in the circuit',
                 {'lines_intact': False}, {'lines_intact': True})], info
    now = s_names(c)
    want = list(pins) + (['u'] if has_state else [])
    if now != names0:
        cls = classify_names(names0, now, 'resolve', ['u'] if has_state else [])
        out.append((cls, '[n.name for n in c.s_nodes] changed by resolve_tlib_cells', {'s_nodes': now}, {'s_nodes': names0}))
    if now != want:
        if not any(o[0] in ('dangling-state-removed', 'state-names-changed', 'state-cell-renamed') for o in out):
            cls = ('state-cell-renamed' if any(x.startswith('u~') for x in now) else
                   'dangling-state-removed' if has_state and 'u' not in now else 'state-names-changed')
            out.append((cls, 'state element of the instance missing / renamed after resolve_tlib_cells', {'s_nodes': now}, {'s_nodes': want}))
        return out, info
    conn_in = [p for p in pins if not pd[p][1]]
    rows, n, exp = impl_table(case['lib'], tlib, kind, conn_in)
    want_keys = {p: f'c:{p}' for p in pins if pd[p][1]}
    if has_state: want_keys['$state'] = 'c:u'
    if not want_keys or not len(c.nodes) or not len(c.lines):
        info['simulated'] = False
        return out, info
    crow = {f'c:{p}': rows[p] for p in conn_in}
    if has_state: crow['c:u'] = rows['$state']
    try:
        got = simulate(c, crow, n)
    except Exception as ex:
        cls = 'unconnected-data-pin' if unconnected_data(c) else 'sim-raises'
        out.append((cls, f'LogicSim on the resolved instance raised {type(ex).__name__}: {ex}'[:300],
                    {'raised': type(ex).__name__}, {'raised': None}))
        return out, info
    info.update(simulated=True, rows=n, ones=sum(sum(v) for v in got.values()), captures=len(got))
    for k, ck_ in sorted(want_keys.items()):
        if k not in exp: continue
        if ck_ not in got:
            out.append(('function-changed', f'{k} not captured after resolve', {'key': ck_}, {'key': ck_, 'captured': True}))
            break
        for r in range(n):
            if exp[k][r] != got[ck_][r]:
                cls = 'function-changed'
                if k == '$state' and unconnected_data(c): cls = 'unconnected-data-pin'
                elif len(conn_in) < sum(1 for p in pd if not pd[p][1]):
                    try:
                        _, _, alt = impl_table(case['lib'], tlib, kind, conn_in, absent=True)
                        if all(alt.get(kk) == got.get(cc) for kk, cc in want_keys.items() if kk in alt and cc in got): cls = 'unconnected-pin-arity'
                    except Exception:
                        pass
                out.append((cls, 'resolved instance differs from its implementation circuit (unconnected inputs = 0)',
                            {'pin': k, 'row': {kk: v[r] for kk, v in rows.items()}, 'value': got[ck_][r]}, {'pin': k, 'value': exp[k][r]}))
                break
        else: continue
        break
    return out, info


# D32 (fixed): an implementation whose walk for the designated cell ends at one of its ports (Verilog-style feed-through input cell ->
# fork -> output cell as first output). Before the repair substitute() gave the instance the kind of the port cell and copied the line
# port cell -> fork, whose reader pin was then taken by the instance's own input line: the circuit was no longer well-formed (Lean
# witness C10.substitute_designated_port_not_wf about the earlier rule), and a following copy() / pickle round trip connected the fork
# to the stale line. Since the repair such an implementation has no designated cell (C10.substitute_feedthrough_repaired).
# The case is replayed every run from corpus/C10-designated-port.json: a violation if the behaviour returns.
FEEDTHROUGH = {'kind': 'subst-copy', 'cell': 'u',
               'host': {'nodes': [['i', 'input'], ['u', 'CELL'], ['o', 'output']], 'lines': [[0, 0, 1, 0], [1, 0, 2, 0]], 'io': [0, 2]},
               'impl': {'nodes': [['A', 'input'], ['a', '__fork__'], ['X', 'output']], 'lines': [[0, 0, 1, 0], [1, 0, 2, 0]], 'io': [0, 2]}}


def eval_subst_copy(case):
    """case: {'kind':'subst-copy', 'host': json, 'impl': json, 'cell': name}: substitute(cell, impl), then copy(): the function at the
    ports / state elements must survive both, and the result of substitute must be a well-formed dump (up to trailing None)"""
    c, impl = from_json(case['host']), from_json(case['impl'])
    keys = source_keys(c)
    rows, n = make_rows(random.Random(0), keys)
    ref = simulate(c, rows, n) if not has_lib_cells_kind(c, case['cell']) else None
    try:
        c.substitute(c.cells[case['cell']], impl)
    except Exception as ex:
        return [], {'raised': type(ex).__name__}
    out = []
    wfnt = common.run_driver([f'xform wfnt {names_arg(c)} {circ.dump_net(c)}'])[0]
    try:
        a = simulate(c, rows, n)
        b = simulate(c.copy(), rows, n)
    except Exception as ex:
        return [('substitute-designated-port', f'simulation after substitute / copy raised {type(ex).__name__}: {ex}'[:300],
                 {'wfNoTrail': wfnt}, {'wfNoTrail': '1'})], {}
    if a != b:
        d = first_table_diff(a, b, rows, n)
        out.append(('substitute-designated-port', 'copy() after substitute() changes the function', {'wfNoTrail': wfnt, 'diff': d},
                    {'wfNoTrail': '1', 'same_function': True}))
    elif wfnt != '1':
        out.append(('substitute-designated-port', 'substitute() returns a circuit that is not well-formed', {'wfNoTrail': wfnt}, {'wfNoTrail': '1'}))
    return out, {'wfNoTrail': wfnt}


def has_lib_cells_kind(c, name):
    return True     # the instance is not simulable before the substitution: no reference before


def eval_case(case):
    if case['kind'] == 'subst-copy':
        f, _ = eval_subst_copy(case)
        if not f: return True, None, None
        return False, {'class': f[0][0], 'what': f[0][1], 'observed': f[0][2], 'all_classes': [x[0] for x in f]}, f[0][3]
    f, _ = (eval_compose if case['kind'] == 'compose' else eval_cell)(case)
    if not f: return True, None, None
    return False, {'class': f[0][0], 'what': f[0][1], 'observed': f[0][2], 'all_classes': [x[0] for x in f]}, f[0][3]


# ---------------------------------------------------------------------------------------------------------------------
# generators
def lib_groups(tlib):
    """cells grouped by implementation object (size variants share it)"""
    g = {}
    for name, (impl, pd) in tlib.cells.items(): g.setdefault(id(impl), []).append(name)
    return list(g.values())


def cell_features(tlib, kind):
    impl, pd = tlib.cells[kind]
    ins = [q for q in impl.io_nodes if len(q.ins) == 0]
    outs = [q for q in impl.io_nodes if len(q.ins) > 0]
    f = []
    if any(len(q.outs) == 0 for q in ins): f.append('in0readers')
    if any(len(q.outs) == 1 for q in ins): f.append('in1reader')
    if any(len(q.outs) > 1 for q in ins): f.append('inNreaders')
    if len(outs) > 1: f.append('multiout')
    if len(outs) == 0: f.append('noout')
    if any(len(q.outs) > 0 for q in outs): f.append('outread')
    if len(impl.nodes) == 0: f.append('empty')
    if any(q.kind != '__fork__' and is_state(q.kind) for q in impl.nodes): f.append('state')
    return f


def rand_lib_circuit(rng, tlib, n_inst=None, p_unconn_in=0.08, p_unconn_out=0.15, special=None, only=None):
    """random circuit instantiating library cells (Verilog-reader style: port cells and signal forks)"""
    from kyupy.circuit import Circuit, Node, Line
    c = Circuit('lib')
    sigs = []
    for i in range(rng.randint(1, 5)):
        n = Node(c, f'i{i}', 'input'); f = Node(c, f'i{i}'); Line(c, n, f); c.io_nodes.append(n); sigs.append(f)
    groups = lib_groups(tlib)
    n_inst = n_inst or rng.randint(1, 7)
    for k in range(n_inst):
        special = [k for k in (special or []) if k in tlib.cells]
        kind = rng.choice(special) if special and rng.random() < 0.5 else rng.choice(rng.choice(groups))
        if only: kind = rng.choice(only)          # instances of the given kinds only (cells certified for resolve_datasheet_sem)
        pd = tlib.cells[kind][1]
        u = Node(c, f'u{k}', kind)
        for p, (idx, isout) in pd.items():
            if not isout and rng.random() >= p_unconn_in:
                Line(c, rng.choice(sigs), (u, idx))
        for p, (idx, isout) in pd.items():
            if isout and rng.random() >= p_unconn_out:
                f = Node(c, f'n{k}_{p}'); Line(c, (u, idx), f); sigs.append(f)
        if rng.random() < 0.25:   # a primitive gate in between
            g = Node(c, f'g{k}', rng.choice(['AND2', 'XOR2', 'NOR2', 'INV1'])); f = Node(c, f'g{k}')
            for pin in range(1 if g.kind == 'INV1' else 2): Line(c, rng.choice(sigs), (g, pin))
            Line(c, g, f); sigs.append(f)
    for o in range(rng.randint(1, 4)):
        n = Node(c, f'o{o}', 'output'); Line(c, rng.choice(sigs[-max(3, len(sigs) // 2):]), n); c.io_nodes.append(n)
    return c


SYNTH_FIXED = r"""
M2   input(A,B)   output(X,Y)   X=AND2(A,B) Y=OR2(A,B) ;
RI   input(A,B)   output(X,Y)   X=AND2(A,B) Y=INV1(X) ;
RI3  input(A,B)   output(X,Y,Z) X=XOR2(A,B) Y=BUF1(X) Z=NAND2(X,Y) ;
IG   input(A,B)   output(X)     X=BUF1(A) ;
IG2  input(A,B,C) output(X,Y)   X=INV1(B) Y=BUF1(B) ;
MR   input(A,B)   output(X,Y)   X=INV1(A) Y=AOI21(A,B,A) ;
E0   ;
E1   input(A) ;
E2   input(A,B) ;
C1   output(X) X=__const1__() ;
DFFQN input(D,C)  output(QN,Q)  Q=DFF(D,C) QN=INV1(Q) ;
SDFFE input(D,C,E) output(Q,QN,S) DE=AND2(D,E) Q=DFF(DE,C) QN=INV1(Q) S=BUF1(Q) ;
LATCHQ input(D,G)  output(Q)     Q=LATCH(D,G) ;
TLQ  input(D,G)   output(Q)     Q=LATCH(D,G) ;
DFFNO input(D,C) X=DFF(D,C) ;
"""


def rand_synth_lib(rng):
    """fixed shape cells + random implementations in bench syntax"""
    txt = SYNTH_FIXED
    prims = {1: ['BUF1', 'INV1'], 2: ['AND2', 'OR2', 'XOR2', 'NAND2', 'NOR2', 'XNOR2'], 3: ['AND3', 'AO21', 'OAI21', 'MUX21', 'XOR3'],
             4: ['AO22', 'OAI22', 'NOR4', 'AOI211']}
    for k in range(rng.randint(2, 5)):
        ni, ng = rng.randint(0, 4), rng.randint(0, 5)
        ins = [f'I{j}' for j in range(ni)]
        sig = list(ins)
        gates = []
        for g in range(ng):
            ar = rng.choice([1, 2, 2, 3, 4])
            if not sig: kind, args = rng.choice(['__const0__', '__const1__']), []
            else: kind, args = rng.choice(prims[ar]), [rng.choice(sig) for _ in range(ar)]
            gates.append((f'G{g}', kind, args)); sig.append(f'G{g}')
        no = rng.randint(0, min(3, ng))
        outs = rng.sample([g[0] for g in gates], no) if no else []
        body = ' '.join(f'{n}={kd}({",".join(a)})' for n, kd, a in gates if True)
        txt += f"R{k} {'input(' + ','.join(ins) + ')' if ins else ''} {'output(' + ','.join(outs) + ')' if outs else ''} {body} ;\n"
    return txt


# ---------------------------------------------------------------------------------------------------------------------
# runs
def report(ck, case, findings, key, nontrivial, sample, tags):
    ck.case(key=key, nontrivial=nontrivial, sample=sample, tag=tags)
    seen = set()
    for cls, what, obs, exp in findings:
        if cls in seen: continue
        seen.add(cls)
        ck.hist['finding:' + cls] += 1
        by = ck.extra.setdefault('findings_by_class', {})
        by[cls] = by.get(cls, 0) + 1
        if cls == 'harness':
            ck.broken_tie('reference simulation', what, inp=case)
            continue
        if by[cls] <= 2:    # two replays per class, so that every class is represented among the recorded violations
            ck.violation(cls, WHAT.get(cls, what), case, {'class': cls, 'what': what, 'observed': obs}, exp)


WHAT = {
    'substitute-ignored-input': 'substitute()/resolve_tlib_cells() raise KeyError for a cell whose implementation ignores a connected input pin',
    'substitute-no-output-body': 'substitute()/resolve_tlib_cells() raise AttributeError for an implementation with internal nodes but without output (Node.__eq__(None))',
    'unconnected-data-pin': 'a flip-flop/latch cell instance whose data pin is unconnected resolves, but the result cannot be simulated (SimOps raises)',
    'elim-state-order': 'eliminate_1to1_forks() changes the order of the state elements in s_nodes (swap-with-last node deletion)',
    'resolve-incomplete': 'resolve_tlib_cells() leaves library cells unresolved',
    'resolve-state-order': 'resolve_tlib_cells()/substitute() change the order of the state elements in s_nodes (Node.remove swaps the last node into the hole)',
    'substitute-state-order': 'substitute() of a node with an unconnected output removes nodes and thereby changes the order of the state elements in s_nodes',
    'elim-undriven-fork': 'eliminate_1to1_forks() raises IndexError for a non-port fork with one reader and no driver (left behind by resolve_tlib_cells for an unconnected instance pin)',
    'dangling-removes-shared-logic': 'substitute(): remove_dangling_nodes for an unconnected output runs before the later outputs are connected and removes logic they share',
    'dangling-removes-hidden-latch': "resolve_tlib_cells(): remove_dangling_nodes walks upstream out of the substituted cell and removes a not yet resolved latch instance (kind without 'latch')",
    'dangling-removes-ports': 'resolving an instance whose outputs are unconnected removes the port nodes that feed it (they stay in io_nodes)',
    'dangling-state-removed': 'resolving a flip-flop/latch instance whose outputs are unconnected removes the state element from s_nodes',
    'hidden-latch-kind': "s_nodes of the unresolved circuit omits latch cells whose kind does not contain 'latch' (TLAT*, DLH_*, DLL_*); they appear after resolve_tlib_cells()",
    'unconnected-pin-arity': 'an instance with an unconnected input pin: the resolved primitive is simulated with the pin ABSENT (NAND3 with 2 connected pins = NAND2), '
                             'not with the pin reading 0 as in the implementation circuit',
    'state-cell-renamed': 'the state element of a substituted cell gets the name <instance>~<internal> because the first output is not driven by it',
    'function-changed': 'the Boolean function at a port / state element changed',
    'substitute-designated-port': 'substitute() with an implementation whose designated cell is one of its ports (Verilog-style feed-through as '
                                  'first output) returns a circuit that is not well-formed; copy() / pickle of it change the function',
}


WITNESS = {'nodes': [['a', 'input'], ['a', '__fork__'], ['A', 'DFF'], ['o', 'output'], ['o2', 'output'], ['B', 'DFF']],
           'lines': [[0, 0, 1, 0], [1, 0, 2, 0], [2, 0, 3, 0], [2, 1, 5, 0], [5, 0, 4, 0]], 'io': [0, 3, 4]}   # = KV.C10.exOrder


UNDRIVEN = {'nodes': [['a', 'input'], ['x', '__fork__'], ['g', 'AND2'], ['o', 'output']],
            'lines': [[0, 0, 2, 0], [1, 0, 2, 1], [2, 0, 3, 0]], 'io': [0, 3]}      # fork x: one reader, no driver


def probe_mode():
    """which of the modelled behaviours eliminate_1to1_forks shows. First letter: 'swap' (the last node moves into the freed
    slot, the current tree; theorem elim_state_order_false) or 'stable' (node order restored afterwards, patch 03; theorem
    elim_stable_snames). Second: 'raise' (a non-port fork without driver raises IndexError, current tree) or 'skip' (patch 06)"""
    c = from_json(WITNESS)
    before = s_names(c)
    c.eliminate_1to1_forks()
    order = 'stable' if s_names(c) == before else 'swap'
    c = from_json(UNDRIVEN)
    try:
        c.eliminate_1to1_forks(); guard = 'skip'
    except Exception:
        guard = 'raise'
    return order, guard


def add_undriven_fork(rng, c):
    """a non-port fork without driver feeding one free gate pin (what an unconnected instance pin leaves behind)"""
    from kyupy.circuit import Node, Line
    gates = [n for n in c.nodes if n.kind != '__fork__' and n not in c.io_nodes and not is_state(n.kind) and len(n.ins) < 4
             and n.kind.lower() not in ('__const0__', '__const1__', 'tieh', 'tiel') and len(n.ins) >= 1]
    if not gates: return False
    g = rng.choice(gates)
    f = Node(c, '__undriven__'); Line(c, f, (g, len(g.ins)))
    return True


def corr(ck, n, mode=('swap', 'raise')):
    rng = ck.rng
    elim_removed = 0
    ecmd = f"elimin{int(mode[0] == 'stable')}{int(mode[1] == 'skip')}"
    for it in range(n):
        style = rng.choice(['v', 'v', 'b'])
        c = circ.rand_circuit(rng, style=style)
        variant = rng.choice(['plain', 'perm', 'perm', 'dict', 'undriven'])
        if variant == 'undriven' and not add_undriven_fork(rng, c): variant = 'perm'
        if variant == 'perm': c = permuted(rng, c)
        elif variant == 'dict': c = shifted_dict_order(c)
        d0, nm = circ.dump_net(c), names_arg(c)
        order = ','.join(circ.pct(k) for k in c.forks)
        reqs = [f'xform wfsem {nm} {d0}', f'xform copy {nm} {d0}', f'xform pickle {nm} {d0}', f'xform {ecmd}:{order} {nm} {d0}']
        real = ['1', full_dump(c.copy()), full_dump(pickle.loads(pickle.dumps(c)))]
        ce = from_json(to_json(c)) if variant != 'dict' else c
        nodes_before = len(ce.nodes)
        node_was = {id(x): x.index for x in ce.nodes}       # object identity -> index before (the maps of theorem elim_sem)
        line_was = {id(x): x.index for x in ce.lines}
        try:
            ce.eliminate_1to1_forks(); real.append(full_dump(ce))
        except Exception:
            real.append('raise')
        elim_removed += nodes_before - len(ce.nodes)
        maps_checked = mode[0] == 'swap'
        if maps_checked:     # index maps of the loop: model (elimForksInM) vs object identity in the real circuit
            reqs.append(f"xform elimmap{int(mode[1] == 'skip')}:{order} {nm} {d0}")
            real.append('raise' if real[-1] == 'raise' else
                        ','.join(str(node_was[id(x)]) for x in ce.nodes) + ' ; ' + ','.join(str(line_was[id(x)]) for x in ce.lines))
        # second round: model on the dump of the real result (dictionary order of the survivors != index order)
        if real[-1] != 'raise' and rng.random() < 0.5:
            order2 = ','.join(circ.pct(k) for k in ce.forks)
            reqs.append(f'xform {ecmd}:{order2} {names_arg(ce)} {circ.dump_net(ce)}')
            reqs.append(f'xform copy {names_arg(ce)} {circ.dump_net(ce)}')
            c3 = ce.copy(); c3.eliminate_1to1_forks()
            real += [full_dump(c3), full_dump(ce.copy())]
        try:
            out = common.run_driver(reqs)
        except Exception as ex:
            ck.broken_tie('transformation model correspondence', f'driver: {type(ex).__name__}: {ex}'[:300], inp={'net': d0, 'names': nm})
            continue
        labels = ['wf certificate (NNet.wf and NNet.forkIns1 on the real dump)', 'copy', 'pickle', 'eliminate_1to1_forks'] + \
                 (['eliminate_1to1_forks index maps (object identity)'] if maps_checked else []) + \
                 ['eliminate_1to1_forks (2nd)', 'copy (after elimination)']
        for lab, m, r in zip(labels, out, real):
            if m != r:
                ck.broken_tie(f'transformation model correspondence: {lab}', f'model {m[:240]} != real {r[:240]}',
                              inp={'net': d0, 'names': nm, 'fork_order': order})
        ck.case(key=('corr', d0, nm), nontrivial=len(c.lines) >= 4, tag=['stream:corr', f'corr-variant:{variant}', f'style:{style}'])
    ck.extra['corr_nodes_removed_by_elimination'] = elim_removed


# ---------------------------------------------------------------------------------------------------------------------
# substitute(): model (Model/Substitute.lean, driver command `subst`) vs real code, canonical dumps
IMPL_PRIMS = {1: ['BUF1', 'INV1'], 2: ['AND2', 'OR2', 'XOR2', 'NAND2', 'NOR2'], 3: ['AND3', 'AO21', 'MUX21'], 4: ['AO22', 'NOR4']}


def rand_impl(rng):
    """random implementation circuit. bench style (ports are forks, as TechLib builds them; 1:1 forks eliminated or not) or
    Verilog style (port cells around forks). Shapes: multi-output, outputs read internally, inputs with 0/1/many readers,
    no output, empty, state elements, constants, feed-through."""
    from kyupy import bench
    from kyupy.circuit import Circuit, Node, Line
    shape = rng.choice(['rand', 'rand', 'rand', 'rand', 'empty', 'inputs-only', 'noout', 'const', 'state', 'vstyle', 'vstyle'])
    if shape == 'empty': return Circuit('impl'), ['empty']
    ni = rng.randint(0, 4)
    ins = [f'I{j}' for j in range(ni)]
    if shape == 'inputs-only':
        with common.quiet(): c = bench.parse(f"input({','.join(ins)})" if ins else '')
        return c, ['inputs-only']
    sig, gates = list(ins), []
    ng = rng.randint(1, 6)
    for g in range(ng):
        if shape == 'state' and g == rng.randint(0, ng - 1) and sig:
            kind, args = rng.choice(['DFF', 'LATCH', 'dff']), [rng.choice(sig) for _ in range(rng.randint(1, 2))]
        elif not sig or (shape == 'const' and g == 0): kind, args = rng.choice(['__const0__', '__const1__']), []
        else:
            ar = rng.choice([1, 2, 2, 3, 4])
            kind, args = rng.choice(IMPL_PRIMS[ar]), [rng.choice(sig) for _ in range(ar)]
        gates.append((f'G{g}', kind, args)); sig.append(f'G{g}')
    no = 0 if shape == 'noout' else rng.randint(1, min(3, ng))
    outs = rng.sample([g[0] for g in gates], no)
    if shape == 'vstyle':
        c = Circuit('impl')
        forks = {}
        for a in ins:
            n = Node(c, a, 'input'); c.io_nodes.append(n); forks[a] = Node(c, a); Line(c, n, forks[a])
        tags = ['vstyle']
        # output ports created as soon as their signal exists: the port's line gets a LOWER fork pin than later readers, so an open
        # instance pin leaves a gap in the copied fork (shape of D30)
        early = rng.random() < 0.4
        if ins and rng.random() < 0.12:    # feed-through as FIRST output: the walk for the designated cell ends at a port (shape of D32)
            n = Node(c, 'ft0_o', 'output'); c.io_nodes.append(n); Line(c, forks[rng.choice(ins)], n); tags.append('feedthrough-first')
        done = set()
        for name, kind, args in gates:
            cell = Node(c, name, kind); forks[name] = Node(c, name); Line(c, cell, forks[name])
            for a in args: Line(c, forks[a], cell)
            if early and name in outs:
                n = Node(c, name + '_o', 'output'); c.io_nodes.append(n); Line(c, forks[name], n); done.add(name)
        if done: tags.append('early-out-ports')
        for o in outs:
            if o in done: continue
            n = Node(c, o + '_o', 'output'); c.io_nodes.append(n); Line(c, forks[o], n)
        if ins and rng.random() < 0.15:    # feed-through: an input port wired to an output port
            n = Node(c, 'ft_o', 'output'); c.io_nodes.append(n); Line(c, forks[rng.choice(ins)], n)
    else:
        txt = (f"input({','.join(ins)}) " if ins else '') + (f"output({','.join(outs)}) " if outs else '') + \
              ' '.join(f"{n}={kd}({','.join(a)})" for n, kd, a in gates)
        with common.quiet(): c = bench.parse(txt)
        tags = [shape]
    if rng.random() < 0.6:
        try: c.eliminate_1to1_forks(); tags.append('elim')
        except Exception: pass
    if rng.random() < 0.2: c = permuted(rng, c); tags.append('perm')
    return c, tags


def impl_features(impl):
    ins = [q for q in impl.io_nodes if len(q.ins) == 0]
    outs = [q for q in impl.io_nodes if len(q.ins) > 0]
    f = []
    if any(len(q.outs) == 0 for q in ins): f.append('in0readers')
    if any(len(q.outs) == 1 for q in ins): f.append('in1reader')
    if any(len(q.outs) > 1 for q in ins): f.append('inNreaders')
    if len(outs) > 1: f.append('multiout')
    if len(outs) == 0: f.append('noout')
    if any(len(q.outs) > 0 for q in outs): f.append('outread')
    if len(impl.nodes) == 0: f.append('empty')
    if any(q.kind != '__fork__' and is_state(q.kind) for q in impl.nodes): f.append('state')
    return f


def rand_host(rng, impl):
    """random circuit with an instance `u` whose pins match the ports of `impl` (sometimes fewer / unconnected / one more)"""
    from kyupy.circuit import Node, Line
    c = circ.rand_circuit(rng, style=rng.choice(['v', 'v', 'b']), n_gates=rng.randint(1, 8), n_ff=rng.choice([0, 0, 1, 2]))
    ni = sum(1 for q in impl.io_nodes if len(q.ins) == 0)
    no = len(impl.io_nodes) - ni
    sigs = [n for n in c.nodes if n.kind == '__fork__']
    u = Node(c, 'u', rng.choice(['CELLX1', 'DFFCELL', 'LATCHQ', 'CELLX1']))
    p_in, p_out = rng.choice([0.0, 0.1, 0.3]), rng.choice([0.0, 0.0, 0.2, 0.5])
    tags = []
    for k in range(ni + (1 if rng.random() < 0.03 else 0)):
        if rng.random() < p_in: tags.append('unconn-in'); continue
        if rng.random() < 0.2:    # driven 1:1 by a gate of its own (the driver of the pin is not a fork)
            g = Node(c, f'hd{k}', rng.choice(['INV1', 'BUF1'])); Line(c, rng.choice(sigs), g); Line(c, g, (u, k))
        else: Line(c, rng.choice(sigs), (u, k))
    for k in range(no + (1 if rng.random() < 0.03 else 0)):
        if rng.random() < p_out: tags.append('unconn-out'); continue
        r = rng.random()
        if r < 0.6:
            f = Node(c, f'n{k}'); Line(c, (u, k), f)
            for _ in range(rng.randint(0, 2)):
                t = rng.random()
                if t < 0.5:
                    o = Node(c, f'uo{k}_{len(c.nodes)}', 'output'); Line(c, f, o); c.io_nodes.append(o)
                else:
                    g = Node(c, f'ug{k}_{len(c.nodes)}', rng.choice(['AND2', 'XOR2'])); Line(c, f, g); Line(c, rng.choice(sigs), g)
                    gf = Node(c, g.name); Line(c, g, gf); sigs.append(gf)
        else:
            o = Node(c, f'uo{k}', 'output'); Line(c, (u, k), o); c.io_nodes.append(o)
    if rng.random() < 0.5: c = permuted(rng, c); tags.append('host-perm')
    return c, tags


def lib_impl(rng):
    """implementation circuit of a random cell of a built-in library (a fresh copy: substitute must not see shared objects)"""
    lname = rng.choice(LIBS)
    tlib = get_tlib(lname)
    pool = [k for k in SPECIAL.get(lname, []) if k in tlib.cells] if rng.random() < 0.4 else []
    kind = rng.choice(pool) if pool else rng.choice(rng.choice(lib_groups(tlib)))
    return from_json(to_json(tlib.cells[kind][0])), ['lib', f'lib-{lname}']


def is_regular(c, u, impl):
    """the case of theorems substitute_regular / substitute_wiring (model predicate regularB)"""
    ins = [q for q in impl.io_nodes if len(q.ins) == 0]
    outs = [q for q in impl.io_nodes if len(q.ins) > 0]
    if not any(q.kind != '__fork__' and is_state(q.kind) for q in impl.nodes):
        if not outs: return False
        # the designated cell: walk from the first output through forks that are no ports; a port is no designated cell (repair of D32)
        try:
            q, ios = outs[0].ins[0].driver, set(impl.io_nodes)
            for _ in range(len(impl.nodes) + 1):
                if not (q.kind == '__fork__' and q not in ios): break
                q = q.ins[0].driver
            if q in ios: return False
        except Exception:
            pass                            # the real call raises: not compared
    if len(u.ins) > len(ins) or len(u.outs) != len(outs) or any(l is None for l in u.outs): return False
    return all(l is None or len(q.outs) > 0 for q, l in zip(ins, list(u.ins)))


def corr_subst(ck, n):
    rng = ck.rng
    raised = changed = covered = covered_rm = covered_gap = covered_gen = covered_gen_ign = covered_gen_nodes = 0
    some_cov = some_raise_outside = 0
    for it in range(n):
        impl, itags = lib_impl(rng) if rng.random() < 0.3 else rand_impl(rng)
        c, htags = rand_host(rng, impl)
        u = c.cells['u']
        htags.append('regular' if is_regular(c, u, impl) else 'not-regular')
        d0, nm, idx = circ.dump_net(c), names_arg(c), u.index
        req = f'subst {idx} {nm} {names_arg(impl)} {d0} @@ {circ.dump_net(impl)}'
        hjson, ijson = to_json(c), to_json(impl)
        nodes0, lines0 = len(c.nodes), len(c.lines)
        try:
            c.substitute(u, impl); real = full_dump(c)
        except Exception as ex:
            real = 'raise'; raised += 1
        try:
            out = common.run_driver([req])[0]
        except Exception as ex:
            ck.broken_tie('substitute model correspondence', f'driver: {type(ex).__name__}: {ex}'[:300], inp={'request': req})
            continue
        out, _, flag = out.rpartition(' ; ')
        if out != real:
            ck.broken_tie('substitute model correspondence', f'model {out[:300]} != real {real[:300]}', inp={'request': req})
        if real != 'raise' and flag != htags[-1]:      # (a raising call is not regular use, whatever the predicate says)
            ck.broken_tie('substitute model correspondence: regularB', f'model {flag} != harness {htags[-1]}', inp={'request': req})
        feats = impl_features(impl)
        if real != 'raise' and (len(c.nodes) < nodes0 + sum(1 for q in impl.nodes if q not in impl.io_nodes) - 1): changed += 1
        if real != 'raise':
            # the result must be a well-formed dump up to trailing None (class substitute-designated-port otherwise)
            try:
                if common.run_driver([f'xform wfnt {names_arg(c)} {circ.dump_net(c)}'])[0] != '1':
                    case = {'kind': 'subst-copy', 'cell': 'u', 'host': hjson, 'impl': ijson}
                    f, _ = eval_subst_copy(case)
                    report(ck, case, f or [('substitute-designated-port', 'substitute() returns a circuit that is not well-formed',
                                            {'wfNoTrail': '0'}, {'wfNoTrail': '1'})],
                           ('subst-copy', req), True, None, ['stream:corr-subst-wf'])
            except Exception as ex:
                ck.broken_tie('well-formedness of the substitute result', f'{type(ex).__name__}: {ex}'[:300], inp={'request': req})
        # hypotheses of the theorem C10.substitute_sem evaluated on this case (coverage of the theorem on real circuits), and its
        # conclusion `result well-formed` checked on the dump of the REAL result
        semtag = 'sem-hyp:raise'
        if real != 'raise':
            try:
                hyp = common.run_driver(['substok' + req[len('subst'):]])[0].split()
                names = ['host-wf', 'impl-wf', 'cell-no-port', 'cell-no-fork', 'keepsAll', 'implOK']
                failed = [nm for nm, v in zip(names, hyp) if v != '1']
                semtag = 'sem-hyp:covered' if not failed else 'sem-hyp:uncovered:' + failed[0]
                if failed == ['keepsAll'] and len(hyp) > 9 and hyp[8] == '1':
                    # theorem substitute_sem_removing: dangling logic removed; result well-formed up to trailing None
                    semtag = 'sem-hyp:covered-removing'; covered_rm += 1
                    if hyp[9] != '1':
                        ck.broken_tie('substitute_sem_removing: wfNoTrail of the result', f'wfNoTrail(model result) = {hyp[9]}', inp={'request': req})
                if not failed:
                    covered += 1
                    if len(hyp) > 10 and hyp[10] == '0':      # a copied fork had a gap (D30 shape): the theorems hold WITH densify
                        covered_gap += 1; semtag = 'sem-hyp:covered-gap'
                    rwf = common.run_driver([f'xform wf {names_arg(c)} {circ.dump_net(c)}'])[0]
                    if rwf != '1' or hyp[7] != '1':
                        ck.broken_tie('substitute_wf on the real result', f'hypotheses of substitute_sem hold but wf(real result) = {rwf}, '
                                      f'wf(model result) = {hyp[7]}', inp={'request': req})
                # theorem substitute_sem_general: ignored connected input pins, implementations without designated cell, hosts
                # that are well-formed up to trailing None; conclusion `result well-formed up to trailing None` (the real result is
                # checked with `xform wfnt` above for every case)
                if len(hyp) > 15:
                    gen_ok = all(hyp[i] == '1' for i in (1, 2, 3, 11, 12, 13))
                    if gen_ok:
                        covered_gen += 1
                        if hyp[9] != '1':
                            ck.broken_tie('substitute_sem_general: wfNoTrail of the result', f'wfNoTrail(model result) = {hyp[9]}', inp={'request': req})
                        if semtag.startswith('sem-hyp:uncovered'):
                            # covered ONLY by the general theorem
                            if hyp[15] != '1':
                                semtag = 'sem-hyp:covered-general-no-designated-cell'; covered_gen_nodes += 1
                            elif hyp[14] == '1':
                                semtag = 'sem-hyp:covered-general-ignored-pin'; covered_gen_ign += 1
                            else:
                                semtag = 'sem-hyp:covered-general'
                    elif not semtag.startswith('sem-hyp:uncovered'):
                        ck.broken_tie('substitute_sem_general contains the uses of substitute_sem', f'hypotheses {hyp}', inp={'request': req})
            except Exception as ex:
                ck.broken_tie('substitute_sem hypotheses', f'driver: {type(ex).__name__}: {ex}'[:300], inp={'request': req})
        # hypotheses of the PROGRESS theorem C10.substitute_isSome (audit finding 6) evaluated on EVERY case, raising ones included:
        # inside the hypotheses the model returns a circuit (theorem), so must the real code (a raise there is a broken tie of
        # the domain facts: host wfNoTrail with gap-free forks, cell a node that is no port / no fork, implementation well-formed)
        sometag = 'isSome-hyp:not-evaluated'
        try:
            sh = common.run_driver(['substsome' + req[len('subst'):]])[0].split()
            snames = ['host-wfNoTrail', 'host-forks-gapfree', 'impl-wf', 'cell-node-no-port', 'cell-no-fork', 'implGenOK', 'targetsOK',
                      'noSelfIgn', 'names-fresh', 'arity']
            sfailed = [nm for nm, v in zip(snames, sh) if v != '1']
            if (sh[10] == '1') != (not sfailed):
                ck.broken_tie('substitute_isSome hypotheses', f'substSomeHypB = {sh[10]} but clauses {sh[:10]}', inp={'request': req})
            if not sfailed:
                sometag = 'isSome-hyp:covered'; some_cov += 1
                if real == 'raise' or sh[11] != '1':
                    ck.broken_tie('substitute_isSome: inside the hypotheses the call must succeed',
                                  f'real {"raises" if real == "raise" else "returns"}, model isSome = {sh[11]}', inp={'request': req})
            else:
                sometag = 'isSome-hyp:uncovered:' + sfailed[0]
                # domain facts: every generated host is well-formed with gap-free forks, every generated implementation well-formed
                if sfailed[0] in ('host-wfNoTrail', 'host-forks-gapfree', 'impl-wf', 'cell-node-no-port', 'cell-no-fork'):
                    ck.broken_tie('substitute_isSome: domain fact fails on a generated case', f'{sfailed[0]}', inp={'request': req})
                if real == 'raise': some_raise_outside += 1
            if 'lib' in itags and sh[12] != '1':
                ck.broken_tie('library_impls_ok on a real library implementation', f'implSomeOKB = {sh[12]}', inp={'request': req})
        except Exception as ex:
            ck.broken_tie('substitute_isSome hypotheses', f'driver: {type(ex).__name__}: {ex}'[:300], inp={'request': req})
        ck.case(key=('subst', req), nontrivial=real != 'raise' and len(impl.nodes) > 0,
                tag=['stream:corr-subst', f"subst-result:{'raise' if real == 'raise' else 'ok'}", semtag, sometag] + [f'impl:{t}' for t in itags] +
                    [f'impl-shape:{x}' for x in feats] + [f'host:{t}' for t in sorted(set(htags))])
    ck.extra['corr_subst_raised'] = raised
    ck.extra['corr_subst_with_removed_nodes'] = changed
    ck.extra['corr_subst_in_hypotheses_of_substitute_sem'] = covered
    ck.extra['corr_subst_in_hypotheses_of_substitute_sem_removing'] = covered_rm
    ck.extra['corr_subst_in_hypotheses_of_substitute_sem_with_fork_gap'] = covered_gap
    ck.extra['corr_subst_in_hypotheses_of_substitute_sem_general'] = covered_gen
    ck.extra['corr_subst_only_general_ignored_pin'] = covered_gen_ign
    ck.extra['corr_subst_only_general_no_designated_cell'] = covered_gen_nodes
    ck.extra['corr_subst_in_hypotheses_of_substitute_isSome'] = some_cov
    ck.extra['corr_subst_raising_outside_hypotheses_of_substitute_isSome'] = some_raise_outside


def corr_resolve(ck, n):
    """resolve_tlib_cells(): model (resolveCells = substitute folded over the snapshot of the nodes) vs real code"""
    rng = ck.rng
    raised = covered = covered_ds = covered_gen = covered_gen_only = covered_ds_gen = run_cov = run_cov_multi = static_cov = static_cov_multi = 0
    import collections
    ds_tally = collections.Counter()
    for it in range(n):
        if rng.random() < 0.3:
            tl = rand_synth_lib(rng); special = None; libtag = 'synthetic'
        else:
            tl = rng.choice(LIBS); special = SPECIAL.get(tl); libtag = tl
        tlib = get_tlib(tl)
        only = None
        if libtag in LIBS and rng.random() < 0.3:
            # circuits over cells of the listed families only, input pins connected, outputs partly open: the hypotheses of
            # resolve_datasheet_sem(_general) are reachable (an instance with an open output is covered by the general form only)
            only = [k for k in sorted(tlib.cells) if cell_cert(libtag, k)[0] == 'ok']
        c = rand_lib_circuit(rng, tlib, special=special, p_unconn_in=0.0 if only else rng.choice([0.0, 0.08, 0.2]),
                             p_unconn_out=rng.choice([0.0, 0.15, 0.4]), only=only)
        if rng.random() < 0.4: c = permuted(rng, c)
        kinds = sorted({x.kind for x in c.nodes if x.kind in tlib.cells})
        c0json = to_json(c)
        hnames0, hdump0 = names_arg(c), circ.dump_net(c)
        insts0 = [(x.index, x.kind) for x in c.nodes if x.kind in tlib.cells]
        blocks = ' '.join(f'@@ {circ.pct(k)} {names_arg(tlib.cells[k][0])} {circ.dump_net(tlib.cells[k][0])}' for k in kinds)
        req = f'resolve {names_arg(c)} {circ.dump_net(c)} {blocks}'
        try:
            c.resolve_tlib_cells(tlib); real = full_dump(c)
        except Exception:
            real = 'raise'; raised += 1
        try:
            out = common.run_driver([req])[0]
        except Exception as ex:
            ck.broken_tie('resolve_tlib_cells model correspondence', f'driver: {type(ex).__name__}: {ex}'[:300], inp={'request': req[:4000]})
            continue
        if out != real:
            ck.broken_tie('resolve_tlib_cells model correspondence', f'model {out[:300]} != real {real[:300]}', inp={'request': req[:4000]})
            # failing-input search on this very circuit: the property itself (resolve succeeds completely, names, function)
            case = {'kind': 'compose', 'circuit': c0json, 'tlib': tl, 'steps': [['resolve']], 'seed': it}
            try:
                f, _info = eval_compose(case)
            except Exception as ex:
                f = []
            report(ck, case, f, ('compose', json.dumps(c0json, sort_keys=True), '[["resolve"]]'), True, {'tlib': libtag, 'steps': [['resolve']]},
                   ['stream:corr-resolve-oracle'])
        # hypotheses of C10.resolve_sem on this case, conclusion `result well-formed` on the real dump
        semtag = 'sem-hyp:raise'; dstag = 'ds-hyp:not-evaluated'
        if real != 'raise':
            try:
                hyp = common.run_driver(['resolveok' + req[len('resolve'):]])[0].split()
                ok = hyp[0] == '1' and hyp[1] == '1'
                semtag = 'sem-hyp:covered' if ok else ('sem-hyp:uncovered:' + ('host-wf' if hyp[0] != '1' else hyp[3].split(':')[0]))
                why = hyp[3]
                if ok:
                    covered += 1
                    dstag = ds_hyp(libtag, tlib, hnames0, hdump0, insts0)
                    if dstag == 'ds-hyp:covered': covered_ds += 1
                    ds_tally[dstag] += 1
                    rwf = common.run_driver([f'xform wf {names_arg(c)} {circ.dump_net(c)}'])[0]
                    if rwf != '1' or hyp[2] != '1':
                        ck.broken_tie('resolve_sem: well-formed result on the real circuit', f'resolveOKB holds but wf(real result) = {rwf}, '
                                      f'wf(model result) = {hyp[2]}', inp={'request': req[:4000]})
                # theorem resolve_sem_general: substitutions that remove lines / instances / dangling logic
                if len(hyp) > 7:
                    gen_ok = hyp[4] == '1' and hyp[5] == '1'
                    if gen_ok:
                        covered_gen += 1
                        rwfnt = common.run_driver([f'xform wfnt {names_arg(c)} {circ.dump_net(c)}'])[0]
                        if rwfnt != '1' or hyp[6] != '1':
                            ck.broken_tie('resolve_sem_general: result well-formed up to trailing None', f'resolveGenOKB holds but '
                                          f'wfNoTrail(real result) = {rwfnt}, wfNoTrail(model result) = {hyp[6]}', inp={'request': req[:4000]})
                        if not ok:
                            covered_gen_only += 1; semtag = 'sem-hyp:covered-general'
                            # resolve_datasheet_sem_general: the per-instance certificate under resolveGenOKB (audit finding 6)
                            dstag = ds_hyp(libtag, tlib, hnames0, hdump0, insts0)
                            if dstag == 'ds-hyp:covered': dstag = 'ds-hyp:covered-general'; covered_ds_gen += 1
                            ds_tally[dstag] += 1
                    elif ok:
                        ck.broken_tie('resolve_sem_general contains the uses of resolve_sem', f'hypotheses {hyp}', inp={'request': req[:4000]})
                    else:
                        semtag = 'sem-hyp:uncovered:' + ('host-wfnt' if hyp[4] != '1' else hyp[7].split(':')[0])
            except Exception as ex:
                ck.broken_tie('resolve_sem hypotheses', f'driver: {type(ex).__name__}: {ex}'[:300], inp={'request': req[:4000]})
        # hypotheses of the whole-run PROGRESS theorem C10.resolve_run_isSome (audit 2, finding 6) on EVERY case, raising ones included:
        # original circuit wfNoTrail with gap-free forks (domain facts of the generators), libOKB (domain fact for the built-in libraries:
        # theorem library_impls_ok), resolveInstB (per-instance clauses on the circuit as it is when the substitution starts; does not
        # contain success).  Inside them the model returns a circuit with wfNoTrail and gap-free forks (theorem) - so must the real code.
        runtag = 'runSome-hyp:not-evaluated'; statictag = 'runSome-static-hyp:not-evaluated'
        try:
            rh = common.run_driver(['resolveok' + req[len('resolve'):]])[0].split()
            if len(rh) < 15:
                ck.broken_tie('resolve_run_isSome hypotheses', f'driver answer has {len(rh)} fields', inp={'request': req[:4000]})
            else:
                rnames = ['host-wfNoTrail', 'host-forks-gapfree', 'libOK', 'inst']
                rvals = [rh[4], rh[8], rh[9], rh[10]]
                rfailed = [nm for nm, v in zip(rnames, rvals) if v != '1']
                if (rh[12] == '1') != (not rfailed):
                    ck.broken_tie('resolve_run_isSome hypotheses', f'conjunction = {rh[12]} but clauses {rvals}', inp={'request': req[:4000]})
                if not rfailed:
                    runtag = 'runSome-hyp:covered'; run_cov += 1
                    if len(insts0) >= 2: run_cov_multi += 1
                    if real == 'raise' or rh[13] != '1' or rh[6] != '1' or rh[14] != '1':
                        ck.broken_tie('resolve_run_isSome: inside the hypotheses the run must succeed (result wfNoTrail, gap-free forks)',
                                      f'real {"raises" if real == "raise" else "returns"}, model isSome = {rh[13]}, wfNoTrail = {rh[6]}, '
                                      f'forksDense = {rh[14]}', inp={'request': req[:4000]})
                else:
                    runtag = 'runSome-hyp:uncovered:' + (rh[11] if rfailed[0] == 'inst' else rfailed[0])
                    if rfailed[0] in ('host-wfNoTrail', 'host-forks-gapfree') or (rfailed[0] == 'libOK' and libtag in LIBS):
                        ck.broken_tie('resolve_run_isSome: domain fact fails on a generated case', rfailed[0], inp={'request': req[:4000]})
                # STATIC hypothesis of C10.resolve_isSome_static (field 15: resolveStaticB, evaluated on the ORIGINAL circuit only; never runs
                # substitute).  Domain facts + resolveStaticB => resolveInstB (theorem), the model and the real code succeed.  The built-in
                # libraries x generated circuits must be inside (the generators produce distinct instance names and no `~` names).
                if len(rh) < 16:
                    ck.broken_tie('resolve_isSome_static hypotheses', f'driver answer has {len(rh)} fields', inp={'request': req[:4000]})
                else:
                    snames = ['host-wfNoTrail', 'host-forks-gapfree', 'libOK', 'static']
                    svals = [rh[4], rh[8], rh[9], rh[15]]
                    sfailed = [nm for nm, v in zip(snames, svals) if v != '1']
                    if not sfailed:
                        statictag = 'runSome-static-hyp:covered'; static_cov += 1
                        if len(insts0) >= 2: static_cov_multi += 1
                        if rh[10] != '1':
                            ck.broken_tie('resolve_isSome_static: resolveStaticB must imply resolveInstB (theorem)',
                                          f'resolveInstB = {rh[10]} ({rh[11]})', inp={'request': req[:4000]})
                        if real == 'raise' or rh[13] != '1' or rh[6] != '1' or rh[14] != '1':
                            ck.broken_tie('resolve_isSome_static: inside the static hypotheses the run must succeed (result wfNoTrail, '
                                          'gap-free forks)', f'real {"raises" if real == "raise" else "returns"}, model isSome = {rh[13]}, '
                                          f'wfNoTrail = {rh[6]}, forksDense = {rh[14]}', inp={'request': req[:4000]})
                    else:
                        statictag = 'runSome-static-hyp:uncovered:' + sfailed[0]
                        if libtag in LIBS and real != 'raise':
                            ck.broken_tie('resolve_isSome_static: a generated circuit over a built-in library on which the real code '
                                          'succeeds must be inside the static hypotheses', sfailed[0], inp={'request': req[:4000]})
        except Exception as ex:
            ck.broken_tie('resolve_run_isSome hypotheses', f'driver: {type(ex).__name__}: {ex}'[:300], inp={'request': req[:4000]})
        ck.case(key=('resolve', req), nontrivial=real != 'raise' and len(kinds) > 0,
                tag=['stream:corr-resolve', f'lib:{libtag}', f'instances:{min(len(kinds), 4)}', f"resolve-result:{'raise' if real == 'raise' else 'ok'}", semtag, dstag, runtag, statictag] +
                    (['gen:listed-families-only'] if only else []))
    ck.extra['corr_resolve_in_hypotheses_of_resolve_run_isSome'] = run_cov
    ck.extra['corr_resolve_in_hypotheses_of_resolve_isSome_static'] = static_cov
    ck.extra['corr_resolve_in_hypotheses_of_resolve_isSome_static_two_or_more_instances'] = static_cov_multi
    ck.extra['corr_resolve_in_hypotheses_of_resolve_run_isSome_two_or_more_instances'] = run_cov_multi
    ck.extra['corr_resolve_in_hypotheses_of_resolve_datasheet_sem'] = covered_ds
    ck.extra['corr_resolve_in_hypotheses_of_resolve_datasheet_sem_general_only'] = covered_ds_gen
    ck.extra['corr_resolve_ds_hyp'] = dict(ds_tally)
    ck.extra['corr_resolve_raised'] = raised
    ck.extra['corr_resolve_in_hypotheses_of_resolve_sem'] = covered
    ck.extra['corr_resolve_in_hypotheses_of_resolve_sem_general'] = covered_gen
    ck.extra['corr_resolve_only_general'] = covered_gen_only


def compose_case(rng, thorough):
    """one random composition case"""
    if rng.random() < 0.5:
        c = circ.rand_circuit(rng, style=rng.choice(['v', 'v', 'b']), n_gates=rng.randint(1, 25 if not thorough else 50), p_unconn=0.06,
                              n_ff=rng.choice([0, 1, 2, 2, 3, 4]))
        if rng.random() < 0.6: c = permuted(rng, c)
        tl = None
        ops = ['copy', 'pickle', 'elim', 'subst', 'subst']
    else:
        if rng.random() < 0.3:
            tl = rand_synth_lib(rng)
            special = None
        else:
            tl = rng.choice(LIBS)
            special = SPECIAL.get(tl)
        c = rand_lib_circuit(rng, get_tlib(tl), special=special)
        if rng.random() < 0.4: c = permuted(rng, c)
        ops = ['copy', 'pickle', 'elim', 'resolve']
    steps, cur, resolved = [], from_json(to_json(c)), tl is None
    for k in range(rng.randint(1, 5)):
        op = rng.choice(ops if not (tl and k == 0 and rng.random() < 0.3) else ['resolve'])
        if op == 'resolve' and resolved: op = rng.choice(['copy', 'pickle', 'elim', 'subst'])
        if op == 'subst':
            if not resolved: op = 'resolve'
            else:
                cand = subst_candidates(cur)
                if not cand: op = rng.choice(['copy', 'pickle', 'elim'])
        if op == 'subst': step = ['subst', rng.choice(cand), rng.random() < 0.6, f'x{k}']
        else: step = [op]
        try:
            cur = apply_step(cur, step, get_tlib(tl) if tl else None)
        except Exception:
            steps.append(step); break
        if op == 'resolve': resolved = True
        steps.append(step)
    if tl and not resolved: steps.append(['resolve'])
    return {'kind': 'compose', 'circuit': to_json(c), 'tlib': tl, 'steps': steps, 'seed': rng.randint(0, 2 ** 30)}


SPECIAL = {   # cells the quantifier names explicitly (ignored input pin, no output, state, multi output)
    'GSC180': ['TBUFX1', 'TINVX1', 'TLATX1', 'TLATSRX1', 'DFFX1', 'SDFFSRX1', 'ADDFX1', 'ADDHX1', 'OAI33X1'],
    'NANGATE': ['TBUF_X1', 'TINV_X1', 'TLAT_X1', 'DLH_X1', 'DLL_X1', 'FILLCELL_X1', 'LOGIC0_X1', 'HA_X1', 'FA_X1', 'SDFFRS_X1', 'CLKGATETST_X1'],
    'NANGATE_ZN': ['TBUF_X2', 'TINV_X1', 'TLAT_X1', 'DLH_X2', 'FILLCELL_X4', 'LOGIC1_X1', 'FA_X1', 'DFFRS_X2'],
    'SAED32': ['HEADX2_RVT', 'FOOTX4_RVT', 'ANTENNA_RVT', 'CLOAD1_RVT', 'DCAP_RVT', 'TIEH_RVT', 'DEC24X1_RVT', 'FADDX1_RVT', 'SDFFASRSX1_RVT',
               'LATCHX1_RVT', 'MUX41X1_RVT', 'HEAD2X2_RVT'],
    'SAED90': ['HEADX2', 'ANTENNA_LVT', 'CLOAD1_HVT', 'DCAP', 'TIEL', 'DEC24X2_LVT', 'HADDX1', 'SDFFASRSX2_HVT', 'LATCHX2', 'AODFFARX1'],
}


def oracle_compose(ck, n, thorough):
    for it in range(n):
        case = compose_case(ck.rng, thorough)
        try:
            f, info = eval_compose(case)
        except Exception as ex:
            f, info = [('harness', f'{type(ex).__name__}: {ex}'[:300], None, None)], {}
        steps = [s[0] for s in case['steps']]
        libtag = 'prim' if not case['tlib'] else (case['tlib'] if case['tlib'] in LIBS else 'synthetic')
        tags = ['stream:compose', f'lib:{libtag}', f'len:{len(steps)}'] + sorted({f'step:{s}' for s in steps})
        tags.append(f"ff:{min(sum(1 for nm, kd in case['circuit']['nodes'] if is_state(kd)), 3)}")
        nontriv = bool(info.get('simulated')) and info.get('captures', 0) > 0 and 0 < info.get('ones', 0)
        report(ck, case, f, ('compose', json.dumps(case['circuit'], sort_keys=True), json.dumps(case['steps'])), nontriv,
               {'tlib': libtag, 'steps': case['steps'], 'nodes': len(case['circuit']['nodes']), 'rows': info.get('rows')}, tags)


def pin_subsets(rng, pins, thorough):
    if thorough:
        if len(pins) <= 6:
            return [list(s) for r in range(len(pins) + 1) for s in itertools.combinations(pins, r)]
        subs = {tuple(pins)}
        while len(subs) < 64: subs.add(tuple(p for p in pins if rng.random() < 0.6))
        return [list(s) for s in subs]
    subs = {tuple(pins)}
    for _ in range(3): subs.add(tuple(p for p in pins if rng.random() < 0.65))
    return [list(s) for s in subs]


def sweep(ck, thorough, libs=None, per_group=None):
    rng = ck.rng
    for lname in libs or LIBS:
        tlib = get_tlib(lname)
        for group in lib_groups(tlib):
            kinds = group if thorough else rng.sample(group, min(len(group), per_group or 1))
            for kind in kinds:
                pins = list(tlib.cells[kind][1])
                feats = cell_features(tlib, kind)
                for sub in pin_subsets(rng, pins, thorough):
                    case = {'kind': 'cell', 'lib': lname, 'cell': kind, 'pins': sub, 'forks': rng.random() < 0.5}
                    try:
                        f, info = eval_cell(case)
                    except Exception as ex:
                        f, info = [('harness', f'{type(ex).__name__}: {ex}'[:300], None, None)], {}
                    tags = ['stream:sweep', f'lib:{lname}', f"connected:{'all' if len(sub) == len(pins) else 'none' if not sub else 'some'}"]
                    tags += [f'shape:{x}' for x in feats]
                    report(ck, case, f, ('cell', lname, kind, tuple(sub)), bool(info.get('simulated')),
                           {'lib': lname, 'cell': kind, 'pins': sub}, tags)


def synthetic(ck, n, thorough):
    rng = ck.rng
    # every fixed shape cell x every pin subset, then random libraries
    tl = synth_tlib(SYNTH_FIXED)
    for kind in tl.cells:
        pins = list(tl.cells[kind][1])
        for sub in pin_subsets(rng, pins, True):
            case = {'kind': 'cell', 'lib': SYNTH_FIXED, 'cell': kind, 'pins': sub, 'forks': rng.random() < 0.5}
            try:
                f, info = eval_cell(case)
            except Exception as ex:
                f, info = [('harness', f'{type(ex).__name__}: {ex}'[:300], None, None)], {}
            report(ck, case, f, ('cell', 'synthetic', kind, tuple(sub)), bool(info.get('simulated')),
                   {'lib': 'synthetic', 'cell': kind, 'pins': sub},
                   ['stream:synthetic', 'lib:synthetic'] + [f'shape:{x}' for x in cell_features(tl, kind)])
    for it in range(n):
        src = rand_synth_lib(rng)
        tlr = synth_tlib(src)
        for kind in [k for k in tlr.cells if k.startswith('R')]:
            pins = list(tlr.cells[kind][1])
            for sub in pin_subsets(rng, pins, False):
                case = {'kind': 'cell', 'lib': src, 'cell': kind, 'pins': sub, 'forks': rng.random() < 0.5}
                try:
                    f, info = eval_cell(case)
                except Exception as ex:
                    f, info = [('harness', f'{type(ex).__name__}: {ex}'[:300], None, None)], {}
                report(ck, case, f, ('cell', src, kind, tuple(sub)), bool(info.get('simulated')), None,
                       ['stream:synthetic-random', 'lib:synthetic'] + [f'shape:{x}' for x in cell_features(tlr, kind)])


def corpus_cases():
    import glob, os
    return [json.load(open(f)) for f in sorted(glob.glob(os.path.join(common.VERIF, 'corpus', 'C10-*.json')))]


_cell_cert = {}


def cell_cert(libname, kind):
    """cell-level clauses of the certificate `InstCert` of C10.resolve_datasheet_sem for one library key, evaluated by the driver on the
    REAL implementation circuit and its real topological order: Net.wfB / orderOKB (`netcert`), forksOKB / linesDrivenB
    (`netspeccert`), a row of the generated C19 tables of that library carries the name, implShape, describesB, listed family
    (`dscell`).  Returns (tag, detail)."""
    key = (libname, kind)
    if key in _cell_cert: return _cell_cert[key]
    if libname not in LIBS:
        r = ('synthetic-library', '')
    else:
        c = get_tlib(libname).cells[kind][0]
        if len(c.lines) == 0:
            r = ('no-lines', '')
        else:
            dump = circ.dump_net(c)
            order = ','.join(str(n.index) for n in c.topological_order())
            out = common.run_driver([f'net {dump}', f'netcert {order}', f'netspeccert {order}',
                                     f"dscell {LIBS.index(libname)} {circ.pct(kind)} {names_arg(c)} {dump.replace(' ', '')} {order}"])[1:]
            detail = ' | '.join(out)
            if 'family=outside' in out[2]: r = ('outside-family', detail)
            elif out[0] != 'wf=true order=true' or 'row=1 shape=1 describes=1' not in out[2]: r = ('FAIL', detail)
            elif out[1] != 'forks=true lines=true': r = ('outside-domain', detail)
            else: r = ('ok', detail)
    _cell_cert[key] = r
    return r


def cert_library(ck):
    """every key of the five built-in libraries: which cells `resolve_datasheet_sem` covers"""
    import collections
    tally = collections.Counter()
    for ln in LIBS:
        for kind in get_tlib(ln).cells:
            tag, detail = cell_cert(ln, kind)
            tally[tag] += 1
            ck.case(key=('ds-cert', ln, kind), nontrivial=tag == 'ok', tag=['stream:ds-cert', f'ds-cert:{tag}', f'lib:{ln}'])
            if tag == 'FAIL':
                ck.broken_tie(f'certificate of resolve_datasheet_sem for {ln}.{kind} (listed family): the row of the generated library '
                              'tables does not describe the implementation circuit / wfB / orderOKB', detail)
    ck.extra['resolve_datasheet_sem_cell_certificates'] = dict(tally)


def ds_hyp(libtag, tlib, hnames, hdump, insts):
    """instance-level clause: every library-cell instance of the circuit BEFORE resolve_tlib_cells is certified (cell-level
    certificate ok, `pinsFitB`: all input pins connected and as many as the implementation has input ports)"""
    if libtag not in LIBS: return 'ds-hyp:uncovered:synthetic-library'
    if not insts: return 'ds-hyp:no-instance'
    for idx, kind in insts:
        tag, _ = cell_cert(libtag, kind)
        if tag != 'ok': return f'ds-hyp:uncovered:cell-{tag}'
        impl = tlib.cells[kind][0]
        fit = common.run_driver([f"dsfit {hnames} {hdump.replace(' ', '')} {idx} {names_arg(impl)} {circ.dump_net(impl).replace(' ', '')}"])[0]
        if fit != '1': return 'ds-hyp:uncovered:pins'
    return 'ds-hyp:covered'


def run(ck):
    ck.prove([], TARGETS[:1], theorems())
    import dump_techlib, dump_tables
    ck.prove([dump_tables.generate, dump_techlib.generate], TARGETS[1:], theorems_ds())   # separate module: depends on the library tables
    cert_library(ck)
    thorough = ck.tier == 'thorough'
    for case in corpus_cases():
        try:
            f, info = (eval_subst_copy if case['kind'] == 'subst-copy' else eval_compose if case['kind'] == 'compose' else eval_cell)(case)
        except Exception as ex:
            f, info = [('harness', f'{type(ex).__name__}: {ex}'[:300], None, None)], {}
        report(ck, case, f, ('corpus', json.dumps(case, sort_keys=True)), True, None, ['stream:corpus'])
    mode = probe_mode()
    ck.extra['elim_mode_of_code_under_test'] = mode
    corr(ck, 120 * ck.scale, mode)
    corr_subst(ck, 400 * ck.scale)
    corr_resolve(ck, 150 * ck.scale)
    oracle_compose(ck, 220 * ck.scale, thorough)
    sweep(ck, thorough)
    synthetic(ck, 6 * ck.scale, thorough)
    if ck.broken and not ck.violations:
        oracle_compose(ck, 220 * ck.scale * 8, thorough)
    ck.assumptions += [
        'copy_dump_eq / pickle_dump_eq / elim_* / substitute_* are theorems about the dump-level models; the models are tied to '
        'circuit.py by exact dump correspondence and NNet.wf / NNet.forkIns1 are evaluated on every real dump',
        'elim_sem maps every consistent labelling of the circuit to one of the result; elim_sem_converse gives the converse and uniqueness (the '
        'labellings correspond one-to-one; no acyclicity needed); elim_wf exports wf / forkIns1 of the result; that LogicSim computes a '
        'consistent labelling is C01',
        'substitute: ports, state elements (up to order; names and order in the regular same-class case), pin-by-pin wiring and '
        'the equations outside the cell are theorems about the model; substitute_sem / substitute_sem_removing / resolve_sem (the copied '
        'implementation has the relational meaning of the cell) are theorems about the model under decidable hypotheses (a designated '
        'cell exists, no connected-but-ignored input pin, implOKB; resolve: no substitution removes anything; copied forks with a gap '
        'squeezed by the code repaired for D30 are included) - the harness '
        'counts the real cases inside these hypotheses (driver substok / resolveok) and checks the well-formedness of the real '
        'result there; substitute_sem_general / resolve_sem_general (index maps; ignored connected input pins, implementations without '
        'designated cell, hosts well-formed up to trailing None, resolve through removing substitutions) hold under implGenOKB / '
        'noSelfIgnB / resolveGenOKB, also counted (coverage keys *_general) with the conclusion wfNoTrail checked on the real result; '
        'outside them (an implementation violating implGenOKB, a cell that is a port or a fork, a raising call) the function after '
        'substitute / resolve_tlib_cells is validated by simulation before/after only',
        'resolve_datasheet_sem (Props/C10Datasheet.lean, composition with C19): the cell-level clauses of its certificate InstCert '
        '(wfB, orderOKB, forksOKB, linesDrivenB of the implementation, describesB against the row of the generated library tables, '
        'listed family) are evaluated for EVERY key of the five libraries on the real implementation circuits (stream ds-cert: '
        'ok = covered, outside-family / no-lines = not covered, FAIL = broken tie), the instance-level clause pinsFitB on every generated '
        'resolve case inside resolveOKB (tag ds-hyp); that the dump is the circuit whose SimOps rows are in the tables is this evaluation, not a theorem',
        'the function is observed through the real LogicSim(m=2) (C01); reference of a circuit with library cells = the same '
        'circuit flattened by an independent inliner (implementation ports become forks, unconnected inputs read 0)',
        'object identity of nodes = (name, class) as in Node.__eq__; dictionary order of forks is an explicit input of the model']
    ck.notes.append(f"eliminate_1to1_forks of the code under test (probes: circuit of theorem elim_state_order_false, fork without driver): {mode}")
    ck.notes.append('theorem elim_state_order_false: the modelled eliminate_1to1_forks does not keep the order of state elements; '
                    'the oracle reports the same on the real code as class elim-state-order')
    return ck.finish(RULE)


def replay(rep):
    ok, obs, exp = eval_case(rep['input'])
    print(json.dumps({'ok': ok, 'observed': obs, 'expected': exp}, default=str))
    return 0 if ok else 1
