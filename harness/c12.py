"""C12 — multi-valued operators agree across both storage formats and the algebra."""
import itertools, json, re, os
import numpy as np
from . import common
import extract_ops, dump_tables

PID = 'C12'
TARGETS = ['KyupyVerif.Props.C12', 'KyupyVerif.Props.C12Algebra']
RULE = ('oracle cases: (a) every operator (array _mv_*/public mv_*, bit-parallel bp8v_*/bp4v_*) on its complete operand '
        'domain for k=1..4 against the Lean spec table; (b) random array shapes 0-d..4-d with broadcasting, with and '
        'without out=; (c) random bit-parallel shapes and lane counts. distinct = distinct (operator, k, shape, out-mode) '
        'descriptors; non-trivial = result contains at least two different values')


def theorems():
    return (common.theorems_of('KyupyVerif/Props/C12.lean', 'KV.C12')
            + common.theorems_of('KyupyVerif/Props/C12Algebra.lean', 'KV.C12'))


_spec_cache = {}


def spec_table(op, k):
    """packed spec table from the Lean driver -> numpy array of 8^k codes"""
    key = (op, k)
    if key not in _spec_cache:
        n = int(common.run_driver([f'spectab {op} {k}'])[0])
        _spec_cache[key] = np.array([(n >> (3 * i)) & 7 for i in range(8 ** k)], dtype=np.uint8)
    return _spec_cache[key]


def spec_apply(op, arrs):
    """element-wise spec on broadcast arrays of codes"""
    k = len(arrs)
    b = np.broadcast_arrays(*arrs)
    idx = np.zeros(b[0].shape, dtype=np.int64)
    for j, a in enumerate(b):
        idx += (a.astype(np.int64) & 7) * (8 ** j)
    return spec_table(op, k)[idx]


def eval_case(case):
    """returns (ok, observed, expected) for one JSON-able case description, run on the REAL code"""
    from kyupy import logic
    kind = case['kind']
    op = case['op']
    if kind == 'mv_full':  # private multi-operand on the complete domain
        k = case['k']
        dom = dump_tables._domain(k)
        out = np.full(dom.shape[1], 0x55, dtype=np.uint8)
        getattr(logic, f'_mv_{op}')(out, *[dom[j].copy() for j in range(k)])
        exp = spec_table(op, k)
        bad = np.flatnonzero(out != exp)
        if len(bad):
            i = int(bad[0])
            return False, {'operands': [int(dom[j][i]) for j in range(k)], 'result': int(out[i])}, {'result': int(exp[i])}
        return True, None, None
    if kind == 'bp_full':
        k, m = case['k'], case['m']
        mdim = 3 if m == 8 else 2
        dom = dump_tables._domain(k)
        if m == 4: dom = dom[:, (dom < 4).all(axis=0)]
        n = dom.shape[1]
        bp = [logic.mv_to_bp(dom[j][np.newaxis, :])[0][:mdim] for j in range(k)]  # [mdim, nbytes]
        if case.get('inplace'):      # NOT in place, as LogicSim evaluates NAND/NOR/XNOR/AOI...: `bp?v_not(c[o], c[o])`
            out = bp[0] = bp[0].copy()
        else:
            out = np.full_like(bp[0], 0x5A)
        getattr(logic, f'bp{m}v_{op}')(out, *bp)
        full = np.zeros((3, out.shape[-1]), dtype=np.uint8); full[:mdim] = out
        got = logic.bp_to_mv(full[np.newaxis])[0][:n]
        exp = spec_apply(op, list(dom))
        if m == 4: exp = exp & 3
        bad = np.flatnonzero(got != exp)
        if len(bad):
            i = int(bad[0])
            return False, {'operands': [int(dom[j][i]) for j in range(k)], 'result': int(got[i])}, {'result': int(exp[i])}
        return True, None, None
    if kind == 'mv_shape':
        rs = np.random.RandomState(case['seed'])
        shapes = [tuple(s) for s in case['shapes']]
        arrs = [rs.randint(0, 8, size=s).astype(np.uint8) for s in shapes]
        exp = spec_apply(op, arrs)
        fn = getattr(logic, f'mv_{op}')
        if case['out']:
            o = np.full(exp.shape, 0x55, dtype=np.uint8) if case['out'] == 'junk' else np.zeros(exp.shape, dtype=np.uint8)
            if case['out'] in ('alias0', 'alias1'):
                # the output array IS one of the operands (in-place update `mv_or(a, b, out=a)`, as NumPy's own ufuncs allow):
                # it must receive the result computed from the operands' values BEFORE the call
                j = min(int(case['out'][-1]), len(arrs) - 1)
                if arrs[j].shape == exp.shape: o = arrs[j]
            try:
                r = fn(*arrs, out=o)
            except Exception as ex:
                return False, {'raised': f'{type(ex).__name__}: {ex}'[:200]}, {'result': 'written to out'}
            if r is not o:
                return False, {'returned': 'a different array than out', 'out_after': o.tolist()[:8] if o.ndim else int(o)}, {'returned': 'out itself'}
            got = o
        else:
            got = fn(*[a.copy() for a in arrs])
        if got.shape != exp.shape or not np.array_equal(got, exp):
            return False, {'shape': list(got.shape), 'values': got.reshape(-1)[:16].tolist()}, {'shape': list(exp.shape), 'values': exp.reshape(-1)[:16].tolist()}
        return True, None, None
    if kind == 'bp_shape':
        rs = np.random.RandomState(case['seed'])
        m, k, lead, nb = case['m'], case['k'], tuple(case['lead']), case['nbytes']
        mdim = 3 if m == 8 else 2
        ins = [rs.randint(0, 256, size=lead + (mdim, nb)).astype(np.uint8) for _ in range(k)]
        out = rs.randint(0, 256, size=lead + (mdim, nb)).astype(np.uint8)
        keep = [a.copy() for a in ins]
        getattr(logic, f'bp{m}v_{op}')(out, *ins)
        for a, b in zip(ins, keep):
            if not np.array_equal(a, b): return False, {'operand': 'modified'}, {'operand': 'unchanged'}
        def to_mv(a):
            full = np.zeros(lead + (3, nb), dtype=np.uint8); full[..., :mdim, :] = a
            return logic.bp_to_mv(full)
        got = to_mv(out)
        exp = spec_apply(op, [to_mv(a) for a in ins])
        if m == 4: exp = exp & 3
        if not np.array_equal(got, exp):
            i = np.argwhere(got != exp)[0]
            return False, {'at': i.tolist(), 'result': int(got[tuple(i)])}, {'result': int(exp[tuple(i)])}
        return True, None, None
    if kind == 'demorgan':
        rs = np.random.RandomState(case['seed'])
        a = rs.randint(0, 8, size=case['shape']).astype(np.uint8); b = rs.randint(0, 8, size=case['shape']).astype(np.uint8)
        l = logic.mv_not(logic.mv_and(a, b)); r = logic.mv_or(logic.mv_not(a), logic.mv_not(b))
        l2 = logic.mv_not(logic.mv_or(a, b)); r2 = logic.mv_and(logic.mv_not(a), logic.mv_not(b))
        if not (np.array_equal(l, r) and np.array_equal(l2, r2)):
            return False, {'lhs': l.reshape(-1)[:8].tolist()}, {'rhs': r.reshape(-1)[:8].tolist()}
        return True, None, None
    raise ValueError(kind)


def oracle(ck, scale):
    rng = ck.rng
    cases = []
    for op in ('not', 'and', 'or', 'xor'):
        for k in ([1] if op == 'not' else [1, 2, 3, 4]):
            cases.append({'kind': 'mv_full', 'op': op, 'k': k})
            for m in (8, 4):
                cases.append({'kind': 'bp_full', 'op': op, 'k': k, 'm': m})
                if op == 'not': cases.append({'kind': 'bp_full', 'op': op, 'k': k, 'm': m, 'inplace': True})
    def rshape(maxd=4):
        return [rng.choice([1, 1, 2, 3, 5, 9]) for _ in range(rng.randint(0, maxd))]
    for it in range(120 * scale):
        op = rng.choice(['not', 'and', 'or', 'xor'])
        k = 1 if op == 'not' else 2
        base = rshape()
        shapes = []
        for j in range(k):
            s = list(base)
            if rng.random() < 0.5 and s:   # broadcast: drop leading dims / set dims to 1
                s = s[rng.randint(0, len(s) - 1):]
                s = [1 if rng.random() < 0.3 else d for d in s]
            shapes.append(s)
        cases.append({'kind': 'mv_shape', 'op': op, 'shapes': shapes, 'seed': rng.randint(0, 2**31 - 1),
                      'out': rng.choice([None, None, 'zeros', 'junk', 'alias0', 'alias1'])})
    for it in range(60 * scale):
        op = rng.choice(['not', 'and', 'or', 'xor', 'buf'])
        k = 1 if op in ('not', 'buf') else rng.randint(1, 4)
        cases.append({'kind': 'bp_shape', 'op': op, 'm': rng.choice([4, 8]), 'k': k, 'lead': rshape(2),
                      'nbytes': rng.choice([1, 1, 2, 3, 9]), 'seed': rng.randint(0, 2**31 - 1)})
    for it in range(10 * scale):
        cases.append({'kind': 'demorgan', 'op': '-', 'shape': rshape(3) or [7], 'seed': rng.randint(0, 2**31 - 1)})
    for c in cases:
        if c['kind'] == 'bp_shape' and c['op'] == 'buf':
            continue  # buffer is outside the property's operator list (covered by theorem bp8_buf_spec only)
        try:
            ok, obs, exp = eval_case(c)
        except Exception as ex:
            ok, obs, exp = False, {'raised': f'{type(ex).__name__}: {ex}'[:300]}, None
        desc = (c['kind'], c['op'], c.get('k'), c.get('m'), json.dumps(c.get('shapes', c.get('lead', c.get('shape')))), c.get('out'), c.get('inplace'))
        ck.case(key=desc, sample=c, tag=[c['kind'], 'op:' + c['op']] + (['out=' + str(c['out'])] if 'out' in c else []))
        if not ok:
            cls = 'out-param' if (c['kind'] == 'mv_shape' and c.get('out')) else c['kind']
            ck.violation(cls, f"{c['kind']} {c['op']}: real result differs from the documented algebra", c, obs, exp)


def run(ck):
    ck.prove([extract_ops.generate, dump_tables.generate], TARGETS, theorems())
    oracle(ck, ck.scale)
    if ck.broken and not ck.violations:
        oracle(ck, ck.scale * 8)
    ck.assumptions += ['NumPy broadcasting / putmask / where= semantics are exercised, not modelled',
                       'the specification algebra (specNot/And/Or/Xor in Model/Val.lean) is hand-written from the docstrings']
    return ck.finish(RULE)


def replay(rep):
    ok, obs, exp = eval_case(rep['input'])
    print(json.dumps({'ok': ok, 'observed': obs, 'expected': exp}, default=str))
    return 0 if ok else 1
