"""C07 — the published level partition is a valid parallel schedule."""
import collections
import json, pickle, base64, random
import numpy as np
from . import common, circ, simcorr, wavecorr as wc

PID = 'C07'
TARGETS = ['KyupyVerif.Props.C07']
RULE = ('random circuits x {c_reuse} x {strip_forks} x capacities: (a) certificate: the Lean checker levelIndepB on the REAL ops of every level '
        '(operands resolved through the memory map for stripped branches, scratch-slot writers renamed apart), the footprint conditions modulo scratch MapIn.levelsIndepB / oneLevelB (hypotheses of level_threads_any_order; tag hyp:opsIndep, scratch-clash = a level with >= 2 scratch writers), the map certificate MapIn.check and the schedule certificate schedOKB (hypotheses of memory_any_schedule) on the REAL tables and a within-level permutation, and exact correspondence of the Lean '
        'levelisation with level_starts (via the SimOps model, C01/C08); (b) oracle: the rows of sim.ops are REALLY permuted inside every level '
        '(LogicSim m=2/8 and WaveSim) and the mock GPU launcher REALLY runs the (simulation, operation) threads of a level in random / reversed / '
        'sim-major order (WaveSimCuda with accumulators): all of c (outside the scratch slots), s and abuf must equal the canonical order. '
        'distinct = (circuit, options, permutation seed); non-trivial = some level has >= 2 ops')


def theorems():
    return common.theorems_of('KyupyVerif/Props/C07.lean', 'KV.C07')


def make_case(rng, thorough=False):
    # p_dangling 0.4 in a third of the cases: several gates with unconnected outputs (all write the scratch slot tmp_idx), so that
    # levels with >= 2 scratch writers occur (audit-2 finding 3; counted by the tag hyp:opsIndep:scratch-clash)
    c = circ.rand_circuit(rng, n_gates=rng.randint(2, 22 if not thorough else 60), p_dangling=rng.choice([0.1, 0.1, 0.4]))
    return {'circuit': base64.b64encode(pickle.dumps(c)).decode(), 'strip': rng.random() < 0.4, 'reuse': rng.random() < 0.6,
            'caps': rng.choice([4, 8, 16]), 'pseed': rng.randint(0, 2**31 - 1), 'sseed': rng.randint(0, 2**31 - 1),
            'order': rng.choice(['random', 'reversed', 'sim-major', 'random'])}


def permute_levels(sim, prng):
    ops = np.array(sim.ops).copy()
    for a, b in zip(sim.level_starts, sim.level_stops):
        idx = list(range(int(a), int(b))); prng.shuffle(idx)
        ops[int(a):int(b)] = ops[idx]
    return ops


def scratch_mask(sim):
    """boolean mask over memory rows: True for rows of the scratch slots (excluded from comparison)"""
    m = np.zeros(sim.c.shape[0], dtype=bool)
    for idx in (sim.tmp_idx, sim.tmp2_idx):
        l, c = int(sim.c_locs[idx]), int(sim.c_caps[idx])
        m[l:l + c] = True
    return m


class PermLauncher:
    """mock-GPU launcher that runs the threads of one kernel launch in a chosen order"""
    def __init__(self, launcher, prng, order):
        self.func, self.prng, self.order = launcher.func, prng, order
    def __call__(self, *a, **k): return self.func(*a, **k)
    def __getitem__(self, item):
        from kyupy import cuda
        grid, block = item
        def inner(*args, **kwargs):
            coords = [(gx * block[0] + bx, gy * block[1] + by) for gx in range(grid[0]) for gy in range(grid[1])
                      for bx in range(block[0]) for by in range(block[1])]
            if self.order == 'random': self.prng.shuffle(coords)
            elif self.order == 'reversed': coords.reverse()
            elif self.order == 'sim-major': coords.sort(key=lambda p: (p[0], p[1]))
            for x, y in coords:
                cuda.x, cuda.y = x, y
                self.func(*args, **kwargs)
        return inner


def eval_case(case):
    from kyupy import logic, wave_sim
    from kyupy.logic_sim import LogicSim
    c = pickle.loads(base64.b64decode(case['circuit']))
    prng = random.Random(case['pseed'])
    rs = np.random.RandomState(case['sseed'] % (2**31))
    s_len = len(c.s_nodes)
    # LogicSim: permute rows of ops inside levels
    for m in (2, 8):
        stim = rs.randint(0, 2 if m == 2 else 8, size=(s_len, 11)).astype(np.uint8) * (3 if m == 2 else 1)
        res = []
        for perm in (False, True):
            with common.quiet():
                ls = LogicSim(c, 11, m=m, c_reuse=case['reuse'], strip_forks=case['strip'])
            if perm: ls.ops = permute_levels(ls, prng)
            ls.s[0] = logic.mv_to_bp(stim); ls.s_to_c(); ls.c_prop(); ls.c_to_s()
            keep = ~scratch_mask(ls)
            res.append((ls.c[keep].copy(), ls.s.copy()))
        if not (np.array_equal(res[0][0], res[1][0]) and np.array_equal(res[0][1], res[1][1])):
            return False, {'sim': f'LogicSim m={m}', 'permuted': 'ops inside levels', 'memory_equal': bool(np.array_equal(res[0][0], res[1][0]))}, {'equal': 'canonical order'}
    # WaveSim CPU (permuted rows) and WaveSimCuda (thread orders) with accumulators
    drng = random.Random(case['sseed'])
    delays = wc.rand_delays(drng, len(c.lines))
    n = len(c.lines) + 3
    arng = random.Random(case['sseed'] + 7)
    a_ctrl = np.array([[arng.randrange(3) if arng.random() < 0.6 else -1, arng.choice([1, 2, -1]), arng.choice([1, 0, 3])] for _ in range(n)], dtype=np.int32)
    ref = None
    for variant in ('canonical', 'cpu-permuted', 'gpu-' + case['order']):
        srng = random.Random(case['sseed'] + 1)
        ws = wc.make_sim(c, delays, 3, c_caps=case['caps'], strip=case['strip'], reuse=case['reuse'], cuda=variant.startswith('gpu'), a_ctrl=a_ctrl)
        i, t, f = wc.rand_stim(srng, ws.s_len, 3); wc.assign(ws, i, t, f)
        wc.overwrite_inputs(ws, srng, p=0.4)
        if variant == 'cpu-permuted': ws.ops = permute_levels(ws, prng)
        saved = wave_sim.wave_eval_gpu
        saved_dev = getattr(wave_sim, '_wave_eval_gpu', None)
        calls = collections.Counter()
        try:
            if variant.startswith('gpu'):
                wave_sim.wave_eval_gpu = PermLauncher(saved, prng, case['order'])
                if saved_dev is not None:       # count the evaluations the kernel threads really perform: (op row, lane)
                    def counting(op, cbuf, c_locs, c_caps, sim, *rest):
                        calls[(tuple(int(v) for v in op[:6]), int(sim))] += 1
                        return saved_dev(op, cbuf, c_locs, c_caps, sim, *rest)
                    wave_sim._wave_eval_gpu = counting
            with common.quiet():
                ws.c_prop(); ws.c_to_s()
        finally:
            wave_sim.wave_eval_gpu = saved
            if saved_dev is not None: wave_sim._wave_eval_gpu = saved_dev
        if variant.startswith('gpu') and saved_dev is not None:
            want = collections.Counter((tuple(int(v) for v in row[:6]), sim) for row in np.array(ws.ops) for sim in range(ws.sims))
            if calls != want:
                extra = sum((calls - want).values()); missing = sum((want - calls).values())
                return False, {'sim': 'WaveSimCuda', 'variant': variant, 'evaluations': sum(calls.values()), 'surplus': extra, 'missing': missing}, \
                    {'evaluations': sum(want.values()), 'each (operation, lane)': 'exactly once'}
        keep = ~scratch_mask(ws)
        snap = (np.array(ws.c)[keep].copy(), np.array(ws.s)[3:].copy(), np.array(ws.abuf).copy())
        if ref is None: ref = snap
        else:
            for name, a, b in zip(('c', 's', 'abuf'), ref, snap):
                if not np.array_equal(a, b):
                    return False, {'sim': 'WaveSim', 'variant': variant, 'differs': name}, {'equal': 'canonical order'}
    return True, None, None


def run_grid(nn, mm, bx, by):
    """launch a recording kernel over nn x mm items through the real mock launcher with the real `_grid_dim`"""
    from kyupy import cuda, wave_sim
    log = []
    @cuda.jit()
    def probe(n, m):
        x, y = cuda.grid(2)
        log.append((int(x), int(y), bool(x < n and y < m)))
    class Stub: pass
    st = Stub(); st._block_dim = (bx, by)
    gd = wave_sim.WaveSimCuda._grid_dim(st, nn, mm)
    probe[gd, (bx, by)](nn, mm)
    fmt = lambda l: ' '.join(f'{x}.{y}' for x, y in l) or '-'
    real = f"{int(gd[0])},{int(gd[1])} | {fmt([(x, y) for x, y, _ in log])} | {fmt([(x, y) for x, y, a in log if a])}"
    return real, sorted((x, y) for x, y, a in log if a)


def corr_grid(ck, n):
    """the REAL mock launcher (`kyupy.cuda.jit`, four nested loops) and `cdiv` / `WaveSimCuda._grid_dim` against the Lean model
    `Grid.launch` / `Grid.cdiv`: launch order and the set of threads that pass the guards, for random item counts and block shapes"""
    import kyupy
    from kyupy import cuda, wave_sim
    if type(cuda).__name__ != 'MockCuda':
        ck.hist['grid:real-cuda-skipped'] += 1; return
    cases = [(1, 1, 1, 1), (0, 3, 2, 2), (3, 0, 2, 2), (32, 16, 32, 16), (33, 17, 32, 16), (64, 32, 32, 16), (70, 5, 32, 16)]
    while len(cases) < n:
        cases.append((ck.rng.randint(0, 70), ck.rng.randint(0, 40), ck.rng.choice([1, 2, 3, 4, 8, 32]), ck.rng.choice([1, 2, 3, 5, 16])))
    out = common.run_driver([f'grid {a} {b} {c} {d}' for a, b, c, d in cases])
    for (nn, mm, bx, by), ans in zip(cases, out):
        real, act = run_grid(nn, mm, bx, by)
        ck.case(key=('grid', nn, mm, bx, by), nontrivial=nn > 0 and mm > 0 and (nn % bx != 0 or mm % by != 0), sample={'grid': [nn, mm, bx, by]},
                tag=['grid', 'partial-block' if (nn % bx or mm % by) else 'full-blocks'])
        if real != ans:
            ck.broken_tie('MockCuda launcher / cdiv / _grid_dim vs Lean Grid.launch', f'items {nn}x{mm} blocks {bx}x{by}: real "{real[:200]}" != model "{ans[:200]}"',
                          inp={'grid': [nn, mm, bx, by]})
        # the property at this level, against ground truth: every item exactly once, nothing else
        if act != sorted((x, y) for x in range(nn) for y in range(mm)):
            ck.violation('gpu-grid', 'the kernel launch does not cover the work items exactly once', {'kind': 'grid', 'grid': [nn, mm, bx, by]},
                         {'active_threads': len(act), 'distinct': len(set(act))}, {'items': nn * mm})


def cert(case):
    """levelIndepB on the real ops of every level"""
    from kyupy.sim import SimOps
    c = pickle.loads(base64.b64decode(case['circuit']))
    with common.quiet():
        so = SimOps(c, c_caps=case['caps'], c_caps_min=4, c_reuse=case['reuse'], strip_forks=case['strip'])
    ops = np.array(so.ops); locs = np.array(so.c_locs)
    written = set(int(r[1]) for r in ops) | set(so.ppi_offset + i for i in range(so.s_len))
    by_loc = {}
    for w in written:
        if w not in (so.tmp_idx, so.tmp2_idx): by_loc.setdefault(int(locs[w]), w)
    # signals are identified by index; a stripped branch stands for the signal that owns its memory (only valid without reuse,
    # therefore the alias table is taken from a map built WITHOUT reuse)
    with common.quiet():
        so0 = SimOps(c, c_caps=case['caps'], c_caps_min=4, c_reuse=False, strip_forks=case['strip'])
    locs0 = np.array(so0.c_locs); by0 = {}
    for w in written:
        if w not in (so.tmp_idx, so.tmp2_idx): by0.setdefault(int(locs0[w]), w)
    def src(i):
        i = int(i)
        return i if i in written else by0.get(int(locs0[i]), i)
    rows = []
    fresh = len(locs) + 10
    for r in ops:
        o = int(r[1])
        if o == so.tmp_idx: o = fresh; fresh += 1     # scratch writers are never read: rename them apart
        rows.append(','.join(str(x) for x in [int(r[0]), o] + [src(v) for v in r[2:6]]))
    ans = common.run_driver([f"levelsok {','.join(str(int(x)) for x in so.level_starts)} {'/'.join(rows)}"])[0]
    # hypotheses of C07.memory_any_schedule on the REAL tables: the map certificate accepts them, and the kind of order the oracle
    # below really executes (a permutation inside every level) is accepted by schedOKB; an order that moves an op across a level
    # boundary is rejected
    opsS = '/'.join(','.join(str(int(x)) for x in row[:6]) for row in so.ops)
    rest = '|'.join([opsS, ','.join(str(int(x)) for x in so.level_starts), ','.join(str(int(x)) for x in so.c_locs),
                     ','.join(str(int(x)) for x in so.c_caps), str(int(so.c_len))])
    prng = random.Random(case['pseed'] + 1)
    sched = []
    for a, b in zip(so.level_starts, so.level_stops):
        idx = list(range(int(a), int(b))); prng.shuffle(idx); sched += idx
    bad = list(sched)
    if len(so.level_starts) > 1:
        a = int(so.level_starts[1]); bad[a - 1], bad[a] = bad[a], bad[a - 1]
    out = common.run_driver([f'net {circ.dump_net(c)}', f"mapok {int(case['strip'])} 4 {rest}",
                             f"schedok {int(case['strip'])} 4 {rest} {','.join(map(str, sched))}",
                             f"schedok {int(case['strip'])} 4 {rest} {','.join(map(str, bad))}",
                             f"opsindep {int(case['strip'])} 4 {rest}"])
    # hypotheses of C07.level_threads_any_order / C06.level_any_thread_order_wave on the REAL tables: footprint conditions modulo the
    # scratch slots (MapIn.levelsIndepB; a theorem from the map certificate, evaluated here independently), every
    # (level_starts[i], level_stops[i]) inside one level (oneLevelB) and inside the program, c_caps_min >= 2
    kv = dict(t.split('=') for t in out[4].split()) if '=' in out[4] else {}
    # the driver derives the level ends from level_starts (stop[i] = start[i+1], last = len(ops)); the object's own level_stops must be these
    real_stops = [int(x) for x in so.level_stops]
    if real_stops != [int(x) for x in so.level_starts[1:]] + [len(so.ops)]:
        kv['onelevel'] = f'false(level_stops={real_stops})'
    cert.last_clash = int(kv.get('clash', 0))
    # tie of writer_before_reader_simops / memory_any_schedule_all_circuits: rows, level_starts and the map of the Lean SimOps model
    # (genOps, levelise, memMap) are EXACTLY the real ones on this case
    eq, _real, _model, diff, _ = simcorr.compare(c, case['strip'], case['reuse'], case['caps'], 4)
    if not eq: ans = f'SimOps model != real SimOps: first difference in {diff}'
    if out[1] != 'ok': ans = f'map certificate on the real tables: {out[1]}'
    elif out[2] != 'ok': ans = 'schedOKB rejects a permutation inside the levels'
    elif len(so.level_starts) > 1 and out[3] != 'FAIL': ans = 'schedOKB accepts an order that crosses a level boundary'
    elif not (kv.get('indep') == 'true' and kv.get('onelevel') == 'true' and kv.get('capsmin') == 'true'):
        ans = f'hypotheses of level_threads_any_order on the real tables: {out[4]}'
    return ans, max((int(b) - int(a)) for a, b in zip(so.level_starts, so.level_stops))


def oracle(ck, n, thorough=False):
    for it in range(n):
        cs = make_case(ck.rng, thorough)
        clash, ans = 0, 'raised'
        try:
            cert.last_clash = 0
            ans, widest = cert(cs)
            clash = cert.last_clash
            if ans != 'ok':
                ck.broken_tie('level certificate levelIndepB on the real ops', ans, inp={k: v for k, v in cs.items() if k != 'circuit'})
            ok, obs, exp = eval_case(cs)
        except Exception as ex:
            ok, obs, exp, widest = False, {'raised': f'{type(ex).__name__}: {ex}'[:300]}, None, 0
        # hypotheses of memory_any_schedule_all_circuits / writer_before_reader_simops on the REAL circuit and order
        hyp_tag = common.allcirc_hyp(ck, pickle.loads(base64.b64decode(cs['circuit'])), [cs['strip']], 'C07')
        ck.case(key=(cs['circuit'][:80], cs['strip'], cs['reuse'], cs['pseed']), nontrivial=widest >= 2,
                sample={k: v for k, v in cs.items() if k != 'circuit'},
                tag=[f"strip:{cs['strip']}", f"reuse:{cs['reuse']}", f"order:{cs['order']}", f'widest-level:{min(widest, 8)}', hyp_tag,
                     'hyp:opsIndep:ok' if ans == 'ok' else 'hyp:opsIndep:outside',
                     'hyp:opsIndep:scratch-clash' if clash else 'hyp:opsIndep:no-clash'])
        if not ok:
            ck.violation('schedule', 'results depend on the order of operations / threads inside a level', cs, obs, exp)


def run(ck):
    ck.prove([], TARGETS, theorems())
    n = 40 if ck.tier == 'quick' else 600
    corr_grid(ck, 60 if ck.tier == 'quick' else 600)
    oracle(ck, n, ck.tier == 'thorough')
    if ck.broken and not ck.violations: oracle(ck, n * 4, ck.tier == 'thorough')
    ck.assumptions += ['real GPU scheduling is represented by atomic per-thread steps of the mock launcher (no numba/CUDA in this sandbox)',
                       'memory-level independence: theorem memory_any_schedule under the map certificate, which is evaluated on the real tables of every case; memory_any_schedule_all_circuits / writer_before_reader_simops speak about the tables of the Lean SimOps model (level_starts = levelise: compared exactly with the real ops / level_starts / c_locs / c_caps / c_len on every case here and in C01/C08); their hypotheses wfB/orderOKB/forksOKB/readsDrivenB are evaluated by the driver on every real circuit and order (tag allcirc-hyp)']
    return ck.finish(RULE)


def replay(rep):
    if rep['input'].get('kind') == 'grid':
        nn, mm, bx, by = rep['input']['grid']
        real, act = run_grid(nn, mm, bx, by)
        ok = act == sorted((x, y) for x in range(nn) for y in range(mm))
        print(json.dumps({'ok': ok, 'launch': real[:300]})); return 0 if ok else 1
    ok, obs, exp = eval_case(rep['input'])
    print(json.dumps({'ok': ok, 'observed': obs, 'expected': exp}, default=str))
    return 0 if ok else 1
