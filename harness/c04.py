"""C04 — transitions stay inside the static-timing window and move rigidly with inputs."""
import json, pickle, base64, random
import numpy as np
from . import common, circ, wavecorr as wc, c03

PID = 'C04'
TARGETS = ['KyupyVerif.Props.C04']
RULE = ('random circuits x delays >= 0 on a dyadic grid x multi-transition input waveforms x capacities (16..32, no overflow interference for the '
        'rigid-motion clauses; 4..8 for the window clause): oracle on the real WaveSim: (a) every finite transition of every line lies inside the '
        'static-timing window computed independently (min/max path delays from the input transition times); (b) shifting all input transitions by s '
        'shifts every transition of every line by s; (c) scaling times and delays by 2^k scales every transition; (d) polarity-independent delays: '
        'timestamps strictly increasing in every waveform; (e) with c_reuse (and strip_forks) the waveforms at output ports and flip-flop inputs stay inside the window computed from the run without reuse. distinct = (circuit, delays, stimulus, clause); non-trivial = some line has a finite transition')


def theorems():
    return common.theorems_of('KyupyVerif/Props/C04.lean', 'KV.C04')


def make_case(rng, thorough=False, ports=False):
    c = circ.rand_circuit(rng, n_gates=rng.randint(1, 16 if not thorough else 45)) if not ports else \
        circ.rand_circuit(rng, n_gates=rng.randint(6, 30 if not thorough else 60), n_ff=rng.randint(1, 4))
    if ports:
        return {'circuit': base64.b64encode(pickle.dumps(c)).decode(), 'dseed': rng.randint(0, 2**31 - 1), 'sseed': rng.randint(0, 2**31 - 1),
                'sims': rng.choice([1, 2]), 'polind': rng.random() < 0.5, 'caps': rng.choice([8, 16]), 'shift': 0, 'scale': 1,
                'strip': rng.random() < 0.7, 'cuda': False, 'reuse': True, 'ports': True}
    return {'circuit': base64.b64encode(pickle.dumps(c)).decode(), 'dseed': rng.randint(0, 2**31 - 1), 'sseed': rng.randint(0, 2**31 - 1),
            'sims': rng.choice([1, 2, 4]), 'polind': rng.random() < 0.5, 'caps': rng.choice([16, 32]), 'shift': rng.choice([0.5, 3, 7.5, 64, -2.5]),
            'scale': rng.choice([2, 4, 0.5, 8, 2.0 ** -12, 2.0 ** -18, 1024.0]), 'strip': rng.random() < 0.25, 'cuda': rng.random() < 0.2, 'reuse': rng.random() < 0.3}


def simulate(case, shift=0.0, scale=1.0, caps=None, ports_only=False):
    c = pickle.loads(base64.b64decode(case['circuit']))
    drng = random.Random(case['dseed']); srng = random.Random(case['sseed'])
    delays = wc.rand_delays(drng, len(c.lines), polarity_dependent=not case['polind']) * np.float32(scale)
    ws = wc.make_sim(c, delays, case['sims'], c_caps=caps or case['caps'], strip=case['strip'], cuda=case['cuda'], reuse=case.get('reuse', False) and ports_only)
    i, t, f = wc.rand_stim(srng, ws.s_len, case['sims'], tmax=30)
    wc.assign(ws, i, t, f)
    wc.overwrite_inputs(ws, srng, p=0.6, tmax=30)
    TMIN, TMAX, TOVL = wc.consts()
    if shift != 0.0 or scale != 1.0:
        cc = ws.c
        for loc in ws.pippi_c_locs:
            for k in range(3):
                for s in range(case['sims']):
                    v = float(cc[loc + k, s])
                    if TMIN < v < TMAX: cc[loc + k, s] = np.float32(v * scale + shift)
    with common.quiet():
        ws.c_prop()
    return c, ws, delays


def waves(ws, c, sim):
    cc = np.array(ws.c)
    res = {}
    for row in np.array(ws.ops):
        o = int(row[1])
        if o < len(c.lines):
            res[o] = wc.read_wave(cc, int(ws.c_locs[o]), int(ws.c_caps[o]), sim)
    return res


def port_windows(case):
    """clause (e): with memory reuse on (only ports are observable afterwards) every finite transition seen at an output port or
    flip-flop input lies inside the static-timing window of that signal; the window comes from the op list of the run WITHOUT reuse"""
    TMIN, TMAX, TOVL = wc.consts()
    c, ws0, delays = simulate(case)
    ops = np.array(ws0.ops); cc = np.array(ws0.c); locs = np.array(ws0.c_locs)
    c1, ws1, _ = simulate(case, ports_only=True)
    cc1 = np.array(ws1.c); locs1 = np.array(ws1.c_locs); caps1 = np.array(ws1.c_caps)
    for s in range(case['sims']):
        win = {}
        for s_loc in ws0.pippi_s_locs:
            idx = ws0.ppi_offset + int(s_loc)
            ents, _ = wc.read_wave(cc, int(locs[idx]), int(ws0.c_caps[idx]), s)
            fin = [t for t in ents if t > TMIN]
            win[int(locs[idx])] = (min(fin), max(fin)) if fin else None
        for row in ops:
            acc = None
            for a in row[2:6]:
                a = int(a); w = win.get(int(locs[a]))
                if w is None: continue
                d = delays[0, a] if a < delays.shape[1] else np.zeros((2, 2))
                lo, hi = w[0] + float(d.min()), w[1] + float(d.max())
                acc = (lo, hi) if acc is None else (min(acc[0], lo), max(acc[1], hi))
            win[int(locs[int(row[1])])] = acc
        for s_loc in ws1.poppo_s_locs:
            idx = ws1.ppo_offset + int(s_loc)
            if int(locs1[idx]) < 0: continue
            ents, term = wc.read_wave(cc1, int(locs1[idx]), int(caps1[idx]), s)
            w = win.get(int(locs[idx]))
            for t in ents:
                if t <= TMIN: continue
                if w is None or t < w[0] or t > w[1]:
                    return False, {'clause': 'port-window', 's_node': int(s_loc), 'name': c.s_nodes[int(s_loc)].name, 'lane': s, 'transition': t,
                                   'waveform': wc.fmt_wave(ents, term), 'c_reuse': True, 'strip_forks': case['strip']}, {'window': w}
    return True, None, None


def eval_case(case):
    TMIN, TMAX, TOVL = wc.consts()
    if case.get('ports'): return port_windows(case)
    c, ws, delays = simulate(case)
    ops = np.array(ws.ops); cc = np.array(ws.c); locs = np.array(ws.c_locs)
    # (a) STA window, independent computation over the op list (through memory locations for stripped branches)
    for s in range(case['sims']):
        win = {}
        for s_loc in ws.pippi_s_locs:
            idx = ws.ppi_offset + int(s_loc)
            ents, _ = wc.read_wave(cc, int(locs[idx]), int(ws.c_caps[idx]), s)
            fin = [t for t in ents if t > TMIN]
            win[int(locs[idx])] = (min(fin), max(fin)) if fin else None
        for row in ops:
            o = int(row[1]); acc = None
            for a in row[2:6]:
                a = int(a); w = win.get(int(locs[a]))
                if w is None: continue
                d = delays[0, a] if a < delays.shape[1] else np.zeros((2, 2))
                lo, hi = w[0] + float(d.min()), w[1] + float(d.max())
                acc = (lo, hi) if acc is None else (min(acc[0], lo), max(acc[1], hi))
            win[int(locs[o])] = acc
            if o >= len(c.lines): continue
            ents, term = wc.read_wave(cc, int(locs[o]), int(ws.c_caps[o]), s)
            for t in ents:
                if t <= TMIN: continue
                if acc is None or t < acc[0] or t > acc[1]:
                    return False, {'clause': 'window', 'line': o, 'lane': s, 'transition': t, 'waveform': wc.fmt_wave(ents, term)}, {'window': acc}
            # (d) strict monotonicity for polarity-independent delays
            if case['polind'] and any(b <= a for a, b in zip(ents, ents[1:])):
                return False, {'clause': 'monotone', 'line': o, 'lane': s, 'waveform': wc.fmt_wave(ents, term)}, {'strictly': 'increasing'}
    # (b) shift, (c) scale: no overflow in the reference run required (capacity chosen large)
    if any(term == 'O' for s in range(case['sims']) for (_, term) in waves(ws, c, s).values()):
        return True, {'skipped': 'overflow in reference run'}, None
    for clause, sh, sc in (('shift', case['shift'], 1.0), ('scale', 0.0, case['scale'])):
        c2, ws2, _ = simulate(case, shift=sh, scale=sc)
        for s in range(case['sims']):
            w1, w2 = waves(ws, c, s), waves(ws2, c2, s)
            for o in w1:
                e1, t1 = w1[o]; e2, t2 = w2[o]
                exp = [t if t <= TMIN else float(np.float32(t * sc + sh)) for t in e1]
                if exp != e2 or t1 != t2:
                    return False, {'clause': clause, 'amount': sh if clause == 'shift' else sc, 'line': o, 'lane': s, 'waveform': [float(x) for x in e2]}, {'waveform': exp}
    return True, None, None


def gate_oracle(ck, n):
    """gate level, on the real wave_eval_cpu: every finite output transition lies inside the window of the operand
    transitions moved by the min/max of that operand's four delay entries; strictly increasing output for
    polarity-independent delays and strictly increasing operands; plus the model correspondence of C03"""
    TMIN = wc.consts()[0]
    c03.corr_gate(ck, n)          # ties the Lean transcription (the theorems are about it) to wave_eval_cpu
    for it in range(n):
        cs = c03.gate_case(ck.rng)
        if ck.rng.random() < 0.5:
            for i in range(4): cs['d'][i] = [cs['d'][i][0]] * 4        # polarity independent
        try:
            ents, term, nr, nf = c03.run_gate_real(cs)
        except Exception as ex:
            ck.violation('wave-gate', 'wave_eval_cpu raised', cs, {'raised': str(ex)[:200]}, None); continue
        lo = hi = None
        for i, inp in enumerate(cs['ins']):
            fin = [wc.dec(t) for t in inp['w'] if t != 'm']
            if not fin: continue
            dl = [v / wc.GRID for v in cs['d'][i]]
            a, b = min(fin) + min(dl), max(fin) + max(dl)
            lo = a if lo is None else min(lo, a); hi = b if hi is None else max(hi, b)
        ck.case(key=('gatewin', json.dumps(cs, sort_keys=True)), nontrivial=any(t > TMIN for t in ents), tag=['gate-window'])
        for t in ents:
            if t <= TMIN: continue
            if lo is None or t < lo or t > hi:
                ck.violation('wave-window', 'gate output transition outside the static-timing window of its operands', cs,
                             {'transition': t, 'waveform': [float(x) for x in ents]}, {'window': [lo, hi]})
                break
        polind = all(len(set(cs['d'][i])) == 1 for i in range(4))
        if polind and any(b <= a for a, b in zip(ents, ents[1:])):
            ck.violation('wave-monotone', 'non-monotone output waveform with polarity-independent delays', cs,
                         {'waveform': [float(x) for x in ents]}, {'strictly': 'increasing'})


def oracle(ck, n, thorough=False):
    for it in range(n + n // 2):
        cs = make_case(ck.rng, thorough, ports=it >= n)
        try:
            ok, obs, exp = eval_case(cs)
        except wc.OffGrid:
            ck.hist['off-grid-discarded'] += 1; continue
        except Exception as ex:
            ok, obs, exp = False, {'raised': f'{type(ex).__name__}: {ex}'[:300]}, None
        ck.case(key=(cs['circuit'][:80], cs['dseed'], cs['sseed'], cs['polind'], cs['shift'], cs['scale']),
                sample={k: v for k, v in cs.items() if k != 'circuit'},
                tag=[f"polind:{cs['polind']}", f"shift:{cs['shift']}", f"scale:{cs['scale']}", f"strip:{cs['strip']}", f"cuda:{cs['cuda']}",
                     'port-window-reuse' if cs.get('ports') else ('skipped-rigid' if (obs and 'skipped' in obs) else 'rigid-checked'),
                     common.allcirc_hyp(ck, pickle.loads(base64.b64decode(cs['circuit'])), [cs['strip']], 'C04')])   # hypotheses of wave_timing_all_circuits
        if not ok:
            ck.violation('wave-' + (obs.get('clause', 'run') if obs else 'run'), 'WaveSim violates the timing clause', cs, obs, exp)


def run(ck):
    ck.prove([], TARGETS, theorems())
    n, ng = (60, 1500) if ck.tier == 'quick' else (900, 30000)
    gate_oracle(ck, ng)
    oracle(ck, n, ck.tier == 'thorough')
    if ck.broken and not ck.violations:
        gate_oracle(ck, ng * 4); oracle(ck, n * 5, ck.tier == 'thorough')
    ck.assumptions += ['waveform model tied to wave_eval_cpu by the correspondence of C03',
                       'shift/scale invariance is decided by the oracle only (no theorem yet); power-of-two scales and dyadic shifts are exact in float32']
    return ck.finish(RULE)


def replay(rep):
    ok, obs, exp = eval_case(rep['input'])
    print(json.dumps({'ok': ok, 'observed': obs, 'expected': exp}, default=str))
    return 0 if ok else 1
