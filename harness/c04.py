"""C04 — transitions stay inside the static-timing window and move rigidly with inputs."""
import json, pickle, base64, random
import numpy as np
from . import common, circ, wavecorr as wc

PID = 'C04'
TARGETS = ['KyupyVerif.Props.C04']
RULE = ('random circuits x delays >= 0 on a dyadic grid x multi-transition input waveforms x capacities (16..32, no overflow interference for the '
        'rigid-motion clauses; 4..8 for the window clause): oracle on the real WaveSim: (a) every finite transition of every line lies inside the '
        'static-timing window computed independently (min/max path delays from the input transition times); (b) shifting all input transitions by s '
        'shifts every transition of every line by s; (c) scaling times and delays by 2^k scales every transition; (d) polarity-independent delays: '
        'timestamps strictly increasing in every waveform. distinct = (circuit, delays, stimulus, clause); non-trivial = some line has a finite transition')


def theorems():
    return common.theorems_of('KyupyVerif/Props/C04.lean', 'KV.C04')


def make_case(rng, thorough=False):
    c = circ.rand_circuit(rng, n_gates=rng.randint(1, 16 if not thorough else 45))
    return {'circuit': base64.b64encode(pickle.dumps(c)).decode(), 'dseed': rng.randint(0, 2**31 - 1), 'sseed': rng.randint(0, 2**31 - 1),
            'sims': rng.choice([1, 2, 4]), 'polind': rng.random() < 0.5, 'caps': rng.choice([16, 32]), 'shift': rng.choice([0.5, 3, 7.5, 64, -2.5]),
            'scale': rng.choice([2, 4, 0.5, 8]), 'strip': rng.random() < 0.25, 'cuda': rng.random() < 0.2}


def simulate(case, shift=0.0, scale=1.0, caps=None):
    c = pickle.loads(base64.b64decode(case['circuit']))
    drng = random.Random(case['dseed']); srng = random.Random(case['sseed'])
    delays = wc.rand_delays(drng, len(c.lines), polarity_dependent=not case['polind']) * np.float32(scale)
    ws = wc.make_sim(c, delays, case['sims'], c_caps=caps or case['caps'], strip=case['strip'], cuda=case['cuda'])
    i, t, f = wc.rand_stim(srng, ws.s_len, case['sims'], tmax=30)
    wc.assign(ws, i, t, f)
    wc.overwrite_inputs(ws, srng, p=0.6, tmax=30)
    TMIN, TMAX, TOVL = wc.consts()
    if shift != 0.0 or scale != 1.0:
        cc = ws.c
        for loc in ws.pippi_c_locs:
            for k in range(3):
                for s in range(case['sims']):
                    v = float(cc[loc + k, s])
                    if TMIN < v < TMAX: cc[loc + k, s] = np.float32(v * scale + shift)
    with common.quiet():
        ws.c_prop()
    return c, ws, delays


def waves(ws, c, sim):
    cc = np.array(ws.c)
    res = {}
    for row in np.array(ws.ops):
        o = int(row[1])
        if o < len(c.lines):
            res[o] = wc.read_wave(cc, int(ws.c_locs[o]), int(ws.c_caps[o]), sim)
    return res


def eval_case(case):
    TMIN, TMAX, TOVL = wc.consts()
    c, ws, delays = simulate(case)
    ops = np.array(ws.ops); cc = np.array(ws.c); locs = np.array(ws.c_locs)
    # (a) STA window, independent computation over the op list (through memory locations for stripped branches)
    for s in range(case['sims']):
        win = {}
        for s_loc in ws.pippi_s_locs:
            idx = ws.ppi_offset + int(s_loc)
            ents, _ = wc.read_wave(cc, int(locs[idx]), int(ws.c_caps[idx]), s)
            fin = [t for t in ents if t > TMIN]
            win[int(locs[idx])] = (min(fin), max(fin)) if fin else None
        for row in ops:
            o = int(row[1]); acc = None
            for a in row[2:6]:
                a = int(a); w = win.get(int(locs[a]))
                if w is None: continue
                d = delays[0, a] if a < delays.shape[1] else np.zeros((2, 2))
                lo, hi = w[0] + float(d.min()), w[1] + float(d.max())
                acc = (lo, hi) if acc is None else (min(acc[0], lo), max(acc[1], hi))
            win[int(locs[o])] = acc
            if o >= len(c.lines): continue
            ents, term = wc.read_wave(cc, int(locs[o]), int(ws.c_caps[o]), s)
            for t in ents:
                if t <= TMIN: continue
                if acc is None or t < acc[0] or t > acc[1]:
                    return False, {'clause': 'window', 'line': o, 'lane': s, 'transition': t, 'waveform': wc.fmt_wave(ents, term)}, {'window': acc}
            # (d) strict monotonicity for polarity-independent delays
            if case['polind'] and any(b <= a for a, b in zip(ents, ents[1:])):
                return False, {'clause': 'monotone', 'line': o, 'lane': s, 'waveform': wc.fmt_wave(ents, term)}, {'strictly': 'increasing'}
    # (b) shift, (c) scale: no overflow in the reference run required (capacity chosen large)
    if any(term == 'O' for s in range(case['sims']) for (_, term) in waves(ws, c, s).values()):
        return True, {'skipped': 'overflow in reference run'}, None
    for clause, sh, sc in (('shift', case['shift'], 1.0), ('scale', 0.0, case['scale'])):
        c2, ws2, _ = simulate(case, shift=sh, scale=sc)
        for s in range(case['sims']):
            w1, w2 = waves(ws, c, s), waves(ws2, c2, s)
            for o in w1:
                e1, t1 = w1[o]; e2, t2 = w2[o]
                exp = [t if t <= TMIN else float(np.float32(t * sc + sh)) for t in e1]
                if exp != e2 or t1 != t2:
                    return False, {'clause': clause, 'amount': sh if clause == 'shift' else sc, 'line': o, 'lane': s, 'waveform': [float(x) for x in e2]}, {'waveform': exp}
    return True, None, None


def oracle(ck, n, thorough=False):
    for it in range(n):
        cs = make_case(ck.rng, thorough)
        try:
            ok, obs, exp = eval_case(cs)
        except wc.OffGrid:
            ck.hist['off-grid-discarded'] += 1; continue
        except Exception as ex:
            ok, obs, exp = False, {'raised': f'{type(ex).__name__}: {ex}'[:300]}, None
        ck.case(key=(cs['circuit'][:80], cs['dseed'], cs['sseed'], cs['polind'], cs['shift'], cs['scale']),
                sample={k: v for k, v in cs.items() if k != 'circuit'},
                tag=[f"polind:{cs['polind']}", f"shift:{cs['shift']}", f"scale:{cs['scale']}", f"strip:{cs['strip']}", f"cuda:{cs['cuda']}",
                     'skipped-rigid' if (obs and 'skipped' in obs) else 'rigid-checked'])
        if not ok:
            ck.violation('wave-' + (obs.get('clause', 'run') if obs else 'run'), 'WaveSim violates the timing clause', cs, obs, exp)


def run(ck):
    ck.prove([], TARGETS, theorems())
    n = 60 if ck.tier == 'quick' else 900
    oracle(ck, n, ck.tier == 'thorough')
    if ck.broken and not ck.violations: oracle(ck, n * 5, ck.tier == 'thorough')
    ck.assumptions += ['waveform model tied to wave_eval_cpu by the correspondence of C03',
                       'shift/scale invariance is decided by the oracle only (no theorem yet); power-of-two scales and dyadic shifts are exact in float32']
    return ck.finish(RULE)


def replay(rep):
    ok, obs, exp = eval_case(rep['input'])
    print(json.dumps({'ok': ok, 'observed': obs, 'expected': exp}, default=str))
    return 0 if ok else 1
