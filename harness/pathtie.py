"""C06, clause `path-tie`: exact correspondence between the Lean models of the two code paths of wave_sim.py
(lean/KyupyVerif/Model/WaveIO.lean, driver commands wio-stoc / wio-ppi / wio-cap) and the REAL `WaveSim` (NumPy) and `WaveSimCuda`
(kernels under MockCuda): for random tables, random (initial, time, final, captured) values — mostly 0/1, sometimes 0.25, 0.5,
0.75, -1, 2 — random previous contents of `c` and random block shapes, the raw arrays after the real `s_to_c` / `s_ppo_to_ppi` of
EACH class must equal the array the model of THAT path computes (every cell, stale ones included). A mismatch is a broken
correspondence, never a violation; the hypotheses of the path theorems are evaluated on the real tables and tagged."""
import random
import numpy as np
from . import common, circ, wavecorr as wc

DEN = 4
VALUES = [0.0, 1.0, 0.0, 1.0, 0.0, 1.0, 0.25, 0.5, 0.75, -1.0, 2.0]
BLOCKS = [(32, 16), (2, 3), (1, 1), (4, 2), (3, 5)]


def _circuit(rng):
    """random circuit; sometimes with a flip-flop whose outputs are all unconnected (its (P)PI slot has no memory)"""
    from kyupy.circuit import Node, Line
    c = circ.rand_circuit(rng, n_gates=rng.randint(1, 8), n_ff=rng.choice([0, 1, 2, 3]))
    feats = []
    if rng.random() < 0.35:
        forks = [n for n in c.nodes if n.kind == '__fork__']
        for k in range(rng.randint(1, 2)):
            ff = Node(c, f'ffx{k}', rng.choice(['DFF', 'LATCH']))
            Line(c, rng.choice(forks), (ff, 0))
        feats.append('ff-without-outputs')
    if rng.random() < 0.15:
        Node(c, 'ffy', 'DFF')      # neither data nor outputs
        feats.append('ff-unconnected')
    return c, feats


def _cells(rng, n):
    TMIN, TMAX, TOVL = wc.consts()
    return [rng.choice([TMIN, TMAX, TMAX, TOVL] + [rng.randrange(0, 80) / wc.GRID for _ in range(4)]) for _ in range(n)]


def _val(v):
    x = float(v) * DEN
    if x != round(x): raise wc.OffGrid(v)
    return str(int(round(x)))


def _s_rows(s, sims, fields):
    return ';'.join('/'.join(','.join((wc.enc(s[k, y, x]) if k == 1 else _val(s[k, y, x])) for k in fields) for y in range(s.shape[1])) or '/'
                    for x in range(sims))


def _c_lanes(c, sims):
    return ';'.join(','.join(wc.enc(c[a, x]) for a in range(c.shape[0])) or '-' for x in range(sims))


def make_case(rng):
    return {'seed': rng.randint(0, 2**31 - 1)}


def eval_case(case):
    """returns (broken: [(name, detail)], tags: [...])"""
    rng = random.Random(case['seed'])
    c, feats = _circuit(rng)
    sims = rng.randint(1, 5)
    d = wc.rand_delays(rng, len(c.lines))
    strip, reuse = rng.random() < 0.3, rng.random() < 0.3
    caps = rng.choice([4, 8])
    cpu = wc.make_sim(c, d, sims, c_caps=caps, strip=strip, reuse=reuse, cuda=False)
    gpu = wc.make_sim(c, d, sims, c_caps=caps, strip=strip, reuse=reuse, cuda=True)
    gpu._block_dim = rng.choice(BLOCKS)
    bx, by = gpu._block_dim
    s_len, n_io, c_len = cpu.s_len, len(c.io_nodes), cpu.c_len
    ppi = [int(x) for x in np.array(cpu.c_locs)[cpu.ppi_offset:cpu.ppi_offset + s_len]]
    ppo = [int(x) for x in np.array(cpu.c_locs)[cpu.ppo_offset:cpu.ppo_offset + s_len]]
    broken, tags = [], ['tie-feat:' + f for f in feats] or ['tie-feat:plain']
    if [int(x) for x in np.array(gpu.c_locs)] != [int(x) for x in np.array(cpu.c_locs)] or gpu.c_len != c_len:
        broken.append(('path-tie: tables of the two classes differ', 'c_locs / c_len'))
        return broken, tags
    # identical random previous contents of c and random s in both objects
    prev = np.array([_cells(rng, sims) for _ in range(c_len)], dtype=np.float32).reshape(c_len, sims)
    exotic = rng.random() < 0.4
    def pick(): return rng.choice(VALUES) if exotic else rng.choice([0.0, 1.0])
    TMIN, TMAX, TOVL = wc.consts()
    for ws in (cpu, gpu):
        ws.c[...] = prev
    s0 = np.zeros((11, s_len, sims), dtype=np.float32)
    for y in range(s_len):
        for x in range(sims):
            s0[0, y, x] = pick(); s0[2, y, x] = pick(); s0[8, y, x] = pick()
            s0[1, y, x] = rng.choice([TMIN, TMAX]) if rng.random() < 0.05 else rng.randrange(0, 80) / wc.GRID
    for ws in (cpu, gpu):
        ws.s[...] = s0
    # ---- s_to_c
    ppiS = ','.join(map(str, ppi)) or '-'
    sS = _s_rows(s0, sims, (0, 1, 2)); cS = _c_lanes(prev, sims)
    reqs = [f'wio-stoc {p} {DEN} {sims} {bx} {by} {s_len} {n_io} {c_len} {ppiS} {sS} {cS}' for p in ('cpu', 'gpu')]
    ans = common.run_driver(reqs)
    real = {}
    for ws, p, a in ((cpu, 'cpu', ans[0]), (gpu, 'gpu', ans[1])):
        try:
            ws.s_to_c()
            real[p] = np.array(ws.c)
            got = _c_lanes(real[p], sims)
        except Exception as ex:
            got = f'{type(ex).__name__}: {ex}'[:200]
        if got != a:
            k = next((i for i, (u, v) in enumerate(zip(got.split(','), a.split(','))) if u != v), -1)
            broken.append((f'path-tie: s_to_c model ({p}) = real {type(ws).__name__}.s_to_c, raw cells',
                           f'first differing token #{k}; ppi={ppi} sims={sims} block={bx}x{by} c_len={c_len} real={got[:300]} model={a[:300]}'))
    # hypotheses of C06.s_to_c_paths_agree on the real tables: flags agree (rows without (P)PI memory are skipped by both paths
    # since the repair D31; `rows-unallocated` is kept as a coverage tag only)
    # … evaluated by the DRIVER (Proofs/WaveIOCheck.lean: regionsDisjointB, flagsOKB, transferRowsB, stateRowsCapturedB, capsPositiveB
    # on the real tables and the real `s`), not re-implemented here
    ppoS = ','.join(map(str, ppo)) or '-'
    capS = ','.join(str(int(x)) for x in np.array(cpu.c_caps)[cpu.ppo_offset:cpu.ppo_offset + s_len]) or '-'
    hv = common.run_driver([f'wio-hyp {DEN} {sims} {s_len} {n_io} {ppiS} {ppoS} {capS} {sS}'])[0]
    H = dict(kv.split('=') for kv in hv.split()) if '=' in hv else {}
    if set(H) != {'disj', 'rows', 'caps', 'flags', 'transfer'}:
        broken.append(('path-tie: driver wio-hyp', hv[:200])); return broken, tags
    rows_ok = H['disj'] == 'true'
    tags.append('tie-stoc-rows:' + ('all-allocated' if all(ppi[y] >= 0 for y in range(n_io, s_len)) else 'orphan-state-element'))
    flags_ok = H['flags'] == 'true'
    tags.append('tie-stoc-hyp:' + ('hold' if rows_ok and flags_ok else 'regions-overlap' if not rows_ok else 'flags-differ'))
    if not rows_ok:      # (P)PI regions of a real map are disjoint (domain fact, C08): outside = broken tie
        broken.append(('path-tie: regionsDisjointB fails on the real (P)PI table', f'ppi={ppi}'))
    if rows_ok and flags_ok and 'cpu' in real and 'gpu' in real and not np.array_equal(real['cpu'], real['gpu']):
        broken.append(('path-tie: hypotheses of s_to_c_paths_agree hold but the two real arrays c differ', f'ppi={ppi}'))
    # ---- s_ppo_to_ppi
    t = rng.choice([0.0, 0.0, 3.5, 12.0])
    for ws in (cpu, gpu):
        ws.s[...] = s0
    sS4 = _s_rows(s0, sims, (0, 1, 2, 8))
    reqs = [f'wio-ppi {p} {sims} {bx} {by} {s_len} {n_io} {ppiS} {ppoS} {wc.enc(t)} {sS4}' for p in ('cpu', 'gpu')]
    ans = common.run_driver(reqs)
    real = {}
    for ws, p, a in ((cpu, 'cpu', ans[0]), (gpu, 'gpu', ans[1])):
        try:
            ws.s_ppo_to_ppi(time=t)
            real[p] = np.array(ws.s)
            got = _s_rows(real[p], sims, (0, 1, 2, 8))
            untouched = np.array_equal(np.delete(real[p], (0, 1, 2), axis=0), np.delete(s0, (0, 1, 2), axis=0))
        except Exception as ex:
            got, untouched = f'{type(ex).__name__}: {ex}'[:200], True
        if got != a or not untouched:
            broken.append((f'path-tie: s_ppo_to_ppi model ({p}) = real {type(ws).__name__}.s_ppo_to_ppi',
                           f'ppi={ppi} ppo={ppo} n_io={n_io} sims={sims} real={got[:300]} model={a[:300]} other-fields-untouched={untouched}'))
    hyp = H['transfer'] == 'true'
    tags.append('tie-ppi-hyp:' + ('hold' if hyp else 'rows-differ'))
    if hyp and 'cpu' in real and 'gpu' in real and not np.array_equal(real['cpu'], real['gpu']):
        broken.append(('path-tie: hypotheses of ppo_to_ppi_paths_agree hold but the two real arrays s differ', f'ppi={ppi} ppo={ppo}'))
    # ---- capture scan on raw cells (sd = 0): model of each path against the real function of that path
    from kyupy import wave_sim
    for _ in range(3):
        n = rng.choice([4, 8])
        cells = _cells(rng, n)
        if rng.random() < 0.8: cells[rng.randrange(n)] = rng.choice([TMAX, TOVL])
        tcap = rng.choice([TMAX, rng.randrange(0, 80) / wc.GRID])
        cc = np.array(cells, dtype=np.float32).reshape(n, 1)
        r = wave_sim.wave_capture_cpu(cc, 0, n, 0, time=np.float32(tcap), sd=0.0, seed=1)
        want_cpu = f'{int(bool(r[0]))} {wc.enc(r[1])} {wc.enc(r[2])} {int(r[3])} {int(r[5])} {int(r[7])}'
        sg = np.zeros((11, 1, 1), dtype=np.float32)
        wave_sim.cuda.x, wave_sim.cuda.y = 0, 0
        wave_sim.wave_capture_gpu(cc, sg, np.array([0], dtype=np.int32), np.array([n], dtype=np.int32), 0, np.float32(tcap), 0.0, 1)
        want_gpu = f'{int(sg[3, 0, 0])} {wc.enc(sg[4, 0, 0])} {wc.enc(sg[5, 0, 0])} {int(sg[6, 0, 0])} {int(sg[8, 0, 0])} {int(sg[10, 0, 0])}'
        cs = ','.join(wc.enc(v) for v in cells)
        a = common.run_driver([f'wio-cap cpu {wc.enc(tcap)} {cs}', f'wio-cap gpu {wc.enc(tcap)} {cs}'])
        if a[0] != want_cpu: broken.append(('path-tie: capture scan model (cpu) = wave_capture_cpu', f'cells={cs} time={tcap} real={want_cpu} model={a[0]}'))
        if a[1] != want_gpu: broken.append(('path-tie: capture scan model (gpu) = wave_capture_gpu', f'cells={cs} time={tcap} real={want_gpu} model={a[1]}'))
    # ---- whole c_to_s (sd = 0) of both classes on random raw memory vs cpuCToS / gpuCToS, every row and lane
    mem = np.array([_cells(rng, sims) for _ in range(c_len)], dtype=np.float32).reshape(c_len, sims)
    tcap = rng.choice([TMAX, rng.randrange(0, 80) / wc.GRID])
    sentinel = np.float32(-7.0)
    cS2 = _c_lanes(mem, sims)
    reqs = [f'wio-ctos {p} {wc.enc(tcap)} {sims} {bx} {by} {s_len} {n_io} {ppoS} {capS} {cS2}' for p in ('cpu', 'gpu')]
    ans = common.run_driver(reqs)
    real = {}
    for ws, p, a in ((cpu, 'cpu', ans[0]), (gpu, 'gpu', ans[1])):
        try:
            ws.c[...] = mem; ws.s[3:] = sentinel
            ws.c_to_s(time=np.float32(tcap), sd=0.0)
            sr = np.array(ws.s); real[p] = sr
            got = ';'.join('/'.join('-' if sr[3, y, x] == sentinel and sr[4, y, x] == sentinel else
                                    f'{int(bool(sr[3, y, x]))},{wc.enc(sr[4, y, x])},{wc.enc(sr[5, y, x])},{int(sr[6, y, x])},{int(sr[8, y, x])},{int(sr[10, y, x])}'
                                    for y in range(s_len)) for x in range(sims))
        except Exception as ex:
            got = f'{type(ex).__name__}: {ex}'[:200]
        if got != a:
            broken.append((f'path-tie: c_to_s model ({p}) = real {type(ws).__name__}.c_to_s, captured records of every row and lane',
                           f'ppo={ppo} caps={capS} n_io={n_io} sims={sims} time={tcap} real={got[:300]} model={a[:300]}'))
    chyp = H['rows'] == 'true' and H['caps'] == 'true'
    tags.append('tie-ctos-hyp:' + ('hold' if chyp else 'rows-or-caps'))
    if chyp and 'cpu' in real and 'gpu' in real and not np.array_equal(real['cpu'][3:], real['gpu'][3:]):
        ix = np.argwhere(real['cpu'][3:] != real['gpu'][3:])[0]
        broken.append(('path-tie: hypotheses of c_to_s_paths_agree hold but the captured records of the two classes differ',
                       f'ppo={ppo} time={tcap} first difference at s[{3 + int(ix[0])}, {int(ix[1])}, {int(ix[2])}]: '
                       f'WaveSim {float(real["cpu"][3 + ix[0], ix[1], ix[2]])!r} WaveSimCuda {float(real["gpu"][3 + ix[0], ix[1], ix[2]])!r}'))
    tags.append(f'tie-block:{bx}x{by}')
    return broken, tags


def cprop_case(seed):
    """whole `c_prop` of both classes on the raw memory of real objects against `cpuCProp` / `gpuCProp (evWave cfgSel loc)` with `accAdd`
    (driver `wio-cprop`): the waveform every region READS AS after the propagation (cells behind a terminator are not compared: the
    real evaluator leaves popped entries there), every lane, and every accumulator. Random accumulation control (weights 0 and
    negative included), one to three delay data sets with per-lane selection modes 0 / 1, `c_prop(sims=k)`, random block shape,
    objects with a history. returns (broken, tags)"""
    rng = random.Random(seed)
    c = circ.rand_circuit(rng, n_gates=rng.randint(1, 7), n_ff=rng.choice([0, 0, 1, 2]))
    sims = rng.randint(1, 4)
    nsets = rng.choice([1, 1, 2, 3])
    d = wc.rand_delays(rng, len(c.lines), datasets=nsets)
    strip, reuse = rng.random() < 0.3, rng.random() < 0.3
    caps = rng.choice([4, 8, 16])
    a_ctrl = None
    if rng.random() < 0.8:
        a_ctrl = np.zeros((len(c.lines) + 3, 3), dtype=np.int32)      # rows for the scratch indices behind the lines too
        for l in range(len(c.lines) + 3):
            a_ctrl[l] = (rng.choice([-1, 0, 0, 1, 2]), rng.choice([0, 1, 1, 2, -1, 3]), rng.choice([0, 1, 1, 2, -2]))
    broken, tags = [], [f'cprop:sets={nsets}', 'cprop:' + ('a_ctrl' if a_ctrl is not None else 'no-a_ctrl')]
    objs, reals = {}, {}
    for p_, cuda in (('cpu', False), ('gpu', True)):
        objs[p_] = wc.make_sim(c, d, sims, c_caps=caps, strip=strip, reuse=reuse, cuda=cuda, a_ctrl=a_ctrl)
    objs['gpu']._block_dim = rng.choice(BLOCKS)
    bx, by = objs['gpu']._block_dim
    i, t, f = wc.rand_stim(rng, objs['cpu'].s_len, sims)
    modes = [rng.choice([0, 1]) for _ in range(sims)] if nsets > 1 else [0] * sims
    ctl0 = [rng.randrange(nsets) for _ in range(sims)]
    cseed = rng.randrange(nsets)
    k = rng.choice([sims, sims, rng.randint(1, sims)])
    st = rng.getstate()
    for p_ in ('cpu', 'gpu'):
        ws = objs[p_]
        rng.setstate(st)          # the same multi-transition input waveforms in both objects
        wc.assign(ws, i, t, f)
        wc.overwrite_inputs(ws, rng, p=0.5)
        ws.simctl_int[0] = np.array(ctl0); ws.simctl_int[1] = np.array(modes)
        if getattr(ws, 'abuf', None) is not None: ws.abuf[...] = 0
        before = np.array(ws.c)
        if p_ == 'cpu': stim_before = before
        locs = [int(x) for x in np.array(ws.c_locs)]; capv = [int(x) for x in np.array(ws.c_caps)]
        ops = np.array(ws.ops)
        n_acc = int(ws.abuf_len) if int(ws.abuf_len) > 0 else 0
        dl = np.array(ws.delays)
        opsS = '/'.join(','.join(str(int(v)) for v in row[:9]) for row in ops) or '/'
        levS = '/'.join(f'{int(a)},{int(b)}' for a, b in zip(ws.level_starts, ws.level_stops)) or '/'
        delS = ';'.join('/'.join(','.join(str(int(round(float(dl[s_, l, p1, q1]) * wc.GRID))) for p1 in range(2) for q1 in range(2))
                                 for l in range(dl.shape[1])) for s_ in range(dl.shape[0]))
        req = (f"wio-cprop {p_} {k} {bx} {by} {n_acc} {dl.shape[0]} {cseed} {','.join(map(str, modes))} {','.join(map(str, ctl0))} "
               f"{opsS} {levS} {','.join(map(str, locs))} {','.join(map(str, capv))} {delS} {_c_lanes(before, sims)}")
        model = common.run_driver([req])[0]
        try:
            with common.quiet():
                ws.c_prop(sims=k, seed=cseed)
            after = np.array(ws.c); ab = np.array(ws.abuf)
            lanes = []
            for x in range(k):
                waves = [f'{j}={wc.fmt_wave(*wc.read_wave(after, locs[j], capv[j], x))}' for j in range(len(locs)) if locs[j] >= 0 and capv[j] > 0]
                lanes.append('/'.join(waves) + '#' + ','.join(str(int(ab[a, x])) for a in range(n_acc)))
            real = ';'.join(lanes)
            rest_ok = np.array_equal(after[:, k:], before[:, k:])
        except wc.OffGrid:
            raise
        except Exception as ex:
            real, rest_ok = f'{type(ex).__name__}: {ex}'[:200], True
        reals[p_] = real
        if real != model:
            j = next((n for n, (u, v) in enumerate(zip(real.replace(';', '/').replace('#', '/').split('/'), model.replace(';', '/').replace('#', '/').split('/'))) if u != v), -1)
            broken.append((f'path-tie: c_prop model ({p_}: {"cpuCProp" if p_ == "cpu" else "gpuCProp"} with evWave / accAdd) = real {type(ws).__name__}.c_prop, '
                           f'waveform of every region and every accumulator',
                           f'first differing field #{j}; sims={sims} k={k} sets={nsets} modes={modes} ctl0={ctl0} seed={cseed} block={bx}x{by} '
                           f'strip={strip} reuse={reuse} caps={caps} real={real[:400]} model={model[:400]}'))
        if not rest_ok:
            broken.append((f'path-tie: c_prop(sims={k}) of {type(ws).__name__} changed a lane >= {k} (C06.c_prop_paths_agree: lanes beyond sims are untouched)', f'sims={sims}'))
    # hypotheses of C03.cprop_program_order_sound / C13.activity_all_circuits on THIS case (the tie and the theorems must meet on the same
    # tables): map certificate MapIn.check on the real tables (driver mapok), Net.wfB / orderOKB / forksOKB / readsDrivenB on the real circuit
    # and order (driver simopscert), level boundaries contiguous from 0 to len(ops) with level_stops sent as the object has them,
    # c_caps_min >= 4 (WaveSim passes 4), delays >= 0, and every (P)PI / zero region of every lane holding a well-formed waveform
    try:
        ws = objs['cpu']
        ops6 = '/'.join(','.join(str(int(x)) for x in row[:6]) for row in np.array(ws.ops))
        rest = '|'.join([ops6, ','.join(str(int(x)) for x in ws.level_starts), ','.join(str(int(x)) for x in np.array(ws.c_locs)),
                         ','.join(str(int(x)) for x in np.array(ws.c_caps)), str(int(ws.c_len))])
        order = ','.join(str(n.index) for n in c.topological_order())
        ans = common.run_driver([f'net {circ.dump_net(c)}', f'mapok {int(strip)} 4 {rest}', f'simopscert {int(strip)} {order}'])
        starts = [int(x) for x in ws.level_starts]; stops = [int(x) for x in ws.level_stops]
        contiguous = (not starts and len(ws.ops) == 0) or (starts[0] == 0 and stops[-1] == len(ws.ops) and starts[1:] == stops[:-1] and all(a <= b for a, b in zip(starts, stops)))
        TMIN, TMAX, TOVL = wc.consts()
        def wf_wave(ents):
            body = ents[1:] if ents and ents[0] <= TMIN else ents
            return all(TMIN < t < TMAX for t in body) and all(a <= b for a, b in zip(body, body[1:]))   # TMIN only in front, finite, non-decreasing
        locs_, caps_ = np.array(ws.c_locs), np.array(ws.c_caps)
        slots = [ws.ppi_offset + int(y) for y in ws.pippi_s_locs]
        stim_ok = all(wf_wave(wc.read_wave(stim_before, int(locs_[j]), int(caps_[j]), x)[0]) for j in slots if locs_[j] >= 0 for x in range(sims))
        hyp = (f"map={'ok' if ans[1].startswith('ok') else 'REJECTED'} net={'ok' if ans[2] == 'wf=true order=true forks=true reads=true' else ans[2].replace(' ', ',')} "
               f"levels={'contiguous' if contiguous else 'NOT-contiguous'} delays={'nonneg' if float(np.array(ws.delays).min()) >= 0 else 'negative'} stim={'wf' if stim_ok else 'NOT-wf'}")
    except common.DriverError:
        raise
    except Exception as ex:
        hyp = f'not-evaluated({type(ex).__name__})'
    tags.append('cprop-hyp:' + hyp.replace(' ', ';'))
    if 'REJECTED' in hyp or 'NOT-contiguous' in hyp or 'wf=false' in hyp or 'order=false' in hyp:
        broken.append(('path-tie-cprop: hypotheses of C03.cprop_program_order_sound / C13.activity_all_circuits on the real tables (map certificate, Net.wfB, orderOKB, contiguous levels)', hyp))
    # oracle (property C06 itself): the two code paths leave the same waveform in every region and the same accumulators
    diff = None
    if reals.get('cpu') != reals.get('gpu'):
        a, b = reals.get('cpu', ''), reals.get('gpu', '')
        fa, fb = a.replace(';', '/').replace('#', '/#').split('/'), b.replace(';', '/').replace('#', '/#').split('/')
        j = next((n for n, (u, v) in enumerate(zip(fa, fb)) if u != v), -1)
        diff = {'field': j, 'WaveSim': fa[j] if 0 <= j < len(fa) else a[:200], 'WaveSimCuda': fb[j] if 0 <= j < len(fb) else b[:200],
                'sims': sims, 'k': k, 'sets': nsets, 'modes': modes, 'block': f'{bx}x{by}', 'strip': strip, 'reuse': reuse, 'caps': caps,
                'a_ctrl': a_ctrl is not None}
    tags += [f'cprop:k{"=" if k == sims else "<"}sims', 'cprop:modes=' + ('mixed' if len(set(modes)) > 1 else str(modes[0])), f'cprop:strip={int(strip)}:reuse={int(reuse)}']
    return broken, tags, diff


def finding_witness():
    """a(P)PI row without memory on the CPU path: a flip-flop `ff` without connected outputs (c_locs[ppi_offset + y] = -1) and a
    flip-flop `ff2` without data connection (captures the constant 0). `WaveSim.s_to_c` stores through the -1: c[-1], c[0], c[1] —
    with a falling stimulus on row `ff` the constant-0 signal at c[0] rises at the transition time; `wave_assign_gpu` skips the row.
    returns None if both classes agree on s[3..7], s[10], else a description of the first difference"""
    from kyupy.circuit import Circuit, Node, Line
    c = Circuit('orphan-ff')
    a = Node(c, 'a', 'input'); af = Node(c, 'a'); Line(c, a, af); c.io_nodes.append(a)
    g = Node(c, 'g', 'AND2'); Line(c, af, (g, 0)); gf = Node(c, 'g'); Line(c, g, gf)
    o = Node(c, 'o', 'output'); Line(c, gf, o); c.io_nodes.append(o)
    ff = Node(c, 'ff', 'DFF'); Line(c, gf, (ff, 0))
    ff2 = Node(c, 'ff2', 'DFF'); q = Node(c, 'q2'); Line(c, ff2, q); o2 = Node(c, 'o2', 'output'); Line(c, q, o2); c.io_nodes.append(o2)
    d = np.zeros((1, len(c.lines), 2, 2), dtype=np.float32)
    res = []
    for cuda in (False, True):
        ws = wc.make_sim(c, d, 1, cuda=cuda)
        ws.s[0] = 1; ws.s[1] = 5.0; ws.s[2] = 0
        ws.s_to_c()
        with common.quiet():
            ws.c_prop(); ws.c_to_s(time=10.0)
        res.append(np.array(ws.s)[[3, 4, 5, 6, 7, 10]][:, :, 0])
    if np.array_equal(res[0], res[1]): return None
    k = np.argwhere(res[0] != res[1])[0]
    return (f's field {[3, 4, 5, 6, 7, 10][int(k[0])]} of s_node {c.s_nodes[int(k[1])].name}: WaveSim {float(res[0][tuple(k)])} vs WaveSimCuda '
            f'{float(res[1][tuple(k)])} (flip-flop `ff` without outputs: c_locs[ppi_offset+3] = -1, falling stimulus at 5.0 on its row; flip-flop `ff2` '
            f'without data input captures the constant 0, whose memory c[0] the CPU s_to_c overwrote with the transition time)')


def corr(ck, n):
    try:
        w = finding_witness()
    except Exception as ex:
        w = f'witness raised {type(ex).__name__}: {ex}'[:200]
    ck.hist['path-finding:cpu-s_to_c-through-c_locs=-1:' + ('present' if w else 'absent')] += 1
    if w:
        # D31 (repaired by "fix: state elements without connected outputs are not assigned in s_to_c"): if it comes back it is a violation
        ck.violation('orphan-state-element', 'CPU and GPU-kernel path differ: s_to_c stores through c_locs = -1 of a state element without outputs',
                     {'clause': 'path-witness'}, {'difference': w}, {'difference': None})
    for _ in range(n):
        cs = make_case(ck.rng)
        try:
            broken, tags = eval_case(cs)
        except wc.OffGrid:
            ck.hist['off-grid-discarded'] += 1; continue
        except Exception as ex:
            broken, tags = [('path-tie raised', f'{type(ex).__name__}: {ex}'[:300])], []
        for name, detail in broken:
            if 'hold but' in name:
                # the two REAL classes, given the same memory and tables (table hypotheses of the *_paths_agree theorem evaluated and
                # true), leave different results: that is a failing input of the CPU / GPU-kernel clause itself, not only a broken tie
                ck.violation('config-code-path-io', 'WaveSim and WaveSimCuda differ on the same memory and tables: ' + name.split('hold but ')[1],
                             {'clause': 'path-tie', **cs}, {'difference': detail}, {'equal': 'both code paths'})
            else:
                ck.broken_tie(name, detail, inp={'clause': 'path-tie', **cs})
        ck.case(key=('path-tie', cs['seed']), sample={'clause': 'path-tie', **cs}, tag=['clause:path-tie'] + tags)
    # whole c_prop (waveform evaluator + accumulation) of both classes against cpuCProp / gpuCProp
    for _ in range(max(4, n // 2)):
        sd = ck.rng.randint(0, 2**31 - 1)
        try:
            broken, tags, diff = cprop_case(sd)
        except wc.OffGrid:
            ck.hist['off-grid-discarded'] += 1; continue
        except common.DriverError:
            raise
        except Exception as ex:
            broken, tags, diff = [('path-tie (c_prop) raised', f'{type(ex).__name__}: {ex}'[:300])], [], None
        for name, detail in broken:
            ck.broken_tie(name, detail, inp={'clause': 'path-tie-cprop', 'seed': sd})
        if diff is not None:
            ck.violation('config-code-path-cprop', 'WaveSim.c_prop and WaveSimCuda.c_prop leave different waveforms / accumulators on the same memory and tables',
                         {'clause': 'path-tie-cprop', 'seed': sd}, diff, {'equal': 'both code paths'})
        ck.case(key=('path-tie-cprop', sd), sample={'clause': 'path-tie-cprop', 'seed': sd}, tag=['clause:path-tie-cprop'] + tags)
