"""C11 — parsed Verilog and bench netlists simulate as the described netlist.

generator  : c11_gen.py — random flat gate-level netlists with ground-truth semantics (a DAG of cells of NANGATE / SAED32 /
             SAED90 / GSC180 with a hand-written datasheet, c11_cells.py, or bench primitives; flip-flops and latches; buses,
             constants, assigns), each rendered into several Verilog texts (declaration order and grouping, ascending /
             descending / 1-bit ranges, whitespace, // /* */ (* *) noise, statement order, escaped identifiers, constants on
             pins and in assigns, bit and part selects, concatenations) x both branchforks settings, and into bench text when
             the netlist only uses bench-expressible gates.
oracle     : real verilog.parse / bench.parse -> resolve_tlib_cells -> real LogicSim(m=2), exhaustively over primary inputs
             and flip-flop states (<= 10 bits, else 256 random rows): every output / captured flip-flop value == the
             generator's own evaluation of the DAG; io_nodes names == expected port order; Verilog vs bench rendering of the
             same netlist give the same table.  Decides violations.
correspond.: Lean model (Model/Netlist.lean through the compiled driver, fed with the statement list the generator rendered)
             == the real parsed circuit: node list (kind, name) in creation order, line list with pins, io list, and the
             connectivity table obtained by walking the real circuit.  Mismatch = broken tie.
text level : Lean lexer + grammar models (Model/BenchText.lean, Model/VerilogText.lean; driver `benchparse` / `verilogparse`)
             on the TEXT: for every generated text, fixed corner-case texts (TEXT_PROBES) and random small edits of generated
             texts: lark on the real GRAMMAR string (no transformer) accepts <=> the model accepts; lark's tree == the model's
             statement list (== the generator's); the model circuit built from the model's OWN parse == the real circuit, or
             both raise (text_check).  Mismatch = broken tie.
"""
import json, os, glob
import numpy as np
from . import common
from . import c11_cells as cells
from . import c11_gen as gen

PID = 'C11'
TARGETS = ['KyupyVerif.Props.C11', 'KyupyVerif.Props.C11Library']
RULE = ('random flat netlists (1-7 input bits, 1-5 output bits, 0-3 flip-flops/latches, 1-14 cells/assign statements; cells of '
        'NANGATE/SAED32/SAED90/GSC180 incl. asymmetric AOI/OAI/MUX/ISOL cells, 4-output DEC24, tie cells, DFF/DFFR/DFFS/SDFF/latch '
        'variants with a hand-written datasheet, or bench primitives incl. AOI21/MUX21 kinds) x Verilog renderings: declarations '
        'grouped / in port order / shuffled among all statements, one or many names per declaration, redundant wire declarations '
        'before/after a port declaration, implicit wires, inout, tri, ranges [l:r] ascending/descending/offset/1-bit [0:0] and [k:k], '
        'blanks, tabs, CR LF, form feed, // /* */ (* *) between arbitrary tokens, escaped identifiers (signals, bus bases, instances, '
        'pins, module; incl. keywords and comment look-alikes), constants (b/d/h, upper/lower case, padded, wider than their width) on '
        'pins and in assigns, bit selects, part selects, whole-bus names, concatenations (nested, one-item) on both sides of assigns, '
        'chained assigns in any statement order, unconnected output pins; x branchforks on/off; bench renderings: INPUT/OUTPUT '
        'upper/lower, one or many names, # comments, statement order, kind spellings, constants, outputs read internally.  Per case: '
        'exhaustive truth table over inputs and flip-flop states (<= 10 bits, else 256 random rows) against the generator\'s '
        'evaluation, port order, Verilog-vs-bench equivalence, and model-vs-code structure (nodes, lines with pins, ports, '
        'connectivity).  A second stream mutates statement lists to the edge of / out of the subset (duplicate names, buses on pins, '
        'unknown pins, width mismatch, undeclared ports, ...): model and code must both raise or build the same circuit.  '
        'Text level: every generated text, about 140 fixed lexer/grammar corner-case texts and 1-3 random small edits per text (delete, '
        'insert, replace, swap, cut, duplicate, truncate, join lines, snippets) through the Lean lexer+grammar model vs lark on the real '
        'grammar vs the real parser.  distinct = (format, library, branchforks, text); non-trivial = at least 3 statements and an output that takes both values')

VLIBS = ['NANGATE', 'SAED32', 'SAED90', 'GSC180']
TEXT_FMTS = ('bench', 'verilog')      # formats whose lexer + grammar are modelled in Lean (Model/BenchText.lean, Model/VerilogText.lean)


def theorems():
    return common.theorems_of('KyupyVerif/Props/C11.lean', 'KV.C11')


def theorems_lib():
    """capstone composition with C10 / C19 / C01 (separate module: it depends on the generated library tables)"""
    return common.theorems_of('KyupyVerif/Props/C11Library.lean', 'KV.C11')


PRIM_SRC = None
_prim_tlib = None


def prim_entries():
    """library 'PRIM': the cells ARE the simulation primitives (pins i0..i3 / o; DFF with D, CLK, Q, QN) — for netlists over
    primitives the unresolved circuit `verilog.parse` returns already has the function of the netlist (C11.verilog_parsed_sem)"""
    L, src = [], []
    def add(fam, kind, n_in, prim=None):
        ins = [f'i{k}' for k in range(n_in)]
        L.append(cells._entry(fam, [kind], ins, ['o']))
        src.append(f"{kind} {'input(' + ','.join(ins) + ') ' if ins else ''}output(o) o={prim or kind}({','.join(ins)}) ;")
    add('BUF', 'BUF1', 1); add('INV', 'INV1', 1)
    add('CONST0', 'TIEL', 0, '__const0__'); add('CONST1', 'TIEH', 0, '__const1__')
    for k in (2, 3, 4):
        for f in ('AND', 'NAND', 'OR', 'NOR', 'XOR', 'XNOR'): add(f'{f}{k}', f'{f}{k}', k)
    for f, k in (('AO21', 3), ('OA21', 3), ('AOI21', 3), ('OAI21', 3), ('AO22', 4), ('OA22', 4), ('AOI22', 4), ('OAI22', 4),
                 ('AOI211', 4), ('OAI211', 4)): add(f, f, k)
    add('MUX2', 'MUX21', 3)
    for k in (5, 6, 7, 8, 9):       # wide gates (finding D33): a cell whose implementation is ONE node of the family with k pins
        for f in ('AND', 'NAND', 'OR', 'NOR', 'XOR', 'XNOR'): add(f'{f}{k}', f'{f}{k}', k)
    L.append(cells._entry('DFF', ['DFF'], ['D'], ['Q', 'QN'], clk='CLK'))
    src.append('DFF input(D,CLK) output(Q,QN) Q=DFF(D,CLK) QN=INV1(Q) ;')
    return L, '\n'.join(src) + '\n'


def get_tlib(name):
    global _prim_tlib
    from kyupy import techlib
    if name == 'PRIM':
        if _prim_tlib is None:
            with quiet():
                _prim_tlib = techlib.TechLib(prim_entries()[1])
        return _prim_tlib
    return getattr(techlib, name)


import contextlib, io


@contextlib.contextmanager
def quiet():
    import kyupy
    old = kyupy.log.logfile
    kyupy.log.logfile = io.StringIO()
    try:
        with common.quiet():
            yield
    finally:
        kyupy.log.logfile = old


# ---------------------------------------------------------------------------------------------- real code
def parse_real(case):
    from kyupy import verilog, bench
    from kyupy.circuit import Circuit
    with quiet():
        if case['fmt'] == 'verilog':
            c = common.after_failed_parse(verilog.parse, case['text'], tlib=get_tlib(case['tlib']), branchforks=case['bf'])
        else:
            c = common.after_failed_parse(bench.parse, case['text'])
    if not isinstance(c, Circuit):      # every generated text holds exactly one module
        raise TypeError(f'parse returned {type(c).__name__} of length {len(c) if hasattr(c, "__len__") else "?"} instead of one Circuit')
    return c


def stim_rows(n_bits, seed):
    if n_bits == 0:      # no assignable row (a changed reader may lose every input port): one empty stimulus column
        return np.zeros((0, 1), dtype=np.uint8)
    if n_bits <= 10:
        return np.array([[(v >> j) & 1 for v in range(2 ** n_bits)] for j in range(n_bits)], dtype=np.uint8).reshape(n_bits, -1)
    rs = np.random.RandomState(seed)
    return rs.randint(0, 2, size=(n_bits, 256)).astype(np.uint8)


def s_index(c, node):
    for i, n in enumerate(c.s_nodes):
        if n is node: return i
    return None


def simulate(c, in_nodes, out_nodes, rows):
    """rows [len(in_nodes), sims] -> values [len(out_nodes), sims] captured by the real LogicSim(m=2); None where a node is no s_node"""
    from kyupy import logic
    from kyupy.logic_sim import LogicSim
    sims = rows.shape[1]
    with quiet():
        ls = LogicSim(c, sims, m=2)
    stim = np.zeros((len(c.s_nodes), sims), dtype=np.uint8)
    for k, n in enumerate(in_nodes):
        i = s_index(c, n)
        if i is None: return None, f'input/state node {n.name!r} is not in s_nodes'
        stim[i] = rows[k]
    ls.s[0] = logic.mv_to_bp((stim * 3).astype(np.uint8))
    ls.s_to_c(); ls.c_prop(); ls.c_to_s()
    res = logic.bp_to_mv(ls.s[1])[:, :sims]
    out = np.zeros((len(out_nodes), sims), dtype=np.uint8)
    for k, n in enumerate(out_nodes):
        i = s_index(c, n)
        if i is None: return None, f'output/state node {n.name!r} is not in s_nodes'
        # 0 / 1, or 100 + code for a captured code that is no Boolean value (e.g. 2: nothing was captured, port not driven)
        out[k] = np.where(res[i] == 3, 1, np.where(res[i] == 0, 0, 100 + res[i]))
    return out, None


def truth_table(nl, rows):
    """ground truth for the rows: [n_po + n_ff, sims]"""
    pis, ffs, pos = nl['pi'], gen.ff_insts(nl), nl['po']
    out = np.zeros((len(pos) + len(ffs), rows.shape[1]), dtype=np.uint8)
    for lane in range(rows.shape[1]):
        pv = {b: int(rows[k, lane]) for k, b in enumerate(pis)}
        fv = {f: int(rows[len(pis) + k, lane]) for k, f in enumerate(ffs)}
        po, ff = gen.evaluate(nl, pv, fv)
        for k, b in enumerate(pos): out[k, lane] = po[b]
        for k, f in enumerate(ffs): out[len(pos) + k, lane] = ff[f]
    return out


def real_table(case, c, rows):
    """table of the parsed circuit (after resolve_tlib_cells). returns (table | None, error text)"""
    nl = case['nl']
    pis, ffs, pos = nl['pi'], gen.ff_insts(nl), nl['po']
    try:
        if case['fmt'] == 'verilog':
            with quiet():
                c.resolve_tlib_cells(get_tlib(case['tlib']))
            ins = [c.cells[b] for b in pis] + [c.cells[f] for f in ffs]
            outs = [c.cells[b] for b in pos] + [c.cells[f] for f in ffs]
        else:
            m, fm = case['bench_names'], case['bench_ffs']
            ins = [c.forks[m[b]] for b in pis] + [c.cells[fm[f]] for f in ffs]
            outs = [c.forks[m[b]] for b in pos] + [c.cells[fm[f]] for f in ffs]
    except KeyError as ex:
        return None, f'node {ex} missing in the parsed circuit'
    return simulate(c, ins, outs, rows)


# ---- counterfactual renderings used to name the class of a failure
def print_ast(ast, assign_fix=None, onebit_fix=False):
    """canonical text of a statement list (one blank between tokens).  assign_fix: list of assign indices in text order
    -> assign statements are re-ordered by index; onebit_fix: a pin naming a 1-bit bus [k:k] by its base gets `base[k]`"""
    def nm(n): return n if gen.is_plain(n) else '\\' + n + ' '
    onebit = {}
    for s in ast['stmts']:
        if s[0] == 'decl' and s[2] is not None and s[2][0] == s[2][-1]:
            for n in s[3]: onebit[n] = s[2][0]
    def sel(a, pin=False):
        if a[0] == 'n':
            if pin and onebit_fix and a[1] in onebit: return f'{nm(a[1])}[{onebit[a[1]]}]'
            return nm(a[1])
        if a[0] == 'b': return f'{nm(a[1])}[{a[2]}]' if a[3] is None else f'{nm(a[1])}[{a[2]}:{a[3]}]'
        if a[0] == 'k': return f"{a[1]}'{a[2]}{a[3]}"
        return '{' + ', '.join(sel(x) for x in a[1]) + '}'
    stmts = list(ast['stmts'])
    if assign_fix is not None:
        slots = [i for i, s in enumerate(stmts) if s[0] == 'assign']
        ordered = [s for _, s in sorted(zip(assign_fix, [stmts[i] for i in slots]), key=lambda t: t[0])]
        for i, s in zip(slots, ordered): stmts[i] = s
    out = [f"module {nm(ast['name'])} ({', '.join(nm(p) for p in ast['ports'])});"]
    for s in stmts:
        if s[0] == 'decl':
            r = '' if s[2] is None else f'[{s[2][0]}:{s[2][1]}] ' if len(s[2]) == 2 else f'[{s[2][0]}] '
            out.append(f"  {s[1]} {r}{', '.join(nm(n) for n in s[3])};")
        elif s[0] == 'inst':
            pins = ', '.join(f".{nm(p)}({'' if a is None else sel(a, pin=True)})" for p, a in s[3])
            out.append(f'  {s[1]} {nm(s[2])} ({pins});')
        elif s[0] == 'assign':
            out.append(f'  assign {sel(s[1])} = {sel(s[2])};')
        else:
            out.append('  tri unused_tri;')
    out.append('endmodule')
    return '\n'.join(out) + '\n'


def check_text(case, text=None):
    """the oracle proper on one text: (ok, observed, expected)"""
    nl = case['nl']
    if text is not None:
        case = dict(case); case['text'] = text
    try:
        c = parse_real(case)
    except Exception as ex:
        return False, {'stage': 'parse', 'raised': f'{type(ex).__name__}: {ex}'[:400]}, {'result': 'a circuit'}
    names = [n.name if n is not None else None for n in c.io_nodes]
    if names != case['ports']:
        return False, {'stage': 'ports', 'io_nodes': names}, {'io_nodes': case['ports']}
    n_bits = len(nl['pi']) + len(gen.ff_insts(nl))
    rows = stim_rows(n_bits, case.get('seed', 0))
    try:
        tab, err = real_table(case, c, rows)
    except Exception as ex:
        return False, {'stage': 'simulate', 'raised': f'{type(ex).__name__}: {ex}'[:400]}, {'result': 'a truth table'}
    if tab is None:
        return False, {'stage': 'simulate', 'error': err}, {'result': 'a truth table'}
    exp = truth_table(nl, rows)
    if not np.array_equal(tab, exp):
        k, lane = [int(v) for v in np.argwhere(tab != exp)[0]]
        pos, ffs = nl['po'], gen.ff_insts(nl)
        what = f'output {pos[k]}' if k < len(pos) else f'captured value of flip-flop {ffs[k - len(pos)]}'
        row = {b: int(rows[i, lane]) for i, b in enumerate(nl['pi'])}
        row.update({f'state({f})': int(rows[len(nl["pi"]) + i, lane]) for i, f in enumerate(ffs)})
        v = int(tab[k, lane])
        return False, {'stage': 'function', 'signal': what, 'input_row': row,
                       'value': v if v < 100 else f'no Boolean value captured (code {v - 100}: the port has no driver)',
                       'differing_entries': int((tab != exp).sum())}, {'value': int(exp[k, lane])}
    case['_table'] = tab
    return True, None, None


def eval_case(case):
    """oracle on the REAL code: (ok, observed, expected); observed['class'] names the violation class"""
    if case.get('kind') == 'token-class': return check_class(case)
    ok, obs, exp = check_text(case)
    if not ok and gen.has_wide(case['nl']) and obs.get('stage') == 'function':
        # counterfactual ground truth: every wide gate read as the 4-input primitive of its first four pins (what SimOps schedules)
        c2 = dict(case, nl=gen.narrowed(case['nl']))
        if check_text(c2)[0]:
            obs['class'] = 'wide-gate'
            obs['explanation'] = ('a gate with more than four inputs is simulated as the 4-input primitive of its first four pins '
                                  '(sim.py chooses the arity variant by pins 2 and 3 and reads pins 0..3); against that reading of the '
                                  'same text the table is correct')
            return ok, obs, exp
    if ok or case['fmt'] != 'verilog':
        if not ok: obs['class'] = 'bench-' + obs['stage']
        return ok, obs, exp
    # name the class by counterfactual renderings of the same statement list
    ast = case['ast']
    canon_ok = check_text(case, print_ast(ast))[0]
    if canon_ok:
        obs['class'] = 'verilog-lexical'
        obs['explanation'] = 'the same statement list printed with plain spacing and without comments parses/simulates correctly'
        return ok, obs, exp
    if check_text(case, print_ast(ast, assign_fix=case['assign_order']))[0]:
        obs['class'] = 'assign-chain-order'
        obs['explanation'] = ('an assign whose source is driven by a LATER assign statement is silently dropped; with the assign '
                              'statements in dependency order the same netlist is correct')
        obs['text_that_passes'] = print_ast(ast, assign_fix=case['assign_order'])
    elif check_text(case, print_ast(ast, onebit_fix=True))[0]:
        obs['class'] = 'onebit-bus-nonzero-index'
        obs['explanation'] = ('a pin that names a 1-bit bus [k:k], k != 0, by its base name is connected to a new undriven fork '
                              '(only base[0] is tried); with base[k] written out the same netlist is correct')
    elif check_text(case, print_ast(ast, assign_fix=case['assign_order'], onebit_fix=True))[0]:
        obs['class'] = 'assign-chain-order'
        obs['explanation'] = 'both the assign-order and the 1-bit-bus effects are present'
    else:
        obs['class'] = 'verilog-' + obs['stage']
    obs['canonical_text'] = print_ast(ast)
    return ok, obs, exp


# ---------------------------------------------------------------------------------------------- model side (driver)
def pct(s):
    return ''.join(ch if (ch.isalnum() and ch.isascii()) or ch == '_' else ('%%%02x' % ord(ch) if ord(ch) < 256 else '%%u%06x' % ord(ch))
                   for ch in s) or '%'


def enc_sel(a):
    if a[0] == 'n': return ['N', pct(a[1])]
    if a[0] == 'b': return ['B', pct(a[1]), str(a[2]), '-' if a[3] is None else str(a[3])]
    if a[0] == 'k': return ['K', str(a[1]), a[2], a[3]]
    out = ['C', str(len(a[1]))]
    for x in a[1]: out += enc_sel(x)
    return out


def enc_verilog(ast):
    toks = [str(len(ast['ports']))] + [pct(p) for p in ast['ports']]
    for s in ast['stmts']:
        if s[0] == 'decl':
            r = ['-', '-'] if s[2] is None else [str(s[2][0]), str(s[2][1]) if len(s[2]) > 1 else '-']
            toks += ['D', s[1]] + r + [str(len(s[3]))] + [pct(n) for n in s[3]]
        elif s[0] == 'inst':
            toks += ['I', pct(s[1]), pct(s[2]), str(len(s[3]))]
            for p, a in s[3]:
                toks += [pct(p)] + (['0'] if a is None else ['1'] + enc_sel(a))
        elif s[0] == 'assign':
            toks += ['A'] + enc_sel(s[1]) + enc_sel(s[2])
        else:
            toks += ['O']
    return ','.join(toks)


def enc_pintable(tlib, kinds):
    rows = []
    for k in sorted(set(kinds)):
        if k not in tlib.cells: continue
        for p, (idx, out) in tlib.cells[k][1].items():
            rows.append(f"{pct(k)}:{pct(p)}:{idx}:{1 if out else 0}")
    return ';'.join(rows) or '~'


def enc_bench(ast):
    toks = []
    for s in ast:
        if s[0] == 'intf': toks += ['P', str(len(s[1]))] + [pct(n) for n in s[1]]
        else: toks += ['G', pct(s[1]), pct(s[2]), str(len(s[3]))] + [pct(n) for n in s[3]]
    return ','.join(toks) or '~'


def real_dump(c):
    """(io, nodes, lines) of the real circuit in the driver's answer format"""
    def ep(n, pin): return f"{'f' if n.kind == '__fork__' else 'c'}:{pct(n.name)}:{pin}"
    io = ','.join(('-' if n is None else ('f' if n.kind == '__fork__' else 'c') + ':' + pct(n.name)) for n in c.io_nodes) or '~'
    nodes = ','.join(f'{pct(n.kind)}:{pct(n.name)}' for n in c.nodes) or '~'
    lines = ','.join(f'{ep(l.driver, l.driver_pin)}>{ep(l.reader, l.reader_pin)}' for l in c.lines) or '~'
    return io, nodes, lines


def real_conn(c, tlib, bf):
    """connectivity table by walking the real circuit (independent of node/line order)"""
    rows = []
    def stem_of(fork, inst, pin):
        if bf and len(fork.ins) == 1 and fork.ins[0] is not None and fork.ins[0].driver.kind == '__fork__' and \
                fork.name == f'{fork.ins[0].driver.name}~{inst}/{pin}' and len(fork.outs) == 1:
            return fork.ins[0].driver, True
        return fork, False
    branch = set()
    for n in c.nodes:
        if n.kind == '__fork__': continue
        if tlib is not None and n.kind in tlib.cells:
            for p, (idx, is_out) in tlib.cells[n.kind][1].items():
                if is_out:
                    if idx < len(n.outs) and n.outs[idx] is not None:
                        rows.append(f'D:{pct(n.name)}:{pct(p)}:{pct(n.outs[idx].reader.name)}')
                elif idx < len(n.ins) and n.ins[idx] is not None:
                    d = n.ins[idx].driver
                    st, isb = stem_of(d, n.name, p)
                    if isb: branch.add(d.name)
                    rows.append(f"R:{pct(n.name)}:{pct(p)}:{pct(st.name)}:{'b' if isb else 'd'}")
        elif n.kind == 'input':
            for l in n.outs: rows.append(f'P:{pct(n.name)}:{pct(l.reader.name)}')
        elif n.kind == 'output':
            for l in n.ins: rows.append(f'O:{pct(n.name)}:{pct(l.driver.name)}')
        elif n.kind.startswith('__const'):
            for l in n.outs: rows.append(f'K:{pct(l.reader.name)}:{n.kind[7]}')
            for i, l in enumerate(n.ins):
                if l is not None: rows.append(f'R:{pct(n.name)}:{i}:{pct(l.driver.name)}:d')
        else:   # bench cell
            for l in n.outs:
                if l is not None: rows.append(f'D:{pct(n.name)}:0:{pct(l.reader.name)}')
            for i, l in enumerate(n.ins):
                if l is not None: rows.append(f'R:{pct(n.name)}:{i}:{pct(l.driver.name)}:d')
    for l in c.lines:
        if l.driver.kind == '__fork__' and l.reader.kind == '__fork__' and l.reader.name not in branch:
            rows.append(f'F:{pct(l.driver.name)}:{pct(l.reader.name)}')
    return '|'.join(sorted(rows)) or '~'


_cfg = None


def probe_cfg():
    """which pass 1.5 / pass 2 the code under test has (as it stands, or repaired): selects the model variant"""
    global _cfg
    if _cfg is None:
        from kyupy import verilog
        with quiet():
            c = verilog.parse('module m(a,z); input a; output z; wire b; assign z = b; assign b = a; endmodule')
            fix = 'z' in c.forks
            c = verilog.parse('module m(a,z); input [3:3] a; output z; INV_X1 u(.I(a), .ZN(z)); endmodule')
            one = 'a' not in c.forks
        _cfg = (fix, one)
    return _cfg


def model_answer(case):
    """the Lean model's (status, io, nodes, lines, conn) for the case's statement list"""
    if case.get('_req'):
        req = case['_req']
    elif case['fmt'] == 'verilog':
        kinds = [s[1] for s in case['ast']['stmts'] if s[0] == 'inst']
        fix, one = probe_cfg()
        cfg = f"{1 if case['bf'] else 0}{1 if fix else 0}{1 if one else 0}"
        req = f"netlist v {cfg} {enc_pintable(get_tlib(case['tlib']), kinds)} {enc_verilog(case['ast'])}"
    else:
        req = f"netlist b {enc_bench(case['ast'])}"
    ans = common.run_driver([req])[0]
    parts = ans.split(' ')
    if len(parts) != 5: return (ans, None, None, None, None)
    return tuple(parts)


def correspondence(ck, case, c):
    try:
        st, io, nodes, lines, conn = model_answer(case)
    except Exception as ex:
        ck.broken_tie('netlist model correspondence', f'driver: {type(ex).__name__}: {ex}'[:300], inp=_slim(case)); return
    if c is None:
        if st != 'raise':
            ck.broken_tie('netlist model correspondence (guard)', f'real parser raised, model answered {st}', inp=_slim(case))
        return
    if st != 'ok':
        ck.broken_tie('netlist model correspondence (guard)', f'real parser returned a circuit, model answered {st}', inp=_slim(case)); return
    rio, rnodes, rlines = real_dump(c)
    rconn = real_conn(c, get_tlib(case['tlib']) if case['fmt'] == 'verilog' else None, case['bf'])
    for what, r, m in (('port order', rio, io), ('node list', rnodes, nodes), ('line list', rlines, lines), ('connectivity table', rconn, conn)):
        if r != m:
            a, b = r.split(',' if what != 'connectivity table' else '|'), m.split(',' if what != 'connectivity table' else '|')
            k = next((i for i, (x, y) in enumerate(zip(a, b)) if x != y), min(len(a), len(b)))
            ck.broken_tie(f'netlist model correspondence ({what}, {case["fmt"]})',
                          f'first difference at entry {k}: real {a[k:k + 3]} != model {b[k:k + 3]} (lengths {len(a)}/{len(b)})', inp=_slim(case))
            return


# ---------------------------------------------------------------------------------------------- parsed_sem (bench): dump + denotation
def canonical_dump(c):
    """`circ.dump_net` without blanks (the answer format of the driver command `netof`)"""
    def pins(l): return ','.join('-' if x is None else str(x.index) for x in l)
    nodes = '|'.join(f'{pct(n.kind)}:{pins(n.ins)}:{pins(n.outs)}' for n in c.nodes)
    lines = '|'.join(f'{l.driver.index}.{l.driver_pin}.{l.reader.index}.{l.reader_pin}' for l in c.lines)
    io = ','.join(str(n.index) for n in c.io_nodes)
    return f'{nodes};{lines};{io}'


def parsed_sem_dump(ck, case, c):
    """(a) + guard: `benchNet stmts` (driver `netof b`) == canonical dump of the REAL parsed circuit, character by character;
    the real parser raises <=> `benchOKB` is false <=> the model sets `err`.  Returns (names, dump, closed) when both built."""
    toks = enc_bench(case['ast'])
    try:
        first = common.run_driver([f'netof b {toks}', f'benchsem {toks} ~'])
        parts = first[1].split(' ')
        if len(parts) != 4 or not parts[2].startswith('names='):
            ck.broken_tie('parsed_sem (bench): driver answer', first[1][:200], inp=_slim(case)); return None
        okb, closed = parts[0] == 'ok=1', parts[1] == 'closed=1'
        names = [] if parts[2] == 'names=~' else parts[2][6:].split(',')
    except Exception as ex:
        ck.broken_tie('parsed_sem (bench): driver', f'{type(ex).__name__}: {ex}'[:300], inp=_slim(case)); return None
    ck.hist[f'parsed-sem:bench:benchOKB={int(okb)},benchClosedB={int(closed)}'] += 1
    st, _, dump = first[0].partition(' ')
    if c is None:
        if st == 'ok' or okb:
            ck.broken_tie('parsed_sem (bench): guard', f'real parser raised, model answered {st}, benchOKB={okb}', inp=_slim(case))
        return None
    if st != 'ok' or not okb:
        ck.broken_tie('parsed_sem (bench): guard', f'real parser built a circuit, model answered {st}, benchOKB={okb}', inp=_slim(case)); return None
    real = canonical_dump(c)
    if dump != real:
        k = next((i for i, (x, y) in enumerate(zip(dump, real)) if x != y), min(len(dump), len(real)))
        ck.broken_tie('parsed_sem (bench): canonical dump', f'benchNet differs from dump_net of the real circuit at char {k}: '
                      f'model {dump[max(0, k - 20):k + 30]!r} real {real[max(0, k - 20):k + 30]!r}', inp=_slim(case)); return None
    ck.hist['parsed-sem:bench:dump-equal'] += 1
    return names, dump, closed


def parsed_sem_bench(ck, case, c):
    """tie of the `parsed_sem` theorems (Props/C11.lean, section ParsedSem) for one generated bench case:
    (a) `parsed_sem_dump`;
    (b) hypotheses: `benchOKB`, `benchClosedB` evaluated by the driver (tags), and — with the real topological order — the
        hypotheses `wfB`, `orderOKB`, `forksOKB`, `linesDrivenB` of `bench_end_to_end` on the model's net;
    (c) denotation: the model `sigma` (driver `benchsem`: `benchEval`, accepted by `benchModelB`) observed at the output ports and
        flip-flop data pins == the generator's own evaluation of the netlist it rendered, on sampled assignments."""
    r = parsed_sem_dump(ck, case, c)
    if r is None: return
    names, dump, closed = r
    toks = enc_bench(case['ast'])
    nl = case['nl']
    # domain predicate of the headline theorems (audit finding 1 / D33): evaluated per case; the generator knows the answer
    try:
        ar = common.run_driver([f'bencharity {toks}', f'net {dump}', 'netarity'])
        arity = ar[0] == 'arity=1'
        if ar[0] not in ('arity=0', 'arity=1') or ar[2] != f'arity={"true" if arity else "false"}':
            ck.broken_tie('parsed_sem (bench): arity predicates', f'benchArityB: {ar[0]}, Net.arityOKB of the net: {ar[2]}', inp=_slim(case)); return
    except Exception as ex:
        ck.broken_tie('parsed_sem (bench): driver', f'{type(ex).__name__}: {ex}'[:300], inp=_slim(case)); return
    ck.hist[f'parsed-sem:bench:benchArityB={int(arity)}'] += 1
    if arity == gen.has_wide(nl):
        ck.broken_tie('parsed_sem (bench): arity domain', f'benchArityB={arity} but the generator {"put" if gen.has_wide(nl) else "put no"} '
                      f'wide gate into the netlist', inp=_slim(case)); return
    if not arity: nl = gen.narrowed(nl)      # outside the domain the model follows the CODE: first four operands (finding D33)
    pis, ffs, pos = nl['pi'], gen.ff_insts(nl), nl['po']
    rows = stim_rows(len(pis) + len(ffs), case.get('seed', 0))
    ncol = rows.shape[1]
    cols = sorted(set([0, ncol - 1] + [ck.rng.randrange(ncol) for _ in range(14)]))
    sub = rows[:, cols]
    # hypotheses of bench_end_to_end on the model net with the real topological order
    try:
        order = ','.join(str(n.index) for n in c.topological_order())
        cert = common.run_driver([f'net {dump}', f'netcert {order}', f'netspeccert {order}'])
        hyp = cert[1] == 'wf=true order=true' and cert[2] == 'forks=true lines=true'
        ck.hist[f'parsed-sem:bench:e2e-hyp:{"ok" if hyp else "outside"}'] += 1
        if not hyp: ck.hist[f'parsed-sem:bench:e2e-hyp-failed:{cert[1]} {cert[2]}'] += 1
    except Exception as ex:
        ck.hist['parsed-sem:bench:e2e-hyp:error'] += 1
    # denotation on sampled assignments
    m, fm = case['bench_names'], case['bench_ffs']
    try:
        ipos = [names.index('f:' + pct(m[b])) for b in pis] + [names.index('c:' + pct(fm[f])) for f in ffs]
        opos = [names.index('f:' + pct(m[b])) for b in pos] + [names.index('c:' + pct(fm[f])) for f in ffs]
    except ValueError as ex:
        ck.broken_tie('parsed_sem (bench): interface positions', f'{ex} (s_nodes names of the model: {names})', inp=_slim(case)); return
    reqs = []
    for j in range(sub.shape[1]):
        a = ['0'] * len(names)
        for k, p in enumerate(ipos): a[p] = str(int(sub[k, j]))
        reqs.append(''.join(a))
    ans = common.run_driver([f"benchsem {toks} {'/'.join(reqs)}"])[0].split(' ')
    got = ans[3].split('/') if len(ans) == 4 else []
    exp = truth_table(nl, sub)
    if len(got) != sub.shape[1]:
        ck.broken_tie('parsed_sem (bench): driver answer', ' '.join(ans)[:200], inp=_slim(case)); return
    for j, g in enumerate(got):
        if g.endswith('!'):
            ck.broken_tie('parsed_sem (bench): model check', f'benchModelB rejects the environment benchEval computes (assignment {reqs[j]})',
                          inp=_slim(case)); return
        obs = [g[p] for p in opos]
        want = [str(int(exp[k, j])) for k in range(len(opos))]
        if obs != want:
            ck.broken_tie('parsed_sem (bench): denotation', f'model sigma observed at outputs/flip-flop data {obs} != generator {want} '
                          f'(assignment {reqs[j]} over {names})', inp=_slim(case)); return
    ck.hist['parsed-sem:bench:denotation-rows'] += sub.shape[1]
    ck.hist['parsed-sem:bench:covered' if arity else 'parsed-sem:bench:outside-arity-domain(sigma = first-four-operands reading compared)'] += 1


# ---------------------------------------------------------------------------------------------- parsed_sem (Verilog fragment)
def to_fragment(rng, nl):
    """rewrite a generated netlist into the fragment of `C11.verilog_parsed_sem` (Model/VerilogSem.lean: no assign statements, no
    constants on pins): every assign pair becomes a buffer instance, every constant a tie cell driving a fresh wire.  The
    ground truth (`gen.evaluate`) follows the rewritten netlist.  None when the library has no buffer / tie cell."""
    import copy
    lib = cells.LIBS[nl['lib']]
    bufs = [e for e in lib if e['fam'] == 'BUF' and e['kinds']]
    ties = {0: [e for e in lib if e['fam'] == 'CONST0' and e['kinds']], 1: [e for e in lib if e['fam'] == 'CONST1' and e['kinds']]}
    if not bufs: return None
    nl = copy.deepcopy(nl)
    used = set(nl['bits']) | set(nl['sigs']) | {g['inst'] for g in nl['gates']}
    cnt = [0]

    def fresh(prefix):
        while True:
            cnt[0] += 1
            n = f'{prefix}{cnt[0]}'
            if n not in used:
                used.add(n); return n

    def add_gate(e, args, res):
        gi = len(nl['gates'])
        nl['gates'].append({'inst': fresh('fr_u'), 'kind': rng.choice(e['kinds']), 'fam': e['fam'], 'pins_in': e['ins'],
                            'pins_out': e['outs'], 'clk': None, 'args': args, 'res': res})
        for k, t in enumerate(res):
            if t is not None: nl['driven'][t] = ['gate', gi, k]

    def const_wire(c):
        v = gen.CONST[c]
        if not ties[v]: raise KeyError('no tie cell')
        w = fresh('fr_k')
        nl['sigs'][w] = {'dir': 'wire', 'range': None, 'declared': rng.random() < 0.5}
        nl['bits'][w] = [w, None]
        e = rng.choice(ties[v])
        add_gate(e, [], [w] + [None] * (len(e['outs']) - 1))
        return w
    try:
        for a in nl['assigns']:
            for t, s_ in zip(a['t'], a['s']):
                e = rng.choice(bufs)
                add_gate(e, [const_wire(s_) if s_ in gen.CONST else s_], [t] + [None] * (len(e['outs']) - 1))
        nl['assigns'] = []
        for g in nl['gates']:
            g['args'] = [const_wire(x) if x in gen.CONST else x for x in g['args']]
    except KeyError:
        return None
    return nl


def parsed_sem_verilog(ck, case, c):
    """tie of the Verilog `parsed_sem` theorems (Props/C11.lean, section ParsedSemVerilog) for one generated Verilog case:
    (a) `verilogNet` (driver `netof v`) == canonical dump of the REAL parsed circuit BEFORE `resolve_tlib_cells` (every case in
        which both build and every port position is assigned);
    (b) `verilogOKB` evaluated by the driver (tag coverage) and, for covered cases, the hypotheses `wfB`/`orderOKB`/`forksOKB`/
        `linesDrivenB` of `verilog_end_to_end` with the real topological order;
    (c) covered cases in which the hypotheses of (b) hold (every cell kind is known to the simulator): the model `sigma` (driver
        `verilogsem`: `vEval`, accepted by `vModelB`) observed at output ports and state elements == the REAL LogicSim(m=2) on the
        real UNRESOLVED circuit (the theorem is about the unresolved netlist, in which a cell means what its kind name means to the
        simulator), on sampled assignments; for the library of primitives additionally == the generator's ground truth."""
    kinds = [s_[1] for s_ in case['ast']['stmts'] if s_[0] == 'inst']
    fix, one = probe_cfg()
    cfg = f"{1 if case['bf'] else 0}{1 if fix else 0}{1 if one else 0}"
    table, toks = enc_pintable(get_tlib(case['tlib']), kinds), enc_verilog(case['ast'])
    try:
        first = common.run_driver([f'netof v {cfg} {table} {toks}', f'verilogsem {cfg} {table} {toks} ~'])
        parts = first[1].split(' ')
        if len(parts) != 3 or not parts[1].startswith('names='):
            ck.broken_tie('parsed_sem (verilog): driver answer', first[1][:200], inp=_slim(case)); return
        okv = parts[0] == 'ok=1'
        names = [] if parts[1] == 'names=~' else parts[1][6:].split(',')
    except Exception as ex:
        ck.broken_tie('parsed_sem (verilog): driver', f'{type(ex).__name__}: {ex}'[:300], inp=_slim(case)); return
    ck.hist[f'parsed-sem:verilog:verilogOKB={int(okv)}'] += 1
    st, _, dump = first[0].partition(' ')
    if c is None:
        if okv: ck.broken_tie('parsed_sem (verilog): guard', 'real parser raised on a module inside verilogOKB', inp=_slim(case))
        return
    if st != 'ok':
        if okv: ck.broken_tie('parsed_sem (verilog): guard', 'model raises on a module inside verilogOKB', inp=_slim(case))
        return
    if any(n is None for n in c.io_nodes):
        ck.hist['parsed-sem:verilog:unassigned-port-position'] += 1; return
    real = canonical_dump(c)
    if dump != real:
        k = next((i for i, (x, y) in enumerate(zip(dump, real)) if x != y), min(len(dump), len(real)))
        ck.broken_tie('parsed_sem (verilog): canonical dump', f'verilogNet differs from dump_net of the real circuit at char {k}: '
                      f'model {dump[max(0, k - 20):k + 30]!r} real {real[max(0, k - 20):k + 30]!r}', inp=_slim(case)); return
    ck.hist['parsed-sem:verilog:dump-equal'] += 1
    if not okv: return
    try:
        ar = common.run_driver([f'verilogarity {table} {toks}', f'net {dump}', 'netarity'])
        arity = ar[0] == 'arity=1'
        if ar[0] not in ('arity=0', 'arity=1') or ar[2] != f'arity={"true" if arity else "false"}':
            ck.broken_tie('parsed_sem (verilog): arity predicates', f'vArityB: {ar[0]}, Net.arityOKB of the net: {ar[2]}', inp=_slim(case)); return
    except Exception as ex:
        ck.broken_tie('parsed_sem (verilog): driver', f'{type(ex).__name__}: {ex}'[:300], inp=_slim(case)); return
    ck.hist[f'parsed-sem:verilog:vArityB={int(arity)}'] += 1
    if case['tlib'] == 'PRIM' and arity == gen.has_wide(case['nl']):
        ck.broken_tie('parsed_sem (verilog): arity domain', f'vArityB={arity} disagrees with the generator (wide gate: {gen.has_wide(case["nl"])})',
                      inp=_slim(case)); return
    covered = 'parsed-sem:verilog:covered' if arity else 'parsed-sem:verilog:outside-arity-domain(sigma = pins-0..3 reading compared)'
    hyp = False
    try:
        order = ','.join(str(n.index) for n in c.topological_order())
        cert = common.run_driver([f'net {dump}', f'netcert {order}', f'netspeccert {order}'])
        hyp = cert[1] == 'wf=true order=true' and cert[2] == 'forks=true lines=true'
        cls = 'primitive-library' if case['tlib'] == 'PRIM' else 'cell-library(unresolved)'
        ck.hist[f'parsed-sem:verilog:e2e-hyp:{cls}:{"ok" if hyp else "outside"}'] += 1
        if not hyp: ck.hist[f'parsed-sem:verilog:e2e-hyp-failed:{cls}:{cert[1]} {cert[2]}'] += 1
    except Exception as ex:
        ck.hist['parsed-sem:verilog:e2e-hyp:error'] += 1
    # denotation vs the real simulator on the unresolved circuit — where the simulator schedules every line (`linesDrivenB`:
    # every cell kind is known to its prefix table); elsewhere the unresolved circuit has no simulation to compare with
    if not hyp:
        # audit finding 10(e): inside the fragment, but sigma was compared with nothing — NOT counted as covered
        ck.hist['parsed-sem:verilog:in-fragment-sigma-not-compared(kinds unknown to the simulator)'] += 1
        return
    snodes = list(c.s_nodes)
    if [f'c:{pct(n.name)}' for n in snodes] != names:
        ck.broken_tie('parsed_sem (verilog): s_nodes', f'model {names} != real {[n.name for n in snodes]}', inp=_slim(case)); return
    assigned = [k for k, n in enumerate(snodes) if n.kind == 'input' or 'dff' in n.kind.lower() or 'latch' in n.kind.lower()]
    nb = len(assigned)
    rows = stim_rows(nb, case.get('seed', 0))
    ncol = rows.shape[1]
    cols = sorted(set([0, ncol - 1] + [ck.rng.randrange(ncol) for _ in range(10)]))
    sub = rows[:, cols]
    tab, err = simulate(c, [snodes[k] for k in assigned], snodes, sub)
    if tab is None:
        ck.broken_tie('parsed_sem (verilog): real simulation of the unresolved circuit', str(err), inp=_slim(case)); return
    reqs = []
    for j in range(sub.shape[1]):
        a = ['0'] * len(names)
        for k, p in enumerate(assigned): a[p] = str(int(sub[k, j]))
        reqs.append(''.join(a))
    ans = common.run_driver([f"verilogsem {cfg} {table} {toks} {'/'.join(reqs)}"])[0].split(' ')
    got = ans[2].split('/') if len(ans) == 3 else []
    if len(got) != sub.shape[1]:
        ck.broken_tie('parsed_sem (verilog): driver answer', ' '.join(ans)[:200], inp=_slim(case)); return
    for j, g in enumerate(got):
        if g.endswith('!'):
            ck.broken_tie('parsed_sem (verilog): model check', f'vModelB rejects the environment vEval computes (assignment {reqs[j]})',
                          inp=_slim(case)); return
        for k, n in enumerate(snodes):
            if g[k] == '-': continue            # nothing captured at an input port
            if g[k] != str(int(tab[k, j])):
                ck.broken_tie('parsed_sem (verilog): denotation', f'model sigma observed at {n.name!r}: {g[k]} != real LogicSim on the '
                              f'unresolved circuit: {int(tab[k, j])} (assignment {reqs[j]} over {names})', inp=_slim(case)); return
    ck.hist['parsed-sem:verilog:denotation-rows'] += sub.shape[1]
    ck.hist[covered] += 1
    if case['tlib'] != 'PRIM': return
    # library of primitives: the denotation IS the function of the netlist — compare with the generator's own evaluation
    nl = case['nl'] if arity else gen.narrowed(case['nl'])      # outside the arity domain: the reading the code has (finding D33)
    pis, ffs, pos = nl['pi'], gen.ff_insts(nl), nl['po']
    try:
        ipos = [names.index('c:' + pct(b)) for b in pis] + [names.index('c:' + pct(f)) for f in ffs]
        opos = [names.index('c:' + pct(b)) for b in pos] + [names.index('c:' + pct(f)) for f in ffs]
    except ValueError as ex:
        ck.broken_tie('parsed_sem (verilog): interface positions', f'{ex} (s_nodes names of the model: {names})', inp=_slim(case)); return
    rows2 = stim_rows(len(pis) + len(ffs), case.get('seed', 0))
    cols2 = sorted(set([0, rows2.shape[1] - 1] + [ck.rng.randrange(rows2.shape[1]) for _ in range(10)]))
    sub2 = rows2[:, cols2]
    reqs2 = []
    for j in range(sub2.shape[1]):
        a = ['0'] * len(names)
        for k, p in enumerate(ipos): a[p] = str(int(sub2[k, j]))
        reqs2.append(''.join(a))
    ans2 = common.run_driver([f"verilogsem {cfg} {table} {toks} {'/'.join(reqs2)}"])[0].split(' ')
    got2 = ans2[2].split('/') if len(ans2) == 3 else []
    exp2 = truth_table(nl, sub2)
    if len(got2) != sub2.shape[1]:
        ck.broken_tie('parsed_sem (verilog): driver answer', ' '.join(ans2)[:200], inp=_slim(case)); return
    for j, g in enumerate(got2):
        obs = [g[p] for p in opos]
        want = [str(int(exp2[k, j])) for k in range(len(opos))]
        if g.endswith('!') or obs != want:
            ck.broken_tie('parsed_sem (verilog): denotation vs generator', f'model sigma observed {obs} != generator {want} '
                          f'(assignment {reqs2[j]} over {names})', inp=_slim(case)); return
    ck.hist['parsed-sem:verilog:ground-truth-rows'] += sub2.shape[1]


LIBNAMES = ['GSC180', 'NANGATE', 'NANGATE_ZN', 'SAED32', 'SAED90']       # Gen.libNames: row lookup in the generated C19 tables
LIB_HYPS = ['verilogOKB', 'libCleanB', 'wf(parsed)', 'resolveOKB', 'resolve-model-answers', 'InstCert(all library cells)',
            's_nodes-kept', 'orderOKB(resolved)', 'forksOKB(resolved)', 'linesDrivenB(resolved)', 'tlFitsB', 'vArityLibB']
# a 13th character of the driver's answer is NO hypothesis: `tlExactB` (the REAL pin table sent has exactly as many entries for
# the cell type of every library instance as its generated table row has pins)


def library_sem(ck, case, c):
    """tie of the capstone `C11.verilog_library_end_to_end` (Props/C11Library.lean) for one generated Verilog case over a built-in
    library: the driver (`verilogsemlib`) evaluates every hypothesis of the theorem on the model objects — the fragment, the
    well-formedness of the parsed dump, `resolveOKB`, the certificate `InstCert` of every library-cell node against the REAL
    implementation circuits and the generated library tables, the scheduling hypotheses of the resolved circuit with the REAL
    topological order — (tags `library-sem:*`, covered cases counted); the model's resolved dump must equal the dump of the REAL
    parsed + resolved circuit; for covered cases the datasheet model `sigma` (evaluator `vEvalLib`, accepted by `vModelLibB`)
    observed at output ports and state elements must equal the REAL LogicSim(m=2) on the REAL resolved circuit on sampled rows."""
    from . import circ
    if case['tlib'] not in LIBNAMES or c is None: return
    tlib = get_tlib(case['tlib'])
    kinds = [s_[1] for s_ in case['ast']['stmts'] if s_[0] == 'inst']
    fix, one = probe_cfg()
    cfg = f"{1 if case['bf'] else 0}{1 if fix else 0}{1 if one else 0}"
    try:
        table, toks = enc_pintable(tlib, kinds), enc_verilog(case['ast'])
    except Exception:
        ck.hist['library-sem:not-encodable'] += 1; return
    try:
        c2 = parse_real(case)                          # a fresh object: the unresolved one belongs to the other streams
        with quiet():
            c2.resolve_tlib_cells(tlib)
        order = ','.join(str(n.index) for n in c2.topological_order()) or '~'
    except Exception as ex:
        ck.hist['library-sem:real-resolve-or-order-raises'] += 1; return
    if any(n is None for n in c2.io_nodes):
        ck.hist['library-sem:unassigned-port-position'] += 1; return
    blocks = []
    for k in sorted(set(kinds)):
        if k not in tlib.cells: continue
        impl = tlib.cells[k][0]
        try:
            io = ','.join(str(n.index) for n in impl.topological_order()) or '~'
        except Exception:
            io = '~'
        blocks.append(f"@@ {pct(k)} {circ.dump_names(impl) or '~'} {circ.dump_net(impl).replace(' ', '')} {io}")
    snodes = list(c2.s_nodes)
    assigned = [k for k, n in enumerate(snodes) if n.kind == 'input' or 'dff' in n.kind.lower() or 'latch' in n.kind.lower()]
    rows = stim_rows(len(assigned), case.get('seed', 0))
    ncol = rows.shape[1]
    cols = sorted(set([0, ncol - 1] + [ck.rng.randrange(ncol) for _ in range(10)]))
    sub = rows[:, cols]
    reqs = []
    for j in range(sub.shape[1]):
        a = ['0'] * len(snodes)
        for k, p_ in enumerate(assigned): a[p_] = str(int(sub[k, j]))
        reqs.append(''.join(a))
    try:
        ans = common.run_driver([f"verilogsemlib {cfg} {table} {toks} {LIBNAMES.index(case['tlib'])} {order} {'/'.join(reqs) or '~'} "
                                 + ' '.join(blocks)])[0].split(' ')
    except Exception as ex:
        ck.broken_tie('library_sem: driver', f'{type(ex).__name__}: {ex}'[:300], inp=_slim(case)); return
    if len(ans) != 4 or not ans[0].startswith('hyp=') or not ans[1].startswith('names=') or not ans[2].startswith('dump='):
        ck.broken_tie('library_sem: driver answer', ' '.join(ans)[:200], inp=_slim(case)); return
    flags = ans[0][4:]
    names = [] if ans[1] == 'names=~' else ans[1][6:].split(',')
    dump = ans[2][5:]
    if len(flags) != len(LIB_HYPS) + 1:
        ck.broken_tie('library_sem: driver answer', ans[0], inp=_slim(case)); return
    flags, exact = flags[:-1], flags[-1]
    # audit-2 finding 8: `tlFitsB` is evaluated on the REAL pin table `tlib.cells[kind][1]` that was sent (not on a table the
    # harness derives from the row); a built-in library whose instances are certified against their generated rows must satisfy
    # it, and its table must list exactly the row's pins: otherwise the tie between `TechLib` and the generated tables is broken
    fit, arl = flags[LIB_HYPS.index('tlFitsB')], flags[LIB_HYPS.index('vArityLibB')]
    ck.hist[f'library-sem:tlFits={fit}'] += 1
    ck.hist[f'library-sem:tlExact={exact}'] += 1
    ck.hist[f'library-sem:vArityLib={arl}'] += 1
    if flags[0] == '1' and flags[LIB_HYPS.index('InstCert(all library cells)')] == '1' and (fit != '1' or exact != '1'):
        ck.broken_tie('library_sem: pin table', f'tlFitsB={fit} tlExactB={exact}: the pin table of the real {case["tlib"]} does not '
                      f'number the pins of a certified library instance as its generated table row lists them', inp=_slim(case)); return
    prim_wide = any(k not in tlib.cells and 'dff' not in k.lower() and 'latch' not in k.lower() for k in kinds)
    if arl != '1' and not prim_wide:
        ck.broken_tie('library_sem: arity domain', 'vArityLibB=0 although every instance is a library cell or a state element',
                      inp=_slim(case)); return
    if flags[0] == '1' and flags[4] == '1':
        real = canonical_dump(c2) + ';' + circ.dump_names(c2)
        if dump != real:
            k = next((i for i, (x, y) in enumerate(zip(dump, real)) if x != y), min(len(dump), len(real)))
            ck.broken_tie('library_sem: resolved dump', f'model of parse + resolve_tlib_cells differs from the real resolved circuit at char {k}: '
                          f'model {dump[max(0, k - 20):k + 30]!r} real {real[max(0, k - 20):k + 30]!r}', inp=_slim(case)); return
        ck.hist['library-sem:resolved-dump-equal'] += 1
    bad = [LIB_HYPS[i] for i, f in enumerate(flags) if f != '1']
    if bad:
        ck.hist[f'library-sem:outside:{bad[0]}'] += 1
        return
    if [f'c:{pct(n.name)}' for n in snodes] != names:
        ck.broken_tie('library_sem: s_nodes', f'model {names} != real resolved {[n.name for n in snodes]}', inp=_slim(case)); return
    tab, err = simulate(c2, [snodes[k] for k in assigned], snodes, sub)
    if tab is None:
        ck.broken_tie('library_sem: real simulation of the resolved circuit', str(err), inp=_slim(case)); return
    got = [] if ans[3] == '~' else ans[3].split('/')
    if len(got) != sub.shape[1]:
        ck.broken_tie('library_sem: driver answer', ' '.join(ans)[:200], inp=_slim(case)); return
    for j, g in enumerate(got):
        if g.endswith('!'):
            ck.broken_tie('library_sem: model check', f'vModelLibB rejects the environment vEvalLib computes (assignment {reqs[j]})',
                          inp=_slim(case)); return
        for k, n in enumerate(snodes):
            if g[k] == '-': continue            # nothing captured at an input port
            if g[k] != str(int(tab[k, j])):
                ck.broken_tie('library_sem: datasheet denotation', f'datasheet model sigma observed at {n.name!r}: {g[k]} != real LogicSim '
                              f'on the real parsed+resolved circuit: {int(tab[k, j])} (assignment {reqs[j]} over {names})',
                              inp=_slim(case)); return
    ck.hist['library-sem:covered'] += 1
    ck.hist['library-sem:covered-rows'] += sub.shape[1]
    ck.hist[f"library-sem:covered:lib={case['tlib']}"] += 1
    ck.hist[f"library-sem:covered:instances={min(len(kinds), 8)}{'+' if len(kinds) > 8 else ''}"] += 1
    if any(n.kind != 'input' and n.kind != 'output' for n in snodes): ck.hist['library-sem:covered:with-primitive-state-elements'] += 1


LISTED_OUT = {'DEC24', 'ISOLAND', 'ISOLOR', 'CONST0', 'CONST1'}


def library_stream(ck, n, notes):
    """netlists aimed at the hypotheses of `verilog_library_end_to_end`: combinational cells of the listed families only (the
    catalogue of the library is restricted while the netlist is generated), no flip-flops, few constants; rendered like every other
    netlist and run through ALL checks of a Verilog case (oracle included)"""
    for _ in range(n):
        lib = ck.rng.choice(VLIBS)
        full = cells.LIBS[lib]
        cells.LIBS[lib] = [e for e in full if not cells.is_seq(e['fam']) and e['ins'] and e['fam'] not in LISTED_OUT]
        try:
            nl = gen.gen_netlist(ck.rng, lib, p_esc=0.1, p_const=0.03, max_gates=ck.rng.choice([3, 6, 10]), allow_onebit_nz=False)
        finally:
            cells.LIBS[lib] = full
        if ck.rng.random() < 0.5:
            nl2 = to_fragment(ck.rng, nl)
            if nl2 is not None and not any(g['fam'] in LISTED_OUT for g in nl2['gates']): nl = nl2
        seed = ck.rng.randint(0, 2 ** 31 - 1)
        rv = gen.render_verilog(ck.rng, nl)
        case = dict(nl=nl, seed=seed, tlib=lib, fmt='verilog', bf=ck.rng.random() < 0.5, text=rv['text'], ast=rv['ast'],
                    tags=rv['tags'] + ['stream:library'], assign_order=rv['assign_order'], ports=gen.expected_ports(nl))
        run_netlist(ck, nl, [case], notes)


def _slim(case):
    return {k: v for k, v in case.items() if not k.startswith('_')}


# ---------------------------------------------------------------------------------------------- text level (lexer + grammar)
_glark = {}


def grammar_parser(fmt):
    """lark on the REAL grammar string without the transformer: accepts exactly the texts bench.parse / verilog.parse accept
    syntactically and returns the parse tree"""
    if fmt not in _glark:
        from lark import Lark
        from kyupy import verilog, bench
        _glark[fmt] = Lark((verilog if fmt == 'verilog' else bench).GRAMMAR, parser='lalr')
    return _glark[fmt]


def bench_tree_stmts(tree):
    out = []
    for st in tree.children:
        t = st.children[0]
        if t.data == 'interface':
            out.append(['intf', [str(x) for x in t.children[0].children]])
        else:
            out.append(['gate', str(t.children[0]), str(t.children[1]), [str(x) for x in t.children[2].children]])
    return out


TEXT_ALPHABET = list(' \t\n\r\f\x0b#()=,;.:[]{}\'\\/*-_aZf09xbdh"$+') + ['K', 'ſ', 'İ', 'é', ' ', ' ']
SNIPPETS = ['# c\n', '#', '\r\n', '\r', '//x\n', '//', '/*x*/', '/*', '*/', '(*x*)', '(*', '*)', '\\', '\\e ', "1'b0", '[0]', '[1:0]',
            'INPUT', 'input', 'OUTPUT(', 'module', 'endmodule', 'wire', 'assign', ' = ', '()', '{', '}', ';', ',,', 'tri t;']


TEXT_PROBES = {
    'bench': ['', ' ', '#', '# x', '\n\n', '\r\n', '\r', 'INPUT(a)\r', 'INPUT(a)#c\r\nOUTPUT(b)', 'INPUT ( a , b )', 'INPUT(a,)', 'INPUT(,a)',
              'INPUT()', 'input()OUTPUT()output()', 'INPUT = AND(a)', 'Input(a)', 'INPUTX(a)', 'x = INPUT(INPUT, OUTPUT)',
              'z=AND(a,b)z2=OR(a,b)', 'z = AND(a b)', 'z = (a)', 'z = AND', 'z = AND(a', 'z == AND(a)', 'a-b = -(_)', 'K = ſ(İ, ı)',
              'é = AND(a)', 'z = AND(a)\x0b', 'z = AND(a)\x0c', 'z\t=\tAND(a)', 'z = AND(a) # c\ny = OR(a)', 'INPUT(a) OUTPUT(INPUT)',
              'OUTPUT', '7 = 8(9)', 'INPUT(a)) ', 'z = AND(a);', 'z = AND(a.b)', 'INPUT(a)\r\r\nOUTPUT(b)', 'INPUT(a) #\rOUTPUT(b)\nOUTPUT(c)',
              'output(z)\nz = DFF(z)', 'INPUT(a)\n\nOUTPUT(a)\n'],
    'verilog': ['', '  ', '// c\n', '// c', '/* c */', '/* c', '(* a *)', '(* a', 'module', 'module m', 'module m;', 'module m(); endmodule',
                'modulem();endmodule', "module1'b0();endmodule", 'module 1x(); endmodule', 'module1x(); endmodule', 'module m() ; endmodule endmodule',
                'module m(); endmodule module', 'module m(); endmodulemodule n(); endmodule', 'module m(a,); endmodule',
                'module m(a b); endmodule', 'module module(module); input module; endmodule', 'module m(); wire input; endmodule',
                'module m(); wire wire; endmodule', 'module m(); input; endmodule',
                'module m(); input [3:0] a, b; output [0] c; inout [ 7 : 0 ] d; tri t; endmodule', 'module m(); wire [3:0 a; endmodule',
                'module m(); wire [3:0] [1:0] a; endmodule', 'module m(); wire [a] b; endmodule', "module m(); wire [1'b0] b; endmodule",
                'module m(); assign a = b; endmodule', "module m(); assign a[1] = {b, c[3:2], {d}, 2'b01}; endmodule",
                'module m(); assign {} = a; endmodule', "module m(); assign a = 4'hfg; endmodule", "module m(); assign a = 4'b; endmodule",
                "module m(); assign a = 4 'b0; endmodule", 'module m(); assign a = 12; endmodule', 'module m(); X u(); endmodule',
                'module m(); X u(a); endmodule', 'module m(); X u(.A); endmodule', 'module m(); X u(.A()); endmodule',
                'module m(); X u(.A(a),); endmodule', 'module m(); X u(.A(a) .B(b)); endmodule', 'module m(); X u(.A(a), b, {c,d}); endmodule',
                'module m(); X \\u (.A(a)); endmodule', 'module m(); X \\u(.A(a)); endmodule', 'module m(); X \\u\t(.A(a)); endmodule',
                'module m(); X \\u\r\n(.A(a)); endmodule', 'module m(); X \\u\r(.A(a)); endmodule', 'module m(); \\input u(.A(a)); endmodule',
                'module m(); input u(.A(a)); endmodule', 'module m(); assign u(.A(a)); endmodule', 'module m(); X assign(.A(a)); endmodule',
                'module m(); X u(.input(a)); endmodule', 'module m(); X u(.A(a))(* k *); endmodule', 'module m(); X u(.A(*)); endmodule',
                'module m(); X u(.A(* *)); endmodule', 'module m(); X u ( . A ( a [ 1 : 0 ] ) ) ; endmodule', 'module m(); X u(.A(a));; endmodule',
                'module m(); ; endmodule', 'module m(); X u(.A(a)) endmodule', 'module m(); wire a\r; endmodule', 'module m(); wire a;\r\nendmodule',
                'module m(); wire a; // c\r\nendmodule', 'module m(); wire a; // c\rendmodule', 'module m(); wire a; /* * / */ endmodule',
                'module m(); wire a; /*/ endmodule', 'module m(); wire a; /**/ endmodule', 'module m(); wire a; /***/ endmodule',
                'module m(); wire a; (*) endmodule', 'module m(); wire a; (**) endmodule', 'module m(); wire a; (* ) *) endmodule',
                'module m(); wire a / b; endmodule', 'module m(); wire K, ſ1, _x; endmodule', 'module m(); wire x$; endmodule',
                'module m(); wire \\é ; endmodule', 'module m(); wire é; endmodule', 'module m(); wire a;\x0cendmodule',
                'module m(); wire a;\x0bendmodule', "module m(); 4'b0 4'b1 (.4'b1(4'b1)); endmodule", "module m(); X u(.A(\\4'b01 )); endmodule",
                "module m(); X u(.A(\\a'b )); endmodule", 'module m(); wire [007:00] a; endmodule',
                'module m(); wire a, b, c ; X \\y (.A(a)) ; endmodule\n', 'MODULE m(); endmodule', 'module m(); ENDMODULE', 'module m(); Wire a; endmodule',
                'module m(a, z); input a; output z; INV_X1 u(.A(a), .ZN(z)); endmodule // end', 'module m(a, z); input a; output z; INV_X1 u(.A(a), .ZN(z)); endmodule // end\n',
                "module m(z); output [3:0] z; assign z = 4'HA; endmodule", "module m(z); output [3:0] z; assign z = 04'd10; endmodule",
                'module m(a, z); input a; output z; INV_X1\\u (.A(a), .ZN(z)); endmodule', "module m(a, z); input a; output z; INV_X1 u(.A(a), .ZN(z));endmodule(* x *)",
                'module m(a, z); input [1:0] a; output z; AND2_X1 u(.A1(a[1]), .A2(a[0]), .ZN(z)); endmodule',
                'module m(a, z); input a; output z; INV_X1 u(.A(a), .ZN(z), .A()); endmodule']}


def mutate_text(rng, text):
    """one small edit of a text: (text', label)"""
    op = rng.choice(['delete', 'delete', 'insert', 'insert', 'replace', 'swap', 'snippet', 'cut', 'dup', 'truncate', 'join-lines'])
    n = len(text)
    if n == 0: return rng.choice(TEXT_ALPHABET), 'insert'
    i = rng.randrange(n)
    if op == 'delete': return text[:i] + text[i + 1:], op
    if op == 'insert': return text[:i] + rng.choice(TEXT_ALPHABET) + text[i:], op
    if op == 'replace': return text[:i] + rng.choice(TEXT_ALPHABET) + text[i + 1:], op
    if op == 'swap' and i + 1 < n: return text[:i] + text[i + 1] + text[i] + text[i + 2:], op
    if op == 'snippet': return text[:i] + rng.choice(SNIPPETS) + text[i:], op
    if op == 'cut':
        j = min(n, i + rng.randint(1, 6)); return text[:i] + text[j:], op
    if op == 'dup':
        j = min(n, i + rng.randint(1, 4)); return text[:j] + text[i:j] + text[j:], op
    if op == 'truncate': return text[:i], op
    if op == 'join-lines':
        k = text.find('\n', i)
        if k >= 0: return text[:k] + text[k + 1:], op
    return text[:i] + rng.choice(TEXT_ALPHABET) + text[i:], 'insert'


def text_check(ck, fmt, text, tlib, bf, label, expect_ast=None, real=None):
    """the Lean text model (lexer + grammar, driver `benchparse` / `verilogparse`) against lark on the real grammar and against
    the real parser on ONE text: both accept or both reject; same statement list; and the model circuit built from the model's
    OWN parse of the text equals the real circuit (or both raise).  returns 'accept' / 'reject'"""
    from lark.exceptions import UnexpectedInput
    inp = {'fmt': fmt, 'tlib': tlib, 'bf': bf, 'text': text, 'label': label}
    try:
        ans = common.run_driver([f"{'benchparse' if fmt == 'bench' else 'verilogparse'} {pct(text)}"])[0]
    except Exception as ex:
        ck.broken_tie(f'text model ({fmt})', f'driver: {type(ex).__name__}: {ex}'[:300], inp=inp); return 'error'
    m_ok = ans.startswith('ok ')
    try:
        tree = grammar_parser(fmt).parse(text); l_ok = True
    except UnexpectedInput as ex:
        tree = None; l_ok = False; lerr = f'{type(ex).__name__} at {getattr(ex, "pos_in_stream", "?")}'
    if m_ok != l_ok:
        ck.broken_tie(f'text model ({fmt}): accept/reject', f"lark {'accepts' if l_ok else 'rejects (' + lerr + ')'}, model answers {ans[:80]!r}", inp=inp)
        return 'accept' if l_ok else 'reject'
    case = {'fmt': fmt, 'tlib': tlib, 'bf': bf, 'text': text, 'label': label}
    if not l_ok:
        if label == 'probe' or ck.rng.random() < 0.34:     # the real parser builds a new Lark object per call (70 ms): sampled
            try:
                parse_real(case)
                ck.broken_tie(f'text model ({fmt}): accept/reject', 'grammar rejects the text but the real parser returned a circuit', inp=inp)
            except Exception:
                pass
        return 'reject'
    if fmt == 'bench':
        toks = ans[3:]
        ltoks = enc_bench(bench_tree_stmts(tree))
        if toks != ltoks:
            ck.broken_tie('text model (bench): statement list', f'lark tree {ltoks[:200]!r} != model {toks[:200]!r}', inp=inp); return 'accept'
        if expect_ast is not None and enc_bench(expect_ast) != toks:
            ck.broken_tie('text model (bench): statement list', f'generator {enc_bench(expect_ast)[:200]!r} != model {toks[:200]!r}', inp=inp)
        case['_req'] = f'netlist b {toks}'
    else:
        r = verilog_text_request(ck, ans, tree, tlib, bf, inp, expect_ast)
        if r is None: return 'accept'
        case['_req'] = r
    if real is not None:
        c = real[0]
    else:
        try:
            c = parse_real(case)
        except Exception:
            c = None
    correspondence(ck, case, c)
    return 'accept'


def text_stream(ck, case, n_mut, real=None):
    """text-level correspondence on one generated text and `n_mut` small edits of it; real = (circuit or None,) when the real
    parser has already been run on the text"""
    fmt = case['fmt']
    st = text_check(ck, fmt, case['text'], case['tlib'], case['bf'], 'generated', expect_ast=case.get('ast'), real=real)
    ck.hist[f'text:{fmt}:generated:{st}'] += 1
    for _ in range(n_mut):
        t, op = mutate_text(ck.rng, case['text'])
        if ck.rng.random() < 0.25: t, op2 = mutate_text(ck.rng, t); op = op + '+' + op2
        st = text_check(ck, fmt, t, case['tlib'], case['bf'], 'edit:' + op)
        ck.hist[f'text:{fmt}:edited:{st}'] += 1
        ck.case(key=('text', fmt, t), nontrivial=False, tag=[f'text-edit:{op.split("+")[0]}:{st}', 'stream:text'])



# ---------------------------------------------------------------------------------------------- token classes (audit finding 10(a))
def respell_const(rng, a):
    """another member of the class of the sized constant ['k', w, base, digits]: same width, same value modulo 2**w
    (C11.const_spelling_class); None when the digits are outside the base (the class theorem needs both inside the guard)"""
    w, b, digits = a[1], a[2], a[3]
    base = {'b': 2, 'd': 10, 'h': 16}[b.lower()]
    try:
        v = int(digits, base)
    except ValueError:
        return None
    v = v % (1 << w) if w > 0 else v
    if rng.random() < 0.2: v += rng.choice([1, 2, 5]) << w               # bits above the width are cut
    nb = rng.choice(['b', 'B', 'd', 'D', 'h', 'H'])
    nd = format(v, 'b') if nb in 'bB' else str(v) if nb in 'dD' else format(v, rng.choice(['x', 'X']))
    nd = '0' * rng.choice([0, 0, 1, 3]) + nd
    return ['k', w, nb, nd]


def respell_verilog(rng, ast):
    """(text, ast') — the statement list printed with a RANDOM MEMBER OF ITS SPELLING CLASS for every token: plain names plain or as
    escaped identifiers (any of the four terminators), range numbers and constant widths with leading zeros, sized constants in
    another base / letter case / digit string of the same value (ast' records the new constant spellings; everything else is ast)"""
    tags = set()

    def nm(n):
        if gen.is_plain(n) and rng.random() < 0.5: return n
        if gen.is_plain(n): tags.add('escaped-plain-name')
        return '\\' + n + rng.choice([' ', ' ', '\t', '\n', '\r\n', ' \r\n'])

    def num(k):
        z = rng.choice([0, 0, 1, 2])
        if z: tags.add('number-leading-zeros')
        return '0' * z + str(k)

    def sel(a):
        if a[0] == 'n': return nm(a[1]), a
        if a[0] == 'b':
            return (f'{nm(a[1])}[{num(a[2])}]' if a[3] is None else f'{nm(a[1])}[{num(a[2])}:{num(a[3])}]'), a
        if a[0] == 'k':
            a2 = respell_const(rng, a) if rng.random() < 0.8 else None
            if a2 is None: a2 = a
            else: tags.add(f'const:{a[2]}->{a2[2]}')
            txt = f"{'0' * rng.choice([0, 0, 1])}{a2[1]}'{a2[2]}{a2[3]}"
            if rng.random() < 0.15: txt = '\\' + txt + ' '; tags.add('escaped-constant')
            return txt, a2
        parts = [sel(x) for x in a[1]]
        return '{' + ', '.join(t for t, _ in parts) + '}', ['c', [x for _, x in parts]]
    out = [f"module {nm(ast['name'])} ({', '.join(nm(p) for p in ast['ports'])});"]
    stmts2 = []
    for s in ast['stmts']:
        if s[0] == 'decl':
            r = '' if s[2] is None else f'[{num(s[2][0])}:{num(s[2][1])}] ' if len(s[2]) == 2 else f'[{num(s[2][0])}] '
            out.append(f"  {s[1]} {r}{', '.join(nm(n) for n in s[3])};"); stmts2.append(s)
        elif s[0] == 'inst':
            pins, past = [], []
            for pn, a in s[3]:
                if a is None: pins.append(f'.{nm(pn)}()'); past.append([pn, None])
                else:
                    t, a2 = sel(a); pins.append(f'.{nm(pn)}({t})'); past.append([pn, a2])
            ty = s[1] if gen.is_plain(s[1]) and rng.random() < 0.7 else '\\' + s[1] + ' '
            out.append(f"  {ty} {nm(s[2])} ({', '.join(pins)});"); stmts2.append(['inst', s[1], s[2], past])
        elif s[0] == 'assign':
            t1, a1 = sel(s[1]); t2, a2 = sel(s[2])
            out.append(f'  assign {t1} = {t2};'); stmts2.append(['assign', a1, a2])
        else:
            out.append('  tri unused_tri;'); stmts2.append(s)
    out.append('endmodule')
    return '\n'.join(out) + '\n', {'name': ast['name'], 'ports': list(ast['ports']), 'stmts': stmts2}, sorted(tags)


def respell_bench(rng, ast):
    """the statement list with every interface keyword in a random one of its four spellings (C11.bench_text_keyword_class:
    `interface` does not distinguish INPUT from OUTPUT)"""
    out, tags = [], set()
    for s in ast:
        if s[0] == 'intf':
            k = rng.choice(['INPUT', 'input', 'OUTPUT', 'output']); tags.add('keyword:' + k)
            out.append(f"{k}{rng.choice(['', ' '])}({', '.join(s[1])})")
        else:
            out.append(f"{s[1]} = {s[2]}({', '.join(s[3])})")
    return '\n'.join(out) + rng.choice(['\n', '', '\n# end']), list(ast), sorted(tags)


def check_class(case):
    """oracle of the token classes on the REAL code: the respelled text (`text`) builds the same circuit as the text it was
    respelled from (`class_of`) — node list, line list with pins, io_nodes —, or both raise"""
    def build(text):
        try:
            return real_dump(parse_real(dict(case, text=text)))
        except Exception as ex:
            return ('raise',)
    a, b = build(case['class_of']), build(case['text'])
    if a == b or (a[0] == 'raise' and b[0] == 'raise'): return True, None, None
    what = 'raises' if b[0] == 'raise' else 'builds although the original raises' if a[0] == 'raise' else \
        next(n for n, x, y in zip(('io_nodes', 'node list', 'line list'), a, b) if x != y)
    return False, {'stage': 'token-class', 'class': 'token-class', 'respelled text': what, 'text': case['text'][:600]}, \
        {'same circuit as': case['class_of'][:600]}


def class_stream(ck, case, c):
    """token classes: (i) correspondence — the text model reads the respelled text as lark does, to the respelled statement list,
    and the circuit built from the model's own parse is the real one (`text_check`); (ii) oracle — the REAL parser builds the same
    circuit from the respelled text as from the original text (a spelling the real code treats differently is a violation of C11
    with the text as replay)"""
    fmt = case['fmt']
    text2, ast2, tags = respell_verilog(ck.rng, case['ast']) if fmt == 'verilog' else respell_bench(ck.rng, case['ast'])
    case2 = {k: v for k, v in case.items() if not k.startswith('_') and k not in ('nl',)}
    case2.update(text=text2, ast=ast2, kind='token-class', class_of=case['text'])
    try:
        c2 = parse_real(case2)
    except Exception:
        c2 = None
    st = text_check(ck, fmt, text2, case['tlib'], case['bf'], 'token-class', expect_ast=ast2, real=(c2,))
    ck.hist[f'token-class:{fmt}:{st}'] += 1
    ok = (c is None and c2 is None) or (c is not None and c2 is not None and real_dump(c) == real_dump(c2))
    ck.case(key=('token-class', fmt, text2), nontrivial=bool(tags) and c2 is not None,
            tag=['stream:token-class'] + [f'token-class:{fmt}:{t}' for t in tags])
    if not ok:
        ck.hist['violation:token-class'] += 1
        if ck.hist['violation:token-class'] <= 2:
            _, obs, exp = check_class(case2)
            ck.violation('token-class', 'a different spelling of the same tokens (escaped identifier, leading zeros, base / case of a sized '
                         'constant, keyword spelling) changes the parsed circuit', case2, obs or {'stage': 'token-class'}, exp)


class Unsupported(Exception):
    pass


def verilog_tree_ast(tree):
    """lark tree of ONE module (grammar only, no transformer) -> (status, ast) in the generator's statement-list form;
    status 'pos': a positional pin (left out of the ast; VerilogTransformer.module raises), 'unsup': a name with an
    apostrophe that is not a sized constant"""
    import re

    def name(t):
        v = str(t.children[0])
        return v[1:-1] if v[0] == '\\' else v

    def sel(t):
        ch = t.children
        if ch[0].data == 'concat': return ['c', [sel(x) for x in ch[0].children]]
        n = name(ch[0])
        if len(ch) > 1:
            rg = ch[1].children
            return ['b', n, int(rg[0]), int(rg[1]) if len(rg) > 1 else None]
        if "'" in n:
            m = re.fullmatch(r"([0-9]+)'([bdhBDH])([0-9a-fA-F]+)", n)
            if not m: raise Unsupported(n)
            return ['k', int(m[1]), m[2], m[3]]
        return ['n', n]
    status = 'ok'
    ch = tree.children
    ast = {'name': name(ch[0]), 'ports': [name(x) for x in ch[1].children], 'stmts': []}
    for st in ch[2:]:
        if st.data in ('input', 'output', 'inout', 'wire', 'tri'):
            c2 = list(st.children)
            rg = None
            if c2 and c2[0].data == 'range':
                rg = [int(x) for x in c2[0].children]; c2 = c2[1:]
            ast['stmts'].append(['other'] if st.data == 'tri' else ['decl', 'input' if st.data == 'inout' else st.data, rg, [name(x) for x in c2]])
        elif st.data == 'assign':
            ast['stmts'].append(['assign', sel(st.children[0]), sel(st.children[1])])
        else:
            pins = []
            for p in st.children[2:]:
                q = p.children[0]
                if q.data == 'namedpin':
                    pins.append([name(q.children[0]), sel(q.children[1]) if len(q.children) > 1 else None])
                else:
                    sel(q); status = 'pos'
            ast['stmts'].append(['inst', name(st.children[0]), name(st.children[1]), pins])
    return status, ast


def verilog_text_request(ck, ans, tree, tlib, bf, inp, expect_ast):
    """compare the model's parse (driver answer) with lark's tree; returns the `netlist v` request for the model's OWN
    statement list, or None when there is nothing to build (several modules, positional pins, unsupported names)"""
    parts = ans.split(' ')
    mods = tree.children
    if int(parts[1]) != len(mods):
        ck.broken_tie('text model (verilog): module count', f'lark {len(mods)} != model {parts[1]}', inp=inp); return None
    if len(mods) != 1:
        ck.hist['text:verilog:not-one-module'] += 1
        try:
            parse_real({'fmt': 'verilog', 'tlib': tlib, 'bf': bf, 'text': inp['text']})
            ck.broken_tie('text model (verilog): module count', f'{len(mods)} modules but the real parser returned one circuit', inp=inp)
        except Exception:
            pass
        return None
    try:
        status, ast = verilog_tree_ast(mods[0])
        expect = f"ok 1 {status} {pct(ast['name'])} {enc_verilog(ast)}"
    except Unsupported:
        status, ast = 'unsup', None
        expect = f"ok 1 unsup {pct(verilog_tree_name(mods[0]))} ~"
    if ans != expect:
        ck.broken_tie('text model (verilog): statement list', f'lark tree {expect[:300]!r} != model {ans[:300]!r}', inp=inp); return None
    if status == 'unsup':
        ck.hist['text:verilog:unsupported-name'] += 1; return None
    if expect_ast is not None and (enc_verilog(expect_ast) != enc_verilog(ast) or expect_ast['name'] != ast['name']):
        ck.broken_tie('text model (verilog): statement list', f'generator {enc_verilog(expect_ast)[:300]!r} != model {enc_verilog(ast)[:300]!r}', inp=inp)
    if status == 'pos':
        ck.hist['text:verilog:positional-pin'] += 1
        try:
            parse_real({'fmt': 'verilog', 'tlib': tlib, 'bf': bf, 'text': inp['text']})
            ck.broken_tie('text model (verilog): positional pin', 'the real parser returned a circuit', inp=inp)
        except Exception:
            pass
        return None
    kinds = [s[1] for s in ast['stmts'] if s[0] == 'inst']
    fix, one = probe_cfg()
    cfg = f"{1 if bf else 0}{1 if fix else 0}{1 if one else 0}"
    return f"netlist v {cfg} {enc_pintable(get_tlib(tlib), kinds)} {parts[4]}"


def verilog_tree_name(t):
    v = str(t.children[0].children[0])
    return v[1:-1] if v[0] == '\\' else v


# ---------------------------------------------------------------------------------------------- case construction
def make_cases(rng, notes):
    """one netlist -> several cases (renderings)"""
    r = rng.random()
    bench_only = r < 0.3
    lib = rng.choice(VLIBS + ['PRIM', 'PRIM'] + (['BENCH'] if bench_only else []))
    p_wide = rng.choice([0.15, 0.3, 0.6]) if (lib in ('BENCH', 'PRIM') and rng.random() < 0.2) else 0.0   # finding D33: 5..9-input gates
    nl = gen.gen_netlist(rng, lib, bench_only=bench_only, p_wide=p_wide)
    if lib != 'BENCH' and rng.random() < 0.25:     # a netlist without assign statements and constants: assigns as buffers, constants as tie cells
        nl2 = to_fragment(rng, nl)
        if nl2 is not None:
            nl = nl2; notes['netlists rewritten into the parsed_sem fragment'] = notes.get('netlists rewritten into the parsed_sem fragment', 0) + 1
    out = []
    seed = rng.randint(0, 2 ** 31 - 1)
    base = {'nl': nl, 'seed': seed, 'tlib': lib}
    if lib != 'BENCH':
        for k in range(rng.choice([1, 2, 2, 3])):
            rv = gen.render_verilog(rng, nl)
            out.append(dict(base, fmt='verilog', bf=rng.random() < 0.5, text=rv['text'], ast=rv['ast'], tags=rv['tags'],
                            assign_order=rv['assign_order'], ports=gen.expected_ports(nl)))
    if gen.bench_expressible(nl):
        for k in range(1 if lib != 'BENCH' else 2):
            rb = gen.render_bench(rng, nl)
            out.append(dict(base, fmt='bench', bf=False, text=rb['text'], ast=rb['ast'], tags=rb['tags'], ports=rb['ports'],
                            bench_names=rb['names'], bench_ffs=rb['ffs']))
    return nl, out


def describe(nl, case):
    tags = list(case['tags']) + [f"fmt:{case['fmt']}", f"tlib:{case['tlib']}", f"branchforks:{case['bf']}"]
    fams = set(g['fam'] for g in nl['gates'])
    tags.append(f"ffs:{min(len(gen.ff_insts(nl)), 3)}")
    if fams & {'AOI21', 'OAI21', 'AOI211', 'OAI211', 'MUX2', 'MUX4', 'AOI221', 'OAI221', 'AO21', 'OA21', 'AO221', 'OA221', 'ISOLAND'}:
        tags.append('asymmetric-cell')
    if 'DEC24' in fams: tags.append('4-output-cell')
    if gen.has_wide(nl): tags.append(f"wide-gate(max {max(len(g['args']) for g in nl['gates'])} inputs)")
    if any(cells.is_seq(g['fam']) and g['res'][-1] is not None and len(g['res']) > 1 for g in nl['gates']): tags.append('ff-QN-used')
    if case['fmt'] == 'bench' and any(nl['driven'].get(a, [''])[0] != 'pi' and a in nl['po'] for g in nl['gates'] for a in g['args'] if a not in gen.CONST):
        tags.append('bench-output-read-internally')
    return tags


def run_netlist(ck, nl, cases, notes):
    tables = []
    for case in cases:
        try:
            c = parse_real(case)
        except Exception as ex:
            c = None
        correspondence(ck, case, c)
        if case['fmt'] == 'bench': parsed_sem_bench(ck, case, c)
        else:
            parsed_sem_verilog(ck, case, c)
            library_sem(ck, case, c)
        if case['fmt'] in TEXT_FMTS:
            text_stream(ck, case, 2 if case['fmt'] == 'verilog' else 3, real=(c,))
            class_stream(ck, case, c)
        try:
            ok, obs, exp = eval_case(case)
        except Exception as ex:
            ok, obs, exp = False, {'stage': 'harness', 'raised': f'{type(ex).__name__}: {ex}'[:300], 'class': 'harness'}, None
        tab = case.pop('_table', None)
        nontriv = ok and len(case['ast'] if case['fmt'] == 'bench' else case['ast']['stmts']) >= 3 and tab is not None and \
            any(0 < int(r.sum()) < r.size for r in tab)
        ck.case(key=(case['fmt'], case['tlib'], case['bf'], case['text']), nontrivial=bool(nontriv),
                sample={'fmt': case['fmt'], 'tlib': case['tlib'], 'branchforks': case['bf'], 'text': case['text'][:1500],
                        'ports': case['ports']},
                tag=describe(nl, case))
        if ok:
            tables.append((case['fmt'], tab))
        else:
            cls = obs.get('class', 'netlist')
            ck.hist['violation:' + cls] += 1
            what = {'assign-chain-order': 'verilog.parse: an assign that reads the target of a later assign statement is dropped',
                    'onebit-bus-nonzero-index': 'verilog.parse: a pin naming a 1-bit bus [k:k] (k != 0) by its base name reads an undriven fork',
                    'wide-gate': 'a gate with more than four inputs simulates as the 4-input primitive of its first four pins',
                    'verilog-lexical': 'verilog.parse: whitespace/comment/escaped-identifier rendering changes the result'}.get(
                        cls, f"parsed circuit differs from the described netlist ({obs.get('stage')})")
            if ck.hist['violation:' + cls] <= 2:      # at most two replays per class, so that every class gets one
                ck.violation(cls, what, _slim(case), obs, exp)
    # Verilog vs bench renderings of the same netlist
    vt = [t for f, t in tables if f == 'verilog']
    bt = [t for f, t in tables if f == 'bench']
    if vt and bt:
        ck.hist['verilog-vs-bench compared'] += 1
        format_eq_hyp(ck, nl, cases)
        if not all(np.array_equal(vt[0], t) for t in vt[1:] + bt):
            ck.violation('format-equivalence', 'Verilog and bench renderings of the same netlist give different truth tables',
                         {'cases': [_slim(c) for c in cases]}, None, None)


# ---------------------------------------------------------------------------------------------- "either format" (section FormatEquiv)
def nl_description(nl):
    """the netlist as the description type `Nl` of Proofs/FormatEquiv2.lean (canonical; bus bits as scalar names, the clock left out,
    an assign pair as a buffer, a constant as a `__const<b>__` gate, the QN output of a flip-flop as an inverter of Q — as the bench
    rendering writes them): (ports [(is_output, bit)], gates [(name, kind, inst, drv)]) or (None, reason)"""
    used = set(nl['bits']) | set(nl['sigs']) | {g['inst'] for g in nl['gates']}
    cnt = [0]

    def fresh(prefix):
        while True:
            cnt[0] += 1
            n = f'{prefix}{cnt[0]}'
            if n not in used:
                used.add(n); return n
    ports = []
    for s_ in nl['portlist']:
        if s_ == nl['clk']: continue
        for b in gen.sig_bits(s_, nl['sigs'][s_]):
            ports.append((nl['sigs'][s_]['dir'] == 'output', b))
    gates, extra = [], []

    def src(a):
        if a in gen.CONST:
            w = fresh('fe_k')
            extra.append((w, '__const0__' if gen.CONST[a] == 0 else '__const1__', fresh('fe_u'), []))
            return w
        return a
    for g in nl['gates']:
        if g['fam'] not in cells.BENCH_KINDS or (cells.is_seq(g['fam']) and g['fam'] != 'DFF'): return None, 'kind-not-in-bench'
        kinds = cells.BENCH_KINDS[g['fam']]
        kind = kinds[len(g['inst']) % len(kinds)]
        if g['fam'] == 'DFF':
            q = g['res'][0] if g['res'][0] is not None else fresh('fe_q')
            gates.append((q, kind, g['inst'], [src(a) for a in g['args']]))
            if len(g['res']) > 1 and g['res'][1] is not None:
                gates.append((g['res'][1], 'NOT', fresh('fe_u'), [q]))
            continue
        outs = [k for k, r in enumerate(g['res']) if r is not None]
        if outs != [0]: return None, 'multi-output-cell'
        gates.append((g['res'][0], kind, g['inst'], [src(a) for a in g['args']]))
    for a in nl['assigns']:
        for t, s_ in zip(a['t'], a['s']):
            gates.append((t, 'BUF', fresh('fe_u'), [src(s_)]))
    return (ports, gates + extra), None


def format_eq_hyp(ck, nl, cases):
    """tie of section `FormatEquiv` of Props/C11Library.lean for one netlist of the `format-equivalence` stream: the hypotheses
    `commonNlB`, `closedNlB` (and `benchOKB` / `verilogOKB` of the two canonical renderings) evaluated by the driver (tags `format-eq-hyp:*`); inside
    them the captured values of the model of `benchOf nl` (= those of `verilogOf nl`: `?` marks a difference) on sampled assignments
    == the generator's own evaluation of the netlist"""
    import random
    d, why = nl_description(nl)
    if d is None:
        ck.hist[f'format-eq-hyp:not-a-description:{why}'] += 1; return
    ports, gates = d
    wide = gen.has_wide(nl)
    const = False      # constants are written as `__const<b>__` gates by `nl_description`
    pis, ffs, pos = nl['pi'], gen.ff_insts(nl), nl['po']
    pnames = [b for _, b in ports]
    ffg = [g[2] for g in gates if 'dff' in g[1].lower()]
    try:
        ipos = [pnames.index(b) for b in pis] + [len(ports) + ffg.index(f) for f in ffs]
        opos = [pnames.index(b) for b in pos] + [len(ports) + ffg.index(f) for f in ffs]
    except ValueError as ex:
        ck.hist['format-eq-hyp:not-a-description:port-missing'] += 1; return
    npos = len(ports) + len(ffg)
    rows = stim_rows(len(pis) + len(ffs), cases[0].get('seed', 0))
    r = random.Random(cases[0].get('seed', 0))
    ncol = rows.shape[1]
    cols = sorted(set([0, ncol - 1] + [r.randrange(ncol) for _ in range(10)]))
    sub = rows[:, cols]
    reqs = []
    for j in range(sub.shape[1]):
        a = ['0'] * npos
        for k, p_ in enumerate(ipos): a[p_] = str(int(sub[k, j]))
        reqs.append(''.join(a))
    fix, one = probe_cfg()
    ptok = ','.join(('o' if o else 'i') + pct(b) for o, b in ports) or '~'
    gtok = ';'.join(f"{pct(n)}:{pct(k)}:{pct(i)}:{','.join(pct(x) for x in dr)}" for n, k, i, dr in gates) or '~'
    inp = {'nl': nl, 'request': f'nlequiv 0{int(fix)}{int(one)} {ptok} {gtok}'}
    try:
        ans = common.run_driver([f"nlequiv 0{int(fix)}{int(one)} {ptok} {gtok} {'/'.join(reqs) or '~'}"])[0].split(' ')
        flags = dict(x.split('=') for x in ans[:6])
        common_, closed, bok, vok = flags['common'] == '1', flags['closed'] == '1', flags['benchok'] == '1', flags['vok'] == '1'
    except Exception as ex:
        ck.broken_tie('format_eq: driver', f'{type(ex).__name__}: {ex}'[:300], inp=inp); return
    ck.hist[f'format-eq-hyp:commonNlB={int(common_)}'] += 1
    if not common_:
        ck.hist[f"format-eq-hyp:outside:{'wide-gate' if wide else 'constant-operand' if const else 'other'}"] += 1
    if common_ == (wide or const):
        ck.broken_tie('format_eq: fragment', f'commonNlB={common_} but the generator put wide gate: {wide}, constant operand: {const}', inp=inp); return
    if not common_: return
    ck.hist[f'format-eq-hyp:closedNlB={int(closed)}'] += 1
    try:        # the fragment of the Verilog rendering WITH branch forks (hypothesis of `bench_verilog_sim_equiv`, not derived)
        a1 = common.run_driver([f"nlequiv 1{int(fix)}{int(one)} {ptok} {gtok} ~"])[0].split(' ')
        f1 = dict(x.split('=') for x in a1[:6])
        ck.hist[f"format-eq-hyp:closedBfNlB={f1['closedbf']},verilogOKB(branchforks)={f1['vok']}"] += 1
        if f1['closedbf'] == '1' and f1['vok'] != '1':
            ck.broken_tie('format_eq: renderings', f'closedBfNlB but verilogOKB with branch forks is false: {" ".join(a1[:6])}', inp=inp); return
    except Exception as ex:
        ck.broken_tie('format_eq: driver', f'{type(ex).__name__}: {ex}'[:300], inp=inp); return
    ck.hist[f'format-eq-hyp:benchOKB={int(bok)},verilogOKB={int(vok)}'] += 1
    if not closed:      # every generated operand is driven and no generated name looks like a constant bit
        ck.broken_tie('format_eq: fragment', f'closedNlB is false for a generated netlist: {" ".join(ans[:6])}', inp=inp); return
    if not (bok and vok):
        ck.broken_tie('format_eq: renderings', f'a canonical rendering of a netlist inside closedNlB does not build: {" ".join(ans[:6])}', inp=inp); return
    if int(dict(x.split('=') for x in ans[:6])['npos']) != npos:
        ck.broken_tie('format_eq: positions', f"model nPos {flags['npos']} != {npos}", inp=inp); return
    got = ans[6].split('/') if len(ans) == 7 and ans[6] != '~' else []
    if len(got) != sub.shape[1]:
        ck.broken_tie('format_eq: driver answer', ' '.join(ans)[:200], inp=inp); return
    exp = truth_table(nl, sub)
    for j, g in enumerate(got):
        if g.endswith('!') or g.endswith('?'):
            ck.broken_tie('format_eq: model check', f'row answer {g!r}: benchModelB rejects (!) or the Verilog rendering observes something '
                          f'else (?) (assignment {reqs[j]})', inp=inp); return
        obs = [g[p_] for p_ in opos]
        want = [str(int(exp[k, j])) for k in range(len(opos))]
        if obs != want:
            ck.broken_tie('format_eq: denotation', f'model of the canonical renderings observes {obs} != generator {want} '
                          f'(assignment {reqs[j]})', inp=inp); return
    ck.hist['format-eq-hyp:denotation-rows'] += sub.shape[1]
    ck.hist['format-eq-hyp:covered'] += 1


def corpus_cases():
    return [json.load(open(f)) for f in sorted(glob.glob(os.path.join(common.VERIF, 'corpus', 'C11-*.json')))]


def stream(ck, n, notes):
    for _ in range(n):
        nl, cases = make_cases(ck.rng, notes)
        run_netlist(ck, nl, cases, notes)


# ---------------------------------------------------------------------------------------------- odd inputs (model vs code only)
def mutate_verilog(rng, ast, tlib):
    """one mutation of a statement list towards the edge of (or out of) the supported subset; returns (ast, label) or None"""
    import copy
    a = copy.deepcopy(ast)
    st = a['stmts']
    insts = [i for i, s in enumerate(st) if s[0] == 'inst']
    decls = [i for i, s in enumerate(st) if s[0] == 'decl']
    assigns = [i for i, s in enumerate(st) if s[0] == 'assign']
    buses = [n for i in decls if st[i][2] is not None and st[i][2][0] != st[i][2][-1] for n in st[i][3]]
    m = rng.choice(['dup-inst', 'bus-on-pin', 'unknown-pin', 'unknown-cell', 'undeclared-port', 'double-assign', 'width-mismatch',
                    'dup-port', 'port-as-wire', 'dup-pin', 'read-undriven', 'drop-driver', 'bad-const', 'bad-const-pin', 'const-on-output-pin',
                    'reverse-select', 'single-index-decl', 'second-declaration', 'inst-named-like-port', 'empty-module', 'one-item-concat-pin'])
    if m == 'dup-inst' and insts:
        st.insert(rng.randint(0, len(st)), copy.deepcopy(st[rng.choice(insts)]))
    elif m == 'bus-on-pin' and insts and buses:
        i = rng.choice(insts)
        if not st[i][3]: return None
        rng.choice(st[i][3])[1] = ['n', rng.choice(buses)]
    elif m == 'unknown-pin' and insts:
        i = rng.choice(insts)
        if not st[i][3]: return None
        rng.choice(st[i][3])[0] = 'QQ'
    elif m == 'unknown-cell' and insts:
        st[rng.choice(insts)][1] = 'NOSUCHCELL_X1'
    elif m == 'undeclared-port' and a['ports']:
        p = rng.choice(a['ports'])
        for i in decls: st[i][3] = [n for n in st[i][3] if n != p]
        a['stmts'] = st = [s for s in st if not (s[0] == 'decl' and not s[3])]
    elif m == 'double-assign' and assigns:
        st.insert(rng.randint(0, len(st)), copy.deepcopy(st[rng.choice(assigns)]))
    elif m == 'width-mismatch' and assigns:
        i = rng.choice(assigns)
        st[i][rng.choice([1, 2])] = rng.choice([['k', 1, 'b', '1'], ['k', 7, 'h', '5a'], ['c', [st[i][2], ['k', 2, 'b', '01']]]])
    elif m == 'dup-port' and a['ports']:
        a['ports'].insert(rng.randint(0, len(a['ports'])), rng.choice(a['ports']))
    elif m == 'port-as-wire' and a['ports']:
        p = rng.choice(a['ports'])
        for i in decls:
            if p in st[i][3]: st[i][1] = 'wire'
    elif m == 'dup-pin' and insts:
        i = rng.choice(insts)
        if not st[i][3]: return None
        pin = copy.deepcopy(rng.choice(st[i][3]))
        pin[1] = rng.choice([['n', 'other_sig'], ['k', 1, 'b', '0'], None])
        st[i][3].insert(rng.randint(0, len(st[i][3])), pin)
    elif m == 'read-undriven' and insts:
        i = rng.choice(insts)
        ins = [p for p in st[i][3] if p[1] is not None and not tlib.cells[st[i][1]][1].get(p[0], (0, True))[1]]
        if not ins: return None
        rng.choice(ins)[1] = rng.choice([['n', 'floating'], ['b', 'floating', 3, None], ['n', rng.choice(buses)] if buses and False else ['n', 'floating2']])
    elif m == 'drop-driver' and (insts or assigns):
        del st[rng.choice(insts + assigns)]
    elif m == 'bad-const' and assigns:
        st[rng.choice(assigns)][2] = rng.choice([['k', 0, 'b', '0'], ['k', 2, 'd', 'f'], ['k', 3, 'b', '2']])
    elif m == 'bad-const-pin' and insts:
        # a malformed sized constant ON AN INPUT PIN (`.I(1'b2)`: the real transformer raises in int(); witness of audit 2, finding 1)
        i = rng.choice(insts)
        ins = [p for p in st[i][3] if p[1] is not None and not tlib.cells[st[i][1]][1].get(p[0], (0, True))[1]]
        if not ins: return None
        rng.choice(ins)[1] = rng.choice([['k', 1, 'b', '2'], ['k', 1, 'd', 'f'], ['k', 0, 'b', '0'], ['k', 1, 'h', 'g']])
    elif m == 'const-on-output-pin' and insts:
        i = rng.choice(insts)
        outs = [p for p in st[i][3] if tlib.cells[st[i][1]][1].get(p[0], (0, False))[1]]
        if not outs: return None
        rng.choice(outs)[1] = ['k', 1, 'b', rng.choice('01')]
    elif m == 'reverse-select' and assigns and buses:
        i = rng.choice(assigns)
        def rev(x):
            if x[0] == 'b' and x[3] is not None: x[2], x[3] = x[3], x[2]
            elif x[0] == 'c':
                for y in x[1]: rev(y)
        rev(st[i][1]); rev(st[i][2])
    elif m == 'single-index-decl' and decls:
        i = rng.choice(decls)
        if st[i][2] is None: return None
        st[i][2] = [st[i][2][0]]
    elif m == 'second-declaration' and decls:
        i = rng.choice(decls)
        d = copy.deepcopy(st[i]); d[1] = rng.choice(['input', 'output', 'wire']); d[2] = rng.choice([None, [1, 0], [0, 2], d[2]])
        st.insert(rng.randint(0, len(st)), d)
    elif m == 'inst-named-like-port' and insts and a['ports']:
        st[rng.choice(insts)][2] = rng.choice(a['ports'])
    elif m == 'empty-module':
        a['stmts'] = [s for s in st if s[0] == 'decl']
        if rng.random() < 0.3: a['stmts'] = []; a['ports'] = []
    elif m == 'one-item-concat-pin' and insts:
        i = rng.choice(insts)
        c = [p for p in st[i][3] if p[1] is not None]
        if not c: return None
        p = rng.choice(c); p[1] = ['c', [p[1]]]
    else:
        return None
    return a, m


def mutate_bench(rng, ast):
    import copy
    a = copy.deepcopy(ast)
    gates = [i for i, s in enumerate(a) if s[0] == 'gate']
    intfs = [i for i, s in enumerate(a) if s[0] == 'intf']
    m = rng.choice(['dup-gate', 'same-driver-twice', 'undriven-driver', 'repeat-interface-name', 'drive-an-input', 'no-drivers', 'empty'])
    if m == 'dup-gate' and gates: a.insert(rng.randint(0, len(a)), copy.deepcopy(a[rng.choice(gates)]))
    elif m == 'same-driver-twice' and gates:
        g = a[rng.choice(gates)]
        if not g[3]: return None
        g[3].append(g[3][0])
    elif m == 'undriven-driver' and gates:
        g = a[rng.choice(gates)]; g[3].append('floating')
    elif m == 'repeat-interface-name' and intfs:
        s = a[rng.choice(intfs)]; s[1].append(s[1][0])
    elif m == 'drive-an-input' and intfs and gates:
        a.append(['gate', a[intfs[0]][1][0], 'buf', [a[gates[0]][1]]])
    elif m == 'no-drivers' and gates: a[rng.choice(gates)][3] = []
    elif m == 'empty': a = []
    else: return None
    return a, m


def print_bench(ast):
    return '\n'.join((f"INPUT({', '.join(s[1])})" if s[0] == 'intf' else f"{s[1]} = {s[2]}({', '.join(s[3])})") for s in ast) + '\n'


def odd_stream(ck, n, notes):
    """model vs code on inputs at and beyond the edge of the subset: both must raise, or both build the same circuit"""
    rng = ck.rng
    done = 0
    while done < n:
        nl, cases = make_cases(rng, notes)
        for case in cases:
            if case['fmt'] == 'verilog':
                r = mutate_verilog(rng, case['ast'], get_tlib(case['tlib']))
                if r is None: continue
                ast, label = r
                odd = {'fmt': 'verilog', 'tlib': case['tlib'], 'bf': case['bf'], 'ast': ast, 'text': print_ast(ast), 'mutation': label}
            else:
                r = mutate_bench(rng, case['ast'])
                if r is None: continue
                ast, label = r
                odd = {'fmt': 'bench', 'tlib': case['tlib'], 'bf': False, 'ast': ast, 'text': print_bench(ast), 'mutation': label}
            try:
                c = parse_real(odd); status = 'builds'
            except Exception as ex:
                c = None; status = 'raises'
            correspondence(ck, odd, c)
            if odd['fmt'] == 'bench': parsed_sem_dump(ck, odd, c)
            if odd['fmt'] in TEXT_FMTS: text_stream(ck, odd, 1, real=(c,))
            ck.case(key=('odd', odd['fmt'], odd['text']), nontrivial=False, tag=[f'odd:{label}:{status}', 'stream:odd'])
            done += 1


def probes(ck, notes):
    """constructs next to the subset: what the real code does with them (recorded as notes, not violations)"""
    from kyupy import verilog
    def tryp(label, text):
        try:
            with quiet(): c = verilog.parse(text)
            notes[f'{label}: parsed, io_nodes {[n.name if n else None for n in c.io_nodes]}, {len(c.lines)} lines'] = 1
        except Exception as ex:
            notes[f'{label}: {type(ex).__name__}: {str(ex).splitlines()[0][:90]}'] = 1
    tryp('ANSI header `module m(input a, output z)`', 'module m(input a, output z); INV_X1 u(.I(a), .ZN(z)); endmodule')
    tryp('positional pins `INV_X1 u(a, z)`', 'module m(a,z); input a; output z; INV_X1 u(a, z); endmodule')
    tryp('`tri w;` (no transformer method: statement ignored)', 'module m(a,z); input a; output z; tri w; INV_X1 u(.I(a), .ZN(z)); endmodule')
    tryp('assign width mismatch `assign z = 1\'b1` with z [1:0] (zip truncates, z[0] left undriven)',
         "module m(z); output [1:0] z; assign z = 1'b1; endmodule")
    tryp('bus on a pin `.I(a)` with a [1:0]', 'module m(a,z); input [1:0] a; output z; INV_X1 u(.I(a), .ZN(z)); endmodule')
    tryp('`output z` driven through `z[0]` (KeyError: c.cells[name] uses the rewritten name)',
         'module m(a,z); input a; output z; INV_X1 u(.I(a), .ZN(z[0])); endmodule')
    tryp('port without declaration', 'module m(a,z); input a; INV_X1 u(.I(a), .ZN(z)); endmodule')


def run(ck):
    ck.prove([], TARGETS[:1], theorems())
    import dump_techlib, dump_tables
    ck.prove([dump_tables.generate, dump_techlib.generate], TARGETS[1:], theorems_lib())   # separate module: depends on the library tables
    notes = {}
    for k in ('BENCH', 'PRIM'): cells.LIBS.pop(k, None)        # synthetic libraries of an earlier run in this process (drift re-runs)
    for p in cells.catalog_check(): notes['datasheet vs library pin table: ' + p] = 1
    cells.LIBS.setdefault('BENCH', bench_lib())
    cells.LIBS.setdefault('PRIM', prim_entries()[0])
    for case in corpus_cases():
        run_netlist(ck, case['nl'], [case], notes)
    for fmt, texts in TEXT_PROBES.items():       # fixed lexer / grammar corner cases: model vs lark vs the real parser
        for t in texts:
            st = text_check(ck, fmt, t, 'NANGATE', False, 'probe')
            ck.hist[f'text:{fmt}:probe:{st}'] += 1
    n = 45 * ck.scale
    stream(ck, n, notes)
    library_stream(ck, n // 2, notes)
    odd_stream(ck, n, notes)
    try:
        probes(ck, notes)
    except Exception as ex:
        notes[f'probe failed: {type(ex).__name__}: {ex}'] = 1
    if ck.broken and not ck.violations:
        stream(ck, n * 8, notes)
    ck.extra['distribution'] = dict(sorted(ck.hist.items()))
    ck.notes += [f'{k} (x{v})' for k, v in notes.items()]
    ck.assumptions += [
        'the lexer and grammar are modelled in Lean by a hand-written contextual lexer + recursive-descent parser (round-trip theorems '
        'in Props/C11.lean); that lark implements the GRAMMAR strings as this model reads them is checked by correspondence on generated, '
        'fixed corner-case and randomly edited texts (accept/reject, parse tree, resulting circuit), not proved; Python dict/str semantics '
        'and NumPy are exercised, not modelled',
        "text level, outside the modelled domain (counted as text:verilog:unsupported-name, not compared): an escaped identifier that "
        "contains an apostrophe but is not of the sized-constant shape (sigsel would hand it to Python's int())",
        'supported subset: named pin connections to single-bit selections; every port declared input/output; distinct instance, '
        'port-bit and pin names; equal widths on both sides of an assign; no signal name contains ~ or \'',
        'cell functions come from a hand-written datasheet (harness/c11_cells.py) whose pin names/directions are checked against '
        'the library tables on every run; adders (finding D5) and cells with ignored inputs (finding D7) are not generated',
        'LogicSim(m=2) is the observation instrument (its own correctness is property C01)']
    return ck.finish(RULE)


def bench_lib():
    L = []
    for fam in cells.BENCH_KINDS:
        n = cells.SEQ[fam][0] if fam in cells.SEQ else cells.COMB[fam][0]
        outs = ['Q', 'QN'] if fam == 'DFF' else ['o']
        L.append({'fam': fam, 'kinds': ['-'], 'ins': [f'i{k}' for k in range(n)], 'outs': outs, 'clk': None})
    return L


def replay(rep):
    cells.LIBS.setdefault('BENCH', bench_lib())
    cells.LIBS.setdefault('PRIM', prim_entries()[0])
    inp = rep['input']
    if 'cases' in inp:
        res = [eval_case(c) for c in inp['cases']]
        ok = all(r[0] for r in res) and len({json.dumps(c.get('_table').tolist()) for c in inp['cases'] if c.get('_table') is not None}) <= 1
        print(json.dumps({'ok': ok, 'results': [[r[0], r[1], r[2]] for r in res]}, default=str))
        return 0 if ok else 1
    ok, obs, exp = eval_case(inp)
    print(json.dumps({'ok': ok, 'observed': obs, 'expected': exp}, default=str))
    return 0 if ok else 1
