"""C18 — STIL patterns map scan data onto flip-flops by chain order and inversion.

Generator: small sequential circuits (kyupy API, Verilog-reader style port cells or bench style port forks; flip-flop
kinds in upper, lower and mixed case, latches, nodes created in random order) with 1-3 scan chains, random chain
orders, inversion markers anywhere (adjacent, at both ends), shuffled `_pi`/`_po` groups, pattern sets with and without
launch calls and clock pulses.  The generator first decides WHICH VALUE EVERY FLIP-FLOP / PORT MUST HOLD (ground
truth) and derives the STIL text from it (cell -> string position, value xor marker parity), i.e. in the direction
opposite to stil.py.

oracle        : real `stil.parse(text).tests/tests_loc/responses(circuit)` vs ground truth, rows in `circuit.s_nodes` order
correspondence: Lean model (driver command `stil`, fed with the REAL parse result) vs real, on every case:
                extracted patterns, tests, responses, tests_loc init matrix, tests_loc (the simulated next state is
                obtained by running the real LogicSim on the init matrix and handed to the model);
                end to end (composition with C02): the model's OWN simulation `StilSim.nxtOf` (driver `stilsim nxt`: SimOps
                model + real 8-valued dispatch on the canonical netlist dump of the same circuit) vs the rows `s[1]` of the real
                LogicSim that tests_loc builds (recorded inside the call and recomputed on the init matrix), and
                `tests_loc` of the model with that simulation (`stilsim loc`) vs the real result; the hypotheses of
                `C18.tests_loc_end_to_end` (compatB, wfB, orderOKB, forksOKB) are evaluated on every case."""
import json
import numpy as np
from . import common
from .circ import pct
import dump_tables

PID = 'C18'
TARGETS = ['KyupyVerif.Props.C18']
RULE = ('generated circuit x STIL text pairs; every case runs tests(), responses(), tests_loc() of the real code against the '
        'generator\'s ground truth (oracle) and against the Lean model fed with the real parse result (correspondence). '
        'distinct = (interface kinds, chain structures with marker positions, call-name sequence, group orders); non-trivial = '
        'at least one chain with >= 2 cells and >= 1 pattern; histogram tags give chains, marker placements (none / start / end / '
        'adjacent / inner), kinds (lower-case dff, latch), launch/capture pulse combinations, styles')

# ---------------------------------------------------------------------------------------------------------------
# ground-truth alphabet (written from the docstrings of logic.py, independent of logic.interpret)
CODE = {'0': 0, 'L': 0, '1': 3, 'H': 3, 'X': 1, '-': 2, 'N': 2, 'P': 4}
FF_KINDS = ['DFF', 'DFF', 'DFFX1', 'SDFFX1', 'SDFFARX1', 'dff', 'dff', 'sdffx1', 'Dff']
LATCH_KINDS = ['LATCH', 'latch', 'DLATCHX1']
GATES = {'not': ['INV1', 'not', 'NOT1'], 'and': ['AND2', 'and'], 'or': ['OR2', 'or'], 'xor': ['XOR2', 'xor'],
         'nand': ['NAND2', 'nand'], 'nor': ['NOR2', 'nor']}


def known(v): return v in (0, 3)


def g_eval(fn, a):
    """documented 4-valued algebra on codes 0, 1 (X), 2 (-), 3; pulses (4) count as constant 0"""
    a = [0 if v == 4 else v for v in a]
    if fn == 'buf': return a[0]
    if fn == 'not': return (3 - a[0]) if known(a[0]) else 1
    if fn in ('and', 'nand'):
        r = 0 if 0 in a else (1 if any(not known(v) for v in a) else 3)
    elif fn in ('or', 'nor'):
        r = 3 if 3 in a else (1 if any(not known(v) for v in a) else 0)
    else:
        r = 1 if any(not known(v) for v in a) else (3 if (a[0] == 3) != (a[1] == 3) else 0)
    if fn in ('nand', 'nor') and known(r): r = 3 - r
    return r


# ---------------------------------------------------------------------------------------------------------------
# circuit description -> kyupy Circuit

def build_circuit(spec):
    from kyupy.circuit import Circuit, Node, Line
    c = Circuit('gen')
    sig, cell = {}, {}
    v = spec['style'] == 'v'
    io = {}
    for st in spec['steps']:
        t, name = st[0], st[1]
        if t == 'in':
            if v:
                n = Node(c, name, 'input'); f = Node(c, name); Line(c, n, f); io[name] = n
            else:
                f = Node(c, name); io[name] = f
            sig[name] = f
        elif t == 'out':
            if v:
                n = Node(c, name, 'output'); io[name] = n; cell[name] = n
            else:
                b = Node(c, name, 'BUF1'); f = Node(c, name); Line(c, b, f); io[name] = f; cell[name] = b
        elif t in ('ff', 'latch'):
            n = Node(c, name, st[2]); f = Node(c, name); Line(c, (n, 0), f); sig[name] = f; cell[name] = n
        elif t == 'gate':
            n = Node(c, name, st[2]); f = Node(c, name); Line(c, (n, 0), f); sig[name] = f; cell[name] = n
    for st in spec['steps']:
        t, name = st[0], st[1]
        if t == 'outq':                    # bench style `OUTPUT(q)  q = DFF(..)`: the port IS the output fork of the flip-flop `q`
            io[name] = sig[name]
        elif t == 'out':
            Line(c, sig[st[2]], (cell[name], 0))
        elif t in ('ff', 'latch'):
            Line(c, sig[st[3]], (cell[name], 0))
            if st[4]: Line(c, sig[st[4]], (cell[name], 1))
        elif t == 'gate':
            for k, s in enumerate(st[4]): Line(c, sig[s], (cell[name], k))
    for name in spec['io_order']: c.io_nodes.append(io[name])
    return c


def next_state(spec, val):
    """gate-by-gate evaluation of the generator's own netlist: val = {signal: code}; returns {state element: code at D}"""
    val = dict(val)
    for name, fn, srcs in spec['gates']:      # listed in dependency order
        val[name] = g_eval(fn, [val.get(s, 2) for s in srcs])
    return {st[1]: val.get(st[3], 2) for st in spec['steps'] if st[0] in ('ff', 'latch')}


# ---------------------------------------------------------------------------------------------------------------
# generator

def gen_case(rng, malformed=False):
    n_chain = rng.choice([1, 1, 2, 2, 3])
    lens = [rng.choice([1, 2, 3, 3, 4, 5, 6]) for _ in range(n_chain)]
    if malformed: lens[0] = max(2, lens[0])
    p_lower = rng.choice([0.0, 0.0, 0.3, 0.6])      # share of flip-flops whose kind is not upper-case
    n_latch = rng.choice([0, 0, 0, 1, 2])
    n_free = rng.choice([0, 0, 1, 2])                  # flip-flops outside any chain
    namer = rng.choice([lambda k: f'f{k}', lambda k: f'r_reg[{k}]', lambda k: f'q_{k}_', lambda k: f'U{k}/ff'])
    ffs = []
    for k in range(sum(lens) + n_free):
        kind = rng.choice([x for x in FF_KINDS if 'DFF' not in x]) if rng.random() < p_lower else rng.choice([x for x in FF_KINDS if 'DFF' in x])
        ffs.append((namer(k), kind))
    latches = [(f'lat{k}', rng.choice(LATCH_KINDS)) for k in range(n_latch)]
    n_in = rng.randint(1, 4)
    ins = [f'a{k}' for k in range(n_in)]
    clk = rng.choice([None, 'clk', 'CLOCK'])
    sis = [f'si{k}' if n_chain > 1 else 'test_si' for k in range(n_chain)]
    sos = [f'so{k}' if n_chain > 1 else 'test_so' for k in range(n_chain)]
    n_out = rng.randint(1, 3)
    outs = [f'z{k}' for k in range(n_out)]
    # chains: random order of the chained cells (a latch may sit in a chain, rarely)
    pool = [n for n, _ in ffs]
    rng.shuffle(pool)
    chained = pool[n_free:]                            # the first n_free flip-flops stay outside every chain
    chains = []
    for ci, ln in enumerate(lens):
        cells = [chained.pop() for _ in range(ln)]
        if latches and rng.random() < 0.1:
            cells.insert(rng.randint(0, len(cells)), latches[rng.randrange(len(latches))][0])
        cells = list(dict.fromkeys(cells))
        gaps = [rng.choice([0, 0, 0, 0, 1, 1, 2, 3]) if rng.random() < 0.75 else 0 for _ in range(len(cells) + 1)]
        if rng.random() < 0.3: gaps = [0] * len(gaps)
        chains.append({'name': rng.choice([str(ci + 1), f'c{ci}', f'chain_{ci}']), 'si': sis[ci], 'so': sos[ci], 'cells': cells, 'gaps': gaps})
    # a latch can be in at most one chain position
    seen = set()
    for ch in chains:
        keep = []
        for x in ch['cells']:
            if x in seen: continue
            seen.add(x); keep.append(x)
        ch['gaps'] = ch['gaps'][:len(keep) + 1]
        ch['cells'] = keep
    # audit finding 2 (fix D36): bench-style circuits in which an output port IS the output fork of a flip-flop — port and state
    # element then have the SAME NAME in s_nodes (scan-out port named like the last cell of its chain; plain outputs named like any
    # flip-flop)
    style = rng.choice(['v', 'v', 'b'])
    portq = []
    if style == 'b' and rng.random() < 0.6:
        ffn = [n for n, _ in ffs]
        for ci, ch in enumerate(chains):
            if ch['cells'] and ch['cells'][-1] in ffn and ch['cells'][-1] not in portq and rng.random() < 0.6:
                sos[ci] = ch['so'] = ch['cells'][-1]; portq.append(sos[ci])
        for k in range(n_out):
            cand = [n for n in ffn if n not in portq]
            if cand and rng.random() < 0.35:
                outs[k] = rng.choice(cand); portq.append(outs[k])
    # netlist
    data_sigs = ins + [n for n, _ in ffs] + [n for n, _ in latches]
    gates = []
    for g in range(rng.randint(1, 6)):
        fn = rng.choice(list(GATES))
        srcs = [rng.choice(data_sigs + [x[0] for x in gates]) for _ in range(1 if fn == 'not' else 2)]
        gates.append((f'g{g}', fn, srcs))
    all_sigs = data_sigs + [x[0] for x in gates]
    steps = [['in', n] for n in ins + sis + ([clk] if clk else [])]
    steps += [['outq', n] if n in portq else ['out', n, rng.choice(all_sigs)] for n in outs]
    steps += [['outq', ch['so']] if ch['so'] in portq else ['out', ch['so'], ch['cells'][-1]] for ch in chains]
    steps += [['ff', n, k, rng.choice(all_sigs), clk if (clk and rng.random() < 0.5) else None] for n, k in ffs]
    steps += [['latch', n, k, rng.choice(all_sigs), clk if (clk and rng.random() < 0.5) else None] for n, k in latches]
    steps += [['gate', n, rng.choice(GATES[fn]), fn, srcs] for n, fn, srcs in gates]
    rng.shuffle(steps)                                  # node creation order = circuit.nodes order
    io_order = ins + sis + ([clk] if clk else []) + outs + sos
    if rng.random() < 0.6: rng.shuffle(io_order)
    spec = {'style': style, 'steps': steps, 'gates': [list(g) for g in gates], 'io_order': io_order}
    # signal groups
    pi_all = ins + sis + ([clk] if clk else [])
    po_all = outs + sos
    pi_grp = list(pi_all); po_grp = list(po_all)
    if rng.random() < 0.8: rng.shuffle(pi_grp)
    if rng.random() < 0.8: rng.shuffle(po_grp)
    if len(pi_grp) > 2 and rng.random() < 0.15: pi_grp.remove(rng.choice(ins))
    if len(po_grp) > 2 and rng.random() < 0.15: po_grp.remove(rng.choice(outs))
    # pattern set: ground truth first
    n_pat = rng.choice([1, 2, 2, 3, 4])
    style = rng.choice(['static', 'loc', 'mixed'])
    pats = []
    def rv(alpha): return rng.choice(alpha)
    dense = rng.random() < 0.6
    for i in range(n_pat):
        kind = style if style != 'mixed' else rng.choice(['static', 'loc'])
        load = {x: rv('01' * (6 if dense else 1) + 'N' + 'X') for ch in chains for x in ch['cells']}
        unload = {x: rv('LH' * (5 if dense else 1) + 'X' + ('N' if rng.random() < 0.1 else 'X')) for ch in chains for x in ch['cells']}
        def pivals(pulse):
            d = {x: rv('01' * (4 if dense else 1) + 'N') for x in pi_all}
            if clk: d[clk] = 'P' if pulse else rv('0N')
            return d
        if kind == 'loc':
            lp = rng.random() < 0.75 and clk is not None
            cp = rng.random() < 0.8 and clk is not None
            launch = pivals(lp)
        else:
            launch = None
            cp = rng.random() < 0.5 and clk is not None
        cap = pivals(cp)
        po = {x: rv('LH' * 3 + 'X') for x in po_all}
        pats.append({'load': load, 'unload': unload, 'launch': launch, 'capture': cap, 'po': po,
                     'cap_name': rng.choice(['multiclock_capture', 'allclock_capture'] + (['allclock_launch_capture'] if kind == 'static' else [])),
                     'launch_name': rng.choice(['allclock_launch', 'multiclock_launch']),
                     'discarded_load': rng.random() < 0.12})
    truth = {'chains': chains, 'pi_grp': pi_grp, 'po_grp': po_grp, 'pats': pats}
    case = {'spec': spec, 'truth': truth, 'text': render_stil(rng, truth, pi_all, po_all, malformed), 'malformed': malformed}
    return case


def par(n): return n % 2 == 1


def flip(ch, inv):
    """a character with the same meaning after one inversion"""
    if not inv: return ch
    return {'0': '1', '1': '0', 'L': 'H', 'H': 'L'}.get(ch, ch)


def chain_strings(ch, load, unload):
    """cell -> string: the first character shifted in ends up in the cell nearest scan-out, the first character
    shifted out comes from the cell nearest scan-out; a value passes every marker between the port and the cell"""
    n = len(ch['cells'])
    ls, us = [None] * n, [None] * n
    for k, x in enumerate(ch['cells']):             # k counted from scan-in
        m_in = sum(ch['gaps'][:k + 1])
        m_out = sum(ch['gaps'][k + 1:])
        if load is not None: ls[n - 1 - k] = flip(load[x], par(m_in))
        if unload is not None: us[n - 1 - k] = flip(unload[x], par(m_out))
    return (''.join(ls) if load is not None else None), (''.join(us) if unload is not None else None)


def wrap(rng, s):
    if len(s) > 3 and rng.random() < 0.3:
        k = rng.randint(1, len(s) - 1)
        return s[:k] + '\n' + s[k:]
    return s


def render_stil(rng, truth, pi_all, po_all, malformed=False):
    chains, pats = truth['chains'], truth['pats']
    q = lambda x: '"' + x + '"'
    t = ['STIL 1.0 { Design 2005; }' if rng.random() < 0.7 else 'STIL 1.0;']
    t.append('Header {\n   Title "generated";\n   Date "Tue";\n   History {\n      Ann {*  a { nested } note *}\n   }\n}')
    t.append('Signals {\n   ' + ' '.join(q(x) + ' In;' for x in pi_all) + '\n   ' + ' '.join(q(x) + ' Out;' for x in po_all) + '\n}')
    groups = [('_pi', truth['pi_grp'], ''), ('_po', truth['po_grp'], ''), ('all_inputs', pi_all, ''), ('all_outputs', po_all, ''),
              ('_si', [c['si'] for c in chains], ' { ScanIn; }'), ('_so', [c['so'] for c in chains], ' { ScanOut; }'),
              ('all_ports', ['all_inputs', 'all_outputs'], '')]
    rng.shuffle(groups)
    g = 'SignalGroups {\n'
    for name, mem, ann in groups:
        body = ' + '.join(q(x) + ('\n   ' if rng.random() < 0.1 else '') for x in mem)
        g += f'   {q(name)} = \'{body}\'{ann}' + (';' if (not ann or rng.random() < 0.5) else '') + f' // #signals={len(mem)}\n'
    t.append(g + '}')
    t.append('Timing {\n   WaveformTable "_default_WFT_" {\n      Period \'100ns\';\n      Waveforms {\n         "all_inputs" { 0 { \'0ns\' D; } }\n      }\n   }\n}')
    s = 'ScanStructures {\n'
    for ch in chains:
        items = []
        for k, x in enumerate(ch['cells']):
            items += ['!'] * ch['gaps'][k]
            form = rng.choice([0, 0, 1, 2])
            items.append(q(f'top.{x}.SI') if form == 0 else (q(f'{x}.SI') if form == 1 else q(x)))
        items += ['!'] * ch['gaps'][len(ch['cells'])]
        inv = sum(ch['gaps']) % 2
        s += (f'   ScanChain {q(ch["name"])} {{\n      ScanLength {len(ch["cells"])};\n      ScanIn {q(ch["si"])};\n      ScanOut {q(ch["so"])};\n'
              f'      ScanInversion {inv};\n      ScanCells {" ".join(items)} ;\n      ScanMasterClock "clk" ;\n   }}\n')
    t.append(s + '}')
    t.append('PatternBurst "_burst_" {\n   PatList { "_pattern_" {\n   }\n}}')
    t.append('PatternExec {\n   PatternBurst "_burst_";\n}')
    t.append('Procedures {\n   "load_unload" {\n      W "_default_WFT_";\n      Shift {          W "_default_WFT_";\n         V { "_si"=#; "_so"=#; }\n      }\n   }\n}')
    t.append('MacroDefs {\n   "test_setup" {\n      W "_default_WFT_";\n      V { "clk"=0; }\n   }\n}')
    p = 'Pattern "_pattern_" {\n   W "_multiclock_capture_WFT_";\n   "precondition all Signals": C { "_pi"=\\r4 0 ; }\n   Macro "test_setup";\n'
    prev_unload = None
    def so_lines(unl):
        return [f'      {q(ch["so"])}={wrap(rng, chain_strings(ch, None, unl)[1])};\n' for ch in chains]
    for i, pt in enumerate(pats):
        closing = so_lines(prev_unload) if prev_unload is not None else []   # unload of the previous pattern
        if pt['discarded_load']:
            # a load that is overwritten by the next load_unload before any capture: no pattern results from it
            parts = closing + [f'      {q(ch["si"])}={"".join(rng.choice("01N") for _ in ch["cells"])};\n' for ch in chains]
            p += f'   "pattern {i}x": Call "load_unload" {{\n' + ''.join(parts) + '   }\n'
            closing = [f'      {q(ch["so"])}={"".join("X" for _ in ch["cells"])};\n' for ch in chains] if rng.random() < 0.5 else []
        if rng.random() < 0.4: p += '   Ann {* fast_sequential *}\n'
        parts = list(closing)
        for ch in chains:
            ls = chain_strings(ch, pt['load'], None)[0]
            if malformed and i == len(pats) - 1 and ch is chains[0]: ls = ls + '01'
            parts.append(f'      {q(ch["si"])}={wrap(rng, ls)};\n')
        if rng.random() < 0.3: rng.shuffle(parts)
        p += f'   "pattern {i}": Call "load_unload" {{\n' + ''.join(parts) + '   }\n'
        if pt['launch'] is not None:
            p += f'   Call {q(pt["launch_name"])} {{\n      "_pi"={"".join(pt["launch"][x] for x in truth["pi_grp"])}; }}\n'
        cap = f'"_pi"={wrap(rng, "".join(pt["capture"][x] for x in truth["pi_grp"]))};'
        cpo = f'"_po"={"".join(pt["po"][x] for x in truth["po_grp"])};'
        p += f'   Call {q(pt["cap_name"])} {{\n      {cap} {cpo} }}\n' if rng.random() < 0.8 else f'   Call {q(pt["cap_name"])} {{ {cpo}\n {cap} }}\n'
        prev_unload = pt['unload']
    p += f'   "end {len(pats)} unload": Call "load_unload" {{\n'
    for ch in chains: p += f'      {q(ch["so"])}={wrap(rng, chain_strings(ch, None, prev_unload)[1])};\n'
    p += '   }\n}\n'
    t.append(p)
    t.append('// Patterns reference 1 V statements')
    return '\n'.join(t) + '\n'


# ---------------------------------------------------------------------------------------------------------------
# expected matrices from the ground truth

UNK = 'u'   # "no expectation": UNKNOWN or UNASSIGNED


def expected(case, c):
    truth, spec = case['truth'], case['spec']
    names = [n.name for n in c.s_nodes]
    # name -> row BY ROLE (audit finding 2): ports among io_nodes, scan cells among the state elements; a bench-style output port may
    # carry the name of the flip-flop whose output fork it is
    n_io = len(c.io_nodes)
    prow = {n: i for i, n in enumerate(names[:n_io])}
    crow = {n: i + n_io for i, n in enumerate(names[n_io:])}
    pats = truth['pats']
    n = len(names)
    T = [[2] * n for _ in pats]; R = [[2] * n for _ in pats]; L = [[UNK] * n for _ in pats]
    state = [st[1] for st in spec['steps'] if st[0] in ('ff', 'latch')]
    for i, pt in enumerate(pats):
        for x, ch in pt['load'].items(): T[i][crow[x]] = CODE[ch]
        for x in truth['pi_grp']: T[i][prow[x]] = CODE[pt['capture'][x]]
        for x in truth['po_grp']: R[i][prow[x]] = CODE[pt['po'][x]]
        for x, ch in pt['unload'].items(): R[i][crow[x]] = CODE[ch] if ch in 'LH' else UNK
        # launch-on-capture
        first = pt['launch'] if pt['launch'] is not None else pt['capture']
        init = {x: 2 for x in names}
        for x, ch in pt['load'].items(): init[x] = CODE[ch]
        for x in truth['pi_grp']: init[x] = CODE[first[x]]
        lpulse = pt['launch'] is not None and 'P' in pt['launch'].values() and 'P' in pt['capture'].values()
        cpulse = 'P' in pt['capture'].values()
        nxt = next_state(spec, init)
        for x, r in [(x, crow[x]) for x in pt['load']] + [(x, prow[x]) for x in truth['pi_grp']]:
            if x in pt['load']:
                fin = nxt[x] if lpulse else init[x]
            else:
                fin = CODE[pt['capture'][x]] if cpulse else 2
            a, b = init[x], fin
            a = 0 if a == 4 else a; b = 0 if b == 4 else b
            L[i][r] = ((1 if b == 3 else 0) | (2 if a == 3 else 0) | (4 if a != b else 0)) if known(a) and known(b) else UNK
    return names, T, R, L


def cols_of(mat):
    a = np.asarray(mat)
    return [''.join(str(int(v)) for v in a[:, i]) for i in range(a.shape[1])]


def diff_cols(got, exp, names):
    """got: list of digit strings, exp: list of lists (codes or UNK) -> first mismatch or None"""
    if len(got) != len(exp): return {'patterns': len(got)}, {'patterns': len(exp)}
    for i, (g, e) in enumerate(zip(got, exp)):
        if len(g) != len(e): return {'pattern': i, 'rows': len(g)}, {'pattern': i, 'rows': len(e), 'order': names}
        for r, (a, b) in enumerate(zip(g, e)):
            if (b == UNK and a not in '12') or (b != UNK and int(a) != b):
                return ({'pattern': i, 'row': r, 'node': names[r], 'value': int(a), 'column': g},
                        {'pattern': i, 'row': r, 'node': names[r], 'value': 'X or -' if b == UNK else b,
                         'column': ''.join('u' if v == UNK else str(v) for v in e)})
    return None


def run_real(case):
    """runs the real code; returns dict fn -> ('ok', cols) | ('err', class, message), plus parse result and circuit"""
    from kyupy import stil
    c = build_circuit(case['spec'])
    res = {}
    with common.quiet():
        s = common.after_failed_parse(stil.parse, case['text'])
        if sum(map(ord, case['text'][:200])) % 5 < 2:
            # the same StilFile object has already served ANOTHER circuit (same netlist, ports and state elements declared in the
            # reverse order): what it returns for `c` must not depend on that history
            spec2 = dict(case['spec']); steps = list(spec2['steps'])
            spec2['steps'] = [st for st in reversed(steps)]
            spec2['io_order'] = list(reversed(spec2['io_order']))
            try:
                c2 = build_circuit(spec2)
                for fn in ('tests', 'responses', 'tests_loc'):
                    try: getattr(s, fn)(c2)
                    except Exception: pass
            except Exception: pass
        for fn in ('tests', 'responses'):
            try:
                res[fn] = ('ok', cols_of(getattr(s, fn)(c)))
            except Exception as ex:
                res[fn] = ('err', err_class(ex), f'{type(ex).__name__}: {ex}'[:200])
        keep = {}
        def filt(init):
            keep['init'] = np.array(init); return init
        real_sim = stil.LogicSim
        class Rec(real_sim):                       # records the simulator object tests_loc creates (behaviour unchanged)
            def __init__(self, *a, **k):
                super().__init__(*a, **k); keep['sim'] = self
        stil.LogicSim = Rec
        try:
            res['loc'] = ('ok', cols_of(s.tests_loc(c, init_filter=filt)))
        except Exception as ex:
            res['loc'] = ('err', err_class(ex), f'{type(ex).__name__}: {ex}'[:200])
        finally:
            stil.LogicSim = real_sim
        if 'init' in keep: res['locinit'] = ('ok', cols_of(keep['init']))
        if 'sim' in keep and 'init' in keep and res['loc'][0] == 'ok':
            from kyupy import logic
            res['locsim'] = ('ok', cols_of(logic.bp_to_mv(keep['sim'].s[1])[..., :keep['init'].shape[-1]]))
    return c, s, res


def err_class(ex):
    return {'KeyError': 'key', 'ValueError': 'shape', 'IndexError': 'index'}.get(type(ex).__name__, type(ex).__name__)


def simulate(c, init_cols):
    """next state = bp_to_mv(sim.s[1]) of an 8-valued LogicSim run on the given init columns (digit strings)"""
    from kyupy import logic
    from kyupy.logic_sim import LogicSim
    n = len(init_cols)
    if n == 0: return []
    init = np.array([[int(ch) for ch in col] for col in init_cols], dtype=np.uint8).T
    with common.quiet():
        sim = LogicSim(c, n, m=8)
        sim.s[0] = logic.mv_to_bp(init)
        sim.s_to_c(); sim.c_prop(); sim.c_to_s()
        return cols_of(logic.bp_to_mv(sim.s[1])[..., :n])


# ---------------------------------------------------------------------------------------------------------------
# driver requests from the REAL parse result

def enc_list(xs): return ','.join(xs) if xs else '-'


def request(fn, mode, c, s, nxt=None):
    circ = enc_list([pct(n.name) for n in c.io_nodes]) + ';' + enc_list([pct(n.name) + ':' + pct(n.kind) for n in c.nodes])
    groups = '|'.join(pct(k) + ':' + enc_list([pct(x) for x in v]) for k, v in s.signal_groups.items()) or '-'
    chains = '|'.join(pct(v[0]) + ':' + pct(v[-1]) + ':' + enc_list([pct(x) for x in v[1:-1]]) for v in s.scan_chains.values()) or '-'
    calls = '|'.join(pct(cl.name) + ':' + enc_list([pct(k) + '=' + pct(v) for k, v in cl.parameters.items()]) for cl in s.calls) or '-'
    return f"stil {fn} {mode} {circ} {groups} {chains} {calls} {'|'.join(nxt) if nxt else '-'}"


def request_sim(fn, mode, c, s):
    """`stilsim`: the model simulates by itself — needs the netlist (canonical dump), the node names and the REAL order"""
    from . import circ as circ_mod
    base = request(fn, mode, c, s).split(' ')
    net = circ_mod.dump_net(c).replace(' ', '')
    names = enc_list([pct(n.name) for n in c.nodes])
    order = enc_list([str(n.index) for n in c.topological_order()])
    return f"stilsim {fn} {mode} {' '.join(base[3:7])} {net} {names} {order}"


def parse_sim(ans):
    """`compat=<b> ok cols` -> (compat, parsed)"""
    head, _, rest = ans.partition(' ')
    return head == 'compat=true', parse_cols(rest)


def unpct(t):
    if t == '%': return ''
    out, i = [], 0
    while i < len(t):
        if t[i] == '%': out.append(chr(int(t[i + 1:i + 3], 16))); i += 3
        else: out.append(t[i]); i += 1
    return ''.join(out)


def parse_pats(ans):
    body = ans[3:]
    if body == '': return []
    pats = []
    for p in body.split('|'):
        ds = []
        for d in p.split(';'):
            ds.append({} if d == '-' else {unpct(kv.split('=')[0]): unpct(kv.split('=')[1]) for kv in d.split(',')})
        pats.append(ds)
    return pats


def parse_cols(ans):
    if ans.startswith('ok'):
        body = ans[3:]
        return ('ok', body.split('|') if body else [])
    if ans.startswith('err '): return ('err', ans[4:])
    return ('bad', ans)


def same(real, model):
    if real[0] == 'ok': return model[0] == 'ok' and model[1] == real[1]
    return model[0] == 'err' and model[1] == real[1]


def model_all(c, s, res, mode, sim=False):
    """model answers for the three functions in one interface/inversion mode; nxt from the real simulator"""
    out = {}
    a = common.run_driver([request('tests', mode, c, s), request('responses', mode, c, s), request('locinit', mode, c, s)])
    out['tests'], out['responses'], out['locinit'] = (parse_cols(x) for x in a)
    nxt = None
    if out['locinit'][0] == 'ok' and out['locinit'][1] and len(out['locinit'][1][0]) == len(c.s_nodes):
        nxt = simulate(c, out['locinit'][1])
    out['loc'] = parse_cols(common.run_driver([request('loc', mode, c, s, nxt)])[0])
    if out['loc'][0] == 'ok' and not out['locinit'][1]: out['loc'] = ('ok', [])
    out['nxt_real'] = nxt
    if sim:
        a = common.run_driver([request_sim('nxt', mode, c, s), request_sim('loc', mode, c, s)])
        out['compat'], out['nxt_model'] = parse_sim(a[0])
        _, out['locfull'] = parse_sim(a[1])
    return out


# ---------------------------------------------------------------------------------------------------------------

def classify(c, s, res):
    """label of a violation: which documented departure of stil.py (if any) reproduces the observed result"""
    try:
        for mode, label in (('sfl', 'name-clash'), ('s1', 'inversion-vector'), ('s1l', 'inversion-vector'), ('uf', 'interface-order'),
                            ('ufl', 'interface-order'), ('u1', 'interface-order'), ('u1l', 'interface-order')):
            m = model_all(c, s, res, mode)
            if all(same(res[fn], m[fn]) for fn in ('tests', 'responses', 'loc')):
                return label, mode
    except Exception:
        pass
    return 'mapping', None


def eval_case(case):
    """oracle: the real code against the generator's ground truth. returns (ok, observed, expected)"""
    c, s, res = run_real(case)
    names, T, R, L = expected(case, c)
    if case.get('malformed'):
        for fn in ('tests', 'loc'):
            if res[fn][:2] != ('err', 'shape'):
                return (False, {'function': fn, 'result': 'returned' if res[fn][0] == 'ok' else res[fn][2]},
                        {'function': fn, 'raised': 'ValueError (load string longer than the chain)'})
        r = res['responses']
        if r[0] != 'ok': return False, {'function': 'responses', 'raised': r[2]}, {'function': 'responses', 'rows': names}
        d = diff_cols(r[1], R, names)
        if d is not None: return False, dict(d[0], function='responses'), dict(d[1], function='responses')
        return True, None, None
    for fn, exp in (('tests', T), ('responses', R), ('loc', L)):
        r = res[fn]
        if r[0] != 'ok':
            return False, {'function': fn, 'raised': r[2]}, {'function': fn, 'rows': names}
        d = diff_cols(r[1], exp, names)
        if d is not None:
            return False, dict(d[0], function=fn), dict(d[1], function=fn)
    return True, None, None


def features(case):
    tr, spec = case['truth'], case['spec']
    tags = [f"chains:{len(tr['chains'])}", f"style:{spec['style']}"]
    for ch in tr['chains']:
        g = ch['gaps']
        if sum(g) == 0: tags.append('markers:none')
        else:
            if g[0]: tags.append('markers:at-scan-in')
            if g[-1]: tags.append('markers:at-scan-out')
            if g[0] and g[-1]: tags.append('markers:both-ends')
            if any(x >= 2 for x in g): tags.append('markers:adjacent')
            if any(g[1:-1]): tags.append('markers:inner')
    kinds = [st[2] for st in spec['steps'] if st[0] == 'ff']
    if any('DFF' not in k for k in kinds): tags.append('kind:not-upper-case-dff')
    if any(st[0] == 'latch' for st in spec['steps']): tags.append('kind:latch')
    if any(x.startswith('lat') for ch in tr['chains'] for x in ch['cells']): tags.append('latch-in-chain')
    for pt in tr['pats']:
        lp = pt['launch'] is not None and 'P' in pt['launch'].values()
        cp = 'P' in pt['capture'].values()
        tags.append('pat:' + ('static' if pt['launch'] is None else 'launch') + ('+lp' if lp else '') + ('+cp' if cp else ''))
        if pt['discarded_load']: tags.append('pat:discarded-load')
    if tr['pi_grp'] != sorted(tr['pi_grp']): tags.append('groups:shuffled')
    nq = sum(1 for st in spec['steps'] if st[0] == 'outq')
    if nq: tags.append('name-clash:port=flip-flop' + (':scan-out' if any(ch['so'] in ch['cells'] for ch in tr['chains']) else ''))
    if case.get('malformed'): tags.append('malformed')
    return tags


def key_of(case):
    tr, spec = case['truth'], case['spec']
    return json.dumps([[st[0], st[2] if st[0] in ('ff', 'latch') else ''] for st in spec['steps']] + [spec['io_order']] +
                      [[ch['cells'], ch['gaps']] for ch in tr['chains']] + [tr['pi_grp'], tr['po_grp']] +
                      [[pt['launch'] is not None, pt['cap_name']] for pt in tr['pats']])


def corr_case(ck, case, viol):
    """correspondence Lean model <-> real code on one case (model input = real parse result)"""
    c, s, res = run_real(case)
    # (1) pattern extraction
    got = parse_pats(common.run_driver([request('pats', 'sf', c, s)])[0])
    real = [[dict(p.load), dict(p.launch), dict(p.capture), dict(p.unload)] for p in s.patterns]
    if got != real:
        ck.broken_tie('model Stil.extract vs StilFile.__init__', f'patterns differ: model {got[:2]} real {real[:2]}', inp=case)
        return
    # (1b) hypotheses of C18.extract_blocks / extract_pattern: the generated call list is `callsOf` of its blocks (discarded
    # load_unload calls, optional launch call, capture call with parameters) and every block is `ok` — evaluated by the driver
    tr = case.get('truth')
    if tr and 'pats' in tr and all('discarded_load' in pt for pt in tr['pats']):
        spec = [f"{1 if pt['discarded_load'] else 0}:{0 if pt['launch'] is None else 1}" for pt in tr['pats']]
        try:
            ans = common.run_driver([request('blocks', 'sf', c, s, nxt=spec)])[0]
        except common.DriverError:
            raise
        except Exception as ex:
            ans = f'{type(ex).__name__}'
        ck.hist['hyp:extract-blocks:' + ' '.join(ans.split(' ')[:3])] += 1
        if not case.get('malformed') and not ans.startswith('shape=true ok=true eq=true'):
            ck.broken_tie('hypotheses of C18.extract_blocks on a generated call list (shape callsOf / Blk.ok / extract = expectPats)',
                          ans, inp=case)
    # (2) the three functions, property mode
    m = model_all(c, s, res, 'sf', sim=True)
    bad = [fn for fn in ('tests', 'responses', 'loc') + (('locinit',) if 'locinit' in res else ()) if not same(res[fn], m[fn])]
    # hypotheses `hnd` of C18.load_pos / pi_po_map / unload_pos / po_map (target rows pairwise different) and "interface names
    # pairwise different" (C18.rows_unique_names), evaluated by the driver on the real parse result
    try:
        hnd = common.run_driver([request('hnd', 'sf', c, s)])[0]
    except Exception as ex:
        hnd = f'{type(ex).__name__}'
    ck.hist[f'hyp:hnd:{hnd}'] += 1
    # `ports=`: hypothesis `hports` (File.portsOK: scan-in / scan-out port names of the chains pairwise different; audit 2 A-C18-1 — the
    # code keys its chain tables by port, the model walks the chain list)
    if not case.get('malformed') and ('load=true unload=true' not in hnd or 'ports=true' not in hnd):
        # a well-formed generated case puts every cell in at most one chain position and every port once into a group: inside the domain
        ck.broken_tie('hypothesis hnd of the positional theorems on a well-formed case', hnd, inp=case)
    if not bad:
        ck.hist['corr:model=real'] += 1
        e2e_corr(ck, case, c, s, res, m)
    else:
        label, mode = classify(c, s, res)
        if viol and mode is not None:
            ck.hist[f'corr:real=model[{mode}] (as-found variant; reported by the oracle)'] += 1
        else:
            fn = bad[0]
            ck.broken_tie(f'model Stil.{fn} vs StilFile.{fn}', f'real {res[fn]} model {m[fn]}'[:600], inp=case)
    # (3) model in property mode vs ground truth (guards the generator and the model against each other)
    if not case.get('malformed'):
        names, T, R, L = expected(case, c)
        for fn, exp in (('tests', T), ('responses', R), ('loc', L)):
            if m[fn][0] != 'ok' or diff_cols(m[fn][1], exp, names) is not None:
                ck.broken_tie(f'model Stil.{fn} (property mode) vs generator ground truth',
                              f'{m[fn]} vs {diff_cols(m[fn][1], exp, names) if m[fn][0] == "ok" else None}'[:600], inp=case)
                break


def e2e_corr(ck, case, c, s, res, m):
    """end-to-end tie (C18.tests_loc_end_to_end): the model's own simulation against the real simulator inside tests_loc"""
    # hypotheses of the theorem on the real circuit / order
    if not m['compat']:
        ck.broken_tie('hypothesis StilSim.compatB (Circ and Net views of the same circuit)', 'compat=false', inp=case)
        return
    tag = common.allcirc_hyp(ck, c, [False], 'C18 tests_loc')
    ck.hist['e2e:' + tag] += 1
    ck.hist['e2e:' + common.netspec_hyp(c)] += 1
    # (a) nxtOf vs the rows of the real LogicSim: recorded inside tests_loc, and recomputed on the init matrix
    if 'locsim' in res:
        if m['nxt_model'] != ('ok', res['locsim'][1]):
            ck.broken_tie('model StilSim.nxtOf vs s[1] of the LogicSim inside the real tests_loc',
                          f"real {res['locsim'][1]} model {m['nxt_model']}"[:600], inp=case)
            return
        ck.hist['e2e:nxtOf=real-sim-rows(recorded)'] += 1
    if m['nxt_real'] is not None:
        if m['nxt_model'] != ('ok', m['nxt_real']):
            ck.broken_tie('model StilSim.nxtOf vs real LogicSim rows (recomputed on the init matrix)',
                          f"real {m['nxt_real']} model {m['nxt_model']}"[:600], inp=case)
            return
        ck.hist['e2e:nxtOf=real-sim-rows(recomputed)'] += 1
    # (b) tests_loc of the model with its own simulation vs the real tests_loc
    if res['loc'][0] == 'ok' and res['loc'][1] == [] and m['locfull'][0] == 'ok':
        m['locfull'] = ('ok', [])
    if not same(res['loc'], m['locfull']):
        ck.broken_tie('model StilSim.testsLocFull (tests_loc with the model\'s own simulation) vs StilFile.tests_loc',
                      f"real {res['loc']} model {m['locfull']}"[:600], inp=case)
        return
    ck.hist['e2e:tests_loc(model simulation)=real'] += 1


def fixed_cases():
    """hand-made minimal cases that always run first: (a) chain `f0 ! f1 f2`, load 100 (f0 must be 0);
    (b) a lower-case `dff` cell in the chain; (c) a latch in the circuit (rows must follow s_nodes)"""
    import random
    out = []
    for kinds, latch, gaps in ((['DFF', 'DFF', 'DFF'], False, [0, 1, 0, 0]), (['DFF', 'dff', 'DFF'], False, [0, 0, 0, 0]),
                               (['DFF', 'DFF', 'DFF'], True, [0, 0, 0, 0])):
        steps = [['in', 'a0'], ['in', 'test_si'], ['out', 'z0', 'f1'], ['out', 'test_so', 'f2']]
        if latch: steps.append(['latch', 'lat0', 'LATCH', 'a0', None])
        steps += [['ff', f'f{k}', kinds[k], src, None] for k, src in enumerate(['g0', 'f0', 'f1'])]
        steps.append(['gate', 'g0', 'AND2', 'and', ['a0', 'f2']])
        spec = {'style': 'v', 'steps': steps, 'gates': [['g0', 'and', ['a0', 'f2']]], 'io_order': ['a0', 'test_si', 'z0', 'test_so']}
        chains = [{'name': '1', 'si': 'test_si', 'so': 'test_so', 'cells': ['f0', 'f1', 'f2'], 'gaps': gaps}]
        pats = [{'load': {'f0': '0', 'f1': '1', 'f2': '0'}, 'unload': {'f0': 'H', 'f1': 'L', 'f2': 'H'}, 'launch': None,
                 'capture': {'a0': '1', 'test_si': '0'}, 'po': {'z0': 'H', 'test_so': 'L'}, 'cap_name': 'multiclock_capture',
                 'launch_name': 'allclock_launch', 'discarded_load': False}]
        truth = {'chains': chains, 'pi_grp': ['test_si', 'a0'], 'po_grp': ['z0', 'test_so'], 'pats': pats}
        out.append({'spec': spec, 'truth': truth, 'malformed': False,
                    'text': render_stil(random.Random(0), truth, ['a0', 'test_si'], ['z0', 'test_so'])})
    return out


def sweep(ck, n, lead=()):
    rng = ck.rng
    lead = list(lead)
    for it in range(n + len(lead)):
        case = lead[it] if it < len(lead) else gen_case(rng, malformed=(it % 25 == 24))
        try:
            ok, obs, exp = eval_case(case)
        except Exception as ex:
            ok, obs, exp = False, {'raised-in-harness': f'{type(ex).__name__}: {ex}'[:300]}, None
        nontriv = any(len(ch['cells']) >= 2 for ch in case['truth']['chains'])
        ck.case(key=key_of(case), nontrivial=nontriv, tag=features(case),
                sample={'chains': [[ch['cells'], ch['gaps']] for ch in case['truth']['chains']], 'stil_chars': len(case['text'])})
        viol = False
        if not ok:
            viol = True
            c, s, res = run_real(case)
            label, mode = classify(c, s, res)
            what = {'inversion-vector': 'scan-chain inversion markers are not applied per cell (only the first flag of the inversion vector is used)',
                    'interface-order': 'rows do not follow circuit.s_nodes (case-sensitive DFF test, latches missing) or a chained cell is not found',
                    'name-clash': 'a port and a flip-flop share a name (bench-style OUTPUT(q) q=DFF(..)): the _po character lands on the '
                                  'flip-flop row, the port row is never assigned (one name dictionary over s_nodes, last position wins)',
                    'mapping': 'STIL data does not land where chain order / signal groups dictate'}[label]
            ck.violation(label, what, case, obs, exp)
        try:
            corr_case(ck, case, viol)
        except Exception as ex:
            ck.broken_tie('correspondence run', f'{type(ex).__name__}: {ex}'[:300], inp=case)


def shipped_files(ck):
    """correspondence on the two shipped STIL files (single chain, no markers)"""
    import os
    from kyupy import stil, verilog
    from kyupy.techlib import SAED32
    d = os.path.join(common.REPO, 'tests')
    try:
        with common.quiet():
            c = verilog.load(os.path.join(d, 'b15_2ig.v.gz'), tlib=SAED32)
    except Exception as ex:
        ck.notes.append(f'shipped files skipped: {type(ex).__name__}: {ex}'[:200]); return
    for fn in ('b15_2ig.sa_nf.stil.gz', 'b15_2ig.tf_nf.stil.gz'):
        with common.quiet():
            s = stil.load(os.path.join(d, fn))
        s.calls = s.calls[:41]; s.__init__(s.version, s.signal_groups, s.scan_chains, s.calls)
        res = {}
        with common.quiet():
            for f in ('tests', 'responses'):
                try: res[f] = ('ok', cols_of(getattr(s, f)(c)))
                except Exception as ex: res[f] = ('err', err_class(ex), str(ex)[:100])
        a = common.run_driver([request('tests', 'sf', c, s), request('responses', 'sf', c, s)])
        for f, x in zip(('tests', 'responses'), a):
            ck.case(key=('shipped', fn, f), tag='shipped-file')
            if not same(res[f], parse_cols(x)):
                ck.broken_tie(f'model Stil.{f} vs real on {fn}', f'{str(res[f])[:200]} vs {x[:200]}')


# ---------------------------------------------------------------------------------------------------------------
# text level: the grammar itself (Model/StilText.lean through driver `stilparse`) against lark on the same texts
from . import textmut
_lark = None


def lark_sexp(text):
    """parse tree of the REAL grammar with all tokens kept: `rule[child,..]`, leaves percent-encoded; None = rejected"""
    global _lark
    from lark import Lark, Token
    from kyupy import stil
    if _lark is None or _lark[0] is not stil.GRAMMAR:
        _lark = (stil.GRAMMAR, Lark(stil.GRAMMAR, parser='lalr', keep_all_tokens=True))
    def sexp(t):
        if isinstance(t, Token): return textmut.pct(str(t))
        return f"{t.data}[{','.join(sexp(c) for c in t.children)}]"
    try:
        return sexp(_lark[1].parse(text))
    except Exception:
        return None


def real_dicts(text):
    """('ok', 'groups chains calls') from the real stil.parse, in the encoding of driver `stilparse`; ('raise', None)"""
    from kyupy import stil
    tp = textmut.pct
    lj = lambda l, sep: sep.join(l) if l else '-'
    on = lambda x: '~' if x is None else tp(x)
    with common.quiet():
        try:
            s = stil.parse(text)
        except Exception:
            return 'raise', None
    g = '~' if s.signal_groups is None else lj([tp(k) + ':' + lj([tp(x) for x in v], ',') for k, v in s.signal_groups.items()], '|')
    c = lj([tp(k) + ':' + on(v[0]) + ':' + on(v[-1]) + ':' + lj([tp(x) for x in v[1:-1]], ',') for k, v in s.scan_chains.items()], '|')
    l = lj([tp(cl.name) + ':' + lj([tp(k) + '=' + tp(v) for k, v in cl.parameters.items()], ',') for cl in s.calls], '|')
    return 'ok', f'{g} {c} {l}'


TEXT_ALPHABET = '{};:=+\'"! \n\t/0123456789.-abNWC\\'
TEXT_FRAGMENTS = [' ', '\n', ' // c\n', '//c {\n', ' { }', ' { a { b } c }', ' ;', ' "x"', ' "a.b.SI"', ' !', ' + "y"', ' Ann {* x *}', ' C { "a"=0; }',
                  ' W "w";', ' Macro "m";', ' "l":', ' Call "c" { "k"=01; }', ' ScanIn "i";', ' ScanOut "o";', ' ScanCells "a" ! "b";',
                  ' ScanLength 3;', ' UserKeywords abc;', ' Header { }', ' PatternBurst "b" { }', ' SignalGroups { "g" = \'"a"\'; }',
                  ' ScanStructures { ScanChain "1" { ScanCells "q"; } }', ' Pattern "p" { }', '{', '}', '"', "'", 'Call', 'C', 'W']
B = 'ScanStructures { ScanChain "1" { ScanIn "si"; ScanOut "so"; ScanCells "a" ! "b.c.SI" ; } } Pattern "p" { Call "load_unload" { "si"=01; } }'
HAND_TEXTS = ['', 'STIL 1.0;', 'STIL 1.0 ;' + B, 'STIL 1.0 { x { y } z } ' + B, 'STIL 1.0{}' + B, 'STIL1.0;' + B, 'STIL 1.0.0 ;' + B, 'STIL - ;' + B, 'STIL -.5;' + B, 'STIL 1. ;' + B,
     'STIL 1.0; Header { a { b } c } ' + B, 'STIL 1.0; Header { a { b } c } x ' + B, 'STIL 1.0; Header { // }\n } ' + B, 'STIL 1.0; Header { x // }\n } ' + B,
     'STIL 1.0; Header {}Signals{}Timing{}PatternExec{}Procedures{}MacroDefs{} ' + B, 'STIL 1.0; PatternBurst "b" { PatList { "p" { } } } ' + B, 'STIL 1.0; PatternBurst "b"{}' + B,
     'STIL 1.0; UserKeywords abc; ' + B, 'STIL 1.0; UserKeywords ; ' + B, 'STIL 1.0; UserKeywords a1; ' + B, 'STIL 1.0; UserKeywords abc ; ' + B, 'STIL 1.0; UserKeywords\nabc;' + B,
     'STIL 1.0; SignalGroups { "g" = \'"a" + "b"\'; "h" = \'"c"\' { ScanIn; } "g" = \'"z"\' "k"=\'"a"+\n"b"\'{x}; } ' + B, 'STIL 1.0; SignalGroups { } SignalGroups { "q" = \'"a"\' } ' + B,
     'STIL 1.0; SignalGroups { "g" = \'"a" "b"\'; } ' + B, 'STIL 1.0; SignalGroups { "g" = "a"; } ' + B, 'STIL 1.0; SignalGroups { "g" = \'\'; } ' + B, 'STIL 1.0; SignalGroups { "g" = \'"a"\' ; ; } ' + B,
     'STIL 1.0; SignalGroups { "g" = \'"a"\' {} {} } ' + B, 'STIL 1.0; SignalGroups { "g" = \'"a"\' {} W } ' + B,
     'STIL 1.0; ScanStructures { ScanChain "1" { ScanCells "a"; } ScanChain "1" { ScanIn "i"; ScanCells "x.y" "q.SI.SI" "r.SIx.t" ! ! "u\nv.w"; ScanCells ; ScanOut "o"; ScanOut "o2"; ScanLength 03; ScanInversion 1; ScanMasterClock "c" ; } } Pattern "p" { }',
     'STIL 1.0; ScanStructures { ScanChain "1" { ScanIn "i"; } } Pattern "p" { }', 'STIL 1.0; ScanStructures { } Pattern "p" { }', 'STIL 1.0; ScanStructures { ScanChain "1" { } } ScanStructures { } Pattern "p" { }',
     'STIL 1.0; ScanStructures { ScanChain "1" { ScanCells "a" } } Pattern "p" { }', 'STIL 1.0; ScanStructures { ScanChain "1" { ScanCells!"a"!; ScanLength 3 ; ScanInversion1; ScanIn"x"; } } Pattern "p" { }',
     'STIL 1.0; ScanStructures { ScanChain "1" { ScanLength x; } } Pattern "p" { }', 'STIL 1.0; Pattern "p" { }', 'STIL 1.0; ScanStructures { ScanChain "1" { ScanCells "a"; } }',
     'STIL 1.0; ' + B + ' Pattern "q" { "l": W "w"; C { "a"=0; } Macro "m"; Ann {* x *} "l2" : Call "c" { } Call "d" { "k"=0 1\n2 ; "k"= // c\n 5{;"j"=;} }',
     'STIL 1.0; ' + B + ' Pattern "q" { Call "d" { "k"=; } }', 'STIL 1.0; ' + B + ' Pattern "q" { Call "d" { "k" = v } }', 'STIL 1.0; ' + B + ' Pattern "q" { Callx "d" { } }', 'STIL 1.0; ' + B + ' Pattern "q" { Cx { } }',
     'STIL 1.0; ' + B + ' Pattern "q" { C { } C { } Ann { } "x": }', 'STIL 1.0; ' + B + ' Pattern "q" { C { } W "w"; }', 'STIL 1.0; ' + B + ' Pattern "q" { C { } Pattern }', 'STIL 1.0; ' + B + ' Pattern "q" { Ann { } } Header { } } ',
     'STIL 1.0; ' + B + ' Header { } "x"', 'STIL 1.0; ' + B + ' Header { } ;', 'STIL 1.0; ' + B + ' Header { } C { }', 'STIL 1.0; ' + B + '\n// end\n\t', 'STIL 1.0; ' + B + ' x', '// c\n STIL 1.0; ' + B, 'STIL 1.0; ' + B + ' W']


def mutate_text(rng, t):
    m = textmut.mutate(rng, t, TEXT_ALPHABET, TEXT_FRAGMENTS, ' \n;{}')
    if rng.random() < 0.25: m = textmut.mutate(rng, m, TEXT_ALPHABET, TEXT_FRAGMENTS, ' \n;{}')
    return m


def text_level(ck, texts, origin):
    """same parse tree (every token, every rule) or both reject; same accept/raise of transformer + StilFile.__init__;
    when accepted: same signal_groups / scan_chains / calls dictionaries (the input of the post-parse model)"""
    outs = textmut.drv([f'stilparse {textmut.pct(t)}' for t in texts])
    for t, o in zip(texts, outs):
        lt = lark_sexp(t)
        if lt is None:
            exp = 'syntax'
        else:
            st, rest = real_dicts(t)
            exp = st + ' ' + lt + ('' if rest is None else ' ' + rest)
        got = o
        if exp.startswith('raise') and o != 'syntax': got = ' '.join(o.split(' ')[:2])
        ck.case(key=('text', t), nontrivial=lt is not None, tag=[f'text:{origin}', 'text-result:' + exp.split(' ')[0]])
        if got != exp:
            i = next((k for k in range(min(len(got), len(exp))) if got[k] != exp[k]), min(len(got), len(exp)))
            ck.broken_tie(f'STIL text model (grammar of stil.py) vs lark / stil.parse, {origin} text',
                          f'real {exp[:40]} .. {exp[max(0, i - 100):i + 100]} != model {got[:40]} .. {got[max(0, i - 100):i + 100]}', inp={'text': t})


def text_stream(ck, scale):
    rng = ck.rng
    try:
        text_level(ck, HAND_TEXTS, 'hand-written')
        text_level(ck, [mutate_text(rng, t) for t in HAND_TEXTS for _ in range(2 * scale)], 'mutated')
        for it in range(40 * scale):
            t = gen_case(rng)['text']
            text_level(ck, [t], 'generated')
            text_level(ck, [mutate_text(rng, t) for _ in range(4)], 'mutated')
    except Exception as ex:
        ck.broken_tie('STIL text model correspondence', f'{type(ex).__name__}: {ex}'[:300])


def run(ck):
    ck.prove([dump_tables.generate], TARGETS, common.theorems_of('KyupyVerif/Props/C18.lean', 'KV.C18'))
    n = 120 * ck.scale
    shipped_files(ck)
    sweep(ck, n, lead=fixed_cases())
    text_stream(ck, ck.scale)
    if ck.broken and not ck.violations:
        sweep(ck, n * 8)
    # one replay per class first (finish() writes the first five)
    seen, first, rest = set(), [], []
    for v in ck.violations:
        (first if v['class'] not in seen else rest).append(v); seen.add(v['class'])
    ck.violations[:] = first + rest
    ck.assumptions += ['grammar/lexer of stil.py: modelled (Model/StilText.lean, round-trip theorem) and compared with lark on generated, hand-written and mutated texts (parse tree with all tokens, dictionaries); that lark implements the grammar as the model reads it is checked there, not proved',
                       'the 8-valued simulation inside tests_loc: theorem tests_loc_end_to_end speaks about StilSim.nxtOf (SimOps model + real '
                       '8-valued dispatch on the netlist dump); nxtOf = rows of the real LogicSim inside tests_loc and the hypotheses '
                       'compatB/wfB/orderOKB/forksOKB are compared / evaluated on every generated case (tags e2e:*); '
                       'ground truth for the next state is the generator\'s own gate-by-gate evaluation with the documented algebra',
                       'NumPy broadcasting of one-character strings is outside the model (strings have chain/group length)',
                       'X and - are not distinguished where the property gives no expectation (unload X/N characters, LoC values with an unknown side)']
    return ck.finish(RULE)


def replay(rep):
    case = rep.get('input')
    if case is None:
        for b in rep.get('broken', []):
            if b.get('input'): case = b['input']; break
    if case is None:
        print(json.dumps({'ok': None, 'note': 'no input recorded'})); return 0
    ok, obs, exp = eval_case(case)
    print(json.dumps({'ok': ok, 'observed': obs, 'expected': exp}, default=str))
    return 0 if ok else 1
