"""C19 — built-in library cells have consistent pins and datasheet Boolean functions."""
import collections, json
from . import common
import dump_techlib

PID = 'C19'
TARGETS = ['KyupyVerif.Props.C19', 'KyupyVerif.Props.C19Gates', 'KyupyVerif.Props.C19Fun']
LIBS = dump_techlib.LIBS
RULE = ('complete sweep, no sampling: every key of TechLib.cells of GSC180, NANGATE, NANGATE_ZN, SAED32, SAED90. '
        '(a) pins: the real pin table / pin_index() / pin_is_output() of every name against the ports of its implementation '
        'circuit and the numbering rule; every template name expanded by the Lean specification `expand` must be a key with '
        'that very definition; (b) function: for every name whose family the Lean specification `classify` lists, the truth '
        'table of the implementation circuit on the real LogicSim(m=2) (thorough: also c_reuse, strip_forks, callback path, '
        'm=4, m=8) on ALL input rows against the Lean `datasheet` function of its family and pin names (driver command ds.spec). '
        'distinct = (library, cell name, check kind); non-trivial = function cases whose table has both a 0 and a 1')


def theorems():
    return [common.theorems_of(f'KyupyVerif/Props/{m}.lean', 'KV.C19') for m in ('C19', 'C19Gates', 'C19Fun')]


def _lib(name):
    from kyupy import techlib
    return getattr(techlib, name)


_tt_cache = {}


def truth_table(c, variant='plain'):
    """{output port: [bit per row]}; input k of row r = bit k of r. real LogicSim on the implementation circuit."""
    key = (id(c), variant)
    if key in _tt_cache: return _tt_cache[key]
    kw = {'plain': {}, 'reuse': {'c_reuse': True}, 'strip': {'strip_forks': True}, 'cb': {'cb': True},
          'm4': {'m': 4}, 'm8': {'m': 8}}[variant]
    tt = dump_techlib.real_truth_table(c, **kw)
    _tt_cache[key] = tt
    return tt


_spec_cache = {}


def spec(cell, ins, outs):
    """the Lean specification's answer for a cell name with these pin names: ('outside'|'bad'|'ok', base, family, tables)"""
    key = (cell, tuple(ins), tuple(outs))
    if key not in _spec_cache:
        a = common.run_driver([f"ds.spec {cell} {','.join(ins) or '-'} {','.join(outs) or '-'}"])[0].split(' ')
        if a[0] == 'outside': r = ('outside', a[1], None, None)
        elif a[0] == 'bad': r = ('bad', a[1], a[2], None)
        elif a[0] == 'ok': r = ('ok', a[1], a[2], [[int(ch) for ch in t] for t in a[3].split(',')])
        else: raise RuntimeError(f'driver answer {a!r}')
        _spec_cache[key] = r
    return _spec_cache[key]


def pin_lists(c, pd):
    ins = [p for p, (i, o) in pd.items() if not o]
    outs = [p for p, (i, o) in pd.items() if o]
    return ins, outs


def eval_case(case):
    """one JSON-able case on the REAL library objects -> (ok, observed, expected)"""
    lib = _lib(case['lib'])
    kind = case['kind']
    if kind == 'expand':
        names = [n for n in common.run_driver([f"ds.expand {case['template']}"])[0].split(',')]
        owner = None
        for nm, (c, pd) in lib.cells.items():
            if c.name == case['template']: owner = (c, pd); break
        if owner is None:
            return False, {'template': 'no cell carries it'}, {'template': case['template']}
        for nm in names:
            e = lib.cells.get(nm)
            if e is None:
                return False, {'cells': f'{nm} missing'}, {'cells': f'{nm} defined by {case["template"]}'}
            if e[0] is not owner[0] or e[1] is not owner[1]:
                return False, {'definition_of': nm, 'is': e[0].name}, {'definition_of': nm, 'is': case['template']}
        have = [nm for nm, e in lib.cells.items() if e[0] is owner[0]]
        if have != names:
            return False, {'keys': have}, {'keys': names}
        return True, None, None
    if kind == 'declared':
        # the entry a name of THIS library carries = the definition written for it in THIS library's text (an entry taken over
        # from another library - shared parse cache, wrong source string - is self-consistent and can even have the right function)
        if not DECLARED_TEXT: declared_templates()
        text = DECLARED_TEXT.get(case['lib'], {}).get(case['template'])
        if text is None:
            return True, None, None
        want_pins, want_kinds = declared_pins(text)
        for nm in common.run_driver([f"ds.expand {case['template']}"])[0].split(','):
            e = lib.cells.get(nm)
            if e is None: continue        # reported by the 'expand' case
            got_pins = {p: [v[0], bool(v[1])] for p, v in e[1].items()}
            if got_pins != want_pins:
                return False, {'cell': nm, 'pin_table': got_pins}, {'pin_table': want_pins, 'declared': text.strip()[:200]}
            ios = set(id(n) for n in e[0].io_nodes)
            got_kinds = sorted(n.kind for n in e[0].nodes if id(n) not in ios and n.kind != '__fork__')
            if got_kinds != want_kinds:
                return False, {'cell': nm, 'gate_kinds': got_kinds}, {'gate_kinds': want_kinds, 'declared': text.strip()[:200]}
        return True, None, None
    cell = case['cell']
    if cell not in lib.cells:
        return False, {'cell': 'missing'}, {'cell': cell}
    c, pd = lib.cells[cell]
    if kind == 'pins':
        exp, i_idx, o_idx, seen = [], 0, 0, set()
        for n in c.io_nodes:
            if n.name in seen:
                return False, {'port': f'{n.name} listed twice'}, {'port': 'each pin once'}
            seen.add(n.name)
            if len(n.ins) == 0: exp.append((n.name, i_idx, False)); i_idx += 1
            else: exp.append((n.name, o_idx, True)); o_idx += 1
        got = [(p, v[0], v[1]) for p, v in pd.items()]
        if got != exp:
            return False, {'pin_table': got}, {'pin_table': exp}
        for p, i, o in exp:
            try:
                a, b = lib.pin_index(cell, p), lib.pin_is_output(cell, p)
            except Exception as ex:
                return False, {'raised': f'{type(ex).__name__}: {ex}'[:200]}, {'pin': [p, i, o]}
            if a != i or bool(b) != o:
                return False, {'pin': [p, a, bool(b)]}, {'pin': [p, i, o]}
        return True, None, None
    if kind == 'function':
        ins, outs = pin_lists(c, pd)
        st, base, fam, tabs = spec(cell, ins, outs)
        if st == 'outside':
            return True, None, None
        if st == 'bad':
            return False, {'pins': {'inputs': ins, 'outputs': outs}}, {'pins': f'as the family {base} ({fam}) requires'}
        if len(c.s_nodes) != len(c.io_nodes):
            return False, {'state_elements': len(c.s_nodes) - len(c.io_nodes)}, {'state_elements': 0}
        tt = truth_table(c, case.get('variant', 'plain'))
        pins = [case['pin']] if case.get('pin') else outs
        for p in pins:
            want = tabs[outs.index(p)]
            got = tt[p]
            rows = [case['row']] if case.get('row') is not None else range(len(want))
            for r in rows:
                if got[r] != want[r]:
                    return False, {'pin': p, 'row': r, 'inputs': {q: (r >> k) & 1 for k, q in enumerate(ins)}, 'value': got[r],
                                   'table': ''.join(map(str, got))}, \
                                  {'value': want[r], 'table': ''.join(map(str, want)), 'family': fam}
        return True, None, None
    raise ValueError(kind)


DECLARED_TEXT = {}     # library -> template -> definition text of THAT library (filled by declared_templates)


def declared_pins(text):
    """pin table and gate kinds written in one definition text, read with regular expressions (independently of bench.parse
    and of TechLib.__init__): inputs and outputs numbered separately in the order they are written"""
    import re
    pins, ni, no = {}, 0, 0
    for m in re.finditer(r'\b(input|output)\s*\(([^)]*)\)', text, re.I):
        for nm in [x.strip() for x in m.group(2).split(',') if x.strip()]:
            if m.group(1).lower() == 'input': pins[nm] = [ni, False]; ni += 1
            else: pins[nm] = [no, True]; no += 1
    kinds = sorted(m.group(1) for m in re.finditer(r'=\s*([A-Za-z_][A-Za-z0-9_]*)\s*\(', text))
    return pins, kinds


def declared_templates():
    """library name -> name templates written in the library TEXT of kyupy/techlib.py, read from the module source with `ast`
    (independently of `TechLib.__init__`): every `NAME = TechLib(<string>)`; entries are separated by `;`, the first word of
    an entry is its name template. A cell that the constructor silently drops is still listed here."""
    import ast, inspect
    from kyupy import techlib
    out, env = {}, {}
    tree = ast.parse(inspect.getsource(techlib))
    def ev(expr):       # string expressions over earlier module-level strings (`_nangate_common + r"""..."""`)
        return eval(compile(ast.Expression(expr), '<techlib>', 'eval'), {'__builtins__': {}}, dict(env))
    for node in tree.body:
        if not isinstance(node, ast.Assign): continue
        names = [t.id for t in node.targets if isinstance(t, ast.Name)]
        if isinstance(node.value, ast.Call) and getattr(node.value.func, 'id', None) == 'TechLib' and node.value.args:
            try: src = ev(node.value.args[0])
            except Exception: continue
            if not isinstance(src, str): continue
            tmpls = []
            for ent in src.split(';'):
                w = ent.split()
                if w:
                    tmpls.append(w[0])
                    for nm in names: DECLARED_TEXT.setdefault(nm, {})[w[0]] = ent.strip()[len(w[0]):]
            for nm in names: out[nm] = tmpls
        else:
            try: v = ev(node.value)
            except Exception: continue
            if isinstance(v, str):
                for nm in names: env[nm] = v
    return out


def oracle(ck, variants):
    census = collections.Counter()
    failing = []
    try: declared = declared_templates()
    except Exception as ex: declared = {}; ck.notes.append(f'library text not readable from the module source: {type(ex).__name__}: {ex}'[:200])
    for ln in LIBS:
        lib = _lib(ln)
        templates = []
        for cell, (c, pd) in lib.cells.items():
            if c.name not in templates: templates.append(c.name)
        # every template written in the library text must have its cells (a dropped entry has no cell to complain through)
        for t in declared.get(ln, []):
            if t not in templates: templates.append(t)
        ck.hist[f'declared-templates:{ln}'] += len(declared.get(ln, []))
        for t in declared.get(ln, []):
            case = {'kind': 'declared', 'lib': ln, 'template': t}
            try: ok, obs, exp = eval_case(case)
            except Exception as ex: ok, obs, exp = False, {'raised': f'{type(ex).__name__}: {ex}'[:300]}, None
            ck.case(key=(ln, t, 'declared'), sample=case, tag=['declared-text', 'lib:' + ln])
            if not ok:
                ck.violation('declared-definition', f'{ln}: the cells of template {t} do not carry the definition written for them in the text of {ln}', case, obs, exp)
        for t in templates:
            case = {'kind': 'expand', 'lib': ln, 'template': t}
            try: ok, obs, exp = eval_case(case)
            except Exception as ex: ok, obs, exp = False, {'raised': f'{type(ex).__name__}: {ex}'[:300]}, None
            ck.case(key=(ln, t, 'expand'), sample=case, tag=['expand', 'lib:' + ln])
            if not ok:
                ck.violation('name-expansion', f'{ln}: template {t} does not expand to keys with its definition', case, obs, exp)
        bad_by_impl = collections.OrderedDict()
        for cell, (c, pd) in lib.cells.items():
            case = {'kind': 'pins', 'lib': ln, 'cell': cell}
            try: ok, obs, exp = eval_case(case)
            except Exception as ex: ok, obs, exp = False, {'raised': f'{type(ex).__name__}: {ex}'[:300]}, None
            ck.case(key=(ln, cell, 'pins'), nontrivial=len(pd) > 0, tag=['pins'])
            if not ok:
                ck.violation('pin-table', f'{ln}.{cell}: pin table inconsistent', case, obs, exp)
            ins, outs = pin_lists(c, pd)
            st, base, fam, tabs = spec(cell, ins, outs)
            if st == 'outside':
                why = common.run_driver([f'ds.outside {base}'])[0]
                census['outside'] += 1
                ck.case(key=(ln, cell, 'outside'), nontrivial=False, tag=['outside:' + why])
                if why == '-':
                    ck.violation('unlisted-family', f'{ln}.{cell}: family {base} is neither listed nor in the outside list',
                                 {'kind': 'function', 'lib': ln, 'cell': cell}, {'family': base}, None)
                continue
            census['listed'] += 1
            famcls = fam.rstrip('0123456789') if not fam.startswith(('ao', 'oa', 'mux')) else fam
            for v in variants:
                case = {'kind': 'function', 'lib': ln, 'cell': cell, 'variant': v}
                try: ok, obs, exp = eval_case(case)
                except Exception as ex: ok, obs, exp = False, {'raised': f'{type(ex).__name__}: {ex}'[:300]}, None
                nontriv = bool(tabs) and all(0 < sum(t) < len(t) for t in tabs)
                ck.case(key=(ln, cell, 'function', v), nontrivial=nontriv, sample=case if fam.startswith(('ao', 'mux', 'full')) else None,
                        tag=['function', 'fam:' + famcls, 'lib:' + ln, 'inputs:%d' % len(ins)] + ([] if v == 'plain' else ['variant:' + v]))
                if not ok:
                    # every failing (pin, row) of this cell, for the evidence
                    if v == 'plain' and tabs and obs and 'pin' in obs:
                        tt = truth_table(c)
                        for p in outs:
                            w = tabs[outs.index(p)]
                            rows = [r for r in range(len(w)) if tt[p][r] != w[r]]
                            if rows: failing.append({'lib': ln, 'cell': cell, 'pin': p, 'rows': rows})
                    bad_by_impl.setdefault((c.name, v), []).append((cell, case, obs, exp, fam))
        for (tmpl, v), lst in bad_by_impl.items():
            cell, case, obs, exp, fam = lst[0]
            cls = 'adder-sum-carry' if fam in ('halfadder', 'fulladder') else 'cell-function'
            rep = dict(case)
            if obs and 'pin' in obs: rep['pin'], rep['row'] = obs['pin'], obs['row']
            rep['same_defect_in'] = [x[0] for x in lst]
            ck.violation(cls, f'{ln}.{cell} (definition {tmpl}, {len(lst)} names): implementation differs from the datasheet '
                              f'function of family {fam}' + (f" on pin {obs['pin']}, input row {obs['row']}" if obs and 'pin' in obs else ''),
                         rep, obs, exp)
    ck.extra['census'] = dict(census)
    ck.extra['failing_pins'] = failing
    ck.extra['failing_cell_names'] = sorted({(f['lib'], f['cell']) for f in failing})


def count_tie(ck):
    """audit 2, F10: the per-library key / row counts of the generated table (driver `techcount` = Tech.libKeys / Tech.libRows, the
    functions of the theorem C19.cells_count) against the five REAL library objects: len(tlib.cells) and the number of distinct
    implementation circuits. A truncated or duplicated dump is a broken tie."""
    try:
        ans = common.run_driver(['techcount'])[0]
        f = dict(x.split('=', 1) for x in ans.split(' '))
        got_keys = [int(x) for x in f['keys'].split(',')]
        got_rows = [int(x) for x in f['rows'].split(',')]
    except Exception as ex:
        ck.broken_tie('C19 cardinality: driver techcount', f'{type(ex).__name__}: {ex}'[:300]); return
    real_keys = [len(_lib(ln).cells) for ln in LIBS]
    real_rows = [len({id(v[0]) for v in _lib(ln).cells.values()}) for ln in LIBS]
    for ln, a, b in zip(LIBS, got_keys, real_keys): ck.hist[f'count-hyp:{ln}:keys={a}/{b}'] += 1
    if got_keys != real_keys or got_rows != real_rows or f.get('nodup') != 'true' or f.get('libs') != 'true' or len(got_keys) != len(LIBS):
        ck.broken_tie('C19 cardinality: generated table vs len(tlib.cells) of the real library objects',
                      f'table keys {got_keys} rows {got_rows} nodup={f.get("nodup")} libs={f.get("libs")}; real keys {real_keys} rows {real_rows}')


def run(ck):
    t1, t2, t3 = theorems()
    # separate modules: a defect in the function of one family must not hide the theorems about pins,
    # and a defect in the adders must not hide the other families
    ck.prove([dump_techlib.generate], TARGETS[:1], t1)
    ck.prove([], TARGETS[1:2], t2)
    ck.prove([], TARGETS[2:], t3)
    variants = ['plain'] if ck.tier == 'quick' else ['plain', 'reuse', 'strip', 'cb', 'm4', 'm8']
    count_tie(ck)
    oracle(ck, variants)
    if ck.broken and not ck.violations and ck.tier == 'quick':
        oracle(ck, ['reuse', 'strip', 'cb', 'm4', 'm8'])
    ck.assumptions += ['the datasheet (Model/Datasheet.lean: what AND3, AOI221, MUX41, FADD ... denote and how pin names group) is '
                       'hand-written specification',
                       'theorems speak about the generated tables (library objects + SimOps programs of the imported package) '
                       'executed with the LUT semantics; that the simulator executes that semantics is C01',
                       'cells outside the listed families (DS.outside) are checked for pin consistency only']
    return ck.finish(RULE)


def replay(rep):
    ok, obs, exp = eval_case(rep['input'])
    print(json.dumps({'ok': ok, 'observed': obs, 'expected': exp}, default=str))
    return 0 if ok else 1
