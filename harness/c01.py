"""C01 — 2-valued logic simulation computes the netlist's Boolean function."""
import json
import numpy as np
from . import common, circ, simcorr
import extract_ops

PID = 'C01'
TARGETS = ['KyupyVerif.Props.C01']
RULE = ('random circuits through the public API (Verilog-reader and bench-reader port styles, all 33 primitives via many kind '
        'spellings, arities 1-4, unconnected pins, direct and forked connections, dangling outputs, 0-3 flip-flops/latches with '
        'one or two outputs); per circuit: exact correspondence of the Lean SimOps model with the real ops/levels/memory map for '
        '{strip_forks}x{c_reuse}; oracle = spec-level gate-by-gate evaluator (Lean, uses formula not LUTs) vs real LogicSim(m=2) '
        'for several batch sizes (not multiples of 8), both c_prop code paths, k=1..4 cycles. distinct = circuit dumps x option tuple; '
        'non-trivial = at least 2 ops and at least one captured 0 and one captured 1; cycle_tie: sequential circuits (0-4 state elements, '
        'flip-flop without outputs, open data pin, toggle flip-flop) x m in {2,4,8} x {strip_forks} x {c_reuse} x both code paths x k=0..5, random '
        's[0]/s[1] in all planes: real pippi/poppo/ppio_s_locs, pippi/poppo_c_locs and s[0], s[1] after LogicSim.cycle(k) = Lean model cycleKA '
        '(Model/Cycle.lean), certificates zeroCapB/capDriversB/forksOKB on the real tables')


def theorems():
    return common.theorems_of('KyupyVerif/Props/C01.lean', 'KV.C01')


def _retry_if_driver_killed(fn, case):
    """a driver process ended by an external signal (negative return code: machine shared with other runs) says nothing about the
    case: evaluate it once more with a fresh driver; every other exception propagates"""
    try:
        return fn(case)
    except RuntimeError as ex:
        if 'driver died (rc=-' not in str(ex): raise
        return fn(case)


def build_case(rng, idx):
    c = circ.rand_circuit(rng)
    return c


def run_logic(c, sims, stim, strip, reuse, path, cycles):
    """stim: array [s_len, sims] of 0/1. returns (s1 [s_len, sims] codes, s0 after, sim object)"""
    from kyupy import logic
    from kyupy.logic_sim import LogicSim
    with common.quiet():
        ls = LogicSim(c, sims, m=2, c_reuse=reuse, strip_forks=strip)
    ls.s[0] = logic.mv_to_bp((stim * 3).astype(np.uint8))
    cb = (lambda *a: None) if path == 'cb' else None
    if cycles == 0:
        ls.s_to_c(); ls.c_prop(inject_cb=cb) if cb else ls.c_prop(); ls.c_to_s()
    else:
        with common.quiet():
            ls.cycle(cycles, cb) if cb else ls.cycle(cycles)
    return logic.bp_to_mv(ls.s[1])[:, :sims], logic.bp_to_mv(ls.s[0])[:, :sims], ls


def eval_case(case):
    """case: {'net': dump, 'io'..., 'stim': [[..]], 'sims', 'strip','reuse','path','cycles'} built from a circuit rebuilt by pickle state"""
    import pickle, base64
    c = pickle.loads(base64.b64decode(case['circuit']))
    stim = np.array(case['stim'], dtype=np.uint8)
    sims = stim.shape[1]
    s1, s0, ls = run_logic(c, sims, stim, case['strip'], case['reuse'], case['path'], case['cycles'])
    lines = [f'net {circ.dump_net(c)}']
    k = case['cycles']
    for lane in range(sims):
        bits = ''.join(str(int(b)) for b in stim[:, lane])
        lines.append(f'eval2 {bits} {max(k - 1, 0)}')
        if k > 0: lines.append(f'eval2 {bits} {k}')
    out = common.run_driver(lines)[1:]
    n_io = len(c.io_nodes)
    per = 2 if k > 0 else 1
    for lane in range(sims):
        cap, _ = out[lane * per].split(' ')
        # '!' = KV.iterAccepted net (k-1) off: at SOME iterate 0..k-1 the evaluator's labelling is not accepted by consistentB
        # (combinational loop) — exactly the hypothesis `hacc` of C01.cycle_iter_iterState is not met: lane skipped
        if cap.endswith('!'): return True, {'skipped': 'no consistent labelling at some iterate (combinational loop)'}, None
        for j, ch in enumerate(cap):
            if ch == '-': continue
            got = int(s1[j, lane]) & 1
            if got != int(ch):
                return False, {'lane': lane, 's_node': j, 'name': c.s_nodes[j].name, 'captured': int(s1[j, lane])}, {'captured': int(ch)}
        if k > 0:
            _, nxt = out[lane * per + 1].split(' ')
            for j in range(n_io, len(nxt)):
                # a state element with open data pin ('-': nothing captured) is compared too: the specification (KV.nextStateFrom,
                # C01.nextState_is_spec) says it takes constant 0
                got = int(s0[j, lane]) & 1
                if got != int(nxt[j]):
                    return False, {'lane': lane, 's_node': j, 'state_after_cycles': int(s0[j, lane])}, {'state': int(nxt[j])}
            for j in range(n_io):   # primary inputs held
                if (int(s0[j, lane]) & 1) != int(stim[j, lane]) and len(c.s_nodes[j].outs) > 0:
                    return False, {'lane': lane, 's_node': j, 'pi_after_cycles': int(s0[j, lane])}, {'pi': int(stim[j, lane])}
    return True, None, None


def make_case(rng, c, thorough):
    import pickle, base64
    s_len = len(c.s_nodes)
    sims = rng.choice([1, 3, 5, 8, 13, 16, 23]) if not thorough else rng.choice([1, 3, 8, 13, 64, 70])
    nsrc = s_len
    if 2 ** nsrc <= sims * 2:
        sims = 2 ** nsrc
        stim = np.array([[(v >> j) & 1 for v in range(sims)] for j in range(nsrc)], dtype=np.uint8)
    else:
        rs = np.random.RandomState(rng.randint(0, 2**31 - 1))
        stim = rs.randint(0, 2, size=(s_len, sims)).astype(np.uint8)
    return {'circuit': base64.b64encode(pickle.dumps(c)).decode(), 'stim': stim.tolist(),
            'strip': rng.random() < 0.4, 'reuse': rng.random() < 0.5, 'path': rng.choice(['plain', 'plain', 'cb']),
            'cycles': rng.choice([0, 0, 1, 2, 3, 4])}


def corr_and_oracle(ck, n_circuits, thorough=False):
    rng = ck.rng
    for it in range(n_circuits):
        if it % 5 == 4:     # sequential corner cases in the ORACLE stream: open data pins (capture constant 0), capture-only and toggle flip-flops
            c = seq_circuit(rng, n_gates=rng.randint(1, 15))
        else:
            c = circ.rand_circuit(rng, n_gates=rng.randint(1, 25 if not thorough else 80))
        d = circ.describe(c)
        dump = circ.dump_net(c)
        # correspondence of the SimOps model (all option tuples)
        for strip in (False, True):
            for reuse in (False, True):
                try:
                    ok, real, model, diff, so = simcorr.compare(c, strip, reuse)
                except Exception as ex:
                    ck.broken_tie('SimOps model correspondence', f'{type(ex).__name__}: {ex}'[:300], inp={'net': dump, 'strip': strip, 'reuse': reuse})
                    continue
                if not ok:
                    ck.broken_tie(f'SimOps model correspondence ({diff})', f'real {real[:200]} != model {model[:200]}',
                                  inp={'net': dump, 'strip': strip, 'reuse': reuse})
        # certificates of Props/C01 (4''): pin tables / line records consistent, the REAL topological order is one
        try:
            order = ','.join(str(n.index) for n in c.topological_order())
            ans = ' '.join(common.run_driver([f'net {dump}', f'netcert {order}', 'netarity'])[1:])
        except Exception as ex:
            ans = f'{type(ex).__name__}: {ex}'[:200]
        if ans != 'wf=true order=true arity=true':      # this stream stays inside the arity domain (wide gates: wide_gate_oracle)
            ck.broken_tie('certificates Net.wfB / orderOKB / arityOKB on the real circuit and the real topological order', ans, inp={'net': dump})
        # certificate of Props/C01 (4'): operands never written at/after their use, single writers — on the REAL op rows
        for strip in (False, True):
            try:
                rows, _ = simcorr.signal_rows(c, strip)
                ans = common.run_driver([f"wellordered {'/'.join(rows)}"])[0]
            except Exception as ex:
                ans = f'{type(ex).__name__}: {ex}'[:200]
            if ans != 'ok':
                ck.broken_tie('certificate wellOrderedB on the real ops', ans, inp={'net': dump, 'strip': strip})
        case = make_case(rng, c, thorough)
        try:
            ok, obs, exp = _retry_if_driver_killed(eval_case, case)
        except Exception as ex:
            ok, obs, exp = False, {'raised': f'{type(ex).__name__}: {ex}'[:300]}, None
        nontriv = d['lines'] >= 4
        hyp_tag = common.allcirc_hyp(ck, c, [False, True], 'C01')      # hypotheses of all_circuits_solution / logic_sim_end_to_end_all_circuits
        ck.case(key=(dump, case['strip'], case['reuse'], case['path'], case['cycles']), nontrivial=nontriv,
                sample={'net': dump, 'sims': len(case['stim'][0]), 'strip': case['strip'], 'reuse': case['reuse'],
                        'path': case['path'], 'cycles': case['cycles']},
                tag=[f"path:{case['path']}", f"cycles:{case['cycles']}", f"strip:{case['strip']}", f"reuse:{case['reuse']}",
                     f"ff:{min(d['ff'], 3)}", f"unconn:{min(d['unconnected_pins'], 3)}", f"sims:{len(case['stim'][0])}", hyp_tag,
                     # hypotheses forksOKB / linesDrivenB (/ arityOKB) of C01.cycle_iter_spec*, cycle_iter_iterState on the real circuit and order
                     'oracle-' + common.netspec_hyp(c)] +
                    (['open-data-pin-state-element'] if any(('dff' in n.kind.lower() or 'latch' in n.kind.lower()) and
                                                            (len(n.ins) == 0 or n.ins[0] is None) for n in c.nodes) else []))
        if not ok:
            cls = 'inject-cb' if (case['path'] == 'cb' and obs and 'raised' in obs) else 'logic2'
            ck.violation(cls, 'LogicSim(m=2) result differs from gate-by-gate evaluation of the netlist', case, obs, exp)


# ---------------------------------------------------------------------------------------------------------------------
# wide gates (audit finding 1 / known finding D33): circuits OUTSIDE the arity domain `Net.arityOKB`, n-ary ground truth in Python

WIDE_WITNESS = 'INPUT(a,b,c,d,e) OUTPUT(z) z=AND(a,b,c,d,e)'


def eval_wide_case(case):
    """real LogicSim(m=2) (one propagation) vs `circ.nary_captures`: every variadic gate folds its operator over ALL input pins"""
    import pickle, base64
    if 'bench' in case:
        from kyupy import bench
        with common.quiet(): c = bench.parse(case['bench'])
    else:
        c = pickle.loads(base64.b64decode(case['circuit']))
    stim = np.array(case['stim'], dtype=np.uint8)
    s1, _, _ = run_logic(c, stim.shape[1], stim, case.get('strip', False), case.get('reuse', False), 'plain', 0)
    for lane in range(stim.shape[1]):
        exp = circ.nary_captures(c, [int(v) for v in stim[:, lane]])
        for j, e in enumerate(exp):
            if e is not None and (int(s1[j, lane]) & 1) != e:
                return False, {'lane': lane, 's_node': j, 'name': c.s_nodes[j].name, 'captured': int(s1[j, lane]),
                               'assignment': ''.join(str(int(v)) for v in stim[:, lane])}, {'captured': e}
    return True, None, None


def wide_gate_oracle(ck, n_circuits):
    import pickle, base64
    rng = ck.rng
    cases = [{'bench': WIDE_WITNESS, 'stim': [[1], [1], [1], [1], [0], [0]]}]
    for it in range(n_circuits):
        c = circ.rand_circuit(rng, n_gates=rng.randint(1, 15), p_wide=rng.choice([0.0, 0.2, 0.5]), p_const=0.0)
        s_len = len(c.s_nodes)
        rs = np.random.RandomState(rng.randint(0, 2**31 - 1))
        cases.append({'circuit': base64.b64encode(pickle.dumps(c)).decode(), 'stim': rs.randint(0, 2, size=(s_len, 16)).tolist(),
                      'strip': rng.random() < 0.4, 'reuse': rng.random() < 0.5})
    for case in cases:
        if 'bench' in case:
            from kyupy import bench
            with common.quiet(): c = bench.parse(case['bench'])
        else:
            c = pickle.loads(base64.b64decode(case['circuit']))
        wide = circ.has_wide(c)
        try:
            ar = common.run_driver([f'net {circ.dump_net(c)}', 'netarity'])[1]
        except Exception as ex:
            ar = f'{type(ex).__name__}: {ex}'[:200]
        if ar != f'arity={"false" if wide else "true"}':
            ck.broken_tie('domain predicate Net.arityOKB on the real circuit', f'{ar}, the generator says wide={wide}', inp={'net': circ.dump_net(c)})
        try:
            ok, obs, exp = _retry_if_driver_killed(eval_wide_case, case)
        except Exception as ex:
            ok, obs, exp = False, {'raised': f'{type(ex).__name__}: {ex}'[:300]}, None
        ck.case(key=('wide', circ.dump_net(c)), nontrivial=len(c.lines) >= 4, tag=[f'nary-oracle:arityOKB={not wide}', f'nary-oracle:{"ok" if ok else "differs"}'])
        if not ok:
            # inside the domain the n-ary reading IS the reading of the theorems: a difference there is a violation of its own class
            ck.violation('wide-gate' if wide else 'logic2-nary',
                         'LogicSim(m=2) differs from the n-ary gate-by-gate evaluation of the netlist' +
                         (' (a gate with more than four inputs is simulated as the 4-input primitive of its first four pins)' if wide else ''),
                         case, obs, exp)


# ---------------------------------------------------------------------------------------------------------------------
# sequential part: model of s_to_c / c_to_s / s_ppo_to_ppi / cycle(k) (lean/KyupyVerif/Model/Cycle.lean) vs the real code

MDIM = {2: 1, 4: 2, 8: 3}


def seq_circuit(rng, n_gates=None):
    """random circuit with state elements, plus the corner cases of the state handling: a flip-flop without any output,
    a flip-flop / latch whose data pin is open (captures the constant-0 slot), a toggle flip-flop"""
    from kyupy.circuit import Node, Line
    c = circ.rand_circuit(rng, n_gates=n_gates if n_gates is not None else rng.randint(1, 20),
                          n_ff=rng.choice([0, 1, 1, 2, 3, 4]))
    forks = [n for n in c.nodes if n.kind == '__fork__']
    if rng.random() < 0.25 and forks:            # state element nobody reads: no (P)PI slot (c_locs = -1), skipped by s_to_c
        ff = Node(c, 'ffx', rng.choice(['DFF', 'LATCH']))
        Line(c, rng.choice(forks), (ff, 0))
    if rng.random() < 0.25:                      # open data pin, output observed at a port
        ff = Node(c, 'ffz', rng.choice(['DFF', 'dff', 'LATCH']))
        if rng.random() < 0.5 and forks: Line(c, rng.choice(forks), (ff, 1))    # ins = [None, clk]
        q = Node(c, 'qz'); Line(c, (ff, 0), q)
        if rng.random() < 0.5:
            o = Node(c, 'oz', 'output'); Line(c, q, o); c.io_nodes.append(o)
        else:
            c.io_nodes.append(q)
    if rng.random() < 0.3:                       # toggle flip-flop (period 2), observed at a port
        ff = Node(c, 'fft', 'DFF'); q = Node(c, 'qt'); Line(c, (ff, 0), q)
        g = Node(c, 'gt', 'INV1'); Line(c, q, g); gf = Node(c, 'gtf'); Line(c, g, gf); Line(c, gf, (ff, 0))
        o = Node(c, 'ot', 'output'); Line(c, gf, o); c.io_nodes.append(o)
    return c


def codes_of(arr, sims, mdim):
    """[s_len, 3, nbytes] bit-parallel -> [s_len, sims] codes restricted to the first mdim planes"""
    bits = np.unpackbits(arr, axis=-1, bitorder='little')[..., :sims]
    out = np.zeros((arr.shape[0], sims), dtype=np.int64)
    for pl in range(mdim): out += bits[:, pl, :].astype(np.int64) << pl
    return out


def fmt_rows(codes):
    return '~' if codes.shape[0] == 0 else ','.join(''.join(str(int(v)) for v in row) for row in codes)


def make_cycle_case(rng, c):
    import pickle, base64
    s_len = len(c.s_nodes)
    sims = rng.choice([1, 2, 3, 5, 8, 9, 13])
    rs = np.random.RandomState(rng.randint(0, 2**31 - 1))
    m = rng.choice([2, 2, 4, 8])
    return {'circuit': base64.b64encode(pickle.dumps(c)).decode(), 'm': m,
            's0': rs.randint(0, 8, size=(s_len, sims)).tolist(), 's1': rs.randint(0, 8, size=(s_len, sims)).tolist(),
            'strip': rng.random() < 0.4, 'reuse': rng.random() < 0.5, 'path': rng.choice(['plain', 'plain', 'cb']),
            'k': rng.choice([0, 1, 1, 2, 3, 4, 5])}


def eval_cycle_case(case):
    """model cycleK (driver command `cycle`) vs the real LogicSim.cycle(k): index tables, s[0], s[1], all lanes"""
    import pickle, base64
    from kyupy import logic
    from kyupy.logic_sim import LogicSim
    c = pickle.loads(base64.b64decode(case['circuit']))
    m, k = case['m'], case['k']; mdim = MDIM[m]
    s_len = len(c.s_nodes)
    s0 = np.array(case['s0'], dtype=np.uint8).reshape(s_len, -1); s1 = np.array(case['s1'], dtype=np.uint8).reshape(s_len, -1)
    sims = s0.shape[1]
    with common.quiet():
        ls = LogicSim(c, sims, m=m, c_reuse=case['reuse'], strip_forks=case['strip'])
        ls.s[0] = logic.mv_to_bp(s0); ls.s[1] = logic.mv_to_bp(s1)
        in0, in1 = codes_of(ls.s[0], sims, mdim), codes_of(ls.s[1], sims, mdim)
        if case['path'] == 'cb': ls.cycle(k, lambda *a: None)
        else: ls.cycle(k)
    order = ','.join(str(n.index) for n in c.topological_order()) or '~'
    ans, cert, _, fk = common.run_driver([f"cycle {m} {int(case['strip'])} {k} {order} {fmt_rows(in0)} {fmt_rows(in1)} {circ.dump_net(c)}",
                                          f"cyclecert {order} {','.join(str(int(x)) for x in ls.c_locs)} {circ.dump_net(c)}",
                                          f"net {circ.dump_net(c)}", f"forkcert {order}"])
    if not fk.startswith('forks=true'): return False, {'forkcert': fk[:60]}, {'forkcert': 'forks=true'}   # hypothesis of cycle_strip_irrelevant
    # side condition of C01.cycle_on_memory on the REAL c_locs: `zero` (state element with open data pin captures the row of the
    # constant slot); of C01.cycle_strip_irrelevant: `cap` (the real order contains the driver of every captured line) — both must
    # hold on every circuit
    case['_mem_thm'] = cert
    if 'zero=1' not in cert or 'cap=1' not in cert: return False, {'cyclecert': cert}, {'cyclecert': 'zero=1 cap=1'}
    parts = ans.split(';')
    if len(parts) != 5: return False, {'driver': ans[:200]}, None
    ints = lambda t: [int(x) for x in t.split(',') if x != '']
    real_tabs = {'pippi_s_locs': [int(x) for x in ls.pippi_s_locs], 'poppo_s_locs': [int(x) for x in ls.poppo_s_locs],
                 'ppio_s_locs': [int(x) for x in ls.ppio_s_locs]}
    model_tabs = {'pippi_s_locs': ints(parts[0]), 'poppo_s_locs': ints(parts[1]), 'ppio_s_locs': ints(parts[2])}
    if real_tabs != model_tabs: return False, real_tabs, model_tabs
    # memory-level tables are the c_locs entries of the (P)PI / (P)PO slots of exactly these positions
    if [int(x) for x in ls.pippi_c_locs] != [int(ls.c_locs[ls.ppi_offset + p]) for p in model_tabs['pippi_s_locs']] or \
       [int(x) for x in ls.poppo_c_locs] != [int(ls.c_locs[ls.ppo_offset + p]) for p in model_tabs['poppo_s_locs']]:
        return False, {'pippi_c_locs': [int(x) for x in ls.pippi_c_locs], 'poppo_c_locs': [int(x) for x in ls.poppo_c_locs]}, 'c_locs[offset + s_locs]'
    for name, arr, got in (('s0', ls.s[0], parts[3]), ('s1', ls.s[1], parts[4])):
        real = fmt_rows(codes_of(arr, sims, mdim))
        if real != got:
            rr, mm = real.split(','), got.split(',')
            j = next((i for i, (a, b) in enumerate(zip(rr, mm)) if a != b), -1)
            return False, {'row': name, 's_node': j, 'name': c.s_nodes[j].name if 0 <= j < s_len else None, 'real': rr[j] if j >= 0 else real[:80]}, \
                {'model': mm[j] if j >= 0 else got[:80]}
    return True, None, None


def cycle_tie(ck, n_circuits, thorough=False):
    rng = ck.rng
    for it in range(n_circuits):
        c = seq_circuit(rng, n_gates=rng.randint(1, 20 if not thorough else 60))
        d = circ.describe(c)
        for rep in range(2):
            case = make_cycle_case(rng, c)
            try:
                ok, obs, exp = _retry_if_driver_killed(eval_cycle_case, case)
            except Exception as ex:
                ok, obs, exp = False, {'raised': f'{type(ex).__name__}: {ex}'[:300]}, None
            # per-case certification the header claims: Net.wfB / orderOKB (+ forksOKB, readsDrivenB) on the real circuit and order
            # (driver simopscert) and the map certificate MapIn.check on the REAL tables of this option tuple (driver mapok):
            # hypotheses of cycle_step / cycle_iter / cycle_on_memory / cycle_end_to_end
            hyp_tag = common.allcirc_hyp(ck, c, [case['strip']], 'C01 cycle')
            spec_tag = 'cycle-' + common.netspec_hyp(c)     # forksOKB, linesDrivenB, arityOKB: hypotheses of C01.cycle_iter_spec* (tag only: unknown kinds are outside)
            try:
                so = simcorr.real_simops(c, case['strip'], case['reuse'])
                opsS = '/'.join(','.join(str(int(x)) for x in row[:6]) for row in so.ops)
                rest = '|'.join([opsS, ','.join(str(int(x)) for x in so.level_starts), ','.join(str(int(x)) for x in so.c_locs),
                                 ','.join(str(int(x)) for x in so.c_caps), str(int(so.c_len))])
                mc = common.run_driver([f'net {circ.dump_net(c)}', f"mapok {int(case['strip'])} 1 {rest}"])[1]
            except Exception as ex:
                mc = f'{type(ex).__name__}: {ex}'[:200]
            if mc != 'ok':
                ck.broken_tie('map certificate MapIn.check on the real tables of a cycle case (hypothesis of cycle_on_memory)', mc, inp={'cycle_case': case})
            ck.case(key=('cycle', circ.dump_net(c), case['m'], case['strip'], case['reuse'], case['path'], case['k']),
                    nontrivial=d['ff'] >= 1 and case['k'] >= 1,
                    tag=[hyp_tag, spec_tag, f"cycle-mapcert:{'ok' if mc == 'ok' else 'FAIL'}", 'tie:cycle', f"tie-m:{case['m']}", f"tie-k:{min(case['k'], 3)}", f"tie-ff:{min(d['ff'], 3)}",
                         f"tie-memthm:{case.pop('_mem_thm', '?')}"])
            if not ok:
                ck.broken_tie('cycle model correspondence (Model/Cycle.lean vs LogicSim.cycle)', f'real {obs} != model {exp}'[:400],
                              inp={'cycle_case': case})


def run(ck):
    ck.prove([extract_ops.generate], TARGETS, theorems())
    n = 60 if ck.tier == 'quick' else 400
    corr_and_oracle(ck, n, ck.tier == 'thorough')
    cycle_tie(ck, 40 if ck.tier == 'quick' else 300, ck.tier == 'thorough')
    wide_gate_oracle(ck, 25 if ck.tier == 'quick' else 200)
    if ck.broken and not ck.violations:
        corr_and_oracle(ck, n * 5, ck.tier == 'thorough')
    ck.assumptions += ['a state element with open data pin captures constant 0 (D9 repaired: compared by the oracle against KV.nextStateFrom); '
                       'cycle(k) theorems against the independent specification (C01.cycle_iter_spec*) need forksOKB and linesDrivenB: tags netspec-hyp:*',
                       'node kinds are covered by the prefix table; one output pin per combinational cell']
    return ck.finish(RULE)


def replay(rep):
    inp = rep['input']
    ok, obs, exp = eval_cycle_case(inp['cycle_case']) if 'cycle_case' in inp else \
        eval_wide_case(inp) if ('bench' in inp or 'cycles' not in inp) else eval_case(inp)
    print(json.dumps({'ok': ok, 'observed': obs, 'expected': exp}, default=str))
    return 0 if ok else 1
