"""C01 — 2-valued logic simulation computes the netlist's Boolean function."""
import json
import numpy as np
from . import common, circ, simcorr
import extract_ops

PID = 'C01'
TARGETS = ['KyupyVerif.Props.C01']
RULE = ('random circuits through the public API (Verilog-reader and bench-reader port styles, all 33 primitives via many kind '
        'spellings, arities 1-4, unconnected pins, direct and forked connections, dangling outputs, 0-3 flip-flops/latches with '
        'one or two outputs); per circuit: exact correspondence of the Lean SimOps model with the real ops/levels/memory map for '
        '{strip_forks}x{c_reuse}; oracle = spec-level gate-by-gate evaluator (Lean, uses formula not LUTs) vs real LogicSim(m=2) '
        'for several batch sizes (not multiples of 8), both c_prop code paths, k=1..4 cycles. distinct = circuit dumps x option tuple; '
        'non-trivial = at least 2 ops and at least one captured 0 and one captured 1')


def theorems():
    return common.theorems_of('KyupyVerif/Props/C01.lean', 'KV.C01')


def build_case(rng, idx):
    c = circ.rand_circuit(rng)
    return c


def run_logic(c, sims, stim, strip, reuse, path, cycles):
    """stim: array [s_len, sims] of 0/1. returns (s1 [s_len, sims] codes, s0 after, sim object)"""
    from kyupy import logic
    from kyupy.logic_sim import LogicSim
    with common.quiet():
        ls = LogicSim(c, sims, m=2, c_reuse=reuse, strip_forks=strip)
    ls.s[0] = logic.mv_to_bp((stim * 3).astype(np.uint8))
    cb = (lambda *a: None) if path == 'cb' else None
    if cycles == 0:
        ls.s_to_c(); ls.c_prop(inject_cb=cb) if cb else ls.c_prop(); ls.c_to_s()
    else:
        with common.quiet():
            ls.cycle(cycles, cb) if cb else ls.cycle(cycles)
    return logic.bp_to_mv(ls.s[1])[:, :sims], logic.bp_to_mv(ls.s[0])[:, :sims], ls


def eval_case(case):
    """case: {'net': dump, 'io'..., 'stim': [[..]], 'sims', 'strip','reuse','path','cycles'} built from a circuit rebuilt by pickle state"""
    import pickle, base64
    c = pickle.loads(base64.b64decode(case['circuit']))
    stim = np.array(case['stim'], dtype=np.uint8)
    sims = stim.shape[1]
    s1, s0, ls = run_logic(c, sims, stim, case['strip'], case['reuse'], case['path'], case['cycles'])
    lines = [f'net {circ.dump_net(c)}']
    k = case['cycles']
    for lane in range(sims):
        bits = ''.join(str(int(b)) for b in stim[:, lane])
        lines.append(f'eval2 {bits} {max(k - 1, 0)}')
        if k > 0: lines.append(f'eval2 {bits} {k}')
    out = common.run_driver(lines)[1:]
    n_io = len(c.io_nodes)
    per = 2 if k > 0 else 1
    for lane in range(sims):
        cap, _ = out[lane * per].split(' ')
        if cap.endswith('!'): return True, {'skipped': 'no consistent labelling (combinational loop)'}, None
        for j, ch in enumerate(cap):
            if ch == '-': continue
            got = int(s1[j, lane]) & 1
            if got != int(ch):
                return False, {'lane': lane, 's_node': j, 'name': c.s_nodes[j].name, 'captured': int(s1[j, lane])}, {'captured': int(ch)}
        if k > 0:
            _, nxt = out[lane * per + 1].split(' ')
            for j in range(n_io, len(nxt)):
                if cap[j] == '-': continue
                got = int(s0[j, lane]) & 1
                if got != int(nxt[j]):
                    return False, {'lane': lane, 's_node': j, 'state_after_cycles': int(s0[j, lane])}, {'state': int(nxt[j])}
            for j in range(n_io):   # primary inputs held
                if (int(s0[j, lane]) & 1) != int(stim[j, lane]) and len(c.s_nodes[j].outs) > 0:
                    return False, {'lane': lane, 's_node': j, 'pi_after_cycles': int(s0[j, lane])}, {'pi': int(stim[j, lane])}
    return True, None, None


def make_case(rng, c, thorough):
    import pickle, base64
    s_len = len(c.s_nodes)
    sims = rng.choice([1, 3, 5, 8, 13, 16, 23]) if not thorough else rng.choice([1, 3, 8, 13, 64, 70])
    nsrc = s_len
    if 2 ** nsrc <= sims * 2:
        sims = 2 ** nsrc
        stim = np.array([[(v >> j) & 1 for v in range(sims)] for j in range(nsrc)], dtype=np.uint8)
    else:
        rs = np.random.RandomState(rng.randint(0, 2**31 - 1))
        stim = rs.randint(0, 2, size=(s_len, sims)).astype(np.uint8)
    return {'circuit': base64.b64encode(pickle.dumps(c)).decode(), 'stim': stim.tolist(),
            'strip': rng.random() < 0.4, 'reuse': rng.random() < 0.5, 'path': rng.choice(['plain', 'plain', 'cb']),
            'cycles': rng.choice([0, 0, 1, 2, 3, 4])}


def corr_and_oracle(ck, n_circuits, thorough=False):
    rng = ck.rng
    for it in range(n_circuits):
        c = circ.rand_circuit(rng, n_gates=rng.randint(1, 25 if not thorough else 80))
        d = circ.describe(c)
        dump = circ.dump_net(c)
        # correspondence of the SimOps model (all option tuples)
        for strip in (False, True):
            for reuse in (False, True):
                try:
                    ok, real, model, diff, so = simcorr.compare(c, strip, reuse)
                except Exception as ex:
                    ck.broken_tie('SimOps model correspondence', f'{type(ex).__name__}: {ex}'[:300], inp={'net': dump, 'strip': strip, 'reuse': reuse})
                    continue
                if not ok:
                    ck.broken_tie(f'SimOps model correspondence ({diff})', f'real {real[:200]} != model {model[:200]}',
                                  inp={'net': dump, 'strip': strip, 'reuse': reuse})
        # certificates of Props/C01 (4''): pin tables / line records consistent, the REAL topological order is one
        try:
            order = ','.join(str(n.index) for n in c.topological_order())
            ans = common.run_driver([f'net {dump}', f'netcert {order}'])[1]
        except Exception as ex:
            ans = f'{type(ex).__name__}: {ex}'[:200]
        if ans != 'wf=true order=true':
            ck.broken_tie('certificates Net.wfB / orderOKB on the real circuit and the real topological order', ans, inp={'net': dump})
        # certificate of Props/C01 (4'): operands never written at/after their use, single writers — on the REAL op rows
        for strip in (False, True):
            try:
                rows, _ = simcorr.signal_rows(c, strip)
                ans = common.run_driver([f"wellordered {'/'.join(rows)}"])[0]
            except Exception as ex:
                ans = f'{type(ex).__name__}: {ex}'[:200]
            if ans != 'ok':
                ck.broken_tie('certificate wellOrderedB on the real ops', ans, inp={'net': dump, 'strip': strip})
        case = make_case(rng, c, thorough)
        try:
            ok, obs, exp = eval_case(case)
        except Exception as ex:
            ok, obs, exp = False, {'raised': f'{type(ex).__name__}: {ex}'[:300]}, None
        nontriv = d['lines'] >= 4
        ck.case(key=(dump, case['strip'], case['reuse'], case['path'], case['cycles']), nontrivial=nontriv,
                sample={'net': dump, 'sims': len(case['stim'][0]), 'strip': case['strip'], 'reuse': case['reuse'],
                        'path': case['path'], 'cycles': case['cycles']},
                tag=[f"path:{case['path']}", f"cycles:{case['cycles']}", f"strip:{case['strip']}", f"reuse:{case['reuse']}",
                     f"ff:{min(d['ff'], 3)}", f"unconn:{min(d['unconnected_pins'], 3)}", f"sims:{len(case['stim'][0])}"])
        if not ok:
            cls = 'inject-cb' if (case['path'] == 'cb' and obs and 'raised' in obs) else 'logic2'
            ck.violation(cls, 'LogicSim(m=2) result differs from gate-by-gate evaluation of the netlist', case, obs, exp)


def run(ck):
    ck.prove([extract_ops.generate], TARGETS, theorems())
    n = 60 if ck.tier == 'quick' else 800
    corr_and_oracle(ck, n, ck.tier == 'thorough')
    if ck.broken and not ck.violations:
        corr_and_oracle(ck, n * 5, ck.tier == 'thorough')
    ck.assumptions += ['state elements and ports have a connected data pin (an unconnected one raises in SimOps, finding D9)',
                       'node kinds are covered by the prefix table; one output pin per combinational cell']
    return ck.finish(RULE)


def replay(rep):
    ok, obs, exp = eval_case(rep['input'])
    print(json.dumps({'ok': ok, 'observed': obs, 'expected': exp}, default=str))
    return 0 if ok else 1
