"""Translator G: symbolic execution of the *unmodified* kyupy code.

Extracts, for every simulation primitive in `sim.names`, the plane expressions that
  * `logic_sim._prop_cpu`            (m=2, plain path)
  * `LogicSim.c_prop(inject_cb=f)`   (m=2, callback chain)
  * `LogicSim.c_prop()` with m=4, m=8
compute for one op row `[op, 0, 1, 2, 3, 4]`, and the expressions of `logic.bp{4,8}v_{buf,not,and,or,xor}`
for 1..4 operands.  Every extraction is self-checked by evaluating the recorded expression on all
value combinations and comparing with a concrete run of the same real function.
Writes Lean definitions (polymorphic over a Boolean algebra `BAlg`) into lean/KyupyVerif/Gen/.
"""
import itertools, json, os, sys
import numpy as np

sys.path.insert(0, os.path.dirname(os.path.abspath(__file__)))
import sym
from sym import E, Mem, Row, Val, SymError, evaluate

GEN_DIR = os.path.join(os.path.dirname(os.path.abspath(__file__)), '..', 'lean', 'KyupyVerif', 'Gen')


class GenError(Exception):
    pass


def _import_kyupy():
    import kyupy
    from kyupy import bench, logic, sim, logic_sim
    return kyupy, bench, logic, sim, logic_sim


def prim_table():
    _, _, _, sim, _ = _import_kyupy()
    tbl = sorted(((str(name), int(code)) for code, name in sim.names.items()), key=lambda t: t[0])
    return tbl


# ---------------------------------------------------------------------------------------------
# extraction

_EXTRACT_CIRCUIT = 'input(a,b,c,d) output(z) z=and(a,b,c,d)'
NLOC = 8  # rows: 0 = out, 1..4 operands, 5 = tmp, 6 = tmp2, 7 = spare


def _mk_sim(m, op):
    _, bench, logic, sim, logic_sim = _import_kyupy()
    c = bench.parse(_EXTRACT_CIRCUIT)
    ls = logic_sim.LogicSim(c, 8, m=m)
    ls.ops = np.array([[op, 0, 1, 2, 3, 4, -1, 0, 0]], dtype='int32')
    ls.c_locs = np.arange(max(16, ls.c_locs_len), dtype=np.int32)
    ls.tmp_idx, ls.tmp2_idx = 5, 6
    return ls


def extract_dispatch(m, op, path):
    """path: 'plain' (c_prop()), 'cb' (c_prop(inject_cb)), 'njit' (_prop_cpu direct, m=2 only).
    returns list of plane expressions of row 0, or None when the chain leaves row 0 unchanged"""
    _, bench, logic, sim, logic_sim = _import_kyupy()
    ls = _mk_sim(m, op)
    mem = Mem(NLOC, ls.mdim)
    ls.c = mem
    import io, contextlib
    buf = io.StringIO()
    with contextlib.redirect_stdout(buf):
        if path == 'njit':
            f = getattr(logic_sim._prop_cpu, 'py_func', logic_sim._prop_cpu)
            f(ls.ops, ls.c_locs, mem)
        elif path == 'cb':
            ls.c_prop(inject_cb=lambda *a: None)
        else:
            ls.c_prop()
    if 'unknown op' in buf.getvalue():
        return None
    ch = mem.changed()
    bad = [l for l in ch if l not in (0, 5, 6)]
    if bad:
        raise GenError(f'op {op} m={m} path={path}: rows {bad} other than out/tmp/tmp2 were written')
    if 0 not in ch and not (0 in mem.written):
        return None
    return list(mem.data[0])


def concrete_dispatch(m, op, path, combos):
    """run the real code on a real array whose lanes enumerate `combos` (array [4, n] of value codes)"""
    _, bench, logic, sim, logic_sim = _import_kyupy()
    ls = _mk_sim(m, op)
    n = combos.shape[1]
    nbytes = (n + 7) // 8
    c = np.zeros((NLOC, ls.mdim, nbytes), dtype=np.uint8)
    rnd = np.random.RandomState(1)
    c[:] = rnd.randint(0, 256, size=c.shape, dtype=np.uint8)  # junk in out/tmp rows: result must not depend on it
    bits = np.zeros((4, 3, nbytes * 8), dtype=np.uint8)
    for k in range(4):
        for p in range(ls.mdim):
            bits[k, p, :n] = (combos[k] >> p) & 1
    c[1:5] = np.packbits(bits[:, :ls.mdim], axis=-1, bitorder='little')
    ls.c = c
    import io, contextlib
    with contextlib.redirect_stdout(io.StringIO()):
        if path == 'njit':
            logic_sim._prop_cpu(ls.ops, ls.c_locs, c)
        elif path == 'cb':
            ls.c_prop(inject_cb=lambda *a: None)
        else:
            ls.c_prop()
    out = np.unpackbits(c[0], axis=-1, bitorder='little')[:, :n]
    return out  # [mdim, n]


def eval_planes(planes, varmap, n):
    ones = (1 << n) - 1
    env = dict(varmap); env['__ones__'] = ones
    memo = {}
    res = []
    for e in planes:
        v = evaluate(e, env, memo)
        res.append(np.array([(v >> i) & 1 for i in range(n)], dtype=np.uint8))
    return np.array(res)


def mask_of(col):
    v = 0
    for i, b in enumerate(col):
        if b: v |= (1 << i)
    return v


def selfcheck_dispatch(m, op, path, planes):
    mdim = {2: 1, 4: 2, 8: 3}[m]
    dom = range(1 << mdim)
    combos = np.array(list(itertools.product(dom, repeat=4)), dtype=np.uint8).T
    n = combos.shape[1]
    varmap = {}
    for l in range(NLOC):
        for p in range(mdim):
            if 1 <= l <= 4:
                varmap[f'm{l}p{p}'] = mask_of((combos[l - 1] >> p) & 1)
            else:
                varmap[f'm{l}p{p}'] = None  # must not be used
    used = vars_of(planes)
    for v in used:
        if varmap.get(v) is None:
            raise GenError(f'op {op} m={m} path={path}: result depends on stale memory {v}')
    got = eval_planes(planes, {k: v for k, v in varmap.items() if v is not None}, n)
    exp = concrete_dispatch(m, op, path, combos)
    if not np.array_equal(got, exp):
        raise GenError(f'op {op} m={m} path={path}: symbolic extraction disagrees with a concrete run '
                       f'(control flow is data-dependent?)')


def vars_of(planes):
    seen, out, stack = set(), set(), list(planes)
    while stack:
        e = stack.pop()
        if e._key in seen: continue
        seen.add(e._key)
        if e.op == 'var': out.add(e.args[0])
        elif e.op != 'const': stack.extend(e.args)
    return out


def extract_bp(fn_name, n_ops, mdim):
    """logic.bp{4,8}v_* called on symbolic rows: out row 0, operands rows 1..n"""
    _, _, logic, _, _ = _import_kyupy()
    fn = getattr(logic, fn_name)
    mem = Mem(NLOC, mdim)
    fn(mem[0], *[mem[k + 1] for k in range(n_ops)])
    ch = [l for l in mem.changed() if l != 0]
    if ch: raise GenError(f'{fn_name}/{n_ops}: wrote operand rows {ch}')
    planes = list(mem.data[0])
    used = vars_of(planes)
    for v in used:
        l = int(v[1:].split('p')[0])
        if not 1 <= l <= n_ops: raise GenError(f'{fn_name}/{n_ops}: depends on {v}')
    # self-check against a concrete run
    dom = range(1 << mdim)
    combos = np.array(list(itertools.product(dom, repeat=n_ops)), dtype=np.uint8).T
    n = combos.shape[1]
    nbytes = (n + 7) // 8
    c = np.random.RandomState(2).randint(0, 256, size=(NLOC, mdim, nbytes), dtype=np.uint8)
    bits = np.zeros((n_ops, mdim, nbytes * 8), dtype=np.uint8)
    varmap = {}
    for k in range(n_ops):
        for p in range(mdim):
            bits[k, p, :n] = (combos[k] >> p) & 1
            varmap[f'm{k + 1}p{p}'] = mask_of((combos[k] >> p) & 1)
    c[1:1 + n_ops] = np.packbits(bits, axis=-1, bitorder='little')
    fn(c[0], *[c[k + 1] for k in range(n_ops)])
    exp = np.unpackbits(c[0], axis=-1, bitorder='little')[:, :n]
    got = eval_planes(planes, varmap, n)
    if not np.array_equal(got, exp):
        raise GenError(f'{fn_name}/{n_ops}: symbolic extraction disagrees with a concrete run')
    return planes


# ---------------------------------------------------------------------------------------------
# Lean emission

def emit_def(name, planes, nargs, mdim, struct):
    """SSA definition, polymorphic over [BAlg α]. operands are `i1..i<nargs>`; for mdim=1 they are α,
    otherwise structures with fields p0.. ; `struct` names the plane structure (P2/P3)."""
    memo, lines = {}, []

    def go(e):
        k = e._key
        if k in memo: return memo[k]
        # iterative post-order to avoid recursion limits
        stack = [e]
        while stack:
            n = stack[-1]
            if n._key in memo: stack.pop(); continue
            if n.op == 'var':
                l, p = n.args[0][1:].split('p')
                memo[n._key] = f'i{l}' if mdim == 1 else f'i{l}.p{p}'
                stack.pop(); continue
            if n.op == 'const':
                memo[n._key] = 'BAlg.tt' if n.args[0] else 'BAlg.ff'
                stack.pop(); continue
            todo = [a for a in n.args if a._key not in memo]
            if todo: stack.extend(todo); continue
            a = [memo[x._key] for x in n.args]
            r = f't{len(lines)}'
            if n.op == 'not': rhs = f'BAlg.not {a[0]}'
            else: rhs = f'BAlg.{n.op} {a[0]} {a[1]}'
            lines.append(f'  let {r} := {rhs}')
            memo[n._key] = r
            stack.pop()
        return memo[k]

    outs = [go(p) for p in planes]
    args = ' '.join(f'i{k + 1}' for k in range(nargs))
    ty = 'α' if mdim == 1 else f'{struct} α'
    body = '\n'.join(lines)
    res = outs[0] if mdim == 1 else '⟨' + ', '.join(outs) + '⟩'
    d = f'def {name} {{α : Type}} [BAlg α] ({args} : {ty}) : {ty} :=\n' + (body + '\n' if body else '') + f'  {res}\n'
    # homomorphism lemma (lane-wise behaviour), proved by rewriting
    hargs = ' '.join(f'(h.{"f" if mdim == 1 else "f" + str(mdim)} i{k + 1})' for k in range(nargs))
    hf = 'h.f' if mdim == 1 else f'h.f{mdim}'
    t = (f'theorem {name}_hom {{α β : Type}} [BAlg α] [BAlg β] (h : BHom α β) ({args} : {ty}) :\n'
         f'    {hf} ({name} {args}) = {name} {hargs} := by\n'
         f'  simp only [{name}, BHom.f2, BHom.f3, h.map_and, h.map_or, h.map_xor, h.map_not, h.map_tt, h.map_ff]\n')
    return d + t, len(lines)


def emit_dispatch(name, entries, mdim, struct, fallback_from_first=True):
    """`name code a b c d`: if-chain over LUT codes to the per-op definitions, plus its homomorphism lemma"""
    ty = 'α' if mdim == 1 else f'{struct} α'
    ff = 'BAlg.ff' if mdim == 1 else ('⟨BAlg.ff, BAlg.ff⟩' if mdim == 2 else '⟨BAlg.ff, BAlg.ff, BAlg.ff⟩')
    d = f'def {name} {{α : Type}} [BAlg α] (code : Nat) (a b c d : {ty}) : {ty} :=\n'
    for n, c, fn in entries:
        d += f'  if code = {c} then {fn} a b c d else\n'
    d += f'  {ff}\n'
    hf = 'h.f' if mdim == 1 else f'h.f{mdim}'
    homs = ', '.join(f'{fn}_hom' for _, _, fn in entries)
    d += (f'theorem {name}_hom {{α β : Type}} [BAlg α] [BAlg β] (h : BHom α β) (code : Nat) (a b c d : {ty}) :\n'
          f'    {hf} ({name} code a b c d) = {name} code ({hf} a) ({hf} b) ({hf} c) ({hf} d) := by\n'
          f'  unfold {name}\n')
    for k, (n, c, fn) in enumerate(entries):
        d += (f'  by_cases h{k} : code = {c}\n'
              f'  · rw [if_pos h{k}, if_pos h{k}]; exact {fn}_hom h a b c d\n'
              f'  rw [if_neg h{k}, if_neg h{k}]\n')
    d += '  simp only [BHom.f2, BHom.f3, h.map_ff]\n'
    codes = ', '.join(str(c) for _, c, _ in entries)
    d += f'def {name}_codes : List Nat := [{codes}]\n'
    return d


def write_if_changed(path, text):
    os.makedirs(os.path.dirname(path), exist_ok=True)
    try:
        if open(path).read() == text: return False
    except FileNotFoundError:
        pass
    with open(path + '.tmp', 'w') as f: f.write(text)
    os.replace(path + '.tmp', path)
    return True


HEADER = '-- GENERATED by gen/extract_ops.py from /repo working tree. Do not edit.\nimport KyupyVerif.Model.BAlg\nimport KyupyVerif.Model.Prim\nset_option linter.unusedSimpArgs false\nset_option linter.unusedVariables false\n\nnamespace KV.Gen\nopen KV\n\n'

N8_PARTS = 8


def generate(out_dir=GEN_DIR):
    _, _, logic, sim, logic_sim = _import_kyupy()
    prims = prim_table()
    info = {'prims': prims, 'ssa_lines': 0, 'unhandled': []}
    # --- tables
    t = HEADER
    t += 'def prims : List (String × Nat) := [' + ', '.join(f'("{n}", {c})' for n, c in prims) + ']\n\n'
    rows = []
    for pre, tup in sim.kind_prefixes.items():
        if len(tup) != 3: raise GenError(f'kind_prefixes[{pre!r}] does not have three entries')
        rows.append(f'⟨{json.dumps(pre)}, {int(tup[0])}, {int(tup[1])}, {int(tup[2])}⟩')
    t += 'def kindPrefixes : List PrefixRow := [\n  ' + ',\n  '.join(rows) + ']\n\nend KV.Gen\n'
    write_if_changed(os.path.join(out_dir, 'Tables.lean'), t)

    # --- m = 2 (three code paths)
    t = HEADER
    tabs = {'njit': [], 'plain': [], 'cb': []}
    for name, code in prims:
        for path, tag in (('njit', 'op2n'), ('plain', 'op2p'), ('cb', 'op2c')):
            planes = extract_dispatch(2, code, path)
            if planes is None:
                info['unhandled'].append((name, 2, path)); continue
            selfcheck_dispatch(2, code, path, planes)
            d, n = emit_def(f'{tag}_{name}', planes, 4, 1, None)
            info['ssa_lines'] += n
            t += d + '\n'
            tabs[path].append((name, code, f'{tag}_{name}'))
    for path, tag in (('njit', 'op2nTable'), ('plain', 'op2pTable'), ('cb', 'op2cTable')):
        t += (f'def {tag} {{α : Type}} [BAlg α] : List (String × Nat × (α → α → α → α → α)) := [\n  '
              + ',\n  '.join(f'("{n}", {c}, {d})' for n, c, d in tabs[path]) + ']\n\n')
    for path, tag in (('njit', 'sem2n'), ('plain', 'sem2p'), ('cb', 'sem2c')):
        t += emit_dispatch(tag, tabs[path], 1, None) + '\n'
    t += 'end KV.Gen\n'
    write_if_changed(os.path.join(out_dir, 'Ops2.lean'), t)

    # --- m = 4
    t = HEADER
    tab = []
    for name, code in prims:
        planes = extract_dispatch(4, code, 'plain')
        if planes is None:
            info['unhandled'].append((name, 4, 'plain')); continue
        selfcheck_dispatch(4, code, 'plain', planes)
        d, n = emit_def(f'op4_{name}', planes, 4, 2, 'P2')
        info['ssa_lines'] += n
        t += d + '\n'
        tab.append((name, code, f'op4_{name}'))
    t += ('def op4Table {α : Type} [BAlg α] : List (String × Nat × (P2 α → P2 α → P2 α → P2 α → P2 α)) := [\n  '
          + ',\n  '.join(f'("{n}", {c}, {d})' for n, c, d in tab) + ']\n\n')
    t += emit_dispatch('sem4', tab, 2, 'P2') + '\nend KV.Gen\n'
    write_if_changed(os.path.join(out_dir, 'Ops4.lean'), t)

    # --- m = 8, split for parallel kernel checking
    all8 = []
    parts = [[] for _ in range(N8_PARTS)]
    for k, (name, code) in enumerate(prims):
        parts[k % N8_PARTS].append((name, code))
    for pi, part in enumerate(parts):
        t = HEADER
        tab = []
        for name, code in part:
            planes = extract_dispatch(8, code, 'plain')
            if planes is None:
                info['unhandled'].append((name, 8, 'plain')); continue
            selfcheck_dispatch(8, code, 'plain', planes)
            # the m=8 chain has the callback inline: extract again with a callback and require equality
            planes_cb = extract_dispatch(8, code, 'cb')
            if planes_cb is None or any(a is not b for a, b in zip(planes, planes_cb)):
                raise GenError(f'm=8 op {name}: chain with inject_cb differs from chain without')
            d, n = emit_def(f'op8_{name}', planes, 4, 3, 'P3')
            info['ssa_lines'] += n
            t += d + '\n'
            tab.append((name, code, f'op8_{name}'))
        all8 += tab
        t += (f'def op8Table{pi} {{α : Type}} [BAlg α] : List (String × Nat × (P3 α → P3 α → P3 α → P3 α → P3 α)) := [\n  '
              + ',\n  '.join(f'("{n}", {c}, {d})' for n, c, d in tab) + ']\n\nend KV.Gen\n')
        write_if_changed(os.path.join(out_dir, f'Ops8_{pi}.lean'), t)

    t = HEADER.replace('import KyupyVerif.Model.Prim\n', 'import KyupyVerif.Model.Prim\n' + ''.join(f'import KyupyVerif.Gen.Ops8_{i}\n' for i in range(N8_PARTS)))
    all8.sort(key=lambda e: e[0])
    t += emit_dispatch('sem8', all8, 3, 'P3') + '\nend KV.Gen\n'
    write_if_changed(os.path.join(out_dir, 'Sem8.lean'), t)

    # --- bp operators of logic.py
    t = HEADER
    for mdim, pre, struct in ((2, 'bp4v', 'P2'), (3, 'bp8v', 'P3')):
        for fn, arities in (('buf', [1]), ('not', [1]), ('and', [1, 2, 3, 4]), ('or', [1, 2, 3, 4]), ('xor', [1, 2, 3, 4])):
            for n_ops in arities:
                planes = extract_bp(f'{pre}_{fn}', n_ops, mdim)
                d, n = emit_def(f'{pre}_{fn}{n_ops}', planes, n_ops, mdim, struct)
                info['ssa_lines'] += n
                t += d + '\n'
    t += 'end KV.Gen\n'
    write_if_changed(os.path.join(out_dir, 'Bp.lean'), t)
    return info


if __name__ == '__main__':
    try:
        info = generate()
    except (GenError, SymError) as ex:
        print('GENERR', ex)
        sys.exit(3)
    print(json.dumps({k: v for k, v in info.items() if k != 'prims'}))
