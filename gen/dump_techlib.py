"""Translator G (values, not code): the five built-in technology libraries of kyupy as Lean tables.

For every library (GSC180, NANGATE, NANGATE_ZN, SAED32, SAED90) and every DISTINCT implementation circuit
(several cell names share one circuit and one pin table object) one `KV.TL.Cell` row:

  tmpl    circuit.name, the name as written in the library text, with {a,b} alternatives
  names   the keys of TechLib.cells mapping to this circuit, in dictionary order
  pins    the pin table in dictionary order: (name, position, is_output)
  ports   circuit.io_nodes in order: (name, driven = len(ins) > 0, signal index): the (P)PI slot
          ppi_offset + k of an undriven port, the captured line node.ins[0] of a driven one
  nSeq    len(s_nodes) - len(io_nodes)
  ops     the REAL SimOps(circuit).ops[:, :6] rows (lut, out, i0, i1, i2, i3)

The rows are distributed over N_CHUNKS files Gen/Techlib<k>.lean (so that `lake build` checks them on many
cores); Gen/Techlib.lean assembles them.  Names are written with the `c!"…"` notation (list of characters).

Self-check on every run: for each combinational implementation the dumped program, interpreted with the
sixteen-bit LUT semantics on the dumped slots/lines, must reproduce the truth table of the real
LogicSim(circuit, m=2) on all input rows — otherwise the dump does not describe what the simulator does
(GenError -> broken tie)."""
import contextlib, io, json, os, sys
import numpy as np

sys.path.insert(0, os.path.dirname(os.path.abspath(__file__)))
from extract_ops import write_if_changed, GEN_DIR, GenError

LIBS = ['GSC180', 'NANGATE', 'NANGATE_ZN', 'SAED32', 'SAED90']
N_CHUNKS = 8


def _s(name):
    if not isinstance(name, str) or any(ch in '"\\\n' or not (32 <= ord(ch) < 127) for ch in name):
        raise GenError(f'unexpected character in name {name!r}')
    return f'c!"{name}"'


def impl_rows(lib):
    """[(circuit, pin_dict, [names])] for the distinct implementations of a TechLib, in dictionary order"""
    rows, by_id = [], {}
    for name, entry in lib.cells.items():
        c, pd = entry
        if id(c) not in by_id:
            by_id[id(c)] = len(rows)
            rows.append((c, pd, []))
        r = rows[by_id[id(c)]]
        if r[1] is not pd and r[1] != pd:
            raise GenError(f'{name}: same circuit, different pin table')
        r[2].append(name)
    return rows


def describe(c, pd, names, lib_idx):
    """JSON-able description of one implementation row (what is written to Lean)"""
    from kyupy.sim import SimOps
    if len(c.lines) == 0:
        # filler / physical-only cells: no gate and no connection, hence no program (SimOps itself raises
        # IndexError on a circuit without any op; such cells are never simulated on their own)
        if any(len(n.ins) > 0 for n in c.io_nodes): raise GenError(f'{c.name}: driven port without lines')
        so = None
    else:
        with contextlib.redirect_stdout(io.StringIO()) as buf:
            so = SimOps(c)
        if buf.getvalue().strip():
            raise GenError(f'{c.name}: SimOps printed {buf.getvalue().strip()[:100]!r}')
    if list(c.s_nodes[:len(c.io_nodes)]) != list(c.io_nodes):
        raise GenError(f'{c.name}: s_nodes does not start with io_nodes')
    ports = []
    for k, n in enumerate(c.io_nodes):
        driven = len(n.ins) > 0
        if driven:
            if n.ins[0] is None: raise GenError(f'{c.name}: port {n.name} has an unconnected input')
            sig = int(n.ins[0].index)
            if so.c_locs[so.ppo_offset + k] != so.c_locs[sig]: raise GenError(f'{c.name}: capture location of {n.name}')
        else:
            sig = int(so.ppi_offset + k) if so is not None else len(c.lines) + 3 + k   # = zero_idx + 3 + k
        ports.append([n.name, bool(driven), sig])
    ops = [[int(x) for x in row[:6]] for row in so.ops] if so is not None else []
    for r in ops:
        if r[0] < 0: r[0] += 65536
        if any(x < 0 for x in r): raise GenError(f'{c.name}: negative entry in ops row {r}')
    pins = []
    for p, v in pd.items():
        if not (isinstance(v, tuple) and len(v) == 2): raise GenError(f'{c.name}: pin entry {v!r}')
        pins.append([p, int(v[0]), bool(v[1])])
    return {'lib': lib_idx, 'tmpl': c.name, 'names': list(names), 'pins': pins, 'ports': ports,
            'nSeq': len(c.s_nodes) - len(c.io_nodes), 'ops': ops}


def lut_eval(d, vals):
    """interpret the dumped program with the LUT semantics; returns {output port: bit}"""
    env = {}
    k = 0
    for name, driven, sig in d['ports']:
        if not driven:
            env[sig] = vals[k]; k += 1
    for lut, out, *ins in d['ops']:
        idx = sum((env.get(s, 0) & 1) << j for j, s in enumerate(ins))
        env[out] = (lut >> idx) & 1
    return {name: env.get(sig, 0) for name, driven, sig in d['ports'] if driven}


def real_truth_table(c, cb=False, **kw):
    """{output port name: [bit for row r]} from the real LogicSim (default m=2); input k of row r = bit k of r"""
    from kyupy import logic
    from kyupy.logic_sim import LogicSim
    n_in = sum(1 for n in c.io_nodes if len(n.ins) == 0)
    sims = 1 << n_in
    with contextlib.redirect_stdout(io.StringIO()):
        ls = LogicSim(c, sims, **({'m': 2} | kw))
    stim = np.zeros((ls.s_len, sims), dtype=np.uint8)
    k = 0
    for i, n in enumerate(c.io_nodes):
        if len(n.ins) == 0:
            stim[i] = (np.arange(sims) >> k) & 1; k += 1
    ls.s[0] = logic.mv_to_bp(stim * 3)
    ls.s_to_c()
    if cb: ls.c_prop(inject_cb=lambda *a: None)
    else: ls.c_prop()
    ls.c_to_s()
    res = logic.bp_to_mv(ls.s[1])[:, :sims]
    out = {}
    for i, n in enumerate(c.io_nodes):
        if len(n.ins) > 0:
            col = res[i]
            if not np.all((col == 0) | (col == 3)): raise GenError(f'{c.name}: non-binary result on {n.name}')
            out[n.name] = [int(v) // 3 for v in col]
    return out


def render(d):
    def b(x): return 'true' if x else 'false'
    return ('  { lib := %d, tmpl := %s,\n    names := [%s],\n    pins := [%s],\n    ports := [%s],\n    nSeq := %d,\n    ops := [%s] }'
            % (d['lib'], _s(d['tmpl']), ', '.join(_s(n) for n in d['names']),
               ', '.join(f'({_s(p)}, {i}, {b(o)})' for p, i, o in d['pins']),
               ', '.join(f'({_s(p)}, {b(o)}, {s})' for p, o, s in d['ports']),
               d['nSeq'], ', '.join('[' + ', '.join(map(str, r)) + ']' for r in d['ops'])))


def collect():
    from kyupy import techlib
    rows = []
    info = {'names': 0, 'implementations': 0, 'selfcheck_rows': 0, 'per_lib': {}}
    for li, ln in enumerate(LIBS):
        lib = getattr(techlib, ln)
        impls = impl_rows(lib)
        info['per_lib'][ln] = [len(lib.cells), len(impls)]
        info['names'] += len(lib.cells); info['implementations'] += len(impls)
        for c, pd, names in impls:
            d = describe(c, pd, names, li)
            if d['nSeq'] == 0 and any(p[1] for p in d['ports']):
                tt = real_truth_table(c)
                n_in = sum(1 for p in d['ports'] if not p[1])
                for r in range(1 << n_in):
                    got = lut_eval(d, [(r >> k) & 1 for k in range(n_in)])
                    for name, bits in tt.items():
                        if got[name] != bits[r]:
                            raise GenError(f'{ln}.{c.name}: dumped program gives {name}={got[name]} on row {r}, LogicSim gives {bits[r]}')
                    info['selfcheck_rows'] += 1
            rows.append(d)
    return rows, info


def generate(out_dir=GEN_DIR):
    rows, info = collect()
    head = '-- GENERATED by gen/dump_techlib.py from the kyupy working tree. Do not edit.\nimport KyupyVerif.Model.Techlib\nnamespace KV.Gen\nopen KV.TL\n\n'
    n = len(rows)
    bounds = [round(k * n / N_CHUNKS) for k in range(N_CHUNKS + 1)]
    for k in range(N_CHUNKS):
        part = rows[bounds[k]:bounds[k + 1]]
        t = head + f'def techChunk{k} : List Cell := [\n' + ',\n'.join(render(d) for d in part) + ']\n\nend KV.Gen\n'
        write_if_changed(os.path.join(out_dir, f'Techlib{k}.lean'), t)
    t = ('-- GENERATED by gen/dump_techlib.py from the kyupy working tree. Do not edit.\n'
         + ''.join(f'import KyupyVerif.Gen.Techlib{k}\n' for k in range(N_CHUNKS))
         + 'namespace KV.Gen\nopen KV.TL\n\n'
         + 'def libNames : List String := [' + ', '.join(f'"{l}"' for l in LIBS) + ']\n'
         + 'def techChunks : List (List Cell) := [' + ', '.join(f'techChunk{k}' for k in range(N_CHUNKS)) + ']\n'
         + f'-- {info["names"]} names, {info["implementations"]} implementations\n'
         + '\nend KV.Gen\n')
    write_if_changed(os.path.join(out_dir, 'Techlib.lean'), t)
    generate_impls(out_dir)
    return info


# ---- the implementation circuits themselves as `NNet` dumps (C10: `substitute_isSome`, library sweep) ----
N_IMPL_CHUNKS = 8


def _str(name):
    if not isinstance(name, str) or any(ch in '"\\\n' or not (32 <= ord(ch) < 127) for ch in name):
        raise GenError(f'unexpected character in name {name!r}')
    return f'"{name}"'


def render_nnet(c):
    """the canonical dump of a circuit (harness/circ.py: dump_net / dump_names) as a Lean `KV.Transform.NNet` value"""
    def pins(l): return '[' + ', '.join('none' if x is None else f'some {x.index}' for x in l) + ']'
    for i, n in enumerate(c.nodes):
        if n.index != i: raise GenError(f'{c.name}: node index {n.index} at position {i}')
    for i, l in enumerate(c.lines):
        if l.index != i: raise GenError(f'{c.name}: line index {l.index} at position {i}')
    nodes = ', '.join(f'⟨{_str(n.kind)}, {pins(n.ins)}, {pins(n.outs)}⟩' for n in c.nodes)
    lines = ', '.join(f'⟨{l.driver.index}, {l.driver_pin}, {l.reader.index}, {l.reader_pin}⟩' for l in c.lines)
    io = ', '.join(str(n.index) for n in c.io_nodes)
    names = ', '.join(_str(n.name) for n in c.nodes)
    return f'{{ net := {{ nodes := #[{nodes}], lines := #[{lines}], io := [{io}] }}, names := #[{names}] }}'


def generate_impls(out_dir=GEN_DIR):
    """Gen/TechImpl<k>.lean: for every distinct implementation circuit of the five libraries (same order as the `Cell` rows)
    (library index, first key, dump as NNet)"""
    from kyupy import techlib
    rows = []
    for li, ln in enumerate(LIBS):
        for c, pd, names in impl_rows(getattr(techlib, ln)):
            rows.append(f'  ({li}, {_str(names[0])}, {render_nnet(c)})')
    head = ('-- GENERATED by gen/dump_techlib.py from the kyupy working tree. Do not edit.\n'
            'import KyupyVerif.Model.SubstSem\nnamespace KV.Gen\nopen KV KV.Transform\n\n')
    n = len(rows)
    bounds = [round(k * n / N_IMPL_CHUNKS) for k in range(N_IMPL_CHUNKS + 1)]
    for k in range(N_IMPL_CHUNKS):
        part = rows[bounds[k]:bounds[k + 1]]
        t = head + f'def techImplChunk{k} : List (Nat × String × NNet) := [\n' + ',\n'.join(part) + ']\n\nend KV.Gen\n'
        write_if_changed(os.path.join(out_dir, f'TechImpl{k}.lean'), t)
    t = ('-- GENERATED by gen/dump_techlib.py from the kyupy working tree. Do not edit.\n'
         + ''.join(f'import KyupyVerif.Gen.TechImpl{k}\n' for k in range(N_IMPL_CHUNKS))
         + 'namespace KV.Gen\nopen KV KV.Transform\n\n'
         + 'def techImplChunks : List (List (Nat × String × NNet)) := [' + ', '.join(f'techImplChunk{k}' for k in range(N_IMPL_CHUNKS)) + ']\n'
         + f'-- {n} implementations\n\nend KV.Gen\n')
    write_if_changed(os.path.join(out_dir, 'TechImpl.lean'), t)
    return n


if __name__ == '__main__':
    print(json.dumps(generate()))
