"""Symbolic operands for executing kyupy's straight-line bitwise code as it stands.

`E` records an expression DAG over plane variables; `Mem`/`Row` stand in for the signal memory
`c` (rows of `mdim` planes).  Anything that would make control flow depend on data
(`__bool__`, `__index__`, comparisons, numpy calls) raises, so the translator fails closed.
"""
import numpy as np


class SymError(Exception):
    pass


class E:
    __slots__ = ('op', 'args', '_key')
    _pool = {}

    def __new__(cls, op, *args):
        key = (op,) + tuple(a._key if isinstance(a, E) else a for a in args)
        hit = E._pool.get(key)
        if hit is not None:
            return hit
        o = object.__new__(cls)
        o.op, o.args, o._key = op, args, len(E._pool)
        E._pool[key] = o
        return o

    def __and__(a, b): return E('and', a, lift(b))
    def __rand__(a, b): return E('and', lift(b), a)
    def __or__(a, b): return E('or', a, lift(b))
    def __ror__(a, b): return E('or', lift(b), a)
    def __xor__(a, b): return E('xor', a, lift(b))
    def __rxor__(a, b): return E('xor', lift(b), a)
    def __invert__(a): return E('not', a)
    def __bool__(s): raise SymError('data-dependent control flow on a symbolic value')
    def __index__(s): raise SymError('symbolic value used as index')
    def __eq__(a, b): return a is b
    def __hash__(s): return s._key
    def __lt__(a, b): raise SymError('comparison of symbolic value')
    __gt__ = __le__ = __ge__ = __lt__
    def __array_ufunc__(s, *a, **k): raise SymError('numpy ufunc on a symbolic value')

    def __repr__(s):
        if s.op == 'var': return s.args[0]
        if s.op == 'const': return 'T' if s.args[0] else 'F'
        if s.op == 'not': return f'!{s.args[0]!r}'
        return '(' + f' {dict(and_="&", or_="|", xor_="^")[s.op + "_"]} '.join(map(repr, s.args)) + ')'


def var(name): return E('var', name)
TRUE, FALSE = E('const', True), E('const', False)


def lift(x):
    if isinstance(x, E): return x
    if isinstance(x, (bool, np.bool_)):
        raise SymError(f'cannot lift bool {x!r}')
    if isinstance(x, (int, np.integer)):
        x = int(x) & 0xff
        if x == 0: return FALSE
        if x == 0xff: return TRUE
    raise SymError(f'cannot lift {x!r}')


def evaluate(e, env, memo=None):
    """evaluate an expression on a dict var-name -> python int used as a bit mask"""
    if memo is None: memo = {}
    stack = [e]
    while stack:
        n = stack[-1]
        if n._key in memo: stack.pop(); continue
        if n.op == 'var': memo[n._key] = env[n.args[0]]; stack.pop(); continue
        if n.op == 'const': memo[n._key] = env['__ones__'] if n.args[0] else 0; stack.pop(); continue
        todo = [a for a in n.args if a._key not in memo]
        if todo: stack.extend(todo); continue
        a = [memo[x._key] for x in n.args]
        if n.op == 'not': r = env['__ones__'] & ~a[0]
        elif n.op == 'and': r = a[0] & a[1]
        elif n.op == 'or': r = a[0] | a[1]
        elif n.op == 'xor': r = a[0] ^ a[1]
        else: raise SymError(n.op)
        memo[n._key] = r; stack.pop()
    return memo[e._key]


class Row:
    """symbolic stand-in for c[loc]: array (mdim, nbytes); planes are E"""
    def __init__(s, mem, loc): s.mem, s.loc = mem, loc
    def _planes(s): return s.mem.data[s.loc]

    @staticmethod
    def _plane_index(idx):
        if not (isinstance(idx, tuple) and len(idx) == 3 and idx[0] is Ellipsis and idx[2] == slice(None)
                and isinstance(idx[1], (int, np.integer))):
            raise SymError(f'unsupported index {idx!r}')
        return int(idx[1])

    def __getitem__(s, idx):
        if idx is Ellipsis: return s
        return s._planes()[Row._plane_index(idx)]

    def __setitem__(s, idx, val):
        if idx is Ellipsis:
            if isinstance(val, Row): s.mem.data[s.loc] = list(val._planes())
            else: s.mem.data[s.loc] = [lift(val) for _ in s._planes()]
            return
        s._planes()[Row._plane_index(idx)] = lift(val)

    def _bin(a, b, f):
        bp = b._planes() if isinstance(b, Row) else [lift(b)] * len(a._planes())
        if len(bp) != len(a._planes()): raise SymError('plane count mismatch')
        return Val([f(x, y) for x, y in zip(a._planes(), bp)])
    def __and__(a, b): return a._bin(b, lambda x, y: x & y)
    def __or__(a, b): return a._bin(b, lambda x, y: x | y)
    def __xor__(a, b): return a._bin(b, lambda x, y: x ^ y)
    __rand__, __ror__, __rxor__ = __and__, __or__, __xor__
    def __invert__(a): return Val([~x for x in a._planes()])
    def __bool__(s): raise SymError('data-dependent control flow on a symbolic row')
    def __array_ufunc__(s, *a, **k): raise SymError('numpy ufunc on a symbolic row')


class Val(Row):
    def __init__(s, planes): s.p = list(planes)
    def _planes(s): return s.p


class Mem:
    """symbolic signal memory: nloc rows of mdim planes, each plane a fresh variable m<loc>p<k>"""
    def __init__(s, nloc, mdim):
        s.nloc, s.mdim = nloc, mdim
        s.data = {l: [var(f'm{l}p{k}') for k in range(mdim)] for l in range(nloc)}
        s.initial = {l: list(v) for l, v in s.data.items()}
        s.written = []

    def __getitem__(s, loc):
        if isinstance(loc, (int, np.integer)): return Row(s, int(loc))
        raise SymError(f'unsupported memory index {loc!r}')

    def __setitem__(s, loc, val):
        if not isinstance(loc, (int, np.integer)): raise SymError(f'unsupported memory index {loc!r}')
        if not isinstance(val, Row): raise SymError(f'unsupported memory value {val!r}')
        if len(val._planes()) != s.mdim: raise SymError('plane count mismatch')
        s.data[int(loc)] = list(val._planes())
        s.written.append(int(loc))

    def changed(s):
        return [l for l in range(s.nloc) if any(a is not b for a, b in zip(s.data[l], s.initial[l]))]
