#!/venv/bin/python
"""setup: run the translators once on /repo's working tree and build the Lean project + driver (offline)."""
import os, subprocess, sys, time
V = os.path.dirname(os.path.abspath(__file__))
sys.path.insert(0, V); sys.path.insert(0, os.path.join(V, 'gen'))
t0 = time.time()
os.makedirs(os.path.join(V, 'lean', 'KyupyVerif', 'Gen'), exist_ok=True)
for d in ('work', 'evidence', 'replays'):
    os.makedirs(os.path.join(V, d), exist_ok=True)
from harness import gens
for g in gens.ALL:
    try:
        print('gen', g.__module__, g())
    except Exception as ex:
        print('gen failed', g.__module__, type(ex).__name__, ex)
# root module imports every module of the project, so that one `lake build` checks everything
mods = []
for sub in ('Model', 'Gen', 'Proofs', 'Props', 'Drv'):
    d = os.path.join(V, 'lean', 'KyupyVerif', sub)
    for fn in sorted(os.listdir(d)):
        if fn.endswith('.lean'): mods.append(f'import KyupyVerif.{sub}.{fn[:-5]}')
with open(os.path.join(V, 'lean', 'KyupyVerif.lean'), 'w') as f:
    f.write('\n'.join(mods) + '\n')
p = subprocess.run(['lake', 'build'], cwd=os.path.join(V, 'lean'))
print('setup done rc', p.returncode, round(time.time() - t0, 1), 's')
sys.exit(0)
