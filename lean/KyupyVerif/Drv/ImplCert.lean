import KyupyVerif.Model.ImplCert
import KyupyVerif.Model.Datasheet
import KyupyVerif.Drv.Transform
import KyupyVerif.Gen.Techlib
import KyupyVerif.Gen.Tables
/-! Driver extension for the composition C19 → C10 (`C10.resolve_datasheet_sem`): certificate clauses that tie a library
cell's implementation circuit (netlist dump, as handed to `resolve` / `subst`) to its row in the generated C19 tables.

* `dscell <lib index> <kind> <names> <net> <order>` — `names`/`net` as for `xform` (Drv/Transform.lean; the dump without blanks), `order` the real
  `topological_order()` of the implementation → `row=<0|1> shape=<0|1> describes=<0|1> family=<tag|outside>`:
  a row of `Gen.techChunks` of that library carries the name `kind`; `implShape` succeeds; `describesB` holds for that row;
  `classify (baseName kind)`.  (`wfB`, `orderOKB`, `forksOKB`, `linesDrivenB` of the implementation: `net` + `netcert` + `netspeccert`.)
* `dsfit <host names> <host net> <node> <impl names> <impl net>` → `pinsFitB` of the instance. -/
namespace KV.Drv.ImplCert
open KV KV.TL KV.DS KV.Transform

def findRow (lib : Nat) (kind : Str) : Option Cell :=
  Gen.techChunks.flatten.find? fun cr => cr.lib == lib && cr.names.contains kind

def mkNN (names net : String) : NNet := { net := KV.Drv.Transform.parseNet net, names := KV.Drv.Transform.parseNames names }

def b (x : Bool) : String := if x then "1" else "0"

def handle (cmd : String) (args : List String) : Option String :=
  match cmd, args with
  | "dscell", [lib, kind, names, net, order] =>
    let m := mkNN names net
    let k := (KV.Drv.Transform.unpct kind).toList
    let ord := (order.splitOn ",").filter (· ≠ "") |>.map String.toNat!
    let row := findRow lib.toNat! k
    let sh := implShape m
    let d := match row with
      | some cr => describesB Gen.kindPrefixes cr m ord
      | none => false
    let fam := match classify (baseName k) with
      | some _ => "listed"
      | none => "outside"
    some s!"row={b row.isSome} shape={b sh.isSome} describes={b d} family={fam}"
  | "dsfit", [hnames, hnet, node, inames, inet] =>
    let h := mkNN hnames hnet
    let m := mkNN inames inet
    some (match implShape m with
      | some sh => b (pinsFitB h node.toNat! sh)
      | none => "0")
  | _, _ => none

end KV.Drv.ImplCert
