import KyupyVerif.Model.BenchText
import KyupyVerif.Drv.Netlist
/-! Driver extension for the text level of C11: the hand-written lexer + grammar models on one percent-encoded text.

`benchparse <text>`     answer `reject` (lark raises `UnexpectedInput`) or `ok <tokens>`, tokens in the encoding that
                        `netlist b <tokens>` reads (`P` n name* ; `G` name kind n driver*; `~` for no statement)
text: `%xx` for code points below 256 that are not ASCII letters/digits/`_`, `%uXXXXXX` above; `%` alone = empty text. -/
namespace KV.Drv.NetText
open KV.Netlist KV.Drv.Netlist

def encBench (bs : List BStmt) : String :=
  joinOr "," (bs.flatMap fun
    | .intf ns => "P" :: toString ns.length :: ns.map pct
    | .gate n k d => "G" :: pct n :: pct k :: toString d.length :: d.map pct)

def handle (cmd : String) (args : List String) : Option String :=
  if cmd == "benchparse" then
    match args with
    | [t] =>
      match KV.BenchText.parseBench (unpct t) with
      | none => some "reject"
      | some bs => some s!"ok {encBench bs}"
    | _ => some "bad-args"
  else none

end KV.Drv.NetText
