import KyupyVerif.Model.BenchText
import KyupyVerif.Model.VerilogText
import KyupyVerif.Drv.Netlist
/-! Driver extension for the text level of C11: the hand-written lexer + grammar models on one percent-encoded text.

`benchparse <text>`     answer `reject` (lark raises `UnexpectedInput`) or `ok <tokens>`, tokens in the encoding that
                        `netlist b <tokens>` reads (`P` n name* ; `G` name kind n driver*; `~` for no statement)
`verilogparse <text>`   answer `reject` or `ok <number of modules> <status> <module name> <tokens>` (the last three only for
                        exactly one module): status `ok` | `pos` (a positional pin: `module()` raises) | `unsup` (a name with an
                        apostrophe that is not a sized constant: outside the modelled domain); tokens in the encoding that
                        `netlist v <cfg> <pintable> <tokens>` reads (positional pins left out)
text: `%xx` for code points below 256 that are not ASCII letters/digits/`_`, `%uXXXXXX` above; `%` alone = empty text. -/
namespace KV.Drv.NetText
open KV.Netlist KV.Drv.Netlist

def encBench (bs : List BStmt) : String :=
  joinOr "," (bs.flatMap fun
    | .intf ns => "P" :: toString ns.length :: ns.map pct
    | .gate n k d => "G" :: pct n :: pct k :: toString d.length :: d.map pct)

mutual
def encSel : Sel → List String
  | .name n => ["N", pct n]
  | .bits n l r => ["B", pct n, toString l, match r with | none => "-" | some r => toString r]
  | .const w b ds => ["K", toString w, String.singleton b, String.ofList ds]
  | .concat items => "C" :: toString items.length :: encSels items
def encSels : List Sel → List String
  | [] => []
  | a :: r => encSel a ++ encSels r
end

def encStmt : RStmt → List String
  | .decl k r names =>
    ["D", k.str, (match r with | none => "-" | some p => toString p.1),
      (match r with | some (_, some x) => toString x | _ => "-"), toString names.length] ++ names.map pct
  | .inst t n pins =>
    "I" :: pct t :: pct n :: toString pins.length ::
      pins.flatMap fun p => pct p.1 :: (match p.2 with | none => ["0"] | some x => "1" :: encSel x)
  | .assign a b => "A" :: (encSel a ++ encSel b)
  | .other => ["O"]

def encModule (m : KV.VerilogText.VModule) : String :=
  match KV.VerilogText.toRs m.stmts with
  | none => s!"unsup {pct m.name} ~"
  | some rs =>
    let toks := toString m.ports.length :: (m.ports.map pct ++ rs.flatMap encStmt)
    s!"{if m.stmts.any KV.VerilogText.VStmt.hasPos then "pos" else "ok"} {pct m.name} {",".intercalate toks}"

def handle (cmd : String) (args : List String) : Option String :=
  if cmd == "verilogparse" then
    match args with
    | [t] =>
      match KV.VerilogText.parseVerilog (unpct t) with
      | none => some "reject"
      | some [m] => some s!"ok 1 {encModule m}"
      | some ms => some s!"ok {ms.length}"
    | _ => some "bad-args"
  else
if cmd == "benchparse" then
    match args with
    | [t] =>
      match KV.BenchText.parseBench (unpct t) with
      | none => some "reject"
      | some bs => some s!"ok {encBench bs}"
    | _ => some "bad-args"
  else none

end KV.Drv.NetText
