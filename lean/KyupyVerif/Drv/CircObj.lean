import KyupyVerif.Model.CircObjSub
/-! Driver extension for C09: replays an edit history on the object-level circuit model.

`circobj <op> <op> ...`   (one token per operation, operands are CURRENT indices, names percent-encoded, `%` = empty)
* `n:<name>:<kind>`            `Node(c, name, kind)`
* `l:<di>:<dp>:<ri>:<rp>`      `Line(c, driver, reader)`; pin `-` = implicit (`free_index`), else explicit `(node, pin)`
* `rl:<li>`  `rn:<ni>`         `c.lines[li].remove()`, `c.nodes[ni].remove()`
* `io:<ni>`                    `c.io_nodes.append(c.nodes[ni])`
* `gf:<name>`                  `c.get_or_add_fork(name)`
* `elim` `copy` `pickle`       `c.eliminate_1to1_forks()`, `c = c.copy()`, `c = pickle.loads(pickle.dumps(c))`
* `sub:<ni>:<spec>`            `c.substitute(c.nodes[ni], impl)`; `<spec>` = pickle state of the implementation circuit
                               `name,kind|...;d.dp.r.rp|...;i,i,...` (nodes; lines by node index and pin; io_nodes by index)
* `rd:<ni>`                    `c.remove_dangling_nodes(c.nodes[ni])`
* `res:<kind>=<spec>/...`      `c.resolve_tlib_cells(tlib)` with `tlib.cells = {kind: (impl,)}`
* `rtl:<LIB>:<kind>=<spec>/...` the same; the real side uses the built-in library object `kyupy.techlib.<LIB>`
* `st:<spec>`                  `c = Circuit.__setstate__(spec)` (start from a given circuit)
For these four the record starts with `1` or `0<reason>` (`n` node index out of range, `k` kinds, `s` self loop, `g` a pin
assignment overwrites a line, `f` fork outputs of the result have a gap, `p` a substitution of `resolve` is not a
well-formed use; `1` = also the structural condition `substStatic` (`resolveStatic`) holds, `1d` = `substPre` holds but
`substStatic` does not (`1r` for `resolve`); `0X` = `substStatic` holds and a pin guard fails, `0Y` = `substStatic` holds and
the result has a fork gap — both excluded by theorems `substStatic_pre0`, `substStatic_pre`); the operation is applied also when the precondition is false; `<pre>;raise` = the model says the real
code raises (state unchanged).

Answer: one record per operation, separated by ` # `:
`<pre>;<nodes>;<lines>;<io>;<cells>;<forks>;<stats>;<invOK>` where `pre` is the well-formed-use precondition of the
operation (`0`: the operation is skipped, state unchanged), nodes = `kind:name:ins:outs` (`|`-separated, index order, pins as
line indices or `-`), lines = `d.dp.r.rp` (node indices), io = node indices, cells/forks = `name=index` in dictionary
order, stats = `key=value` in dictionary order, invOK = `1`/`0` (Boolean checker of `WFc` on the model state). -/
namespace KV.Drv.CircObj
open KV.CircObj

def hexVal (c : Char) : Nat :=
  if c.isDigit then c.toNat - '0'.toNat else if 'a' ≤ c ∧ c ≤ 'f' then c.toNat - 'a'.toNat + 10
  else if 'A' ≤ c ∧ c ≤ 'F' then c.toNat - 'A'.toNat + 10 else 0
def pctDecode : List Char → List Char
  | '%' :: a :: b :: r => Char.ofNat (16 * hexVal a + hexVal b) :: pctDecode r
  | '%' :: _ => []
  | c :: r => c :: pctDecode r
  | [] => []
def unpct (s : String) : String := String.ofList (pctDecode s.toList)

def hexDigit (n : Nat) : Char := if n < 10 then Char.ofNat ('0'.toNat + n) else Char.ofNat ('a'.toNat + (n - 10))
def pct (s : String) : String :=
  if s.isEmpty then "%" else
  String.ofList (s.toList.flatMap fun ch =>
    if ch.isAlphanum || ch == '_' then [ch] else ['%', hexDigit (ch.toNat / 16 % 16), hexDigit (ch.toNat % 16)])

def showPins (c : Circ) (l : Pins) : String :=
  ",".intercalate (l.map fun x => match x with | none => "-" | some i => toString (c.lobj i).index)

def showNodeIdx (c : Circ) : Option Nat → String
  | some i => toString (c.nobj i).index
  | none => "?"

def showDict (c : Circ) (d : Dict) : String :=
  ",".intercalate (d.map fun e => s!"{pct e.1}={(c.nobj e.2).index}")

def dump (c : Circ) : String :=
  let nodes := "|".intercalate (c.nodes.map fun i =>
    let o := c.nobj i
    s!"{pct o.kind}:{pct o.name}:{showPins c o.ins}:{showPins c o.outs}")
  let lines := "|".intercalate (c.lines.map fun l =>
    let o := c.lobj l
    s!"{showNodeIdx c o.driver}.{o.driverPin}.{showNodeIdx c o.reader}.{o.readerPin}")
  let io := ",".intercalate (c.io.map fun i => toString (c.nobj i).index)
  let st := ",".intercalate ((stats c).map fun e => s!"{pct e.1}={e.2}")
  s!"{nodes};{lines};{io};{showDict c c.cells};{showDict c c.forks};{st};{if invOK c then 1 else 0}"

def parsePin (s : String) : Option Nat := if s == "-" then none else some s.toNat!

def parseOp (s : String) : Option Op :=
  match s.splitOn ":" with
  | ["n", name, kind] => some (.addNode (unpct name) (unpct kind))
  | ["l", di, dp, ri, rp] => some (.addLine di.toNat! (parsePin dp) ri.toNat! (parsePin rp))
  | ["rl", li] => some (.removeLine li.toNat!)
  | ["rn", ni] => some (.removeNode ni.toNat!)
  | ["io", ni] => some (.ioAppend ni.toNat!)
  | ["gf", name] => some (.getFork (unpct name))
  | ["elim"] => some .elim
  | ["copy"] => some .copy
  | ["pickle"] => some .pickle
  | _ => none

def splitNE (s : String) (sep : String) : List String := (s.splitOn sep).filter (· ≠ "")

/-- `name,kind|...;d.dp.r.rp|...;i,i` -/
def parseSpec (s : String) : Option State :=
  match s.splitOn ";" with
  | [ns, ls, io] =>
    let nodes := (splitNE ns "|").map fun e => match e.splitOn "," with
      | [a, b] => (unpct a, unpct b)
      | _ => ("", "")
    let lines := (splitNE ls "|").map fun e => match e.splitOn "." with
      | [a, b, c, d] => (a.toNat!, b.toNat!, c.toNat!, d.toNat!)
      | _ => (0, 0, 0, 0)
    some { nodes := nodes, lines := lines, io := (splitNE io ",").map (·.toNat!) }
  | _ => none

def parseLib (s : String) : Option Lib :=
  (splitNE s "/").mapM fun e => match e.splitOn "=" with
    | [k, sp] => (parseSpec sp).map fun st => (unpct k, setState st)
    | _ => none

inductive Tok
  | op (o : Op2)
  | load (s : State)

def parseTok (s : String) : Option Tok :=
  match s.splitOn ":" with
  | ["sub", ni, sp] => (parseSpec sp).map fun st => .op (.substitute ni.toNat! (setState st))
  | ["rd", ni] => some (.op (.removeDangling ni.toNat!))
  | ["res", lib] => (parseLib lib).map fun l => .op (.resolve l)
  | ["res"] => some (.op (.resolve []))
  | ["rtl", _, lib] => (parseLib lib).map fun l => .op (.resolve l)
  | ["st", sp] => (parseSpec sp).map .load
  | _ => (parseOp s).map fun o => .op (.base o)

def substReason (c : Circ) (i : Nat) (m : Circ) : String :=
  if !(c.nodes.contains i) then "0n" else if !(substKinds c i m) then "0k" else if !(noSelfLoop c i) then "0s"
  else
    let st := substStatic c i m
    if !(substGuards c i m) then (if st then "0X" else "0g")
    else if !(substPre c i m) then (if st then "0Y" else "0f")
    else if st then "1" else "1d"

def preStr (c : Circ) : Op2 → String
  | .base op => if pre c op then "1" else "0"
  | .substitute ni m => match c.nodes[ni]? with
    | some i => substReason c i m
    | none => "0n"
  | .removeDangling ni => if ni < c.nodes.length then "1" else "0n"
  | .resolve lib => if resolvePre lib c then (if resolveStatic lib c then "1" else "1r") else (if resolveStatic lib c then "0Y" else "0p")

def replay (ops : List String) : List String :=
  let rec go (c : Circ) : List String → List String
    | [] => []
    | t :: rest =>
      match parseTok t with
      | none => ["bad-op"]
      | some (.load s) => let c' := setState s; s!"1;{dump c'}" :: go c' rest
      | some (.op (.base op)) =>
        if pre c op then
          let c' := step c op
          s!"1;{dump c'}" :: go c' rest
        else s!"0;{dump c}" :: go c rest
      | some (.op op) =>
        let p := preStr c op
        match step2 c op with
        | some c' => s!"{p};{dump c'}" :: go c' rest
        | none => s!"{p};raise" :: go c rest
  go empty ops

def handle (cmd : String) (args : List String) : Option String :=
  if cmd != "circobj" then none else
  some (" # ".intercalate (replay (args.filter (· ≠ ""))))

end KV.Drv.CircObj
