import KyupyVerif.Proofs.TechCells
/-! Driver extension for C19 (audit 2, F10): `techcount` → `keys=<n0,n1,n2,n3,n4> rows=<…> nodup=<true|false>` — per library of
`Gen.libNames` the number of `TechLib.cells` keys and of implementation rows that the generated table `Tech.cells` lists
(`Tech.libKeys`, `Tech.libRows`: the functions of `C19.cells_count`), and whether no key is listed twice. The harness compares
with `len(tlib.cells)` / the number of distinct implementation circuits of the five REAL library objects: a truncated dump is a
broken tie. -/
namespace KV.Drv.TechCount
open KV.Tech

def handle (cmd : String) (_args : List String) : Option String :=
  if cmd != "techcount" then none else
  let ls := List.range KV.Gen.libNames.length
  let keys := ls.map fun l => toString (libKeys l).length
  let rows := ls.map fun l => toString (libRows l).length
  let nd := ls.all fun l => decide (libKeys l).Nodup
  let inLib := cells.all fun c => decide (c.lib < KV.Gen.libNames.length)
  some s!"keys={",".intercalate keys} rows={",".intercalate rows} nodup={nd} libs={inLib}"

end KV.Drv.TechCount
