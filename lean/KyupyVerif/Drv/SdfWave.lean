import KyupyVerif.Model.SdfWave
import KyupyVerif.Drv.Sdf
import KyupyVerif.Drv.Cycle
/-! Driver extension for the timing data path (Props/C14Wave.lean): the COMPOSITION of the models on one request line —
SDF text → grammar model (`SdfText.parseSdf`) → block list (`SdfFile.toRaw`) → `Sdf.parse` → `sdfDelay` with the pin / fork
tables of the circuit → `simWave` of the given op rows for one or more lanes.

`sdfwave <mode> <nlines> <text> <pins> <ics> <ops> <caps> <lanes>`
* mode = `last` | `merge`; nlines = number of circuit lines; text percent-encoded; pins / ics as in the `sdf` command;
* ops   = row (`/` row)*, row = `lut,out,s0,s1,s2,s3,l0,l1,l2,l3` (value sources, delay lines) or `~` for none;
* caps  = `c_caps` csv;
* lanes = lane (`/` lane)*, lane = d `@` stim, stim = `~` | idx `=` wave (`|` idx `=` wave)*, wave = ents `:` term as in `wavesim`.

`sdftabs <names> <net> <pinidx> <pinqueries> <icqueries>` — the two tables READ OFF THE NETLIST (`netPinLine`, `netIcLine`):
names = node names `|`-separated (percent-encoded), net = canonical dump without blanks, pinidx = `~` | kind `:` pin `:` index
(`;` ..)*, pinqueries = `~` | cell `:` pin (`;` ..)*, icqueries = `~` | c1 `:` p1 `:` c2 `:` p2 (`;` ..)* with p = `~` for "no pin".
Answer: `<pins> # <ics>` in the table format of the `sdf` command (queries without a line are left out).

Answer of `sdfwave`: `noparse` (the text model rejects, the transformer raises or a number is no whole number of thousandths) |
`raise:interconnects` (`sdfDelay = none`: no block without INSTANCE name, the real `df.interconnects()` raises `TypeError`) |
`raise:entry` / `raise:slash` (a guard of the model fails — `RawCell.ok`, `slashOK` —: the real code raises there and the model is
outside its domain) | `<array> # <lane> / <lane> …` — array = non-zero coordinates `d.l.ip.op=v` of
`iopaths + interconnects` (format of the `sdf` command); lane = one token per signal index (`.` = never written). -/
namespace KV.Drv.SdfWave
open KV.Sdf KV.Wave KV.Sig KV.SdfWave KV.Drv.Sdf

def parseT (s : String) : T :=
  if s == "m" then .tmin else if s == "M" then .tmax else if s == "O" then .tovl else .fin (s.toInt?.getD 0)
def showT : T → String
  | .tmin => "m" | .tmax => "M" | .tovl => "O" | .fin t => toString t
def parseWv (s : String) : Wv :=
  match s.splitOn ":" with
  | [e, t] => ⟨((if e == "-" then "" else e).splitOn ",").filter (· ≠ "") |>.map parseT, parseT t⟩
  | _ => Wv.empty
def showWv (w : Wv) : String :=
  let e := ",".intercalate (w.ents.map showT)
  s!"{if e == "" then "-" else e}:{showT w.term}"
def parseOp (s : String) : Op :=
  match (s.splitOn ",").map String.toNat! with
  | l :: o :: rest => ⟨l, o, rest⟩
  | _ => ⟨0, 0, []⟩

/-- the delay table of data set `d` tabulated for the lines `< n` — plain data bound once in `handle`, so that compiled code
does not replay the annotation loops at every lookup (a `let` inside a function-valued definition would be re-evaluated at
every application) -/
def tabArr (delay : Nat → Bool → Bool → Int) (n : Nat) : Array Int :=
  ((List.range n).flatMap fun l => [delay l false false, delay l false true, delay l true false, delay l true true]).toArray

/-- lookup in the table; the model function itself beyond the tabulated lines -/
def tabLook (a : Array Int) (n : Nat) (delay : Nat → Bool → Bool → Int) (l : Nat) (p q : Bool) : Int :=
  if l < n then a.getD (4 * l + (if p then 2 else 0) + (if q then 1 else 0)) 0 else delay l p q

def runLane (delay : Nat → Bool → Bool → Int) (ops : List Op) (caps : Array Nat) (stim : List (Nat × Wv)) : String :=
  let cfg : WCfg := { delay := delay, cap := fun i => caps.getD i 0 }
  let n := caps.size
  let env0 : Array Wv := (List.range n).map (fun i => match stim.find? (·.1 == i) with | some p => p.2 | none => Wv.empty) |>.toArray
  let envF := execArrG Wv.empty (waveSem cfg) ops env0
  let written := ops.map (·.out) ++ stim.map (·.1)
  " ".intercalate ((List.range n).map fun i => if written.contains i then showWv (envF.getD i Wv.empty) else ".")

def handleTabs (args : List String) : String :=
  match args with
  | [namesS, netS, pinidxS, pq, iq] =>
    let net := KV.Drv.Cycle.parseNet netS
    let names := ((namesS.splitOn "|").map unpct).toArray
    let rows := (splitList pinidxS ";").filterMap fun r => match r.splitOn ":" with
      | [k, p, i] => some ((unpct k, unpct p), i.toNat!)
      | _ => none
    let pinIdx : KV.SdfWave.PinIdx := fun k p => (rows.find? (·.1 == (k, p))).map (·.2)
    let pins := (splitList pq ";").filterMap fun q => match q.splitOn ":" with
      | [c, p] => (netPinLine net names pinIdx (unpct c) (unpct p)).map fun l => s!"{c}:{p}:{l}"
      | _ => none
    let ics := (splitList iq ";").filterMap fun q => match q.splitOn ":" with
      | [c1, p1, c2, p2] =>
        (netIcLine net names pinIdx (unpct c1) (parseOptName p1) (unpct c2) (parseOptName p2)).map fun l => s!"{c1}:{p1}:{c2}:{p2}:{l}"
      | _ => none
    s!"{joinOr ";" pins} # {joinOr ";" ics}"
  | _ => "bad-args"

def handle (cmd : String) (args : List String) : Option String :=
  if cmd == "sdftabs" then some (handleTabs args) else
  -- hypothesis `rawNonneg` of `C14Wave.sdf_sta_window` / `sdf_path_window` / `sdf_text_sta_window` on the real SDF text
  -- (the netlist hypotheses wfB / orderOKB / forksOKB / readsDrivenB are answered by the core command `simopscert`)
  if cmd == "sdfwavehyp" then some (match args with
    | [text] => match rawOfText (unpct text) with
      | none => "noparse"
      | some B => s!"nonneg={rawNonneg B}"
    | _ => "bad-args") else
  if cmd != "sdfwave" then none else
  match args with
  | [mode, nlines, text, pins, ics, opsS, capsS, lanesS] =>
    let m := if mode == "merge" then Mode.merge else Mode.lastWins
    match rawOfText (unpct text) with
    | none => some "noparse"
    | some B =>
      if !(B.all RawCell.ok) then some "raise:entry" else
      let df := parse m B
      let n := nlines.toNat!
      let pinT := parsePins pins
      let icT := parseIcs ics
      -- the model's answer decides: `sdfDelay … = none` ⇔ `interconnects … = none` (Props/C14Wave.lean `sdf_cfg_none_iff`)
      if (sdfDelay pinT icT df 0).isNone then some "raise:interconnects" else
      match icEntries df, interconnects icT df with
      | some es, some ic =>
      let live := es.filter fun e => !(icSkip (norm e.r) (norm e.f))
      if !(live.all fun e => slashOK e.a && slashOK e.b) then some "raise:slash" else
      -- `sdfDelay pinT icT df d = some (sumDelay pinT df ic d)`, `sumDelay … l ip op = iopaths pinT df d l ip op + ic d l ip op`
      -- with `iopaths = applyAll ∘ iopathWrites` unfolded and the write list bound once as data (`ic` already holds its list)
      let ioW := iopathWrites pinT df
      let del : Nat → Nat → Bool → Bool → Int := fun d l ip op => applyAll ioW d l ip op + ic d l ip op
      let t0 := tabArr (del 0) n
      let t1 := tabArr (del 1) n
      let t2 := tabArr (del 2) n
      let tabOf : Nat → Array Int := fun d => if d == 0 then t0 else if d == 1 then t1 else t2
      let arr : Arr := fun d l ip op => if d < 3 then tabLook (tabOf d) n (del d) l ip op else 0
      let ops := (splitList opsS "/").map parseOp
      let caps := ((capsS.splitOn ",").filter (· ≠ "") |>.map String.toNat!).toArray
      let lanes := (splitList lanesS "/").map fun ln =>
        match ln.splitOn "@" with
        | [d, st] =>
          let stim := (splitList st "|").filterMap fun t => match t.splitOn "=" with
            | [i, w] => some (i.toNat!, parseWv w)
            | _ => none
          let dd := d.toNat!
          runLane (if dd < 3 then tabLook (tabOf dd) n (del dd) else del dd) ops caps stim
        | _ => "bad-lane"
      some s!"{showArr arr n} # {" / ".intercalate lanes}"
      | _, _ => some "raise:interconnects"
  | _ => some "bad-args"

end KV.Drv.SdfWave
