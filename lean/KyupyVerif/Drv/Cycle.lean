import KyupyVerif.Model.Cycle
import KyupyVerif.Model.Comp
import KyupyVerif.Gen.Tables
/-! Driver extension for C01 (sequential part): the MODEL of `LogicSim.cycle(k)` on one netlist.

`cycle <m> <strip> <k> <order> <s0> <s1> <dump...>`
* m      = 2 | 4 | 8 (value domain of one lane: `Bool` / `V2` / `V3`; op meaning = the LUT bit resp. the documented
           composition of the primitive the code names — the generated dispatchers are proved equal to these, C01/C02)
* strip  = 0 | 1 (`strip_forks`), k = number of cycles, order = `,`-separated node indices (the real `topological_order()`)
* s0, s1 = the rows `s[0]`, `s[1]` before the call: one `,`-separated token per `s_nodes` position, each a string with one
           code digit per lane (bit i of the digit = plane i, planes ≥ mdim dropped); `~` for an empty `s`
* dump   = canonical dump of `harness/circ.py: dump_net` (`nodes ; lines ; io`, blanks allowed)
Answer: `<pippi_s_locs>;<poppo_s_locs>;<ppio_s_locs>;<s0>;<s1>` after `cycleKA k` (Model/Cycle.lean), rows in the input format.

`cyclecert <order> <c_locs csv> <dump...>` — the decidable side conditions of C01 `cycle_on_memory` (on the real table) and
`cycle_strip_irrelevant` (on the real order): `zero=<zeroCapB> cap=<capDriversB>`. -/
namespace KV.Drv.Cycle
open KV KV.Sig KV.Cycle

def hexVal (c : Char) : Nat :=
  if c.isDigit then c.toNat - '0'.toNat else if 'a' ≤ c ∧ c ≤ 'f' then c.toNat - 'a'.toNat + 10
  else if 'A' ≤ c ∧ c ≤ 'F' then c.toNat - 'A'.toNat + 10 else 0
def pctDecode : List Char → List Char
  | '%' :: a :: b :: r => Char.ofNat (16 * hexVal a + hexVal b) :: pctDecode r
  | '%' :: _ => []
  | c :: r => c :: pctDecode r
  | [] => []
def unpct (s : String) : String := String.ofList (pctDecode s.toList)
def parseNats (s : String) : List Nat := (s.splitOn ",").filter (· ≠ "") |>.map String.toNat!
def parsePins (s : String) : List (Option Nat) :=
  (s.splitOn ",").filter (· ≠ "") |>.map fun t => if t == "-" then none else some t.toNat!
def parseNode (s : String) : NodeD :=
  match s.splitOn ":" with
  | [k, i, o] => { kind := unpct k, ins := parsePins i, outs := parsePins o }
  | _ => default
def parseLine (s : String) : LineD :=
  match (s.splitOn ".").map String.toNat! with
  | [a, b, c, d] => ⟨a, b, c, d⟩
  | _ => default
def parseNet (s : String) : Net :=
  match (s.splitOn ";").map (·.trimAscii.toString) with
  | [ns, ls, io] =>
    { nodes := ((ns.splitOn "|").filter (· ≠ "") |>.map parseNode).toArray,
      lines := ((ls.splitOn "|").filter (· ≠ "") |>.map parseLine).toArray,
      io := parseNats io }
  | _ => default

def showNats (l : List Nat) : String := ",".intercalate (l.map toString)

/-- rows (one string of code digits per position) → per lane the list of codes -/
def parseRows (s : String) : List (List Nat) :=
  if s == "~" then [] else (s.splitOn ",").map fun r => r.toList.map fun ch => ch.toNat - '0'.toNat
def lanesOf (rows : List (List Nat)) : Nat := (rows.map List.length).foldl Nat.max 0
def laneOf (rows : List (List Nat)) (j : Nat) : List Nat := rows.map fun r => r.getD j 0
def showRows (nPos : Nat) (perLane : List (List Nat)) : String :=
  if nPos == 0 then "~" else
  ",".intercalate ((List.range nPos).map fun p => String.ofList (perLane.map fun l => Char.ofNat ('0'.toNat + l.getD p 0)))

def nameOfCode (code : Nat) : Option String := (Gen.prims.find? (·.2 == code)).map (·.1)

def sem2 (op : Op) (xs : List Bool) : Bool :=
  lutBit4 op.code (xs.getD 0 false) (xs.getD 1 false) (xs.getD 2 false) (xs.getD 3 false)
def z4 : V2 := ⟨false, false⟩
def sem4 (op : Op) (xs : List V2) : V2 :=
  match (nameOfCode op.code).bind comp4 with
  | some f => f (xs.getD 0 default) (xs.getD 1 default) (xs.getD 2 default) (xs.getD 3 default)
  | none => default
def sem8 (op : Op) (xs : List V3) : V3 :=
  match (nameOfCode op.code).bind comp8 with
  | some f => f (xs.getD 0 default) (xs.getD 1 default) (xs.getD 2 default) (xs.getD 3 default)
  | none => default
/-- `s_ppo_to_ppi` for m = 8: initial value := previously assigned final value, final value := captured final value,
    transition flag := their difference -/
def merge8 (old new : V3) : V3 := ⟨new.p0, old.p0, new.p0 ^^ old.p0⟩

def runLanes {α} (sem : Op → List α → α) (merge : α → α → α) (d : α) (ofCode : Nat → α) (toCode : α → Nat)
    (ops : List Op) (T : Tabs) (envLen k : Nat) (r0 r1 : List (List Nat)) : String :=
  let lanes := Nat.max (lanesOf r0) (lanesOf r1)
  let res := (List.range lanes).map fun j =>
    let st : StA α := ⟨Array.replicate envLen d, ⟨(laneOf r0 j).map ofCode, (laneOf r1 j).map ofCode⟩⟩
    let st' := cycleKA sem ops T merge d k st
    (st'.s.s0.map toCode, st'.s.s1.map toCode)
  s!"{showRows r0.length (res.map (·.1))};{showRows r1.length (res.map (·.2))}"

def handle (cmd : String) (args : List String) : Option String :=
  match cmd, args with
  | "cycle", m :: strip :: k :: order :: s0 :: s1 :: dump =>
    let net := parseNet (" ".intercalate dump)
    let strip := strip == "1"
    let ops := sigOps Gen.kindPrefixes net (parseNats (if order == "~" then "" else order)) strip
    let T := tabsOf net strip
    let r0 := parseRows s0
    let r1 := parseRows s1
    let k := k.toNat!
    let n := net.idx.len
    let rows :=
      if m == "2" then runLanes sem2 mergeCopy false (fun c => c % 2 == 1) (fun b => if b then 1 else 0) ops T n k r0 r1
      else if m == "4" then runLanes sem4 mergeCopy z4 (fun c => V2.ofV3 (V3.ofCode c)) V2.code ops T n k r0 r1
      else runLanes sem8 merge8 V3.zero V3.ofCode V3.code ops T n k r0 r1
    some s!"{showNats (T.pippi.map (·.1))};{showNats (T.poppo.map (·.1))};{showNats T.ppio};{rows}"
  | "cycle", _ => some "bad-args"
  | "cyclecert", order :: locs :: dump =>
    -- side conditions of C01 `cycle_on_memory` on the real `c_locs`
    let net := parseNet (" ".intercalate dump)
    let p : MapIn := { net := net, strip := false, ops := [], starts := [], caps := #[], cLen := 0, capsMin := 1,
                       locs := ((locs.splitOn ",").filter (· ≠ "") |>.map String.toInt!).toArray }
    some s!"zero={if zeroCapB p then 1 else 0} cap={if capDriversB net (parseNats (if order == "~" then "" else order)) then 1 else 0}"
  | _, _ => none

end KV.Drv.Cycle
