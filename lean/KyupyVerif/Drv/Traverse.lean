import KyupyVerif.Model.Traverse
import KyupyVerif.Model.Locs
/-! Driver extension for C17: evaluates the traversal models and the `_locs` model on one request line.

`trav <what> <seq> <succs> <preds> [<extra>]`
* seq   = `=` followed by one `0`/`1` per node (dff/latch flag); the number of nodes is its length
* succs = `=` followed by one `,`-separated list of reader indices (connected out-lines, pin order) per node, `|`-separated
* preds = same with the drivers of the connected in-lines
* what  = `wf` (→ `1`/`0`: `GA.wfB`) | `topo` | `rev` | `levels` (→ `v:l,…`) |
          `lines` (extra = `=` out-line indices per node, `|`-separated) | `linetab` (extra = the same `;` number of lines → `GA`-size
          `lineTableB`, the hypothesis of `C17.line_order_cover`) |
          `fanin0` / `fanin1` (extra = `=` origin indices; code as it is / repaired code) |
          `ranks` (extra = `=` forward ranks `;` reverse ranks → two bits: `GA.rankOKB`, `GA.rrankOKB`)
  node / line lists are answered `,`-separated, `~` when empty.

`locs <mode> <prefix> <names>`: mode `0` = code as it is, `1` = repaired; prefix and the `,`-separated names are
percent-encoded (`%` alone = empty string, `~` = no names). Answer: `raise` | `None` | `7` | `[[0,1],[2]]`. -/
namespace KV.Drv.Traverse
open KV.Kahn KV.Trav

def hexVal (c : Char) : Nat :=
  if c.isDigit then c.toNat - '0'.toNat else if 'a' ≤ c ∧ c ≤ 'f' then c.toNat - 'a'.toNat + 10
  else if 'A' ≤ c ∧ c ≤ 'F' then c.toNat - 'A'.toNat + 10 else 0
def pctDecode : List Char → List Char
  | '%' :: a :: b :: r => Char.ofNat (16 * hexVal a + hexVal b) :: pctDecode r
  | '%' :: _ => []
  | c :: r => c :: pctDecode r
  | [] => []
def unpct (s : String) : String := String.ofList (pctDecode s.toList)

def parseNats (s : String) : List Nat := (s.splitOn ",").filter (· ≠ "") |>.map String.toNat!
def body (s : String) : String := (s.drop 1).toString
def parseLists (s : String) : Array (List Nat) := ((body s).splitOn "|").map parseNats |>.toArray
def showNats (l : List Nat) : String := if l.isEmpty then "~" else ",".intercalate (l.map toString)

def parseGA (sq su pr : String) : GA :=
  let seqA := ((body sq).toList.map (· == '1')).toArray
  let n := seqA.size
  let fit := fun (a : Array (List Nat)) => (List.range n).map (fun i => a.getD i []) |>.toArray
  { succs := fit (parseLists su), preds := fit (parseLists pr), seq := seqA }

def handleTrav (what : String) (ga : GA) (extra : Option String) : String :=
  let g := ga.toG
  match what, extra with
  | "wf", _ => if ga.wfB then "1" else "0"
  | "topo", _ => showNats (kahn g)
  | "rev", _ => showNats (revKahn g)
  | "levels", _ =>
    let l := levels g
    if l.isEmpty then "~" else ",".intercalate (l.map fun x => s!"{x.1}:{x.2}")
  | "lines", some e =>
    let ol := parseLists e
    showNats (lineOrder g (fun v => ol.getD v []))
  | "linetab", some e =>
    -- hypothesis `lineTableB` of C17.line_order_cover: extra = `=` out-line indices per node `;` number of lines
    match (body e).splitOn ";" with
    | [ls, m] =>
      let ol := ((ls.splitOn "|").map parseNats).toArray
      if lineTableB ga.succs.size m.toNat! (fun v => ol.getD v []) then "1" else "0"
    | _ => "bad-args"
  | "ranks", some e =>
    match (body e).splitOn ";" with
    | [f, r] =>
      let fa := (parseNats f).toArray
      let ra := (parseNats r).toArray
      (if ga.rankOKB (fun v => fa.getD v 0) then "1" else "0") ++ (if ga.rrankOKB (fun v => ra.getD v 0) then "1" else "0")
    | _ => "bad-args"
  | "fanin0", some e => showNats (fanin false g (parseNats (body e)))
  | "fanin1", some e => showNats (fanin true g (parseNats (body e)))
  | _, _ => "bad-args"

def handle (cmd : String) (args : List String) : Option String :=
  if cmd == "trav" then
    match args with
    | [what, sq, su, pr] => some (handleTrav what (parseGA sq su pr) none)
    | [what, sq, su, pr, e] => some (handleTrav what (parseGA sq su pr) (some e))
    | _ => some "bad-args"
  else if cmd == "locs" then
    match args with
    | [mode, pre, names] =>
      let p := if pre == "%" then "" else unpct pre
      let ns := if names == "~" then [] else (names.splitOn ",").map fun s => if s == "%" then "" else unpct s
      some (if mode == "1" then (KV.Locs.locsF p ns).show else (KV.Locs.locs p ns).show)
    | _ => some "bad-args"
  else none

end KV.Drv.Traverse
