import KyupyVerif.Drv.Sdf
import KyupyVerif.Drv.Encode
import KyupyVerif.Drv.Stil
import KyupyVerif.Drv.StilSim
import KyupyVerif.Drv.Def
import KyupyVerif.Drv.Datasheet
import KyupyVerif.Drv.Traverse
import KyupyVerif.Drv.CircObj
import KyupyVerif.Drv.Netlist
import KyupyVerif.Drv.NetText
import KyupyVerif.Drv.Transform
import KyupyVerif.Drv.ImplCert
import KyupyVerif.Drv.WaveStrip
import KyupyVerif.Drv.Grid
import KyupyVerif.Drv.WaveIO
import KyupyVerif.Drv.Cycle
import KyupyVerif.Drv.CircNet
import KyupyVerif.Drv.FormatEquiv
import KyupyVerif.Drv.VerilogLib
import KyupyVerif.Drv.DataPath
import KyupyVerif.Drv.Callback
import KyupyVerif.Drv.HeapHist
import KyupyVerif.Drv.Accum
import KyupyVerif.Drv.SdfWave
import KyupyVerif.Drv.TechCount
/-! Stateless driver extensions: each module `KyupyVerif/Drv/<Name>.lean` defines
`handle : String → List String → Option String` (command word, remaining tokens → answer, or `none`
when the command is not its own) and is listed in `extHandlers` below. -/
namespace KV.Drv

def extHandlers : List (String → List String → Option String) := [
  KV.Drv.Sdf.handle,
  KV.Drv.Encode.handle,
  KV.Drv.Stil.handle,
  KV.Drv.StilSim.handle,
  KV.Drv.Def.handle,
  KV.Drv.Datasheet.handle,
  KV.Drv.Traverse.handle,
  KV.Drv.CircObj.handle,
  KV.Drv.Netlist.handle,
  KV.Drv.NetText.handle,
  KV.Drv.Transform.handle,
  KV.Drv.ImplCert.handle,
  KV.Drv.WaveStrip.handle,
  KV.Drv.Grid.handle,
  KV.Drv.WaveIO.handle,
  KV.Drv.Cycle.handle,
  KV.Drv.CircNet.handle,
  KV.Drv.FormatEquiv.handle,
  KV.Drv.VerilogLib.handle,
  KV.Drv.DataPath.handle,
  KV.Drv.Callback.handle,
  KV.Drv.HeapHist.handle,
  KV.Drv.Accum.handle,
  KV.Drv.SdfWave.handle,
  KV.Drv.TechCount.handle
]

def tryExt (cmd : String) (args : List String) : Option String :=
  extHandlers.findSome? fun h => h cmd args

end KV.Drv
