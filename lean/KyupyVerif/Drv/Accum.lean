import KyupyVerif.Proofs.Capture
/-! Driver extension for C13 (accumulated switching activity): `accum <n> <contribs>` — `Wave.accumulate` (the model of
`abuf[a_loc, sim] += nrise*a_wr + nfall*a_wf`, Proofs/Capture.lean; theorems `C13.abuf_sum`, `abuf_order_independent`) applied to
the zero row of `n` accumulators and the contributions `a_loc:nrise:nfall:a_wr:a_wf` (`,`-separated, in op order; `a_loc < 0` =
ignored). Answer: the `n` accumulator values, `,`-separated. -/
namespace KV.Drv.Accum
open KV KV.Wave

def parseContrib (t : String) : Contrib :=
  match (t.splitOn ":").map fun x => x.toInt?.getD 0 with
  | [a, nr, nf, wr, wf] => ⟨if a < 0 then none else some a.toNat, nr * wr + nf * wf⟩
  | _ => ⟨none, 0⟩

def handle (cmd : String) (args : List String) : Option String :=
  match cmd, args with
  | "accum", [n, cs] =>
    let l := ((cs.splitOn ",").filter (· ≠ "")).map parseContrib
    let ab := accumulate (fun _ => 0) (if cs == "-" then [] else l)
    some (",".intercalate ((List.range n.toNat!).map fun a => toString (ab a)))
  | "accum", _ => some "bad-args"
  | _, _ => none

end KV.Drv.Accum
