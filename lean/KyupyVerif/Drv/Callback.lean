import KyupyVerif.Model.Callback
import KyupyVerif.Model.Cycle
import KyupyVerif.Drv.Cycle
/-! Driver extension for C16: the MODEL of `LogicSim.c_prop(inject_cb=…)` (Model/Callback.lean) on one netlist.

`cblog <m> <strip> <order> <x> <force> <s0> <dump...>`
* m, strip, order, s0, dump as for `cycle` (Drv/Cycle.lean); `s0` = the row `s[0]` assigned before `s_to_c()`
* x     = index of the line the callback overwrites, `-` for a callback that only records
* force = the overwriting value: one code digit per lane (`~` when x = `-`)
Run per lane: fresh memory (all zero), `s_to_c`, then `cbLogA` / `execCbA` with `nl = number of lines` over the signal-level rows.
Answer: `<lines of the calls, csv>;<values handed over: per call one string of code digits per lane, csv>;<final value of every line index 0..nl-1: per line one string of code digits per lane, csv>;<fanout x over the rows (sorted csv)>`. -/
namespace KV.Drv.Callback
open KV KV.Sig KV.Cycle KV.C16 KV.Drv.Cycle

def digits (l : List Nat) : String := String.ofList (l.map fun c => Char.ofNat ('0'.toNat + c))

def runLanes {α} (sem : Op → List α → α) (d : α) (ofCode : Nat → α) (toCode : α → Nat)
    (ops : List Op) (T : Tabs) (envLen nl : Nat) (x : Option Nat) (force : List Nat) (r0 : List (List Nat)) : String :=
  let lanes := Nat.max (lanesOf r0) (if x.isSome then force.length else 0)
  let res := (List.range lanes).map fun j =>
    let cb : Nat → α → α := match x with
      | some xi => fun s v => if s = xi then ofCode (force.getD j 0) else v
      | none => fun _ v => v
    let e0 := sToCA T d ((laneOf r0 j).map ofCode) (Array.replicate envLen d)
    let log := cbLogA nl d sem cb ops e0
    let e1 := execCbA nl d sem cb ops e0
    (log, (List.range nl).map fun l => toCode (e1.getD l d))
  let calls := match res with
    | (log, _) :: _ => log.map (·.1)
    | [] => (ops.map (·.out)).filter (· < nl)
  let vals := (List.range calls.length).map fun k => digits (res.map fun r => match r.1[k]? with | some e => toCode e.2 | none => 9)
  let fin := (List.range nl).map fun l => digits (res.map fun r => r.2.getD l 9)
  s!"{showNats calls};{",".intercalate vals};{",".intercalate fin}"

def insertSorted (a : Nat) : List Nat → List Nat
  | [] => [a]
  | b :: r => if a ≤ b then a :: b :: r else b :: insertSorted a r
def sortNats (l : List Nat) : List Nat := (l.foldr insertSorted []).eraseDups

def handle (cmd : String) (args : List String) : Option String :=
  match cmd, args with
  | "cblog", m :: strip :: order :: x :: force :: s0 :: dump =>
    let net := parseNet (" ".intercalate dump)
    let strip := strip == "1"
    let ops := sigOps Gen.kindPrefixes net (parseNats (if order == "~" then "" else order)) strip
    let T := tabsOf net strip
    let r0 := parseRows s0
    let n := net.idx.len
    let nl := net.lines.size
    let xo : Option Nat := if x == "-" then none else some x.toNat!
    let fv : List Nat := if force == "~" then [] else force.toList.map fun ch => ch.toNat - '0'.toNat
    let rows :=
      if m == "2" then runLanes sem2 false (fun c => c % 2 == 1) (fun b => if b then 1 else 0) ops T n nl xo fv r0
      else if m == "4" then runLanes sem4 z4 (fun c => V2.ofV3 (V3.ofCode c)) V2.code ops T n nl xo fv r0
      else runLanes sem8 V3.zero V3.ofCode V3.code ops T n nl xo fv r0
    let fo := match xo with | some xi => showNats (sortNats (fanout xi ops)) | none => ""
    some s!"{rows};{fo}"
  | "cblog", _ => some "bad-args"
  | _, _ => none

end KV.Drv.Callback
