import KyupyVerif.Model.Stil
import KyupyVerif.Model.StilText
import KyupyVerif.Proofs.StilExtract
/-! Driver extension for C18: evaluates the STIL model.

request : `stil <fn> <mode> <circ> <groups> <chains> <calls> <nxt>`
* fn     : `tests` | `responses` | `loc` | `locinit` | `pats` | `hnd` | `blocks` (hypotheses of `C18.extract_blocks`: `nxt` =
           `npre:haslaunch|...` per pattern block; the call list is cut accordingly and compared with `Stil.callsOf`)
* mode   : two letters, interface `s` (s_nodes) / `u` ('DFF' in kind, as found) and inversion `f` (full vector) /
           `1` (first flag only, as found): `sf` = property, `u1` = stil.py as found
* circ   : `io,io,...;name:kind,name:kind,...`
* groups : `name:member,member|...`      chains : `si:so:item,item|...` (item `%21` = "!")
* calls  : `name:key=value,key=value|...`   nxt : one digit string per pattern, `|`-separated
Empty lists are `-`. All names/values percent-encoded (harness/circ.py: pct).
answer  : `ok <column>|<column>|...` (one digit 0-7 per interface row) or `err key|shape|index`;
          for `pats`: `ok load;launch;capture;unload|...` with dictionaries `k=v,k=v`. -/
namespace KV.Drv.Stil
open KV KV.Stil

def hexVal (c : Char) : Nat :=
  if c.isDigit then c.toNat - '0'.toNat else if 'a' ≤ c ∧ c ≤ 'f' then c.toNat - 'a'.toNat + 10
  else if 'A' ≤ c ∧ c ≤ 'F' then c.toNat - 'A'.toNat + 10 else 0
def pctDecode : List Char → List Char
  | '%' :: a :: b :: r => Char.ofNat (16 * hexVal a + hexVal b) :: pctDecode r
  | '%' :: _ => []
  | c :: r => c :: pctDecode r
  | [] => []
def unpct (s : String) : String := String.ofList (pctDecode s.toList)

def hexDigit (n : Nat) : Char := if n < 10 then Char.ofNat (48 + n) else Char.ofNat (87 + n)
def pctEncode (s : List Char) : String :=
  if s.isEmpty then "%" else
  String.ofList (s.flatMap fun c =>
    if c.isAlphanum || c == '_' || c == '-' || c == '.' || c == '/' then [c]
    else ['%', hexDigit (c.toNat / 16 % 16), hexDigit (c.toNat % 16)])

def items (sep : String) (s : String) : List String :=
  if s == "-" then [] else (s.splitOn sep).filter (· ≠ "")

def parseCirc (s : String) : Circ :=
  match s.splitOn ";" with
  | [io, ns] =>
    { io := (items "," io).map unpct,
      nodes := (items "," ns).map fun t => match t.splitOn ":" with
        | [n, k] => (unpct n, unpct k)
        | _ => (unpct t, "") }
  | _ => default

def parseGroups (s : String) : List (String × List String) :=
  (items "|" s).map fun g => match g.splitOn ":" with
    | [n, ms] => (unpct n, (items "," ms).map unpct)
    | _ => (unpct g, [])

def parseChains (s : String) : List Chain :=
  (items "|" s).map fun g => match g.splitOn ":" with
    | [si, so, mid] => { si := unpct si, so := unpct so, mid := (items "," mid).map unpct }
    | _ => default

def parseDict (s : String) : Dict :=
  (items "," s).map fun kv => match kv.splitOn "=" with
    | [k, v] => (unpct k, pctDecode v.toList)
    | _ => (unpct kv, [])

def parseCalls (s : String) : List Call :=
  (items "|" s).map fun g => match g.splitOn ":" with
    | [n, ps] => { name := unpct n, params := parseDict ps }
    | _ => { name := unpct g, params := [] }

def parseNxt (s : String) : List (List V3) :=
  (items "|" s).map fun col => col.toList.map fun ch => V3.ofCode (ch.toNat - '0'.toNat)

def parseMode (s : String) : Mode :=
  { intf := if s.toList.head? == some 'u' then .upperDff else .sNodes,
    inv := if s.toList[1]? == some '1' then .first else .full,
    look := if s.toList[2]? == some 'l' then .last else .role }   -- third letter `l`: `_maps` as found (one dictionary, last position)

def showCols (r : Except Err (List (List V3))) : String :=
  match r with
  | .ok cols => "ok " ++ "|".intercalate (cols.map fun col => String.ofList (col.map fun v => Char.ofNat (48 + v.code)))
  | .error .key => "err key"
  | .error .shape => "err shape"
  | .error .index => "err index"

def showDict (d : Dict) : String :=
  if d.isEmpty then "-" else ",".intercalate (d.map fun kv => pctEncode kv.1.toList ++ "=" ++ pctEncode kv.2)

/-- cut a call list into blocks of the announced sizes (`npre` discarded `load_unload` calls, the block's own, optionally a launch
    call, the capture call); the rest is returned. Nothing is checked here: the caller compares `callsOf` of the result with the
    call list and evaluates `Blk.ok`. -/
def cutBlocks : List (Nat × Bool) → List Call → Option (List Blk × List Call)
  | [], cs => some ([], cs)
  | (np, hl) :: r, cs =>
    let pre := (cs.take np).map (·.params)
    match cs.drop np with
    | lu :: rest =>
      let lr : Option (String × Dict) × List Call :=
        if hl then (match rest with | l :: t => (some (l.name, l.params), t) | [] => (none, [])) else (none, rest)
      match lr.2 with
      | cap :: rest2 => (cutBlocks r rest2).map fun x => (⟨pre, lu.params, lr.1, cap.name, cap.params⟩ :: x.1, x.2)
      | [] => none
    | [] => none

def showPats (ps : List Pat) : String :=
  "ok " ++ "|".intercalate (ps.map fun p =>
    ";".intercalate [showDict p.load, showDict p.launch, showDict p.capture, showDict p.unload])

/-! ### text level: `stilparse <pct-encoded text>` → `syntax` | `<ok|raise> <tree> <groups> <chains> <calls>`.
tree = lark's parse tree with all tokens kept, `rule[child,..]`, leaves percent-encoded token texts (only `[A-Za-z0-9_]`
unencoded); groups / chains / calls = the dictionaries of `StilFile.groupsD/chainsD/callsD`: `name:m,m|..`,
`name:si:so:mid,..|..` (`~` for a missing port), `name:k=v,..|..`; `-` for an empty list, `~` for "no SignalGroups block". -/
namespace Text
open KV.StilText
def enc (cs : List Char) : String :=
  if cs.isEmpty then "%" else
  String.ofList (cs.flatMap fun c =>
    if c.isAlphanum || c == '_' then [c] else ['%', hexDigit (c.toNat / 16 % 16), hexDigit (c.toNat % 16)])
def node (name : String) (ch : List String) : String := name ++ "[" ++ ",".intercalate ch ++ "]"
def kw (k : Kw) : String := enc k.chars
def ignTok : IgnTok → String
  | .opn => kw .Lbrace
  | .cls => kw .Rbrace
  | .nob t => enc t
def ign (ig : List IgnTok) : List String := [kw .Lbrace] ++ ig.map ignTok ++ [kw .Rbrace]
def quoted (q : Txt) : String := node "quoted" [enc q]
def group (g : Group) : String :=
  node "signal_group" ([quoted g.name, kw .Equal, kw .Quote, quoted g.first] ++ g.more.flatMap (fun q => [kw .Plus, quoted q])
    ++ [kw .Quote] ++ (match g.ign with | some ig => ign ig | none => []) ++ (if g.semi then [kw .Semi] else []))
def chainItem : ChainItem → String
  | .length n => node "scan_length" [kw .Scanlength, enc n, kw .Semi]
  | .inv n => node "scan_inversion" [kw .Scaninversion, enc n, kw .Semi]
  | .scanIn q => node "scan_in" [kw .Scanin, quoted q, kw .Semi]
  | .scanOut q => node "scan_out" [kw .Scanout, quoted q, kw .Semi]
  | .clock q => node "scan_master_clock" [kw .Scanmasterclock, quoted q, kw .Semi]
  | .cells cs => node "scan_cells" ([kw .Scancells] ++ cs.map (fun | .cell q => quoted q | .bang => kw .Bang) ++ [kw .Semi])
def chain (c : KV.StilText.Chain) : String :=
  node "scan_chain" ([kw .Scanchain, quoted c.name, kw .Lbrace] ++ c.items.map chainItem ++ [kw .Rbrace])
def patItem : PatItem → String
  | .label q => node "label" [quoted q, kw .Colon]
  | .w q => node "w" [kw .W, quoted q, kw .Semi]
  | .macro_ q => node "macro" [kw .Macro, quoted q, kw .Semi]
  | .c ig => node "c" (kw .C :: ign ig)
  | .ann ig => node "ann" (kw .Ann :: ign ig)
  | .call n ps => node "call" ([kw .Call, quoted n, kw .Lbrace]
      ++ ps.map (fun p => node "call_parameter" [quoted p.1, kw .Equal, enc p.2, kw .Semi]) ++ [kw .Rbrace])
def block : Block → List String
  | .skip k ig => kw k :: ign ig
  | .burst q ig => kw .Patternburst :: quoted q :: ign ig
  | .ukw t => [kw .Userkeywords, enc t]
  | .groups gs => [node "signal_groups" ([kw .Signalgroups, kw .Lbrace] ++ gs.map group ++ [kw .Rbrace])]
  | .chains cs => [node "scan_structures" ([kw .Scanstructures, kw .Lbrace] ++ cs.map chain ++ [kw .Rbrace])]
  | .pattern n its => [node "pattern" ([kw .Pattern, quoted n, kw .Lbrace] ++ its.map patItem ++ [kw .Rbrace])]
def file (f : StilFile) : String :=
  node "start" ([kw .Stil, enc f.version] ++ (match f.headIgn with | some ig => ign ig | none => [kw .Semi]) ++ f.blocks.flatMap block)
def listOr (l : List String) (sep : String) : String := if l.isEmpty then "-" else sep.intercalate l
def optName : Option Txt → String
  | some n => enc n
  | none => "~"
def handle (args : List String) : String :=
  match args with
  | [t] =>
    match parseTree (pctDecode t.toList) with
    | none => "syntax"
    | some f =>
      let g := match f.groupsD with
        | none => "~"
        | some gs => listOr (gs.map fun (g : Txt × List Txt) => enc g.1 ++ ":" ++ listOr (g.2.map enc) ",") "|"
      let c := listOr (f.chainsD.map fun c => enc c.1 ++ ":" ++ optName c.2.si ++ ":" ++ optName c.2.so ++ ":" ++ listOr (c.2.mid.map enc) ",") "|"
      let l := listOr (f.callsD.map fun c => enc c.1 ++ ":" ++ listOr (c.2.map fun p => enc p.1 ++ "=" ++ enc p.2) ",") "|"
      s!"{if f.ok then "ok" else "raise"} {file f} {g} {c} {l}"
  | _ => "bad-args"
end Text

def handle (cmd : String) (args : List String) : Option String :=
  if cmd == "stilparse" then some (Text.handle args) else
  if cmd != "stil" then none else
  match args with
  | [fn, mode, circ, groups, chains, calls, nxt] =>
    let c := parseCirc circ
    let f : File := { groups := parseGroups groups, chains := parseChains chains, calls := parseCalls calls }
    let m := parseMode mode
    some <|
      if fn == "tests" then showCols (tests m c f)
      else if fn == "responses" then showCols (responses m c f)
      else if fn == "loc" then showCols (testsLoc m c f (parseNxt nxt))
      else if fn == "locinit" then showCols (locInit m c f)
      else if fn == "pats" then showPats (extract f)
      else if fn == "blocks" then
        -- hypotheses of C18.extract_blocks / extract_pattern on this call list: it IS `callsOf bs fin` for the announced block
        -- sizes, every block is `ok`; `eq` = the conclusion (extract = expectPats), evaluated as a sanity check of the driver
        let spec := (if nxt == "-" then [] else nxt.splitOn "|").map fun t =>
          match t.splitOn ":" with
          | [a, b] => (a.toNat!, b == "1")
          | _ => (0, false)
        match cutBlocks spec f.calls with
        | some (bs, [fin]) =>
          let shape := decide (f.calls = callsOf bs fin.params) && fin.name == "load_unload"
          let ok := bs.all Blk.ok
          let eq := decide (extract f = expectPats (f.chains.map (·.si)) (f.chains.map (·.so)) bs fin.params)
          s!"shape={shape} ok={ok} eq={eq} blocks={bs.length}"
        | _ => "shape=false ok=false eq=false blocks=0"
      else if fn == "hnd" then
        -- hypotheses `hnd` of C18.load_pos / pi_po_map (scan rows ++ _pi rows pairwise different) and of unload_pos / po_map
        -- (_po rows ++ scan rows), and "interface names pairwise different" (then rows = first positions, C18.rows_unique_names),
        -- and `hports` (`File.portsOK`: scan-in / scan-out port names of the chains pairwise different, audit 2 A-C18-1)
        let mp := mapsPure m c f
        let sr := mp.chains.flatMap (·.map)
        let nd := fun (l : List Nat) => decide l.Nodup
        s!"load={nd (sr ++ mp.pi)} unload={nd (mp.po ++ sr)} names={decide (c.intf m.intf).Nodup} ports={f.portsOK}"
      else "bad-fn"
  | _ => some "bad-args"

end KV.Drv.Stil
