import KyupyVerif.Model.WaveStrip
/-! Driver extension for C06 (fork stripping of the timing simulator): evaluates the certificate `stripOkB` on real
un-stripped op rows and compares `stripOps` of them with the real stripped rows.

`stripcert <zero index> <st> <un-stripped rows> <stripped rows>`
* st   = `b:s,b:s,…` (branch ↦ stem), `~` when empty
* rows = `/`-separated `lut,out,a,b,c,d` (un-stripped) and `lut,out,sa,sb,sc,sd,a,b,c,d` (stripped: value sources, then
  delay lines), `~` when empty
Answer: `ok=<0|1> eq=<0|1> n=<number of rows of stripOps> first=<index of the first differing row or ->`. -/
namespace KV.Drv.WaveStrip
open KV.Sig KV.Wave

def parseNats (s : String) : List Nat := (s.splitOn ",").filter (· ≠ "") |>.map String.toNat!
def parseRows (s : String) : List Op :=
  if s == "~" then [] else
  ((s.splitOn "/").filter (· ≠ "")).map fun t =>
    match parseNats t with
    | l :: o :: ins => ⟨l, o, ins⟩
    | _ => ⟨0, 0, []⟩
def parseSt (s : String) : List (Nat × Nat) :=
  if s == "~" then [] else
  ((s.splitOn ",").filter (· ≠ "")).map fun t =>
    match (t.splitOn ":").map String.toNat! with
    | [b, x] => (b, x)
    | _ => (0, 0)
def sameOp (a b : Op) : Bool := a.code == b.code && a.out == b.out && a.ins == b.ins
def firstDiff : Nat → List Op → List Op → Option Nat
  | _, [], [] => none
  | i, a :: as, b :: bs => if sameOp a b then firstDiff (i + 1) as bs else some i
  | i, _, _ => some i

def handle (cmd : String) (args : List String) : Option String :=
  match cmd, args with
  | "stripcert", [z, stS, unS, spS] =>
    let st := parseSt stS
    let un := parseRows unS
    let sp := parseRows spS
    let mine := stripOps st un
    let d := firstDiff 0 mine sp
    some s!"ok={if stripOkB st z.toNat! [] un then 1 else 0} eq={if d.isNone then 1 else 0} n={mine.length} first={match d with | some i => toString i | none => "-"}"
  | "stripcert", _ => some "bad-args"
  | _, _ => none

end KV.Drv.WaveStrip
