import KyupyVerif.Drv.Netlist
import KyupyVerif.Model.VerilogSem
/-! Driver extension for C11 `parsed_sem`.

`netof b <tokens>` / `netof v <cfg> <pintable> <tokens>` (arguments as for `netlist`, Drv/Netlist.lean):
    answer `<ok|raise> <dump>` — `dump` = `KV.Netlist.benchNet` / `verilogNet` in the format of `harness/circ.py: dump_net`
    without blanks: `nodes;lines;io`, nodes `kind:ins:outs` joined by `|` (pins `,`-separated, `-` = None), lines `d.dp.r.rp`.
`benchsem <tokens> <rows>`: rows = `/`-separated strings of 0/1 over the `s_nodes` positions (the assignment).
    answer `ok=<0|1> closed=<0|1> names=<f:name|c:name,…> <row answers joined by />`; a row answer is the string of captured values
    per position (`0`/`1`/`-`) of the environment `benchEval` computes, followed by `!` when `benchModelB` rejects it.
`verilogsem <cfg> <pintable> <tokens> <rows>`: the same for a Verilog module (`vEval`, `vModelB`, `vCaptures`);
    answer `ok=<0|1> names=<c:name,…> <row answers>` with `ok` = `verilogOKB`. -/
namespace KV.Drv.CircNet
open KV KV.Netlist KV.Drv.Netlist

def showPins (l : List (Option Nat)) : String :=
  ",".intercalate (l.map fun o => match o with | some i => toString i | none => "-")

def showNet (net : Net) : String :=
  let nodes := "|".intercalate (net.nodes.toList.map fun n => s!"{pct n.kind}:{showPins n.ins}:{showPins n.outs}")
  let lines := "|".intercalate (net.lines.toList.map fun l => s!"{l.driver}.{l.dpin}.{l.reader}.{l.rpin}")
  let io := ",".intercalate (net.io.map toString)
  s!"{nodes};{lines};{io}"

def showEp : Ep → String
  | .fork n => s!"f:{pct n}"
  | .cell n _ => s!"c:{pct n}"

def bitsRow (s : String) : Nat → Bool := fun i => s.toList.getD i '0' == '1'

def semRow (stmts : List BStmt) (row : String) : String :=
  let a := bitsRow row
  let tab := benchEval stmts false prim2 a
  let σ := envOf stmts false a tab
  let caps := (benchCaptures stmts σ).map fun o => match o with
    | some true => "1" | some false => "0" | none => "-"
  s!"{"".intercalate caps}{if benchModelB stmts false prim2 a tab then "" else "!"}"

def b01 (b : Bool) : String := if b then "1" else "0"

def vsemRow (tl : TL) (ports : List String) (stmts : List Stmt) (row : String) : String :=
  let a := bitsRow row
  let tab := vEval tl ports stmts false (!·) prim2 a
  let caps := (vCaptures tl ports stmts false prim2 (vEnvOf false tab)).map fun o => match o with
    | some true => "1" | some false => "0" | none => "-"
  s!"{"".intercalate caps}{if vModelB tl ports stmts false (!·) prim2 a tab then "" else "!"}"

def handle (cmd : String) (args : List String) : Option String :=
  if cmd == "netof" then
    match args with
    | ["b", toks] =>
      let ts := if toks == "~" then [] else toks.splitOn ","
      match parseBench (ts.length + 1) ts with
      | none => some "bad-statements"
      | some bs => some s!"{if (bench bs).err then "raise" else "ok"} {showNet (benchNet bs)}"
    | ["v", cfg, table, toks] =>
      let ts := if toks == "~" then [] else toks.splitOn ","
      match ts with
      | np :: rest =>
        match takeNames np.toNat! rest with
        | none => some "bad-ports"
        | some (ports, rest') =>
          match parseStmts (rest'.length + 1) rest' with
          | none => some "bad-statements"
          | some rs =>
            let rows := parseTable table
            let c : Cfg := { bf := bit cfg 0, assignFix := bit cfg 1, onebitDecl := bit cfg 2 }
            let C := module c (tlOf rows) ports (rs.map transform)
            some s!"{if C.err || !(rs.all RStmt.ok) then "raise" else "ok"} {showNet (verilogNet c (tlOf rows) ports (rs.map transform))}"
      | [] => some "bad-ports"
    | _ => some "bad-args"
  else if cmd == "benchsem" then
    match args with
    | [toks, rows] =>
      let ts := if toks == "~" then [] else toks.splitOn ","
      match parseBench (ts.length + 1) ts with
      | none => some "bad-statements"
      | some bs =>
        let names := joinOr "," ((benchSNames bs).map showEp)
        let rs := if rows == "~" then [] else rows.splitOn "/"
        some s!"ok={b01 (benchOKB bs)} closed={b01 (benchClosedB bs)} names={names} {joinOr "/" (rs.map (semRow bs))}"
    | _ => some "bad-args"
  else if cmd == "bencharity" then     -- domain predicate `benchArityB` (audit finding 1 / D33)
    match args with
    | [toks] =>
      let ts := if toks == "~" then [] else toks.splitOn ","
      match parseBench (ts.length + 1) ts with
      | none => some "bad-statements"
      | some bs => some s!"arity={b01 (benchArityB bs)}"
    | _ => some "bad-args"
  else if cmd == "verilogarity" then   -- domain predicate `vArityB`
    match args with
    | [table, toks] =>
      let ts := if toks == "~" then [] else toks.splitOn ","
      match ts with
      | np :: rest =>
        match takeNames np.toNat! rest with
        | none => some "bad-ports"
        | some (_, rest') =>
          match parseStmts (rest'.length + 1) rest' with
          | none => some "bad-statements"
          | some rs => some s!"arity={b01 (vArityB (tlOf (parseTable table)) (rs.map transform))}"
      | [] => some "bad-ports"
    | _ => some "bad-args"
  else if cmd == "verilogsem" then
    match args with
    | [cfg, table, toks, rows] =>
      let ts := if toks == "~" then [] else toks.splitOn ","
      match ts with
      | np :: rest =>
        match takeNames np.toNat! rest with
        | none => some "bad-ports"
        | some (ports, rest') =>
          match parseStmts (rest'.length + 1) rest' with
          | none => some "bad-statements"
          | some rs =>
            let tl := tlOf (parseTable table)
            let c : Cfg := { bf := bit cfg 0, assignFix := bit cfg 1, onebitDecl := bit cfg 2 }
            let stmts := rs.map transform
            let ok := verilogOKB c tl ports stmts && rs.all RStmt.ok
            let names := joinOr "," ((vSNames ports stmts).map showEp)
            let rws := if rows == "~" then [] else rows.splitOn "/"
            some s!"ok={b01 ok} names={names} {if ok then joinOr "/" (rws.map (vsemRow tl ports stmts)) else "~"}"
      | [] => some "bad-ports"
    | _ => some "bad-args"
  else none

end KV.Drv.CircNet
