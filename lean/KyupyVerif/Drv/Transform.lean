import KyupyVerif.Model.Transform
import KyupyVerif.Model.Substitute
import KyupyVerif.Model.SubstSem
import KyupyVerif.Model.ResolveHyp
import KyupyVerif.Model.ResolveStatic
/-! Driver extension for C10: the transformation models on one netlist dump.

`xform <op> <names> <dump...>`
* op    = `copy` | `pickle` | `elim` (current tree, forks in index order) | `elimin<s><k>:<name>,<name>,...` (explicit
          dictionary order; s = 1: node order restored afterwards (patch 03), k = 1: undriven forks skipped (patch 06);
          `elimin00:` = the current tree) | `elimmap<k>:<name>,...` (index maps of the loop, k as before) | `wf` |
          `wfnt` (`wf` without the clause on trailing `None`s) | `wfsem` (`wf` and every fork has at most one input: hypotheses of `elim_sem`) | `snames`
* names = node names, percent-encoded, `|`-separated (`%` alone = empty name; `~` = no node)
* dump  = the canonical dump of `harness/circ.py: dump_net` (`nodes ; lines ; io`, blanks allowed)
Answer: `<nodes> ; <lines> ; <io> ; <names>` in the same format, `raise` when the model's guard fails,
`1`/`0` for `wf`, the `,`-separated percent-encoded `s_nodes` names for `snames`; for `elimmap`: `<node map> ; <line map>`
(`,`-separated: for every node / line index of the result the index the same object had before).

`subst <cell index> <host names> <impl names> <host dump...> @@ <impl dump...>` — `Circuit.substitute` (Model/Substitute.lean);
answer as for `xform`, followed by ` ; regular` / ` ; not-regular` (the model's predicate `regularB`).

`resolve <host names> <host dump...> @@ <kind> <impl names> <impl dump...> @@ ...` — `Circuit.resolve_tlib_cells` with the
library given as (kind, implementation) blocks; answer as for `xform`.

`substok` (arguments as `subst`) — the hypotheses of `C10.substitute_sem` evaluated on the case, `1`/`0` each:
`<host wf> <impl wf> <cell no port> <cell no fork> <keepsAllB> <implOKB> <regularB> <result wf> <noIgnoredB> <result wfNoTrail> <denseB>`
(`-` for the result flags when the model answers `raise`; `denseB` = 0: a copied fork had a gap that the loop added with the
repair of D30 squeezed out — the theorems hold there too, the flag only counts such cases), followed by the hypotheses of
`C10.substitute_sem_general`: `<host wfNoTrail> <implGenOKB> <noSelfIgnB> <hasIgnoredB> <designated cell exists>`.
`resolveok` (arguments as `resolve`) — those of `C10.resolve_sem`: `<host wf> <resolveOKB> <result wf> <first failing condition or ok>`,
followed by those of `C10.resolve_sem_general`: `<host wfNoTrail> <resolveGenOKB> <result wfNoTrail> <first failing condition or ok>`,
those of `C10.resolve_run_isSome` (fields 8-14) and the static hypothesis `resolveStaticB` of `C10.resolve_isSome_static` (field 15). -/
namespace KV.Drv.Transform
open KV KV.Transform

def hexVal (c : Char) : Nat :=
  if c.isDigit then c.toNat - '0'.toNat else if 'a' ≤ c ∧ c ≤ 'f' then c.toNat - 'a'.toNat + 10
  else if 'A' ≤ c ∧ c ≤ 'F' then c.toNat - 'A'.toNat + 10 else 0
def pctDecode : List Char → List Char
  | '%' :: a :: b :: r => Char.ofNat (16 * hexVal a + hexVal b) :: pctDecode r
  | '%' :: _ => []
  | c :: r => c :: pctDecode r
  | [] => []
def unpct (s : String) : String := String.ofList (pctDecode s.toList)
def hexDigit (n : Nat) : Char := if n < 10 then Char.ofNat ('0'.toNat + n) else Char.ofNat ('a'.toNat + n - 10)
def pct (s : String) : String :=
  let r := s.toList.flatMap fun ch =>
    if ch.isAlphanum || "_[]~/.-".toList.contains ch then [ch] else ['%', hexDigit (ch.toNat / 16 % 16), hexDigit (ch.toNat % 16)]
  if r.isEmpty then "%" else String.ofList r

def parseNats (s : String) : List Nat := (s.splitOn ",").filter (· ≠ "") |>.map String.toNat!
def parsePins (s : String) : List (Option Nat) :=
  (s.splitOn ",").filter (· ≠ "") |>.map fun t => if t == "-" then none else some t.toNat!
def parseNode (s : String) : NodeD :=
  match s.splitOn ":" with
  | [k, i, o] => { kind := unpct k, ins := parsePins i, outs := parsePins o }
  | _ => default
def parseLine (s : String) : LineD :=
  match (s.splitOn ".").map String.toNat! with
  | [a, b, c, d] => ⟨a, b, c, d⟩
  | _ => default
def parseNet (s : String) : Net :=
  match (s.splitOn ";").map (·.trimAscii.toString) with
  | [ns, ls, io] =>
    { nodes := ((ns.splitOn "|").filter (· ≠ "") |>.map parseNode).toArray,
      lines := ((ls.splitOn "|").filter (· ≠ "") |>.map parseLine).toArray,
      io := parseNats io }
  | _ => default
def parseNames (s : String) : Array String :=
  if s == "~" then #[] else ((s.splitOn "|").map unpct).toArray

def showPins (l : List (Option Nat)) : String :=
  ",".intercalate (l.map fun o => match o with | some x => toString x | none => "-")
def showNN (nn : NNet) : String :=
  let nodes := "|".intercalate (nn.net.nodes.toList.map fun n => s!"{pct n.kind}:{showPins n.ins}:{showPins n.outs}")
  let lines := "|".intercalate (nn.net.lines.toList.map fun l => s!"{l.driver}.{l.dpin}.{l.reader}.{l.rpin}")
  let io := ",".intercalate (nn.net.io.map toString)
  let names := "|".intercalate (nn.names.toList.map pct)
  s!"{nodes} ; {lines} ; {io} ; {names}"
def showOpt : Option NNet → String
  | some nn => showNN nn
  | none => "raise"

def splitAt2 (l : List String) : List String × List String :=
  (l.takeWhile (· != "@@"), (l.dropWhile (· != "@@")).drop 1)

def handleSubst (args : List String) : String :=
  match args with
  | c :: hn :: mn :: rest =>
    let (hd, md) := splitAt2 rest
    let h : NNet := { net := parseNet (" ".intercalate hd), names := parseNames hn }
    let m : NNet := { net := parseNet (" ".intercalate md), names := parseNames mn }
    -- trailing flag: whether the case is the regular one of theorems `substitute_regular` / `substitute_wiring`
    showOpt (substitute h c.toNat! m) ++ (if regularB h c.toNat! m then " ; regular" else " ; not-regular")
  | _ => "bad-args"

def b01 (b : Bool) : String := if b then "1" else "0"

def handleSubstOk (args : List String) : String :=
  match args with
  | c :: hn :: mn :: rest =>
    let (hd, md) := splitAt2 rest
    let h : NNet := { net := parseNet (" ".intercalate hd), names := parseNames hn }
    let m : NNet := { net := parseNet (" ".intercalate md), names := parseNames mn }
    let ci := c.toNat!
    " ".intercalate [b01 h.wf, b01 m.wf, b01 (!(h.net.io.contains ci)), b01 (!((h.net.node ci).isFork)), b01 (keepsAllB h ci m),
      b01 (implOKB m), b01 (regularB h ci m), (match substitute h ci m with | some r => b01 r.wf | none => "-"),
      b01 (noIgnoredB h ci m), (match substitute h ci m with | some r => b01 r.wfNoTrail | none => "-"), b01 (denseB h ci m),
      b01 h.wfNoTrail, b01 (implGenOKB m), b01 (noSelfIgnB h ci m), b01 (hasIgnoredB h ci m),
      b01 (match implShape m with | some sh => sh.des.isSome | none => false)]
  | _ => "bad-args"

def handleSubstSome (args : List String) : String :=
  match args with
  | c :: hn :: mn :: rest =>
    let (hd, md) := splitAt2 rest
    let h : NNet := { net := parseNet (" ".intercalate hd), names := parseNames hn }
    let m : NNet := { net := parseNet (" ".intercalate md), names := parseNames mn }
    let ci := c.toNat!
    " ".intercalate [b01 h.wfNoTrail, b01 (forksDenseB h.net), b01 m.wf, b01 (decide (ci < h.net.nodes.size) && !(h.net.io.contains ci)),
      b01 (!((h.net.node ci).isFork)), b01 (implGenOKB m), b01 (targetsOKB m), b01 (noSelfIgnB h ci m), b01 (addFreshB h ci m),
      b01 (arityOKB h ci m), b01 (substSomeHypB h ci m), b01 (substitute h ci m).isSome, b01 (implSomeOKB m)]
  | _ => "bad-args"

/-- `resolve <host names> <host dump...> @@ <kind> <impl names> <impl dump...> @@ <kind> ...` -/
def splitBlocks : List String → List (List String)
  | [] => [[]]
  | t :: rest =>
    match splitBlocks rest with
    | [] => [[t]]
    | b :: bs => if t == "@@" then [] :: b :: bs else (t :: b) :: bs

def handleResolve (args : List String) : String :=
  match splitBlocks args with
  | (hn :: hd) :: libBlocks =>
    let h : NNet := { net := parseNet (" ".intercalate hd), names := parseNames hn }
    let lib : Lib := libBlocks.filterMap fun b => match b with
      | kind :: mn :: md => some (unpct kind, { net := parseNet (" ".intercalate md), names := parseNames mn })
      | _ => none
    showOpt (resolveCells lib h)
  | _ => "bad-args"

/-- first reason why `resolveOKB` fails along the loop (`ok` when it holds) -/
def resolveWhy (lib : Lib) : List (String × Bool) → NNet → String
  | [], _ => "ok"
  | key :: rest, cur =>
    let i := cur.lookup key
    if i < cur.net.nodes.size then
      match lib.find (cur.net.node i).kind with
      | some impl =>
        if !impl.wf then "impl-wf" else if !(implOKB impl) then "implOK:" ++ pct (cur.net.node i).kind
        else if !(keepsAllB cur i impl) then "keepsAll:" ++ pct (cur.net.node i).kind
        else if cur.net.io.contains i then "cell-is-port" else if (cur.net.node i).isFork then "cell-is-fork"
        else match substitute cur i impl with
          | some nxt => resolveWhy lib rest nxt
          | none => "raise"
      | none => resolveWhy lib rest cur
    else resolveWhy lib rest cur

/-- first reason why `resolveGenOKB` fails along the loop (`ok` when it holds) -/
def resolveGenWhy (lib : Lib) : List (String × Bool) → NNet → String
  | [], _ => "ok"
  | key :: rest, cur =>
    let i := cur.lookup key
    if i < cur.net.nodes.size then
      match lib.find (cur.net.node i).kind with
      | some impl =>
        if !impl.wf then "impl-wf" else if !(implGenOKB impl) then "implGenOK:" ++ pct (cur.net.node i).kind
        else if !(noSelfIgnB cur i impl) then "selfIgnored:" ++ pct (cur.net.node i).kind
        else if cur.net.io.contains i then "cell-is-port" else if (cur.net.node i).isFork then "cell-is-fork"
        else match substitute cur i impl with
          | some nxt => resolveGenWhy lib rest nxt
          | none => "raise"
      | none => resolveGenWhy lib rest cur
    else resolveGenWhy lib rest cur

/-- first per-instance clause of `resolveInstB` that fails along the loop (`ok` when it holds; `raise` is NOT a failure of the
    predicate: it does not contain success) -/
def resolveInstWhy (lib : Lib) : List (String × Bool) → NNet → String
  | [], _ => "ok"
  | key :: rest, cur =>
    let i := cur.lookup key
    if i < cur.net.nodes.size then
      match lib.find (cur.net.node i).kind with
      | some impl =>
        if cur.net.io.contains i then "cell-is-port" else if (cur.net.node i).isFork then "cell-is-fork"
        else if !(noSelfIgnB cur i impl) then "selfIgnored" else if !(addFreshB cur i impl) then "names-fresh"
        else if !(arityOKB cur i impl) then "arity"
        else match substitute cur i impl with
          | some nxt => resolveInstWhy lib rest nxt
          | none => "ok"
      | none => resolveInstWhy lib rest cur
    else resolveInstWhy lib rest cur

def handleResolveOk (args : List String) : String :=
  match splitBlocks args with
  | (hn :: hd) :: libBlocks =>
    let h : NNet := { net := parseNet (" ".intercalate hd), names := parseNames hn }
    let lib : Lib := libBlocks.filterMap fun b => match b with
      | kind :: mn :: md => some (unpct kind, { net := parseNet (" ".intercalate md), names := parseNames mn })
      | _ => none
    " ".intercalate [b01 h.wf, b01 (resolveOKB lib h.keys h), (match resolveCells lib h with | some r => b01 r.wf | none => "-"),
      resolveWhy lib h.keys h, b01 h.wfNoTrail, b01 (resolveGenOKB lib h.keys h),
      (match resolveCells lib h with | some r => b01 r.wfNoTrail | none => "-"), resolveGenWhy lib h.keys h,
      -- hypotheses of `C10.resolve_run_isSome` (fields 8-12) and the model's success (13), gap-free forks of the model result (14)
      b01 (forksDenseB h.net), b01 (libOKB lib), b01 (resolveInstB lib h.keys h), resolveInstWhy lib h.keys h,
      b01 (h.wfNoTrail && forksDenseB h.net && libOKB lib && resolveInstB lib h.keys h), b01 (resolveCells lib h).isSome,
      (match resolveCells lib h with | some r => b01 (forksDenseB r.net) | none => "-"),
      -- static hypothesis of `C10.resolve_isSome_static` (field 15): original circuit only
      b01 (resolveStaticB lib h)]
  | _ => "bad-args"

def showMaps : Option (NNet × Ren) → String
  | some (nn, r) =>
    ",".intercalate ((List.range nn.net.nodes.size).map fun j => toString (r.node j)) ++ " ; " ++
    ",".intercalate ((List.range nn.net.lines.size).map fun l => toString (r.line l))
  | none => "raise"

def handle (cmd : String) (args : List String) : Option String :=
  if cmd == "subst" then some (handleSubst args) else
  if cmd == "resolve" then some (handleResolve args) else
  if cmd == "substok" then some (handleSubstOk args) else
  if cmd == "substsome" then some (handleSubstSome args) else
  if cmd == "resolveok" then some (handleResolveOk args) else
  if cmd != "xform" then none else
  match args with
  | op :: names :: rest =>
    let nn : NNet := { net := parseNet (" ".intercalate rest), names := parseNames names }
    if op == "copy" then some (showNN (copyNet nn))
    else if op == "pickle" then some (showNN (pickleNet nn))
    else if op == "elim" then some (showOpt (elimForks nn))
    else if op.startsWith "elimin" && (op.drop 8).toString.startsWith ":" then
      -- elimin<s><k>:<order>   s = 1: node order restored afterwards, k = 1: undriven forks are skipped
      let stable := (op.drop 6).toString.startsWith "1"
      let skip := (op.drop 7).toString.startsWith "1"
      let o := (op.drop 9).toString
      let order := if o == "" then [] else (o.splitOn ",").map unpct
      some (showOpt (if stable then elimForksStableIn skip order nn else elimForksIn skip order nn))
    else if op.startsWith "elimmap" && (op.drop 8).toString.startsWith ":" then
      let skip := (op.drop 7).toString.startsWith "1"
      let o := (op.drop 9).toString
      let order := if o == "" then [] else (o.splitOn ",").map unpct
      some (showMaps (elimForksInM skip order nn))
    else if op == "wf" then some (if nn.wf then "1" else "0")
    else if op == "wfnt" then some (if nn.wfNoTrail then "1" else "0")
    else if op == "wfsem" then some (if nn.wf && nn.forkIns1 then "1" else "0")
    else if op == "snames" then some (",".intercalate (nn.sNames.map pct))
    else some "bad-args"
  | _ => some "bad-args"

end KV.Drv.Transform
