import KyupyVerif.Model.Grid
/-! Driver extension for the kernel-launch model (C07/C06): `grid <n> <m> <bx> <by>` answers
`gx,gy | <launch order: x.y x.y …> | <threads that pass the guards>` for a kernel over `n × m` items launched with
`_grid_dim(n, m)` blocks of `bx × by` threads. -/
namespace KV.Drv.Grid
open KV.Grid

def fmt (l : List (Nat × Nat)) : String :=
  if l.isEmpty then "-" else " ".intercalate (l.map fun p => s!"{p.1}.{p.2}")

def handle (cmd : String) (args : List String) : Option String :=
  if cmd != "grid" then none else
  match args.map String.toNat? with
  | [some n, some m, some bx, some by_] =>
    if bx == 0 || by_ == 0 then some "bad-op" else
    let gx := cdiv n bx; let gy := cdiv m by_
    let l := launch gx gy bx by_
    some s!"{gx},{gy} | {fmt l} | {fmt (active n m l)}"
  | _ => some "bad-op"

end KV.Drv.Grid
