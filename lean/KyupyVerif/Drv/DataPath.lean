import KyupyVerif.Model.DataPath
import KyupyVerif.Drv.Cycle
import KyupyVerif.Drv.Encode
import KyupyVerif.Gen.Ops2
import KyupyVerif.Gen.Ops4
import KyupyVerif.Gen.Sem8
import KyupyVerif.Gen.MvTables
/-! Driver extension for the data path (Props/C15Sim.lean): the MODEL composition pattern strings → `mvarray` → `mv_to_bp` → `s[0]` →
`s_to_c; c_prop; c_to_s` (k = 0) resp. `cycle(k)` on BYTES → `bp_to_mv` → `mv_str`, with the GENERATED bit-parallel dispatchers.

`dp.run <m> <strip> <k> <order> <strings> <dump...>`
* m = 2 | 4 | 8; strip = 0 | 1; k = 0: `s_to_c(); c_prop(); c_to_s()`, k ≥ 1: `cycle(k)`; order = `,`-separated node indices (`~`: none)
* strings = `s<codes>|s<codes>|…` (one per pattern, comma-separated code points; Drv/Encode.lean), dump = `circ.dump_net`
Answer: `<s0 bytes>;<s1 bytes>;<text>` — the rows of `s[0]`, `s[1]` after the run, flattened in C order (`S * 3 * nbytes` bytes,
`-` when empty), and `mv_str(bp_to_mv(s[1])[..., :P])` as `s<codes>`; `err` where the real code raises (ragged strings, shape of
`mv_to_bp(…)` not `(S, 3, nbytes)`). -/
namespace KV.Drv.DataPath
open KV KV.Sig KV.Cycle KV.Enc KV.DP

/-- the bit-parallel op semantics (the generated dispatchers on `8 * nb` lanes); equal to `C01.semLw`, `C02.semLw4`, `C02.semLw8`:
    Props/C15Sim.lean `driver_runs_the_model` -/
def semW2 (nb : Nat) (code : Nat) (xs : List (BitVec (8 * nb))) : BitVec (8 * nb) :=
  Gen.sem2n code (xs.getD 0 0) (xs.getD 1 0) (xs.getD 2 0) (xs.getD 3 0)
def semW4 (nb : Nat) (code : Nat) (xs : List (P2 (BitVec (8 * nb)))) : P2 (BitVec (8 * nb)) :=
  Gen.sem4 code (xs.getD 0 ⟨0, 0⟩) (xs.getD 1 ⟨0, 0⟩) (xs.getD 2 ⟨0, 0⟩) (xs.getD 3 ⟨0, 0⟩)
def semW8 (nb : Nat) (code : Nat) (xs : List (P3 (BitVec (8 * nb)))) : P3 (BitVec (8 * nb)) :=
  Gen.sem8 code (xs.getD 0 ⟨0, 0, 0⟩) (xs.getD 1 ⟨0, 0, 0⟩) (xs.getD 2 ⟨0, 0, 0⟩) (xs.getD 3 ⟨0, 0, 0⟩)

def showBytes (rows : List SRow) : String := Encode.showL (rows.flatten.flatten)
def showStr (r : Option (List Nat)) : String :=
  match r with
  | some l => "s" ++ ",".intercalate (l.map toString)
  | none => "err"

/-- the model composition for one arity, memory as an array of `c_locs_len` entries (`cycleKBA`, `cycle1BA`: equal to the function
    forms `cycleKB`, `captureB` of the theorems by Props/C15Sim.lean `driver_array_form`; a chain of closures is exponential to run) -/
def run {A : Nat → Type} (C : ∀ nb, Codec (A nb)) (sem : ∀ nb, Op → List (A nb) → A nb)
    (net : Net) (order : List Nat) (strip : Bool) (k : Nat) (ss : List (List Nat)) : String :=
  match mvarray Gen.interpretAscii ss with
  | none => "err"
  | some a =>
    let b := mvToBp a
    let nb := b.last
    let S := net.sNodes.length
    if b.lead = [S, 3] then
      let ops := sigOps Gen.kindPrefixes net order strip
      let T := tabsOf net strip
      let st0 : StBA (A nb) := ⟨Array.replicate net.idx.len ((C nb).dec []), sRows b, List.replicate S (freshRow nb)⟩
      let st := if k = 0 then (⟨st0.env, st0.s0, (cycle1BA (C nb) (sem nb) ops T st0).s1⟩ : StBA (A nb))
                else cycleKBA (C nb) (sem nb) ops T k st0
      let text := ((bpToMv (ofSRows nb st.s1)).map (takeLast (patterns a))).bind (mvStr Gen.renderChars [10])
      s!"{showBytes st.s0};{showBytes st.s1};{showStr text}"
    else "err"

def handle (cmd : String) (args : List String) : Option String :=
  match cmd, args with
  | "dp.run", m :: strip :: k :: order :: ss :: dump =>
    let net := Cycle.parseNet (" ".intercalate dump)
    let order := Cycle.parseNats (if order == "~" then "" else order)
    let strip := strip == "1"
    let k := k.toNat!
    let ss := Encode.strs ss
    some (if m == "2" then run codec2 (fun nb op => semW2 nb op.code) net order strip k ss
      else if m == "4" then run codec4 (fun nb op => semW4 nb op.code) net order strip k ss
      else run codec8 (fun nb op => semW8 nb op.code) net order strip k ss)
  | "dp.run", _ => some "bad-args"
  | _, _ => none

end KV.Drv.DataPath
