import KyupyVerif.Model.Netlist
/-! Driver extension for C11: runs the netlist model on one encoded statement list.

`netlist v <cfg> <pintable> <tokens>`   Verilog: cfg = three characters 0/1: branchforks, repaired pass 1.5, repaired pass 2
`netlist b <tokens>`                    bench
* pintable = `~` | row (`;` row)*, row = kind `:` pin `:` index `:` 0|1 (is output)
* tokens (`,`-separated, names percent-encoded; `%` alone = empty string), Verilog:
  nports, port*, then statements: `D` kind l|- r|- n name* ; `I` type name npins (pin 0 | pin 1 sel)* ; `A` sel sel ; `O`
  sel = `N` name | `B` name l r|- | `K` width baseletter digits | `C` n sel*
  bench: `P` n name* (interface) ; `G` name kind n driver*
Answer: `<ok|raise> <io> <nodes> <lines> <conn>`:
  io    = `c:name` / `f:name` / `-` per position; nodes = `kind:name` in creation order;
  lines = `f:name:pin>c:name:pin` in creation order (fork output pins counted, branch forks expanded);
  conn  = sorted rows `D:inst:pin:fork` `R:inst:pin:fork:b|d` `P:cell:fork` `O:cell:fork` `K:fork:0|1` `F:fork:fork`. -/
namespace KV.Drv.Netlist
open KV.Netlist

def hexVal (c : Char) : Nat :=
  if c.isDigit then c.toNat - '0'.toNat else if 'a' ≤ c ∧ c ≤ 'f' then c.toNat - 'a'.toNat + 10
  else if 'A' ≤ c ∧ c ≤ 'F' then c.toNat - 'A'.toNat + 10 else 0
def pctDecode : List Char → List Char
  | '%' :: 'u' :: a :: b :: c :: d :: e :: f :: r =>      -- code points above 255: `%uXXXXXX`
    Char.ofNat (((((hexVal a * 16 + hexVal b) * 16 + hexVal c) * 16 + hexVal d) * 16 + hexVal e) * 16 + hexVal f) :: pctDecode r
  | '%' :: a :: b :: r => Char.ofNat (16 * hexVal a + hexVal b) :: pctDecode r
  | '%' :: _ => []
  | c :: r => c :: pctDecode r
  | [] => []
def unpct (s : String) : String := String.ofList (pctDecode s.toList)

def hexDigit (n : Nat) : Char := if n < 10 then Char.ofNat ('0'.toNat + n) else Char.ofNat ('a'.toNat + n - 10)
def pct (s : String) : String :=
  if s.isEmpty then "%" else
  String.ofList (s.toList.flatMap fun c =>
    if (c.isAlphanum && c.toNat < 128) || c == '_' then [c]
    else if c.toNat < 256 then ['%', hexDigit (c.toNat / 16 % 16), hexDigit (c.toNat % 16)]
    else ['%', 'u', hexDigit (c.toNat / 1048576 % 16), hexDigit (c.toNat / 65536 % 16), hexDigit (c.toNat / 4096 % 16),
          hexDigit (c.toNat / 256 % 16), hexDigit (c.toNat / 16 % 16), hexDigit (c.toNat % 16)])

abbrev Toks := List String

def optNat (s : String) : Option Nat := if s == "-" then none else some s.toNat!

mutual
def parseSel : Nat → Toks → Option (Sel × Toks)
  | 0, _ => none
  | _ + 1, "N" :: n :: r => some (.name (unpct n), r)
  | _ + 1, "B" :: n :: l :: rr :: r => some (.bits (unpct n) l.toNat! (optNat rr), r)
  | _ + 1, "K" :: w :: b :: d :: r => some (.const w.toNat! (b.toList.headD 'b') d.toList, r)
  | f + 1, "C" :: k :: r => (parseSels f k.toNat! r).map fun p => (.concat p.1, p.2)
  | _ + 1, _ => none
def parseSels : Nat → Nat → Toks → Option (List Sel × Toks)
  | 0, _, _ => none
  | _ + 1, 0, r => some ([], r)
  | f + 1, k + 1, r =>
    match parseSel f r with
    | none => none
    | some (s, r') => (parseSels f k r').map fun p => (s :: p.1, p.2)
end

def takeNames : Nat → Toks → Option (List String × Toks)
  | 0, r => some ([], r)
  | k + 1, n :: r => (takeNames k r).map fun p => (unpct n :: p.1, p.2)
  | _ + 1, [] => none

def parsePins (fuel : Nat) : Nat → Toks → Option (List (String × Option Sel) × Toks)
  | 0, r => some ([], r)
  | k + 1, p :: "0" :: r => (parsePins fuel k r).map fun q => ((unpct p, none) :: q.1, q.2)
  | k + 1, p :: "1" :: r =>
    match parseSel fuel r with
    | none => none
    | some (s, r') => (parsePins fuel k r').map fun q => ((unpct p, some s) :: q.1, q.2)
  | _ + 1, _ => none

def parseKind (s : String) : DKind := if s == "input" then .input else if s == "output" then .output else .wire

def parseStmts : Nat → Toks → Option (List RStmt)
  | 0, _ => none
  | _ + 1, [] => some []
  | f + 1, "D" :: k :: l :: r :: n :: rest =>
    match takeNames n.toNat! rest with
    | none => none
    | some (names, rest') =>
      (parseStmts f rest').map fun t => RStmt.decl (parseKind k) ((optNat l).map fun lv => (lv, optNat r)) names :: t
  | f + 1, "I" :: ty :: nm :: np :: rest =>
    match parsePins (f + 1) np.toNat! rest with
    | none => none
    | some (pins, rest') => (parseStmts f rest').map fun t => RStmt.inst (unpct ty) (unpct nm) pins :: t
  | f + 1, "A" :: rest =>
    match parseSel (f + 1) rest with
    | none => none
    | some (a, r1) =>
      match parseSel (f + 1) r1 with
      | none => none
      | some (b, r2) => (parseStmts f r2).map fun t => RStmt.assign a b :: t
  | f + 1, "O" :: rest => (parseStmts f rest).map fun t => RStmt.other :: t
  | _ + 1, _ => none

def parseBench : Nat → Toks → Option (List BStmt)
  | 0, _ => none
  | _ + 1, [] => some []
  | f + 1, "P" :: n :: rest =>
    match takeNames n.toNat! rest with
    | none => none
    | some (names, rest') => (parseBench f rest').map fun t => BStmt.intf names :: t
  | f + 1, "G" :: nm :: kd :: n :: rest =>
    match takeNames n.toNat! rest with
    | none => none
    | some (names, rest') => (parseBench f rest').map fun t => BStmt.gate (unpct nm) (unpct kd) names :: t
  | _ + 1, _ => none

structure PinRow where
  kind : String
  pin : String
  idx : Nat
  out : Bool

def parseTable (s : String) : List PinRow :=
  if s == "~" then [] else (s.splitOn ";").filterMap fun r => match r.splitOn ":" with
    | [k, p, i, o] => some ⟨unpct k, unpct p, i.toNat!, o == "1"⟩
    | _ => none

def tlOf (rows : List PinRow) : TL := fun k p =>
  match rows.find? fun (r : PinRow) => r.kind == k && r.pin == p with
  | some r => some (r.idx, r.out)
  | none => none

def pinNameOf (rows : List PinRow) (kind : String) (idx : Nat) (out : Bool) : String :=
  match rows.find? fun (r : PinRow) => r.kind == kind && r.idx == idx && r.out == out with
  | some r => r.pin
  | none => toString idx

def joinOr (sep : String) (l : List String) : String := if l.isEmpty then "~" else sep.intercalate l

def showNodes (C : Circ) : String := joinOr "," (C.nodes.map fun n => s!"{pct n.kind}:{pct n.name}")

/-- flattened lines with pin numbers: a fork's output pin is the number of earlier lines it drives -/
def showLines (C : Circ) : String :=
  let fl := flatLines C
  let rec go (done : List (Ep × Ep)) : List (Ep × Ep) → List String
    | [] => []
    | (d, r) :: rest =>
      let ds := match d with
        | .fork n => s!"f:{pct n}:{(done.filter fun (x : Ep × Ep) => x.1 == Ep.fork n).length}"
        | .cell n p => s!"c:{pct n}:{p}"
      let rs := match r with
        | .fork n => s!"f:{pct n}:0"
        | .cell n p => s!"c:{pct n}:{p}"
      s!"{ds}>{rs}" :: go (done ++ [(d, r)]) rest
  joinOr "," (go [] fl)

def kindOf (C : Circ) (n : String) : String :=
  match C.nodes.find? fun x => x.kind != forkKind && x.name == n with
  | some x => x.kind
  | none => ""

def isConstKind (k : String) : Bool := "__const".toList.isPrefixOf k.toList

def connRows (rows : List PinRow) (C : Circ) : List String :=
  C.lines.filterMap fun l =>
    match l.d, l.r with
    | .cell n p, .fork f =>
      let k := kindOf C n
      if k == "input" then some s!"P:{pct n}:{pct f}"
      else if isConstKind k then some s!"K:{pct f}:{String.singleton (k.toList.getD 7 '?')}"
      else some s!"D:{pct n}:{pct (pinNameOf rows k p true)}:{pct f}"
    | .fork f, .cell n p =>
      let k := kindOf C n
      if k == "output" then some s!"O:{pct n}:{pct f}"
      else some s!"R:{pct n}:{pct (pinNameOf rows k p false)}:{pct f}:{if l.via.isSome then "b" else "d"}"
    | .fork a, .fork b => some s!"F:{pct a}:{pct b}"
    | _, _ => none

def showConn (rows : List PinRow) (C : Circ) : String :=
  joinOr "|" ((connRows rows C).mergeSort fun a b => decide (a ≤ b))

def answer (rows : List PinRow) (C : Circ) (io : String) (bad : Bool) : String :=
  s!"{if C.err || bad then "raise" else "ok"} {io} {showNodes C} {showLines C} {showConn rows C}"

def bit (s : String) (i : Nat) : Bool := s.toList.getD i '0' == '1'

def handle (cmd : String) (args : List String) : Option String :=
  if cmd != "netlist" then none else
  match args with
  | ["v", cfg, table, toks] =>
    let ts := if toks == "~" then [] else toks.splitOn ","
    match ts with
    | np :: rest =>
      match takeNames np.toNat! rest with
      | none => some "bad-ports"
      | some (ports, rest') =>
        match parseStmts (rest'.length + 1) rest' with
        | none => some "bad-statements"
        | some rs =>
          let rows := parseTable table
          let c : Cfg := { bf := bit cfg 0, assignFix := bit cfg 1, onebitDecl := bit cfg 2 }
          let C := module c (tlOf rows) ports (rs.map transform)
          let io := joinOr "," ((ioNames C).map fun o => match o with | some n => s!"c:{pct n}" | none => "-")
          some (answer rows C io (!(rs.all RStmt.ok)))
    | [] => some "bad-ports"
  | ["b", toks] =>
    let ts := if toks == "~" then [] else toks.splitOn ","
    match parseBench (ts.length + 1) ts with
    | none => some "bad-statements"
    | some bs =>
      let C := bench bs
      some (answer [] C (joinOr "," (C.ioB.map fun n => s!"f:{pct n}")) false)
  | _ => some "bad-args"

end KV.Drv.Netlist
