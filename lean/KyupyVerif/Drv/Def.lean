import KyupyVerif.Model.Def
/-! Driver extension for C20: evaluates the routing model `Model/Def.lean` on an encoded `DefNet` / `DefWire`.

Request  `def <cmd> <payload>`
* wire   `layer:width:start;item;…`  layer percent-encoded; width `-` (None) or a natural number;
         start/point item `p,x,y[,ext]` with `*` for None; via `v,name[,orient]`; array `a,name,nx,ny,dx,dy`
* net    wires joined by `|`; `.` = routed but no wire; `~` = no `routed` attribute
* cmds   `wires` (demanded listing) · `wiresasis` (code as it is) · `wiresraw` (as it is, without the `int(None)` error) · `vias` · `wpoints` (`DefWire.wire_points`) ·
         `wvias` (`DefWire.vias`) · `resolve` (resolved wire points)
Answer: dictionary `key=val&val|key=…` in insertion order (`.` when empty), `!attr` / `!type` for a raised exception;
wire value `width@pt;pt`, via value `x,y,orient`. -/
namespace KV.Drv.Def
open KV.Def

def hexVal (c : Char) : Nat :=
  if c.isDigit then c.toNat - '0'.toNat else if 'a' ≤ c ∧ c ≤ 'f' then c.toNat - 'a'.toNat + 10
  else if 'A' ≤ c ∧ c ≤ 'F' then c.toNat - 'A'.toNat + 10 else 0
def pctDecode : List Char → List Char
  | '%' :: a :: b :: r => Char.ofNat (16 * hexVal a + hexVal b) :: pctDecode r
  | '%' :: _ => []
  | c :: r => c :: pctDecode r
  | [] => []
def unpct (s : String) : String := String.ofList (pctDecode s.toList)
def hexDigit (n : Nat) : Char := if n < 10 then Char.ofNat ('0'.toNat + n) else Char.ofNat ('a'.toNat + n - 10)
def pctChar (c : Char) : List Char :=
  if c.isAlphanum || c == '_' || c == '[' || c == ']' || c == '~' || c == '/' || c == '.' || c == '-' then [c]
  else ['%', hexDigit (c.toNat / 16 % 16), hexDigit (c.toNat % 16)]
def pct (s : String) : String := if s.isEmpty then "%" else String.ofList (s.toList.flatMap pctChar)

def parseCoord (s : String) : Option Int := if s == "*" then none else s.toInt?

def parsePt : List String → RPt
  | [x, y] => ⟨parseCoord x, parseCoord y, none⟩
  | [x, y, e] => ⟨parseCoord x, parseCoord y, parseCoord e⟩
  | _ => default

def parseItem (s : String) : Item :=
  match s.splitOn "," with
  | "p" :: r => .pt (parsePt r)
  | ["v", n] => .via (unpct n) none
  | ["v", n, o] => .via (unpct n) (some (unpct o))
  | ["a", n, nx, ny, dx, dy] => .arr (unpct n) nx.toNat! ny.toNat! dx.toInt! dy.toInt!
  | _ => default

def parseWire (s : String) : Wire :=
  match s.splitOn ":" with
  | [l, w, its] =>
    match (its.splitOn ";").filter (· ≠ "") with
    | st :: rest =>
      { layer := unpct l, width := if w == "-" then none else some w.toNat!,
        start := match parseItem st with | .pt p => p | _ => default,
        rest := rest.map parseItem }
    | [] => default
  | _ => default

def parseNet (s : String) : Option (List Wire) :=
  if s == "~" then none else if s == "." then some []
  else some (((s.splitOn "|").filter (· ≠ "")).map parseWire)

def showCoord : Option Int → String
  | some v => toString v
  | none => "*"
def showRPt (p : RPt) : String :=
  match p.ext with
  | none => s!"{showCoord p.x},{showCoord p.y}"
  | some e => s!"{showCoord p.x},{showCoord p.y},{e}"
def showPt3 (p : Pt3) : String :=
  match p.ext with
  | none => s!"{p.x},{p.y}"
  | some e => s!"{p.x},{p.y},{e}"
def showWidth : Option Nat → String
  | some w => toString w
  | none => "-"
def showDict {α : Type} (f : α → String) (d : Dict α) : String :=
  if d.isEmpty then "." else
  "|".intercalate (d.map fun kv => s!"{pct kv.1}={"&".intercalate (kv.2.map f)}")
def showVia (v : ViaLoc) : String := s!"{v.1},{v.2.1},{pct v.2.2}"
def showList (l : List String) : String := if l.isEmpty then "." else ";".intercalate l

def handle (cmd : String) (args : List String) : Option String :=
  if cmd != "def" then none else
  match args with
  | ["wires", n] =>
    match parseNet n with
    | none => some "."      -- demanded: a net without routing lists nothing
    | some ws => some (showDict (fun e => s!"{showWidth e.1}@{";".intercalate (e.2.map showPt3)}") (netWires ws))
  | ["wiresasis", n] =>
    match netWiresAsIs (parseNet n) with
    | .error e => some s!"!{e}"
    | .ok d => some (showDict (fun e => s!"{showWidth e.1}@{";".intercalate (e.2.map showRPt)}") d)
  | ["wiresraw", n] =>
    match parseNet n with
    | none => some "."
    | some ws => some (showDict (fun e => s!"{showWidth e.1}@{";".intercalate (e.2.map showRPt)}") (netWiresRaw ws))
  | ["vias", n] =>
    match parseNet n with
    | none => some "."
    | some ws => some (showDict showVia (netViasD ws))
  | ["viasasis", n] =>
    match netViasAsIs (parseNet n) with
    | .error e => some s!"!{e}"
    | .ok d => some (showDict showVia d)
  | ["wpoints", w] => some (showList ((parseWire w).wirePointsRaw.map showRPt))
  | ["resolve", w] => some (showList ((parseWire w).wirePoints.map showPt3))
  | ["wvias", w] => some (showDict showVia (parseWire w).viasD)
  | _ => some "bad-def-op"

end KV.Drv.Def
